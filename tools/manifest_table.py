STATIC_NOTE = "Trusted base: go/packages + go/types + go/ssa (x/tools v0.29.0) represent the type-checked program faithfully; the rule tables in /verif/checker; engines' own transaction semantics. The check reads /repo's working tree on every run; nothing is executed."

claim("C04",
      "SSA typestate / all-paths search on allocated revisions; who-may-call",
      "Decides, for every path of every function, structural necessary conditions of 'every issued revision is resolved': an allocated revision is reported to the event sink or returned to a caller that reports it (incl. drift-back and storage-error paths), the sink stores every non-zero revision, the sequencer commits and clears every consumed slot, validity is err==nil of the committing call, and only four roles can move the counters. Behaviour under schedules (liveness, ring capacity) is not decided.",
      STATIC_NOTE, "DESIGN.md §3 C04")

claim("C08",
      "who-may-write + guard-dominance with path feasibility on the compaction record; guarded call-graph traversal",
      "Decides on all paths that (R1) every storage write to the compaction-record key is put-if-absent or a CAS of the value just read guarded by stored<=new, (R2) every call path from Scanner.Range/Count/RangeStream to an engine iterator passes the floor check with compact=false whose error returns first and checks the scanned revision, (R3) the snapshot timestamp is taken before the check, (R4) the check refuses exactly on stored>requested. These are necessary and, given atomic engine CAS (C11), close to sufficient for 'the floor only rises and reads below it are refused'.",
      STATIC_NOTE, "DESIGN.md §3 C08")

claim("C18",
      "guard-dominance over request entry points (IsLeader / SyncReadRevision facts), guard-helper summaries",
      "Decides for every handler of both APIs, the goroutines they start, the compaction loop and the HTTP publisher that write and watch entries of the backend are dominated by IsLeader()==true, read entries by SyncReadRevision()==nil, that the follower sync returns nil only after adopting a successfully fetched revision, and that publisher/fetch agree on the status protocol. Leadership changing between check and use is not decided.",
      STATIC_NOTE, "DESIGN.md §3 C18")

claim("C20",
      "whole-program metric name/kind/label-name table by constant and provenance resolution; frozen abort set; shares C04 path rules; guarded constant indexing",
      "Decides the clause named in the statement exactly: every Emit* site in the program resolves to constant names and label names, and each formatted metric name has one kind and one label-name set (the precondition under which the production Prometheus client cannot panic); plus explicit aborts against an accepted set, the revision-leak rules of C04 (wedge) and length-guarded indexing of request slices in the etcd layer. Implicit panics from value arithmetic (e.g. the event ring) are not decided.",
      STATIC_NOTE, "DESIGN.md §3 C20")

claim("C01",
      "batch-shape and key-provenance analysis on SSA (who-may-write the index record, same-key / same-revision batch, commit-once on all paths), guard dominance for CAS expectations",
      "Decides structural necessary conditions of lost-update freedom for every write batch in the program: the index record is written only conditionally; each version-writing batch pairs one conditional index op with the version Put for the same key and revision and is committed once on every path; the expected value of each CAS has an accepted provenance and guard (tombstone and revision-order guard of create, delete order guard); write entry points never delete. Linearizability under concurrency rests on engine atomicity (C11) and is not decided.",
      STATIC_NOTE, "DESIGN.md §3 C01")

claim("C02",
      "atomic-only field discipline of the TSO, revision provenance through parameters, who-may-call, header>=data proof forms on SSA",
      "Decides the premises of revision uniqueness/ordering (single atomic fetch-add, monotone guarded raise, atomic-only access), that every stored version carries an allocated revision, who may reset the counters, and for every backend response carrying a key-value that header >= data follows from an accepted proof form. The List-at-future-revision case violates the last rule and is recorded as a known finding. Real-time order of responses is not decided.",
      STATIC_NOTE, "DESIGN.md §3 C02")

claim("C05",
      "role resolution of the watch pipeline + dominance / all-paths search (subscribe-before-read, cache-before-broadcast, synchronous drop), taint of the resume revision, channel-send discipline",
      "Decides the ordering and hand-over facts every correct implementation of this watch design needs: registration before cache read and resume bound from the cache snapshot, cache insert before broadcast for valid slots only, synchronous removal of a slow subscriber, no other lossy hop, single producers, close propagation. Ring arithmetic, filters, payloads and delivery under all schedules are not decided.",
      STATIC_NOTE, "DESIGN.md §3 C05")

claim("C06",
      "coupling-point rules shared with C04/C05/C08/C09 plus header-before-snapshot dominance and derivation",
      "Decides the two coupling points of list-then-watch: events correspond to successful commits with the stored revision, and range-style reads take the committed revision before the scan with header and default bound deriving from that load only; plus queue-before-commit for unknown outcomes. The hyper-property itself (reconstruction for all histories) is not decided.",
      STATIC_NOTE, "DESIGN.md §3 C06")

claim("C09",
      "sequencer path ordering (queue before commit), sentinel-comparison discipline, clamp derivation, adapter error-classification table, client error mapping by dominance",
      "Decides that unknown-outcome slots are queued (errors.Is) before commit, the compaction clamp below the oldest queued revision, shape and reporting of the repair write, that the queue head survives a failed read, the TiKV adapter's classification of the engine commit error, and that clients get a nil error only after success or a definite failure. Convergence after faults on the repair write itself is not decided.",
      STATIC_NOTE, "DESIGN.md §3 C09")

claim("C11",
      "sibling cross-checking of the three storage adapters and the metrics wrapper: error-class table per conditional op, compare-before-write, Commit structure, lock hand-over, iterator bound checks, forwarding, partition clamp",
      "Decides structural facts every adapter must share: conditional ops report only nil / failed condition / engine errors and compare before they write; Commit is all-or-nothing by structure (one engine commit, none in a loop, op error returns first, discard on error; memkv holds its lock from BeginBatchWrite to Commit and every batch in the program is committed on all paths); every iterator key is checked against the end bound; the wrapper forwards once with parameters in order; Get returns the not-found sentinel itself; partitions are clamped. The behavioural contract over all operation sequences and the engines' own transactions are not decided.",
      STATIC_NOTE, "DESIGN.md §3 C11")

claim("C12",
      "C11 sibling tables + dispatch-completeness and feature-flag who-may-call rules",
      "Decides the points where engine differences can leak to clients: identical condition-failure classes across adapters, not-found identity, wrapper transparency, partition clamp, the backend dispatching only on error classes of the adapter table, and the TTL feature flag being consulted only by the scanner's expiry code. Equality of whole transcripts across engines is not decided.",
      STATIC_NOTE, "DESIGN.md §3 C12")

claim("C19",
      "static lockset (guarded-by) analysis: inferred guard table per mutex-owning type, lock contexts with dominance / deferred unlock / conditional locking / held-on-entry / lock hand-over, slice-window escape, container-element access, frozen confinement table for mutex-less types",
      "Decides for the repository's own shared state that every field written after construction is accessed with its guard held (exclusively for writes), that no window into a guarded array escapes its critical section, that skip-list / list elements are dereferenced only under the owner's lock, and that post-construction writes in mutex-less types are atomic or listed as confined with a reason. Absence of all races in all schedules (dependencies, byte slices, channel-based happens-before) is the race detector's job and is not decided.",
      STATIC_NOTE, "DESIGN.md §3 C19")

claim("C03",
      "who-may-delete over call sites, marker-variable provenance at every recognition / write site, taint of client values towards version Puts, shared C02/C07/C13 rules",
      "Decides the structural necessary conditions of snapshot reads: version records are written once with an allocated revision and deleted only by compaction code; writer and all readers agree on the one deletion-marker variable; a client value equal to the marker would have to be rejected (it is not: recorded finding); scan attempts start empty and partition borders stay contiguous. The scan algorithm itself (version selection, limit/more, order) is not decided.",
      STATIC_NOTE, "DESIGN.md §3 C03")

claim("C07",
      "guard-dominance per deletion role of the scan worker (compact flag, revision <= R, index-record tests, equal-key / marker tests), intra-iteration order, skip-discipline path search, clamp derivation",
      "Decides guard and discipline facts per deletion site of the compaction scan: sites run only when compacting, nothing above R is deleted, the index record only by compare-and-delete when tombstoned and <= R, a previous version only when superseded, the marker never before the version it hides, the skipped-key discipline on failures, the clamp of the compaction revision, and that every adapter's compare-and-delete compares. Which versions are removed for a given history and all fault positions are not decided.",
      STATIC_NOTE, "DESIGN.md §3 C07")

claim("C10",
      "layout agreement by linear forms in the key length read off encoder and decoder SSA (constant propagation through package-level layout variables), byte-order and length tables",
      "Decides that encoder and decoder agree on the four regions of an internal key (offsets as linear forms, substituted and compared), that the regions tile the buffer, that decoder length guards admit every encoded length, big-endian everywhere, separator <= '$', index key = version key at revision 0, and the 8/9-byte index-value table. Round-trip / ordering for all byte strings and PrefixEnd are value properties and are not decided.",
      STATIC_NOTE, "DESIGN.md §3 C10")

claim("C13",
      "receiver-configuration copy check, producer path rules (one terminator, deferred close), index-isolation and merge-order rules, border contiguity / realignment rules, reset discipline, partition clamp",
      "Decides the structure around the value-level border adjustment and merge: fork copies configuration, exactly one terminator with the scan's error and a deferred close, workers write only their own slot and merge happens in index order after Wait, batches name their revision, adjusted borders stay contiguous and every mid-version border is realigned to an index key, each scan attempt resets its receiver, engine partitions are clamped. Results for all partitionings are not decided.",
      STATIC_NOTE, "DESIGN.md §3 C13")

claim("C14",
      "who-may-write the election key, provenance of the CAS expectation through accessor helpers, who-may-call the observer, nil-return dominance, shared adapter rules",
      "Decides that the lock record is written only by put-if-absent / CAS, that the CAS expects exactly the last observed bytes, that those are refreshed only by the lock's Get (or with the bytes just created after a nil commit), that Create/Update report success only after a nil commit, and (C11) that engines evaluate conditions atomically with the write. Engine atomicity itself is assumed.",
      STATIC_NOTE, "DESIGN.md §3 C14")

claim("C15",
      "dominance in the leader-start callback, value provenance through Describe()/ParseUint, who-may-write the timestamp field, shared C02 counter rules",
      "Decides only the wiring without which the property fails on every engine: the callback seeds the revision from the lock's description before raising the leader flag and before the started-leading hook; the description prints the engine timestamp, which is fed only by GetTimestampOracle after successful lock writes; Commit raises the dealt counter monotonically; nobody else resets the counters. Whether the engine clock exceeds all issued revisions is a run-time relation and is not decided.",
      STATIC_NOTE, "DESIGN.md §3 C15")

claim("C16",
      "closed-dispatch dominance in the Txn handler, recogniser completeness by path facts over message access paths (union-find of equated keys, helper summaries), response-shape checks on composite literals, reachability for unsupported RPCs, fresh-read provenance of failure answers",
      "Decides the classification layer: every backend call of the Txn handler is guarded by exactly one pure recogniser and unrecognised shapes are rejected; each recogniser equates all accepted keys, tests RangeEnds empty and the compare's target/result; the shim builds one response op of the prescribed kind per shape; unsupported RPCs reach no write; failure answers carry the re-read key-value. Agreement of contents with an etcd model for all histories is not decided.",
      STATIC_NOTE, "DESIGN.md §3 C16")

claim("C17",
      "predicate-shape and provenance check at both classification sites (anchored HasPrefix on a prefix from one shared constructor ending in '/'), guard dominance for age and primitive, call-graph non-reachability",
      "Decides that both the create path and the expiry scan classify Event keys by an anchored prefix test derived from the configured prefix through one constructor whose result ends with '/', that expiry deletes are guarded by revision <= timeout revision produced only from marks older than the TTL, that the index goes by compare-and-delete, that the scanner never emits events, and the native-TTL switch. Wall-clock ageing and native-TTL engines are not decided.",
      STATIC_NOTE, "DESIGN.md §3 C17")

# ---- additions after the seeded rounds (DESIGN.md §7.5): appended to technique / text of the claims above ----
EXTRA = {
 "C01": ("; imported engine / wrapper rules", " Also imported: engines evaluate conditions atomically with the write and the metrics wrapper forwards conditional operations unchanged (C11-R1/R2/R5)."),
 "C02": ("; imported hand-over and clamp rules", " Also: a new leader seeds its counters before admitting writes (C15-R1), the compaction revision never exceeds the committed revision (C09-R2), and the List scan bound and header come from the same read."),
 "C03": ("", " Also imported: partition borders contiguous, retried attempts start empty, a failed partition fails the read (C13-R5/R6/R8)."),
 "C04": ("; self-deadlock check", " Also: merged sink reports (phi of two writers), and no lock is re-acquired by the goroutine that holds it (C19-R5)."),
 "C05": ("; aliasing rules for shared / handed-over batches", " Also: received event batches are read-only (R8) and a slice handed over a channel is never written again by the sender (R9)."),
 "C06": ("", " Also imported: the listed state is the complete snapshot (C13-R5/R6/R8) and handed-over batches are not overwritten (C05-R9)."),
 "C07": ("; user-key provenance of the failed-delete discipline", " Also: the key given to the skipped-key discipline is the record's decoded user key (also on expiry chains), the metrics wrapper forwards deletes and their errors (C11-R5), the compaction scan covers every record (C13-R5)."),
 "C09": ("; error preservation on the write path; queue discipline", " Also: on the write path the error of a committing call is never replaced unless classified (R6), the repair queue's push/pop keep the FIFO intact (R7), the head entry survives a failed repair write (R3), and the client's compaction revision is clamped on every path (R2)."),
 "C11": ("; written-value, snapshot-timestamp and oracle provenance", " Also: the value handed to the engine is the operation's new value, staged operations never commit or replace the engine transaction, an iterator reads at the caller's or the oracle's timestamp, the wrapper returns the wrapped call's error, the empty engine end border is guarded, the TiKV oracle is the fresh PD timestamp, memkv iterators hand out copies."),
 "C12": ("", " Also imported: batch begin/commit discipline (C11-R2) and independence from the engine's partitioning (C13-R5)."),
 "C13": ("; error preservation on the scan path", " Also: no error of the iterator, a worker or the retry loop is lost (R8); end borders are written back and adjusted before they are propagated (R5); the receiver's read revision is set only at construction / fork (R4)."),
 "C15": ("; oracle error preservation", " Also: a failed oracle read fails the lock operation (R5) and the TiKV oracle is the fresh PD timestamp (R6)."),
 "C16": ("", " Also: the failure-branch re-read names no revision, the Range answer is the complete snapshot (C13-R5/R6/R8), handed-over batches are not overwritten (C05-R9)."),
 "C17": ("; TTL operand provenance", " Also: every TTL operand reaching an engine batch is 0 or the classified create's TTL, expiry deletes follow the failed-delete discipline with the user key (C07-R4), and the scanner reaches the event pipeline through no call chain."),
 "C19": ("; escape-based confinement; fork/join confinement; verified singleflight confinement; self-deadlock", " Also: objects that never escape their goroutine need no table entry, fork/join task objects (writes by goroutines that defer Done, other accesses only after Wait) are proved, the singleflight confinement of the syncer's scheme field is verified, and no mutex is re-acquired while held (R5)."),
 "C20": ("; explicit aborts by reachability from request entry points; request-sized allocations; label-value sanitising", " Also: explicit aborts are judged by reachability from request entry points and role (no name table), diverging tag lists kept in fields are violations, no allocation is sized by an unbounded request integer (R5), label values reach prometheus only sanitised (R6), no self-deadlock (R7)."),
}
for _pid, (_t, _x) in EXTRA.items():
    if _pid in CLAIMED:
        CLAIMED[_pid]["technique"] += _t
        CLAIMED[_pid]["text"] += _x

# ---- additions after seeded round 4 ----
EXTRA4 = {
 "C01": " Round 4: the index value carries the deletion flag exactly when the version record is the deletion marker, also in the repair write (R7).",
 "C02": " Round 4: the index CAS guards count only with engines that evaluate them atomically (C01-R6 imported into R5); the compaction reads the committed revision before the repair queue's minimum.",
 "C03": " Round 4: the internal keys a read is addressed with are well-formed - layouts agree and the encoder returns a fresh array (C10-R1, imported as R6).",
 "C05": " Round 4: a forwarder start that is conditional on requested-vs-committed uses the strict form (R10); a delete hands the previous value it read to the sink on every path after the commit (R11).",
 "C06": " Round 4: the compaction reads the committed revision before the repair queue's minimum (C09-R2, imported into R3).",
 "C07": " Round 4: read order in Compact (C09-R2, imported into R5).",
 "C08": " Round 4: the floor check never answers nil on the read path before it has read the stored floor (R4).",
 "C09": " Round 4: Compact reads the committed revision before MinRevision() on every path (R2), the reader side of enqueue-before-commit.",
 "C10": " Round 4: encoders written as append chains are read as well, and an encoder that appends onto a package-level slice is reported (R1).",
 "C11": " Round 4: success of an operation's closure only after an engine write (R1), Del never reports a storage sentinel (R9), an adapter with native TTL uses the ttl in every write form (R10).",
 "C12": " Round 4: bytes handed to an engine write are not a window into a long-lived buffer (R5); C11-R9 imported into R0.",
 "C13": " Round 4: border contiguity also for the element-copy form (for i, p := range ps .. append(ret, p)); the parallel scan driver is a region (go + WaitGroup.Wait through helpers).",
 "C14": " Round 4: repository code calls none of the lock's Get/Create/Update (R6); the record bytes handed to the engine are not a reusable buffer (R7).",
 "C15": " Round 4: when nothing IsLeader() reads is written by the leader-start callback, leadership comes from another source and can precede SetCurrentRevision: reported as a violation of R1.",
 "C16": " Round 4: the backend conditions behind the transaction shapes and the wrapper's transparency for engine errors (C01-R3/R4/R7, C11-R5) are imported as R8.",
 "C17": " Round 4: an engine with native TTL uses the ttl in every write form (C11-R10 as R8); the wrapper forwards the compare-and-delete as one (C11-R5 into R7).",
 "C20": " Round 4: every position into a ring buffer's backing array is a result of its wrap function (R8).",
}
for _pid, _x in EXTRA4.items():
    if _pid in CLAIMED:
        CLAIMED[_pid]["text"] += _x

# ---- additions after seeded round 5 ----
EXTRA5 = {
 "C01": " Round 5: the in-process engine's reads leave the records alone (C11-R3) and conditions are read inside the batch's transaction (C11-R1), both imported into R6.",
 "C02": " Round 5: a failed oracle read fails the lock operation (C15-R5 imported into R6).",
 "C03": " Round 5: every reader is configured with the deletion marker (each store into a marker field is the marker, each literal of the owning struct sets it, R2); compaction's failed-delete and ordering discipline (C07-R3/R4) imported into R1; adapter iterators hand engine errors on (C11-R11 via C13-R8).",
 "C04": " Round 5: what a summarised allocator returns in its revision position is an allocated revision or 0 (R1 converse).",
 "C06": " Round 5: a key vanishes from reads only with a DELETE event: C07-R3/R4 and C17-R1/R2 imported as R6.",
 "C07": " Round 5: adapters report a failed delete / commit as failed (C11-R11 into R6); the expiry bound is the revision of a compaction mark whose age was tested (C17-R2 into R8).",
 "C09": " Round 5: engine read errors in pkg/backend are never answered as 'key not found' (R8).",
 "C10": " Round 5: constant revisions in internal keys are 0 or the maximal uint64 (R6); records are attributed by decoded user key (C07-R3 into R5).",
 "C11": " Round 5: adapter error preservation for every engine call of badger / tikv (R11, one named exception), no store-level call inside a staged operation (R1), the in-process engine's read path removes only its own seek marker (R3).",
 "C13": " Round 5: the header of a streamed batch is the stream's revision, traced to the RangeStream parameter (R4); adapter iterator errors (C11-R11 into R8).",
 "C14": " Round 5: conditions of the lock's writes are evaluated inside the batch's engine transaction (C11-R1 via R5).",
 "C15": " Round 5: every success return of the helper that parses Describe() returns a parsed version (R1).",
 "C16": " Round 5: limited and unlimited range agree on deleted keys: every worker configuration carries the deletion marker (C03-R2 into R6).",
 "C17": " Round 5: the timeout revision belongs to a compaction mark whose own age was tested (R2); all of C07-R4 imported into R6.",
 "C18": " Round 5: the revision is sampled under established leadership, and the fetched revision never passes through a floating-point value (R5).",
 "C19": " Round 5: no append onto a slice of a shared object unless the result is stored back (R7); function literals handed to asynchronous library functions (time.AfterFunc) are analysed with no lock held.",
 "C20": " Round 5: the accepted abort's invariant is checked (every StreamRangeResponse literal sets RangeResponse and Header, R2); batches begun and not committed wedge the in-process engine (C11-R2 into R7).",
}
for _pid, _x in EXTRA5.items():
    if _pid in CLAIMED:
        CLAIMED[_pid]["text"] += _x

EXTRA6 = {
 "C01": " Round 6: the index record is removed from under an iterator only by compare-and-delete (C07-R2/R3, C17-R3 imported into R1); the records conditions are evaluated on carry no engine TTL except the classified Event create (C17-R5 as R8).",
 "C02": " Round 6: C01-R1 (the index record is never removed or replaced behind a conditional write) imported into R5.",
 "C03": " Round 6: a retried scan attempt reads the snapshot the read was admitted on (C08-R2/R3 into R4); the TiKV region listing is not truncated (C13-R5).",
 "C05": " Round 6: one party per end of a watch's channels (R12): the hub never receives from a subscriber channel, Watch starts one consumer, and nothing sends on the result channel once the forwarder runs.",
 "C06": " Round 6: replayed and live events reach the client through one sender at a time (C05-R12 as R7).",
 "C07": " Round 6: compaction ranges (R9): two borders per prefix from the same key, sorted after the last append, consumed pairwise.",
 "C08": " Round 6: the worker's snapshot timestamp is assigned only where the floor is checked (R3); the compaction record carries no engine TTL (C17-R5 as R6).",
 "C11": " Round 6: the in-process engine's conditions see the batch's own staged operations (R12) and it never writes a stored value in place (R13).",
 "C12": " Round 6: C11-R12/R13 added to the sibling table (R0); the scan-based expiry deletes under an age guard on the record's own revision (C17-R2/R3 as R6); advertised partition borders (C13-R9 into R4).",
 "C13": " Round 6: channel form of the scan's join recognised, an early exit of the collecting loop is a violation (R3); the merged list is filled by partition index (R3); region listing not truncated (R5); engine borders are advertised only realigned, as first start / last end, or when not a version key (R9; found and fixed cde5c92).",
 "C14": " Round 6: the lock record carries no engine TTL (C17-R5 as R8); observed bytes are not rewritten in place by the in-process engine (C11-R13 as R9).",
 "C15": " Round 6: Describe() formats the timestamp field on every path, never a constant merged in (R2).",
 "C16": " Round 6: partition results are merged in partition order (C13-R3 into R6).",
 "C17": " Round 6: the age guard's operand is not pinned to a constant by an enclosing branch (R2).",
 "C18": " Round 6: the request and decode errors of the leader fetch are returned (R6; found and fixed f4216ff).",
 "C20": " Round 6: a collector is registered only on the miss edge of a registry lookup made under the write lock (R9); boolean helpers are expanded in the length-test rule (R4).",
}
for _pid, _x in EXTRA6.items():
    if _pid in CLAIMED:
        CLAIMED[_pid]["text"] += _x

EXTRA7 = {
 "C01": " Round 7: 'failed condition' is an error class of its own - no package-level error variable wraps another (R9).",
 "C02": " Round 7: the sequencer commits the revision of the slot it consumed (C04-R3 into R3); the etcd translation hands the backend's header on (C16-R9) and a scan returns each value with the revision of that version (C03-R8), both under R4.",
 "C03": " Round 7: a returned key-value is one stored record (R8); the revision an answer names is the one its data was read at (R7 <- C16-R9, C06-R2); every partition is scanned by one worker with its own configuration (C13-R3 into R4).",
 "C04": " Round 7: no request leaves a lock of the pipeline held behind (lock pairing, C19-R5 into R6).",
 "C05": " Round 7: the forwarder filters every batch with the revision it was started with (R13).",
 "C06": " Round 7: the live stream resumes exactly after the replayed events (C05-R1 into R7); C13-R3 into R4.",
 "C07": " Round 7: write paths recognise 'the record is gone' on the error of the step that reported it (R10 <- C09-R9).",
 "C09": " Round 7: no classification test looks at an error already classified otherwise by an enclosing branch; error classes are disjoint (R9).",
 "C10": " Round 7: range bounds built by the range-style entry points are index keys (R7).",
 "C11": " Round 7: Commit of the in-process engine applies every staged operation (R14); its ttl timer is a compare-and-delete (R15; found and fixed b46edb1); adapters report a done context as an error (R11); nothing but the ttl operand decides an entry's expiry (R10).",
 "C12": " Round 7: the snapshot timestamp handed to an engine iterator is 0 or a value of the oracle, never a revision (R7); C11-R14 added to R0.",
 "C13": " Round 7: no variable captured by the scan workers is written once a worker may run (R3); a streamed batch is not refilled after it was sent (R10 <- C05-R9).",
 "C15": " Round 7: the in-process engine's oracle is the wall clock (R7); C04-R3 reaches R4 through C02-R3.",
 "C16": " Round 7: shim headers carry the backend's header revision, List's header and read revision come from one load (R9); a key-value of the failure branch needs the re-read's error found nil (R5).",
 "C17": " Round 7: index record and version record of one write carry the same TTL (R9); C11-R15 into R8.",
 "C18": " Round 7: one holder of the lock (C14-R2/R3/R6 as R7); R5 made exact after fix f4216ff neutralised four seeds (an undecodable constant body is accepted on the non-leader branch).",
 "C19": " Round 7: lock pairing - every acquisition is released on every return (R5); accesses to an object allocated in the same function are exempt only until it has been handed to a goroutine (R1).",
 "C20": " Round 7: no nil element in a repeated message field of an answer (R10); lock pairing into R7.",
}
for _pid, _x in EXTRA7.items():
    if _pid in CLAIMED:
        CLAIMED[_pid]["text"] += _x

EXTRA8 = {
 "C02": " Round 8: TSO.Init has no caller on a running node (R3); a translated event's ModRevision is the event's own revision (R4 <- C16-R9); both counters of the oracle are raised by a retried, guarded compare-and-swap (R1; the allocator raise found and fixed 3a563ae); the leader lock discipline C14-R1/R2 as R6.",
 "C03": " Round 8: scan iterators are created without a record limit and their end is recognised by identity with io.EOF (R9).",
 "C04": " Round 8: TSO.Init has no caller on a running node (R5).",
 "C05": " Round 8: the batch form of the cache insert obeys the same order as the single insert (R2); only the leader streams (C18-R2 as R14).",
 "C06": " Round 8: compaction keeps the version visible at the compaction revision (C07-R2 as R6).",
 "C08": " Round 8: the point read is reachable only for a request without range end (R2); an error of the compaction record write is returned whatever its class (R7).",
 "C10": " Round 8: the advertised list always ends with the end of the last partition (R5 <- C13-R9).",
 "C12": " Round 8: C13-R9's last-end clause into R4.",
 "C13": " Round 8: the stream is handed out only with its producer started (R2); every path from the partition listing to a worker passes the realignment and the workers index its result (R5); the end of the last partition cannot be skipped (R9).",
 "C15": " Round 8: every return of the lock's Create / Update after the committed write is preceded by an oracle read on that path (R2).",
 "C16": " Round 8: event ModRevision (R9); a watch from the committed revision on an empty cache (C05-R1/R10 as R10).",
 "C18": " Round 8: the committed counter is raised by a retried compare-and-swap (C02-R1 as R8).",
 "C19": " Round 8: no acquisition of a lock the goroutine already holds, read locks included (R5); WaitGroup.Add precedes the go statement (R8); the key of a singleflight whose function writes shared state is constant (R4).",
 "C20": " Round 8: metric names built from constructor-filled struct fields are enumerated and validated (R1); recursive read lock (R7 <- C19-R5).",
}
for _pid, _x in EXTRA8.items():
    if _pid in CLAIMED:
        CLAIMED[_pid]["text"] += _x

EXTRA9 = {
 "C01": " Round 9: the index parser tells deleted from live by the record's length, as the writers encode it (R10); an update lands above the revision it names - the allocator's drift-back error is not dropped on the way to a commit (R11 <- C02-R7).",
 "C02": " Round 9: a version record is committed with an allocated revision only where that allocation's error was found nil (R7).",
 "C03": " Round 9: Count agrees with Range - the worker counts exactly where it appends (R10); no record of a key's history expires on its own except the classified Event create (R11 <- C17-R5).",
 "C05": " Round 9: no dead error guard - the test that stops a stream after a failed send can fire (R15); the event cache is addressed at logical positions (R16), and no position is computed from a revision (R17).",
 "C06": " Round 9: replay finds the cached events at their logical positions (C05-R16 into R7).",
 "C07": " Round 9: every compaction prefix is made a directory under exactly the suffix test (R9); 'the compare failed' means a failed compare on every engine (C09-R4, C11-R1 into R6).",
 "C08": " Round 9: a compaction request is answered after its record was written - no go statement between a request entry point and Backend.Compact (R8); the answer names the revision the record was raised to (R9).",
 "C09": " Round 9: the repair queue has one consumer (R10); the repair decides presence by the getter's error, not by the length of the value (R11; found and fixed 9da52a0); handlers do not crash on the error path of a write (R12 <- C20-R11).",
 "C10": " Round 9: a realigned border is the index key of the key it was decoded to, and every inner border reaches the decoder (R5 <- C13-R9, C13-R5).",
 "C11": " Round 9: iterator bound tests tabulated over the outcomes of bytes.Compare and the direction flag (R16); the TiKV backward seek key is start followed by a zero byte (R17); memkv decides absence by nil, not by length (R18); no engine write after a not-found read in CAS / DelCurrent (R1).",
 "C12": " Round 9: the in-process engine's expiry timers each see their own record (R8 <- C19-R10); commit-error classification of the TiKV adapter and C11-R16/R18 into R0.",
 "C13": " Round 9: an outcome kept by sync.Once is a failure (R8); C13-R5 / R9 clauses listed under C10.",
 "C14": " Round 9: a conditional operation does not take a failed read for an absent key (C11-R11 into R5).",
 "C16": " Round 9: the failed-condition answer carries no key-value only where the re-read reported not-found (R5).",
 "C17": " Round 9: a compaction mark (revision, time) is immutable (R10); expiry timers do not share a loop variable (C19-R10 into R8).",
 "C18": " Round 9: the stop callback clears the leader flag, non-deferred, before it ends the process (R9).",
 "C19": " Round 9: package-level variables written after initialisation are atomic, under a package-level lock or behind a sync.Once (R9); no function literal that runs later captures a per-loop variable (R10).",
 "C20": " Round 9: no check-then-use contradiction on pointers in the request layers (R11).",
}
for _pid, _x in EXTRA9.items():
    if _pid in CLAIMED:
        CLAIMED[_pid]["text"] += _x

EXTRA10 = {
 "C01": " Round 10: a condition is reported failed only by the compare - the native write handlers answer with the backend's response (R12).",
 "C03": " Round 10: in a reading scan every record that passed the revision filter becomes the worker's previous record (R12).",
 "C05": " Round 10: events are compared by their own revision (R18); an answer of the event cache is one snapshot (R19).",
 "C06": " Round 10: compaction runs only where the repair queue is (C18-R1 into R3); C05-R4, R17..R19 into R7.",
 "C07": " Round 10: the failed-delete marker, compared with user keys, is a user key (R11).",
 "C09": " Round 10: formatting an error into a new one without wrapping loses its class (error-flow analysis, R6/R8).",
 "C10": " Round 10: compaction borders are sorted as encoded keys (C07-R9 into R5).",
 "C11": " Round 10: conditions are read with Get on the batch's own transaction (R1); the in-process engine never stores nil for an empty value (R18).",
 "C12": " Round 10: C17-R10/R11 (the emulated TTL clock) into R6.",
 "C13": " Round 10: a scan that stops on ctx.Done() stops with an error (R8).",
 "C14": " Round 10: C11-R1's own-transaction read into R5.",
 "C15": " Round 10: the start version is parsed from a Describe() made in the same call (R1); adapters report a failed oracle read (C11-R11 into R5).",
 "C16": " Round 10: events rebuilt from events keep all fields (R11); C05-R18 into R10.",
 "C17": " Round 10: logged compaction marks are never exchanged (R10); the age test is not rounded (R11).",
 "C19": " Round 10: no struct with a lock by value (R11); the fresh-object exemption ends at publication through atomic.Value or a channel (R4).",
 "C20": " Round 10: channels are closed once (R12); counter values are never derived from a subtraction (R13).",
}
for _pid, _x in EXTRA10.items():
    if _pid in CLAIMED:
        CLAIMED[_pid]["text"] += _x

EXTRA11 = {
 "C01": " Round 11: no handler rewrites the Succeeded verdict of a backend write (R13).",
 "C02": " Round 11: TSO.Commit looks at the allocator on every path (R8).",
 "C03": " Round 11: a count kept in a field of the worker is reset per attempt (R10); the TiKV snapshot stays at snapshot isolation (C11-R19 as R13).",
 "C04": " Round 11: one report per allocated revision (R12); no lost wake-up on an unbuffered channel (R13).",
 "C05": " Round 11: the Created acknowledgement precedes the watch goroutine (R20); the live subscription continues exactly behind the replay (R21).",
 "C06": " Round 11: the committed revision replaces a requested one only when that is 0 (R8); C04-R12 into R1.",
 "C11": " Round 11: no isolation level below snapshot isolation (R19); the in-process Commit is all-or-nothing (R20); a validation pass is not the apply loop (R14).",
 "C12": " Round 11: C11-R19/R20 into R0.",
 "C13": " Round 11: the less function of a sort indexes the slice that is sorted (R11).",
 "C16": " Round 11: write paths read the latest state of the key (R12); C05-R21 into R10; client range bounds are not built with the record encoder (R13: six call sites are a known finding, the continuation key of a paginated list returns the last key again).",
 "C17": " Round 11: the failed-delete marker is not cleared inside the scan loop (R12).",
 "C20": " Round 11: no lock is held across a wait loop (R14).",
}
for _pid, _x in EXTRA11.items():
    if _pid in CLAIMED:
        CLAIMED[_pid]["text"] += _x
