STATIC_NOTE = "Trusted base: go/packages + go/types + go/ssa (x/tools v0.29.0) represent the type-checked program faithfully; the rule tables in /verif/checker; engines' own transaction semantics. The check reads /repo's working tree on every run; nothing is executed."

claim("C04",
      "SSA typestate / all-paths search on allocated revisions; who-may-call",
      "Decides, for every path of every function, structural necessary conditions of 'every issued revision is resolved': an allocated revision is reported to the event sink or returned to a caller that reports it (incl. drift-back and storage-error paths), the sink stores every non-zero revision, the sequencer commits and clears every consumed slot, validity is err==nil of the committing call, and only four roles can move the counters. Behaviour under schedules (liveness, ring capacity) is not decided.",
      STATIC_NOTE, "DESIGN.md §3 C04")

for pid in ["C01","C02","C03","C05","C06","C07","C08","C09","C10","C11","C12","C13","C14","C15","C16","C17","C18","C19","C20"]:
    na(pid, "static rules designed in DESIGN.md §3 but the check is not built yet; not claimed until it is")
