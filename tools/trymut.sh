#!/bin/bash
# usage: trymut.sh <patch.diff> <props> [-R]   -- dev helper: run kbcheck against a scratch copy of /repo with a patch applied
set -u
patch=$(readlink -f "$1"); props=$2; rev=${3:-}
export GOFLAGS=-mod=mod GOPROXY=off GOSUMDB=off GOTOOLCHAIN=local
d=$(mktemp -d /tmp/kbmut.XXXXXX)
trap 'rm -rf "$d"' EXIT
rsync -a --exclude .git /repo/ "$d/repo/"
mkdir -p "$d/verif"; cp /verif/known_findings.json "$d/verif/" 2>/dev/null
( cd "$d/repo" && patch -p1 $rev --no-backup-if-mismatch -s < "$patch" ) || { echo "PATCH FAILED"; exit 3; }
( cd "$d/repo" && go build ./... ) || { echo "BUILD FAILED"; exit 3; }
${KBCHECK:-/verif/bin/kbcheck} -prop "$props" -tier quick -repo "$d/repo" -verif "$d/verif" | grep -v "^  rule\|^  control" | sed "s#$d/##g"
echo "exit=${PIPESTATUS[0]}"
