#!/usr/bin/env python3
"""Regenerates the seed table of DESIGN.md §7.5 (between the table header and the next blank line) from seeded/*/meta.json."""
import json, glob, os, re
rows = []
for d in sorted(glob.glob('/verif/seeded/*/meta.json'), key=lambda x: (os.path.basename(os.path.dirname(x)).split('-')[0], int(os.path.basename(os.path.dirname(x)).split('-m')[1]))):
    m = json.load(open(d))
    tgt = sorted({x['rule'] for x in m['detected_by'] if x['property'] == m['property']})
    oth = sorted({x['rule'] for x in m['detected_by'] if x['property'] != m['property']})
    what = m['breaks'].replace('|', '/')
    if len(what) > 140:
        what = what[:140]
    rows.append('| %s | %s | %s | %s |' % (m['id'], what, ', '.join(tgt) or '—', ', '.join(oth) or '—'))
s = open('/verif/DESIGN.md').read()
hdr = '| seed | change (abridged) | reported by the target property | also reported by |\n|---|---|---|---|\n'
i = s.index(hdr) + len(hdr)
j = s.index('\n\n', i)
s = s[:i] + '\n'.join(rows) + s[j:]
open('/verif/DESIGN.md', 'w').write(s)
print(len(rows), 'rows')
