#!/usr/bin/env python3
"""Which rule ids are known to fire? Rule ids are read from evidence/*.json (what the checks declare on the current
tree); a rule is 'exercised' if a seeded change (seeded/*/detection.txt), an author-written control
(controls/RESULTS.md: DETECTED) or a known finding (known_findings.json) makes it report. Prints the rules nothing
exercises."""
import json, glob, re, os
rules=set()
for f in glob.glob('/verif/evidence/*.json'):
    d=json.load(open(f))
    for r in re.findall(r'"(C\d\d-R\d+)"', json.dumps(d)):
        rules.add(r)
fired=set()
for f in glob.glob('/verif/seeded/*/detection.txt'):
    for ln in open(f):
        m=re.match(r'(C\d\d-R\d+)\t', ln)
        if m: fired.add(m.group(1))
if os.path.exists('/verif/controls/RESULTS.md'):
    for ln in open('/verif/controls/RESULTS.md'):
        c=[x.strip() for x in ln.split('|')]
        if len(c)>4 and c[3]=='DETECTED': fired.add(c[2])
for k in json.load(open('/verif/known_findings.json')).get('findings',[]):
    fired.add(k['rule'])
missing=sorted(rules-fired)
print("rule ids declared:",len(rules),"exercised:",len(rules&fired),"not exercised:",len(missing))
for r in missing: print("  ",r)
