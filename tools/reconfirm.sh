#!/bin/bash
# usage: reconfirm.sh [seed ids...]  -- after a fix: commit in /repo: does every stored seed still apply, build, and
# make its demonstration fail (and does the demonstration still pass without it)? One scratch worktree, no full suite.
set -u
export GOFLAGS=-mod=mod GOPROXY=off GOSUMDB=off GOTOOLCHAIN=local
ids=${@:-$(ls /verif/seeded)}
wt=$(mktemp -d /tmp/kbreconf.XXXXXX)
trap 'git -C /repo worktree remove --force "$wt" >/dev/null 2>&1; rm -rf "$wt"' EXIT
git -C /repo worktree add -q --detach "$wt" HEAD || exit 3
for id in $ids; do
  sd=/verif/seeded/$id
  [ -f $sd/patch.diff ] || continue
  demo=$(ls $sd | grep -E '\.go$' | head -1); dir=$(cat $sd/.demo_dir 2>/dev/null)
  [ -n "$demo" ] && [ -d "$wt/$dir" ] || { echo "$id NO-DEMO"; continue; }
  flags=""; case $id in C19-*) flags="-race";; esac
  tests=$(grep -oE 'func (Test[A-Za-z0-9_]+)' "$sd/$demo" | awk '{print $2}' | paste -sd'|')
  cp "$sd/$demo" "$wt/$dir/zz_seed_demo_test.go"
  r0=$(cd $wt && go test $flags -vet=off -count=1 -run "$tests" ./$dir/ 2>&1 | grep -a -cE '^ok')
  if ! git -C $wt apply "$sd/patch.diff" 2>/dev/null; then echo "$id PATCH-FAILED"; rm -f "$wt/$dir/zz_seed_demo_test.go"; git -C $wt checkout -q -- .; continue; fi
  if ! (cd $wt && go build ./... 2>/dev/null); then echo "$id BUILD-FAILED"; else
    r1=$(cd $wt && go test $flags -vet=off -count=1 -run "$tests" ./$dir/ 2>&1 | grep -a -cE '^(FAIL|--- FAIL|panic)')
    if [ "$r0" -ge 1 ] && [ "$r1" -ge 1 ]; then echo "$id OK"; else echo "$id NOT-CONFIRMED clean_ok=$r0 mutant_fail=$r1"; fi
  fi
  rm -f "$wt/$dir/zz_seed_demo_test.go"; git -C $wt checkout -q -- . ; git -C $wt clean -fdq
done
