#!/usr/bin/env python3
"""Regenerates /verif/MANIFEST.json from the table below (kept valid against /root/.vp/MANIFEST.schema.json)."""
import json, os, sys

ENV = "GOFLAGS=-mod=mod GOPROXY=off GOSUMDB=off GOTOOLCHAIN=local GOWORK=off"
SETUP = "cd /verif/checker && %s go build -o /verif/bin/kbcheck . && /verif/bin/kbcheck -h 2>&1 | head -1 >/dev/null; test -x /verif/bin/kbcheck" % ENV

# property id -> (technique, level text, level note, design ref)
CLAIMED = {}
NA = {}

def claim(pid, technique, text, note, ref):
    CLAIMED[pid] = dict(technique=technique, text=text, note=note, ref=ref)

def na(pid, reason):
    NA[pid] = reason

exec(open(os.path.join(os.path.dirname(__file__), "manifest_table.py")).read())

checks = []
for pid in sorted(CLAIMED):
    c = CLAIMED[pid]
    checks.append({
        "property_id": pid,
        "quick_cmd": "%s /verif/bin/kbcheck -prop %s -tier quick" % (ENV, pid),
        "thorough_cmd": "%s /verif/bin/kbcheck -prop %s -tier thorough" % (ENV, pid),
        "evidence_file": "/verif/evidence/%s.json" % pid,
        "replay_cmd_template": "cat {path}",
        "engine": "kbcheck",
        "level_claimed": {"category": "other", "text": c["text"], "design_ref": c["ref"]},
        "level_note": c["note"],
        "technique": c["technique"],
    })

m = {
    "version": 1,
    "setup_cmd": SETUP,
    "hooks": {
        "guard": "verif",
        "enable": "none needed: static analysis reads the source of /repo's working tree; no hook or instrumentation commit exists",
        "baseline_off_cmd": "cd /repo && GOFLAGS=-mod=mod GOPROXY=off GOSUMDB=off go test -vet=off -count=1 -timeout 25m ./...",
        "source_commits": [],
        "add_only": True,
    },
    "engines": [{
        "name": "kbcheck",
        "path": "/verif/checker",
        "serves_properties": sorted(CLAIMED),
        "kind_free_text": "repository-specific static analyser (go/packages + go/types + go/ssa, x/tools v0.29.0): role resolution by types, dominance / path-search / provenance rules per property, obligations keyed by rule+construct, known-findings file, seeded-mutant replay in the thorough tier",
    }],
    "checks": checks,
    "not_applicable": [{"property_id": k, "reason": NA[k]} for k in sorted(NA)],
    "notes": "All claims are at level 'other': each check decides named structural necessary conditions of its property on the SSA of /repo's current working tree and says in its evidence what it does not decide. Exit 0 = all obligations discharged (KNOWN-FINDING lines for listed findings), 1 = VIOLATION, 2 = BROKEN (checker could not resolve a role / undecided / vacuity guard).",
}
json.dump(m, open("/verif/MANIFEST.json", "w"), indent=1)
print("claimed:", sorted(CLAIMED), "n/a:", sorted(NA))
