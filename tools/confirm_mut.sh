#!/bin/bash
# usage: confirm_mut.sh <src dir with patch.diff + demo + notes.md> <property> <seed id>
# Independently confirms a seeded change in a fresh scratch worktree of /repo and, if confirmed, stores it under /verif/seeded/<seed id>/.
set -u
src=$(readlink -f "$1"); prop=$2; sid=$3
export GOFLAGS=-mod=mod GOPROXY=off GOSUMDB=off GOTOOLCHAIN=local
wt=$(mktemp -d /tmp/kbconf.XXXXXX)
log=$wt.log
cleanup() { git -C /repo worktree remove --force "$wt" >/dev/null 2>&1; rm -rf "$wt"; }
trap cleanup EXIT
git -C /repo worktree add -q --detach "$wt" HEAD || exit 3
cd "$wt"
demo=$(ls "$src" | grep -E '_test\.go$|\.go$' | head -1)
# where does the demo go? header comment names the package directory; fall back to grep of "package"
dir=$(grep -oE 'pkg/[A-Za-z0-9_/]+' "$src/$demo" | head -1)
[ -d "$wt/$dir" ] || { echo "cannot place demo ($dir)"; exit 3; }
dir=${dir%/}
run_demo() { ( cd "$wt" && go test ${GOTESTFLAGS:-} -vet=off -count=1 -run "$(grep -oE 'func (Test[A-Za-z0-9_]+)' "$src/$demo" | awk '{print $2}' | paste -sd'|')" ./$dir/ 2>&1 | grep -a -E "^(ok|FAIL|---|panic)" | head -8 ); }
cp "$src/$demo" "$wt/$dir/zz_seed_demo_test.go"
echo "## demo on unmodified tree"; r0=$(run_demo); echo "$r0"
git apply "$src/patch.diff" || { echo "patch does not apply"; exit 3; }
echo "## build"; go build ./... || { echo BUILD-FAILED; exit 3; }
echo "## demo with change"; r1=$(run_demo); echo "$r1"
rm "$wt/$dir/zz_seed_demo_test.go"
echo "## full suite with change"; suite=$(go test -vet=off -count=1 -timeout 25m ./... 2>&1 | grep -E '^(ok|FAIL|---)' ); echo "$suite" | grep -v '^ok'
bad=$(echo "$suite" | grep -E '^(FAIL|--- FAIL)' | grep -v 'TestGetHost' | grep -v 'pkg/util' | grep -v '^FAIL$')
ok0=$(echo "$r0" | grep -c '^ok'); fail1=$(echo "$r1" | grep -cE '^(FAIL|--- FAIL|panic)')
if [ -z "$bad" ] && [ "$ok0" -ge 1 ] && [ "$fail1" -ge 1 ]; then
  mkdir -p /verif/seeded/$sid && cp "$src/patch.diff" /verif/seeded/$sid/ && cp "$src/$demo" /verif/seeded/$sid/ && cp "$src/notes.md" /verif/seeded/$sid/agent_notes.md
  echo "CONFIRMED $sid (demo dir $dir)"; echo "$dir" > /verif/seeded/$sid/.demo_dir
else
  echo "NOT-CONFIRMED $sid: ok0=$ok0 fail1=$fail1 bad=[$bad]"
fi
