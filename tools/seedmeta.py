#!/usr/bin/env python3
"""Writes /verif/seeded/<id>/meta.json for every confirmed seeded change.
The descriptions come from the (independent) sub-agents' notes, condensed; `detected_by` comes from
seeded/<id>/detection.txt, which tools/matrix.sh produces by running every property check on a scratch copy."""
import json, os, re, subprocess

SEEDS = {
 "C01-m1": ("C01", "creator.CreateWithTTL: the guard `isTombstone && prevRevision < revision` of the create-over-tombstone branch becomes an early return on !isTombstone; the revision-order check is gone",
            "a create that allocated its revision, then a complete delete of the same live key at a later revision, then the create's storage batch (forced with a gate on BeginBatchWrite)"),
 "C01-m2": ("C01", "memkv: the store mutex is no longer held from BeginBatchWrite to Commit (taken per read and around the apply loop only): compare and write of CAS / PutIfNotExist are no longer atomic",
            "memkv only; the second writer's compare must fall between the first writer's compare and its Commit (two-party rendezvous in the demo)"),
 "C02-m1": ("C02", "creator.CreateWithTTL: same dropped `prevRevision < revision` guard as C01-m1 (found independently): a key's revisions go 1001, 1003, 1002",
            "Create(K) on an existing key deals r2, Delete(K) deals r3 > r2 and commits first, then the create lands at r2"),
 "C02-m2": ("C02", "backend.Get: the committed revision is read after the data read and the clamp `if modRev > curRev` is dropped: header revision below the mod revision of the returned kv",
            "write A still in flight while a later Create(B) completes, then Get(B) inside that window"),
 "C03-m1": ("C03", "scanner.adjustPartitionsBorders: the next partition's start is copied from this partition's end before that end is moved back to the index key: index record and older versions of the split key are scanned by no worker",
            "an engine reporting several partitions (TiKV) with a border on a version key of an updated key, and a read at an old revision"),
 "C03-m2": ("C03", "commonResultReceiver.reset deleted as 'dead code' (the embedded no-op takes over): a retried scan attempt keeps the keys of the aborted attempt (duplicated, unsorted List)",
            "a transient iterator fault mid-partition after at least one key was delivered, followed by a successful internal retry, unlimited List"),
 "C04-m1": ("C04", "retry.overwrite returns revision 0 (plus a wrapped error) when the commit of the repair batch fails: the allocated revision is never reported, the sequencer waits on its slot forever",
            "two storage faults in sequence: a write applied but reported as unknown outcome, then a failing commit of exactly that write's repair"),
 "C04-m2": ("C04", "backend.delete, unreadable-key branch: calls deal() directly and returns 0 when it reports ErrRevisionDriftBack (re-introduces the drift-back leak in a sibling branch)",
            "a Delete with a future / negative (etcd) expected revision on a missing or unreadable key"),
 "C05-m1": ("C05", "backend.Watch: the resume bound of the live stream is taken from GetCurrentRevision() instead of the newest replayed cache entry: a write committed between cache read and revision read is in neither replay nor live stream",
            "non-zero start revision inside the cached window, at least one matching cached event, and a write landing in that small window"),
 "C05-m2": ("C05", "sequencer: errors.Is(ev.Err, ErrUncertainResult) becomes ==: TiKV returns the sentinel wrapped, so an applied-but-unacknowledged write is never queued for repair and watchers never get its event",
            "an unknown-outcome commit from an engine that wraps the error (the existing test injects the bare sentinel)"),
 "C06-m1": ("C06", "sequencer: the two SetCurrentRevision calls are merged and hoisted above the !Valid branch: an unknown-outcome revision is committed before it is appended to the repair queue",
            "an applied unknown-outcome DELETE plus a compaction landing between commit and append (tombstone compacted, DELETE event never produced)"),
 "C06-m2": ("C06", "backend.List: the header is built from a second GetRevision() after the scan: a write committed during the scan is in neither the list nor a watch from header+1",
            "a writer's commit landing strictly inside another client's range scan, followed by list-then-watch from that header"),
 "C07-m1": ("C07", "tikv batch.DelCurrent drops the value comparison (unconditional delete): the compactor removes the index of a key re-created since its snapshot",
            "TiKV, a tombstoned key <= R, and a re-create of that key between the compactor's snapshot and its DelCurrent"),
 "C07-m2": ("C07", "scan worker: the deletion marker is deleted before the older version it hides: if the next delete fails or the compactor dies in between, the deleted key reappears",
            "a delete fault at exactly the position after the marker delete (position 6; the suite injects 1, 2, 5)"),
 "C08-m1": ("C08", "backend.setCompactRecord updates an existing record with Put instead of CAS against the value just read: an overlapping older compaction lowers the floor",
            "two concurrent compactions: A (older) reads the record and pauses, B (newer) completes, A resumes and writes its revision"),
 "C08-m2": ("C08", "scanner.rangeWithLimit no longer calls the floor check: paginated reads below the floor are served (incomplete data)",
            "a List with Limit > 0 pinned to a revision below the floor"),
 "C09-m1": ("C09", "sequencer: SetCurrentRevision hoisted above the invalid branch (same mechanism as C06-m1, found independently): compaction is no longer held below an unresolved unknown-outcome revision",
            "an applied unknown-outcome delete plus a compaction inside a few-instruction window"),
 "C09-m2": ("C09", "retry.retry: the early return for 'could not read' is widened to definite repair failures: the dispatcher is skipped for an already allocated repair revision, the sequencer waits forever",
            "an applied unknown-outcome update whose repair write itself fails definitely (a client Update between the repair's read and its CAS)"),
 "C10-m1": ("C10", "scanner.adjustPartitionsBorders refactored to copy into `ret` but one read stays on the old slice (`ret[i].Start = ps[i-1].End`): a hole inside one key's versions",
            "a multi-partition engine with a border in the middle of a multi-version key, read below that version"),
 "C10-m2": ("C10", "coder.Decode gains a length guard with <= instead of <: the encoded empty user key (13 bytes) no longer decodes and silently disappears from scans",
            "the empty raw key (quantified over by the property, never used by the suite)"),
 "C11-m1": ("C11", "memkv lock scope narrowed (same three-site change as C01-m2, found independently): overlapping conditional batches both commit",
            "two overlapping conditional batches on the same key on the in-memory engine"),
 "C11-m2": ("C11", "badger batch.Commit flushes and re-opens the transaction on ErrTxnTooBig: an oversized batch is committed in pieces, a later failed condition leaves earlier pieces visible",
            "a batch over ~10 MB / ~100k operations plus a failure after the first flush"),
 "C12-m1": ("C12", "memkv iterator buffers *skiplist.Element instead of copied key/value: Val() returns the live value, so DelCurrent cannot fail for an overwritten key on memkv (badger / tikv still refuse)",
            "a client re-creates a deleted key while the compaction worker is about to DelCurrent its tombstoned index"),
 "C12-m2": ("C12", "tikv GetPartitions: partition End = maxBytes(region end, end) instead of minBytes: the last partition runs to the region end, ranges return keys beyond `end` on TiKV only",
            "TiKV with >= 2 regions and a range end inside a non-last region"),
 "C13-m1": ("C13", "scanner.adjustPartitionsBorders: a 'defensive' guard only realigns a mid-version end border if the aligned border is still greater than the partition's start: a key is split between two workers and emitted twice",
            "two or more engine borders inside the same key's versions (or a scan starting at that key's index record)"),
 "C13-m2": ("C13", "receiver.reset() hoisted out of the per-attempt run() into the retry wrapper: a partition whose iterator fails mid-scan and succeeds on retry appends the whole partition again",
            "a non-EOF Iter.Next error in the middle of one partition after at least one key, followed by a successful retry"),
 "C14-m1": ("C14", "resourceLock.Update re-reads the record when its CAS lost ('to refresh Describe()'), which also overwrites lastVal: the next Update without a Get overwrites the winner's accepted record",
            "a lost CAS followed by an Update with no Get in between (client-go's release() after a failed renew)"),
 "C14-m2": ("C14", "memkv lock scope narrowed (same change as C01-m2 / C11-m1, found independently): two candidates' Update from the same observed record both succeed",
            "memkv, and a second candidate building its batch between the first candidate's compare and its commit"),
 "C15-m1": ("C15", "naiveTSO.Commit raises the dealt counter only on the first commit or via CAS(revision-1, revision): a former follower that becomes leader deals revisions the old leader already used",
            "a node that served reads as a follower (synced at least once) taking over after the old leader kept writing"),
 "C15-m2": ("C15", "leader-start callback: the leader flag is raised before SetCurrentRevision(version): a write admitted in between is stamped with revision 1 (patch re-based onto the atomic flag)",
            "a client write landing inside the promotion callback's window"),
 "C16-m1": ("C16", "etcd shim Update delegates to its own Create when the expected revision is 0: on an existing key the answer is Succeeded=false with a ResponsePut, the ResponseRange with the current kv is missing",
            "the guarded-update shape with mod revision 0 over an existing key"),
 "C16-m2": ("C16", "backend.Delete answers a failed condition with the value read before the write instead of re-reading: after a concurrent update it reports a stale kv with the caller's own expected revision",
            "another writer committing to the same key between the delete's read and its CAS"),
 "C17-m1": ("C17", "getEventsPrefix uses path.Join, which strips the trailing slash: '<prefix>/events' also classifies '<prefix>/eventsinks/..' and '<prefix>/events.example.io/..' as Events",
            "an unusual key shape: a sibling directory whose name starts with 'events'"),
 "C17-m2": ("C17", "expiry: index and version branches merged, the index is removed by unconditional Del instead of compare-and-delete: an Event updated since the snapshot loses its index while the new version stays",
            "a client write inside the window between the scan snapshot and the index delete, engine without native TTL"),
 "C18-m1": ("C18", "revision publisher: WriteHeader(400) and Write swapped in the not-leader branch: net/http answers 200, the follower adopts revision 0 and serves the read",
            "a follower addressing a node that does not consider itself leader (hand-over window / stale view)"),
 "C18-m2": ("C18", "etcd Range syncs the read revision only when r.Revision == 0: list-partition (magic revision 1888), Count and explicit-revision reads are served unsynced / with the leader down",
            "a follower, a non-zero request revision, and a leader that advanced or is unreachable"),
 "C19-m1": ("C19", "memkv: store.mu becomes RWMutex, Get and iter.init take RLock, but iter.init inserts / removes a sentry element: mutation under a shared lock",
            "two simultaneous readers, at least one a range read whose start border is not a stored key (run the demo with -race)"),
 "C19-m2": ("C19", "Ring.FindEvents returns a window of the ring's backing array instead of a copy: Watch filters it after the read lock is released while Ring.Add overwrites the slots",
            "a full, wrapped ring, a catch-up Watch whose tail is contiguous, and writes arriving while it filters (-race)"),
 "C20-m1": ("C20", "etcd Txn: the unsupported-shape branch no longer sets the method tag: 'write' / 'write.latency' are emitted with label names {'', success}: the production Prometheus client panics",
            "a leader with Prometheus metrics receiving an etcd Txn of an unrecognised shape"),
 "C20-m2": ("C20", "Ring.FindEvents computes the copy-out start as index(s)+idx instead of index(s+idx): slice bounds out of range once the cache has wrapped unaligned (panic in the watch goroutine)",
            "more than WatchCacheSize events (count not a multiple of the size), then a Watch from a recent cached revision"),
}

HEAD = subprocess.run(["git", "-C", "/repo", "rev-parse", "--short", "HEAD"], capture_output=True, text=True).stdout.strip()

for sid, (prop, what, needs) in sorted(SEEDS.items()):
    d = "/verif/seeded/" + sid
    if not os.path.isdir(d):
        print("missing", sid); continue
    det = []
    dt = os.path.join(d, "detection.txt")
    if os.path.exists(dt):
        seen = set()
        for ln in open(dt):
            ln = ln.rstrip("\n")
            if "\t" not in ln: continue
            rule, construct = ln.split("\t", 1)
            p = rule.split("-")[0]
            if (p, rule) in seen: continue
            seen.add((p, rule))
            det.append({"property": p, "rule": rule, "construct": construct})
    demo = [f for f in os.listdir(d) if f.endswith(".go")]
    demodir = open(os.path.join(d, ".demo_dir")).read().strip() if os.path.exists(os.path.join(d, ".demo_dir")) else ""
    files = re.findall(r"^\+\+\+ b/(\S+)", open(os.path.join(d, "patch.diff")).read(), re.M)
    race = " -race" if sid.startswith("C19") else ""
    meta = {
        "id": sid,
        "property": prop,
        "breaks": what,
        "needs_to_manifest": needs,
        "files": files,
        "origin": "written by an independent sub-agent that saw only the property text and a scratch worktree of /repo (nothing from /verif); see agent_notes.md",
        "demonstration": {"file": demo[0] if demo else None, "place_in": demodir,
                           "command": "go test%s -vet=off -count=1 -run <Test...> ./%s/" % (race, demodir)},
        "confirmed": {
            "by": "tools/confirm_mut.sh in a fresh scratch worktree of /repo (removed afterwards)",
            "ran": ["demonstration on the unmodified tree: passes", "git apply patch.diff; go build ./...: ok",
                    "demonstration with the change: fails", "go test -vet=off -count=1 ./... with the change: passes (only the always-failing pkg/util TestGetHost fails)"],
            "repo_head": HEAD,
        },
        "detected_by": det,
        "detected_by_target_property": any(x["property"] == prop for x in det),
    }
    json.dump(meta, open(os.path.join(d, "meta.json"), "w"), indent=1)
print("written", len(SEEDS))
