#!/bin/bash
# usage: matrix.sh [seed ids...]  -- runs every property check against every seeded change (scratch copies), writes /verif/seeded/<id>/detection.txt
set -u
export GOFLAGS=-mod=mod GOPROXY=off GOSUMDB=off GOTOOLCHAIN=local
ids=${@:-$(ls /verif/seeded)}
for id in $ids; do
  sd=/verif/seeded/$id
  [ -f $sd/patch.diff ] || continue
  d=$(mktemp -d /tmp/kbmat.XXXXXX)
  rsync -a --exclude .git /repo/ "$d/repo/"
  mkdir -p "$d/verif"; cp /verif/known_findings.json "$d/verif/"
  if ! ( cd "$d/repo" && patch -p1 --no-backup-if-mismatch -s < $sd/patch.diff ); then echo "$id PATCH-FAILED" | tee $sd/detection.txt; rm -rf "$d"; continue; fi
  /verif/bin/kbcheck -prop all -tier quick -repo "$d/repo" -verif "$d/verif" > "$d/out.txt" 2>&1
  grep -E "^violated:" "$d/out.txt" | sed -E 's/^violated: rule=([A-Z0-9-]+) construct="([^"]*)".*/\1\t\2/' | sort -u > $sd/detection.txt
  echo "$id: $(cut -f1 $sd/detection.txt | sort -u | tr '\n' ' ')"
  rm -rf "$d"
done
