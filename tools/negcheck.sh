#!/bin/bash
# usage: negcheck.sh [<diff>...]  -- behaviour-preserving refactors (default: /verif/negative/*/*.diff): every check must stay silent (exit 0)
set -u
[ $# -eq 0 ] && set -- /verif/negative/*/*.diff
export GOFLAGS=-mod=mod GOPROXY=off GOSUMDB=off GOTOOLCHAIN=local
bin=$(mktemp /tmp/kbcheck.XXXXXX); cp ${KBCHECK:-/verif/bin/kbcheck} $bin; chmod +x $bin
for df in "$@"; do
  df=$(readlink -f "$df")
  d=$(mktemp -d /tmp/kbneg.XXXXXX)
  rsync -a --exclude .git /repo/ "$d/repo/"; mkdir -p "$d/verif"; cp /verif/known_findings.json "$d/verif/"
  if ! ( cd "$d/repo" && patch -p1 --no-backup-if-mismatch -s < $df ); then echo "$df PATCH-FAILED"; rm -rf "$d"; continue; fi
  ( cd "$d/repo" && go build ./... ) || echo "$df BUILD-FAILED"
  $bin -prop all -tier quick -repo "$d/repo" -verif "$d/verif" > "$d/out.txt" 2>&1; code=$?
  echo "== $df exit=$code"; grep -E "^violated:|^BROKEN" "$d/out.txt" | cut -c1-420 | sed "s#$d/##g"
  rm -rf "$d"
done
rm -f $bin
