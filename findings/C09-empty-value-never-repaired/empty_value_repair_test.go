// Demo for the defect fixed in /repo by "fix: an unknown-outcome write of an empty value is repaired like any other".
// Place in pkg/backend/ (package backend). History: a create of a key with an EMPTY value (the etcd Txn path accepts it,
// only the native rpc refuses empty values) lands in the store, but its commit is answered "outcome unknown". The
// repair loop re-reads the key, and used to take `len(val) == 0` for "the key is not there": it dropped the queue entry
// without re-writing the key, so the write - which is in the store and readable - was never announced: a watch opened
// before it sees no event for it. Every other value is re-written at a fresh revision and announced (step 4 of the
// repository's own TestUncertainRewrite, which this test mirrors). Pointed out by the independent C09 agent of round 9.
package backend

import (
	"path"
	"testing"
	"time"

	proto "github.com/kubewharf/kubebrain-client/api/v2rpc"

	"github.com/kubewharf/kubebrain/pkg/storage"
)

func TestEmptyValueUnknownOutcomeIsRepaired(t *testing.T) {
	defaultRetryInterval, defaultCheckInterval := retryInterval, checkInterval
	retryInterval, checkInterval = 100*time.Millisecond, 100*time.Millisecond
	defer func() { retryInterval, checkInterval = defaultRetryInterval, defaultCheckInterval }()

	for _, val := range [][]byte{[]byte("v"), {}} {
		s, closer := newTestSuites(t, memKvStorage)
		b := s.backend.(*backend)
		key := path.Join(prefix, "demo-empty")
		initRev := b.GetCurrentRevision()

		ch, err := b.Watch(s.ctx, key, 0)
		s.ast.NoError(err)

		// the write lands ..
		rev, err := b.create(s.ctx, []byte(key), val)
		s.ast.NoError(err)
		s.ast.Equal(initRev+1, rev)
		// .. but its outcome is reported as unknown
		b.notify(s.ctx, []byte(key), val, rev, 0, false, proto.Event_PUT, storage.ErrUncertainResult)
		waitUntilRetryQueueDrainOrTimeout(s.ctx, b, initRev+2)

		// the repair re-writes the key at a fresh revision ..
		resp, err := b.Get(s.ctx, newGetRequest(0, key))
		s.ast.NoError(err)
		if s.ast.NotNil(resp.Kv, "value %q", val) {
			s.ast.Equal(int64(initRev)+2, int64(resp.Kv.Revision), "value %q: the unknown-outcome write was not re-written", val)
		}
		// .. and announces it
		select {
		case evs := <-ch:
			if s.ast.NotEmpty(evs) {
				s.ast.Equal(key, string(evs[0].Kv.Key))
			}
		case <-time.After(2 * time.Second):
			t.Errorf("value %q: no watch event for a write that is in the store", val)
		}
		closer()
	}
}
