package backend

// Demonstration for finding C19-compact-queue (copy into /repo/pkg/backend, run with -race).
// Two concurrent compactions (the native Compact RPC and the leader's background loop, or two
// RPCs) both push to / pop from the scanner's compaction-mark queue, a container/list without a lock.

import (
	"context"
	"sync"
	"testing"

	proto "github.com/kubewharf/kubebrain-client/api/v2rpc"
)

func TestConcurrentCompactRace(t *testing.T) {
	s, c := newTestSuites(t, memKvStorage)
	defer c()
	ctx := context.Background()
	r, err := s.backend.Create(ctx, &proto.CreateRequest{Key: []byte(prefix + "/cq/a"), Value: []byte("v")})
	if err != nil || !r.Succeeded {
		t.Fatal(err)
	}
	waitUntilRevisionEqualOrTimeout(s.backend, r.Header.Revision)
	var wg sync.WaitGroup
	for i := 0; i < 4; i++ {
		wg.Add(1)
		go func() {
			defer wg.Done()
			for j := 0; j < 20; j++ {
				s.backend.Compact(ctx, r.Header.Revision)
			}
		}()
	}
	wg.Wait()
}
