package backend

// Demonstration for finding C17-events-substring (copy into /repo/pkg/backend to run).
// Expiry classifies a key as a Kubernetes Event by the substring "/events/" anywhere in the
// key, so a pod in a namespace called "events" (<prefix>/pods/events/p) is expired after the TTL.

import (
	"context"
	"path"
	"testing"
	"time"

	proto "github.com/kubewharf/kubebrain-client/api/v2rpc"
)

func TestExpiryLeavesNonEventKeysAlone(t *testing.T) {
	defaultEventsTTL := eventsTTL
	eventsTTL = 1
	defer func() { eventsTTL = defaultEventsTTL }()

	s, c := newTestSuites(t, tiKvStorage) // an engine without native TTL
	defer c()
	ctx := context.Background()
	pod := path.Join(prefix, "pods", "events", "p") // a pod in namespace "events"
	ev := path.Join(prefix, "events", "ns", "e")    // a real Event
	var rev uint64
	for _, k := range []string{pod, ev} {
		r, err := s.backend.Create(ctx, &proto.CreateRequest{Key: []byte(k), Value: []byte(k)})
		if err != nil || !r.Succeeded {
			t.Fatal(err)
		}
		rev = r.Header.Revision
	}
	waitUntilRevisionEqualOrTimeout(s.backend, rev)
	s.backend.Compact(ctx, rev) // leaves a compaction mark
	w, _ := s.backend.Create(ctx, &proto.CreateRequest{Key: []byte(pod), Value: []byte("x")})
	time.Sleep(2 * time.Second)
	if _, err := s.backend.Compact(ctx, w.Header.Revision); err != nil {
		t.Fatal(err)
	}
	g, err := s.backend.Get(ctx, &proto.GetRequest{Key: []byte(ev)})
	if err != nil || g.Kv != nil {
		t.Fatalf("the Event should have expired: %v %v", g, err)
	}
	g, err = s.backend.Get(ctx, &proto.GetRequest{Key: []byte(pod)})
	if err != nil || g.Kv == nil {
		t.Fatalf("a pod in namespace \"events\" was removed by Event expiry: %v %v", g, err)
	}
}
