// Demo for the defect fixed in /repo by "fix: advertised partition borders are moved to index records".
// Place in pkg/backend/ (package backend). On the tree before the fix it fails:
//   the per-partition streams deliver [/p13/a@1002 /p13/a@1003 /p13/b@1004], the unpartitioned read [/p13/a@1003 /p13/b@1004]
// (the key whose versions the engine border splits is streamed by both partitions); it passes with the fix.
package backend

import (
	"bytes"
	"context"
	"fmt"
	"testing"

	"github.com/golang/mock/gomock"
	proto "github.com/kubewharf/kubebrain-client/api/v2rpc"

	"github.com/kubewharf/kubebrain/pkg/backend/coder"
	"github.com/kubewharf/kubebrain/pkg/metrics/mock"
	"github.com/kubewharf/kubebrain/pkg/storage"
	"github.com/kubewharf/kubebrain/pkg/storage/memkv"
)

// an engine that reports one border, as TiKV does when a region border lies in the scanned interval
type oneBorderStore struct {
	storage.KvStorage
	border []byte
}

func (s *oneBorderStore) GetPartitions(ctx context.Context, start, end []byte) ([]storage.Partition, error) {
	if s.border != nil && bytes.Compare(s.border, start) > 0 && bytes.Compare(s.border, end) < 0 {
		return []storage.Partition{{Start: start, End: s.border}, {Start: s.border, End: end}}, nil
	}
	return []storage.Partition{{Start: start, End: end}}, nil
}

func TestStreamsOverAdvertisedPartitionsAgreeWithList(t *testing.T) {
	ctrl := gomock.NewController(t)
	defer ctrl.Finish()
	st := &oneBorderStore{KvStorage: memkv.NewKvStorage()}
	b := NewBackend(st, Config{Prefix: "/p13", Identity: "demo"}, mock.NewMinimalMetrics(ctrl))
	b.SetCurrentRevision(1000)
	ctx := context.Background()
	cr, err := b.Create(ctx, &proto.CreateRequest{Key: []byte("/p13/a"), Value: []byte("a1")})
	if err != nil || !cr.Succeeded {
		t.Fatalf("create a: %v %v", cr, err)
	}
	ur, err := b.Update(ctx, &proto.UpdateRequest{Kv: &proto.KeyValue{Key: []byte("/p13/a"), Value: []byte("a2"), Revision: cr.Header.Revision}})
	if err != nil || !ur.Succeeded {
		t.Fatalf("update a: %v %v", ur, err)
	}
	cb, err := b.Create(ctx, &proto.CreateRequest{Key: []byte("/p13/b"), Value: []byte("b1")})
	if err != nil || !cb.Succeeded {
		t.Fatalf("create b: %v %v", cb, err)
	}
	for b.GetCurrentRevision() < cb.Header.Revision {
	}
	// the engine splits between the two versions of /p13/a
	st.border = coder.NewNormalCoder().EncodeObjectKey([]byte("/p13/a"), ur.Header.Revision)

	parts, err := b.GetPartitions(ctx, &proto.ListPartitionRequest{Key: []byte("/p13/"), End: []byte("/p130")})
	if err != nil {
		t.Fatal(err)
	}
	var got []string
	for i := 0; i+1 < len(parts.PartitionKeys); i++ {
		ch, err := b.ListByStream(ctx, parts.PartitionKeys[i], parts.PartitionKeys[i+1], parts.Header.Revision)
		if err != nil {
			t.Fatal(err)
		}
		for resp := range ch {
			if resp.Err != "" {
				t.Fatalf("stream: %s", resp.Err)
			}
			for _, kv := range resp.RangeResponse.Kvs {
				got = append(got, fmt.Sprintf("%s@%d", kv.Key, kv.Revision))
			}
		}
	}
	lr, err := b.List(ctx, &proto.RangeRequest{Key: []byte("/p13/"), End: []byte("/p130"), Revision: parts.Header.Revision})
	if err != nil {
		t.Fatal(err)
	}
	var want []string
	for _, kv := range lr.Kvs {
		want = append(want, fmt.Sprintf("%s@%d", kv.Key, kv.Revision))
	}
	if fmt.Sprint(got) != fmt.Sprint(want) {
		t.Fatalf("the per-partition streams deliver %v, the unpartitioned read %v", got, want)
	}
}
