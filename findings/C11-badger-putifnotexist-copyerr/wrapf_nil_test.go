// Place in pkg/storage/badger/ (package badger) of the repository at ccfe662 (before the fix 'fix: badger PutIfNotExist
// reports the error of a failed value copy').
//
// The defect: in the staged operation of (*batch).PutIfNotExist the branch "the key exists but its value cannot be
// copied" returned errors.Wrapf(err, ...) with err - the (nil) error of the preceding txn.Get - instead of copyErr.
// github.com/pkg/errors.Wrapf returns nil for a nil error, so the operation returned nil without having written
// anything: Commit then reported success for a put-if-absent on an EXISTING key (C11: "take effect exactly when their
// condition holds and otherwise report a failed condition").
//
// A failing ValueCopy needs a damaged value log; badger v1.6.2 panics rather than erring on most in-place damage,
// so the path cannot be forced from a black-box test without a fault hook in the engine. What can be shown against the
// real code is the mechanism, on the exact expression the closure evaluated: the test below fails on the unfixed tree
// (the old expression yields nil) and documents why the static rule C11-R11 reports the site.
package badger

import (
	"testing"

	"github.com/pkg/errors"
)

func TestWrapfOfNilErrorIsNil(t *testing.T) {
	var err error // what txn.Get returned on the "key exists" branch
	copyErr := errors.New("value log: read failed")
	old := errors.Wrapf(err, "fail to copy value for key %s", "k")      // expression before the fix
	fixed := errors.Wrapf(copyErr, "fail to copy value for key %s", "k") // expression after the fix
	if old != nil {
		t.Fatalf("expected the pre-fix expression to be nil, got %v", old)
	}
	if fixed == nil {
		t.Fatalf("the fixed expression must report the copy failure")
	}
}
