package backend

// Demonstration for finding C08-floor-lowered (copy into /repo/pkg/backend to run).
// Compact(R) followed by Compact(R') with R' < R re-writes the compaction record with R'
// (scanner.checkCompactRace, compact branch: unconditional Put), so a range read at a
// revision in [R', R) is served although it was refused before.

import (
	"context"
	"testing"

	proto "github.com/kubewharf/kubebrain-client/api/v2rpc"
)

func TestCompactFloorNeverLowered(t *testing.T) {
	s, c := newTestSuites(t, memKvStorage)
	defer c()
	ctx := context.Background()
	var revs []uint64
	for i := 0; i < 6; i++ {
		r, err := s.backend.Create(ctx, &proto.CreateRequest{Key: []byte(prefix + "/floor/" + string(rune('a'+i))), Value: []byte("v")})
		if err != nil || !r.Succeeded {
			t.Fatal(err)
		}
		revs = append(revs, r.Header.Revision)
	}
	waitUntilRevisionEqualOrTimeout(s.backend, revs[5])
	if _, err := s.backend.Compact(ctx, revs[4]); err != nil {
		t.Fatal(err)
	}
	list := func(rev uint64) error {
		_, err := s.backend.List(ctx, &proto.RangeRequest{Key: []byte(prefix + "/floor/"), End: PrefixEnd([]byte(prefix + "/floor/")), Revision: rev})
		return err
	}
	if err := list(revs[2]); err == nil {
		t.Fatalf("read below the floor must be refused")
	}
	// an older compaction request must not lower the floor
	s.backend.Compact(ctx, revs[1])
	if err := list(revs[2]); err == nil {
		t.Fatalf("floor was lowered: read at %d served after Compact(%d); Compact(%d)", revs[2], revs[4], revs[1])
	}
}
