package memkv

// Demonstration for finding C19-memkv-get (copy into /repo/pkg/storage/memkv, run with -race).
// store.Get reads the skip list without the store mutex while Commit mutates it under the mutex.
// Backend callers of Get: every range read (compaction-floor check), create conflicts,
// compaction, election.

import (
	"context"
	"sync"
	"testing"
)

func TestGetVsCommitRace(t *testing.T) {
	st := NewKvStorage()
	ctx := context.Background()
	var wg sync.WaitGroup
	wg.Add(2)
	go func() {
		defer wg.Done()
		for i := 0; i < 2000; i++ {
			b := st.BeginBatchWrite()
			b.Put([]byte{byte(i), byte(i >> 8)}, []byte("v"), 0)
			_ = b.Commit(ctx)
		}
	}()
	go func() {
		defer wg.Done()
		for i := 0; i < 2000; i++ {
			_, _ = st.Get(ctx, []byte{byte(i), byte(i >> 8)})
		}
	}()
	wg.Wait()
}
