// Demo for the defect fixed in /repo by "fix: the committed revision never moves backwards".
// Place in pkg/server/service/revision/ (package revision). A follower starts to synchronise its read revision with the
// old leader (IsLeader() is still false), wins the election while the old leader's answer is on its way (the
// leader-start callback seeds the counters, a write is acknowledged), and then adopts the old leader's, smaller,
// revision. On the tree before the fix the read revision of the new leader drops below an acknowledged write with
// nothing in flight, and the write is not readable:
//   read revision 900 after the late sync, the acknowledged write has revision 1001
package revision

import (
	"context"
	"encoding/json"
	"net"
	"net/http"
	"testing"
	"time"

	"github.com/golang/mock/gomock"
	proto "github.com/kubewharf/kubebrain-client/api/v2rpc"

	"github.com/kubewharf/kubebrain/pkg/backend"
	"github.com/kubewharf/kubebrain/pkg/metrics/mock"
	"github.com/kubewharf/kubebrain/pkg/server/service/leader"
	"github.com/kubewharf/kubebrain/pkg/storage/memkv"
)

func TestLateFollowerSyncDoesNotLowerTheLeadersReadRevision(t *testing.T) {
	ctrl := gomock.NewController(t)
	defer ctrl.Finish()
	m := mock.NewMinimalMetrics(ctrl)
	b := backend.NewBackend(memkv.NewKvStorage(), backend.Config{Prefix: "/late", Identity: "n2"}, m)
	b.SetCurrentRevision(800) // what the node adopted from the old leader earlier

	election := &leader.Stub{ElectionInfo: leader.ElectionInfo{IsLeader: false}}
	var written uint64
	ln, err := net.Listen("tcp", "127.0.0.1:0")
	if err != nil {
		t.Fatal(err)
	}
	// the old leader: by the time its answer (revision 900) is written, this node has become leader
	srv := &http.Server{Handler: http.HandlerFunc(func(w http.ResponseWriter, r *http.Request) {
		// leader-start callback of this node: counters seeded from the engine's clock, then the flag
		b.SetCurrentRevision(1000)
		election.ElectionInfo.IsLeader = true
		resp, err := b.Create(context.Background(), &proto.CreateRequest{Key: []byte("/late/k"), Value: []byte("v")})
		if err != nil || !resp.Succeeded {
			t.Errorf("create: %v %v", resp, err)
		}
		written = resp.Header.Revision
		for i := 0; i < 200 && b.GetCurrentRevision() < written; i++ {
			time.Sleep(5 * time.Millisecond)
		}
		body, _ := json.Marshal(&LeaderRevision{Revision: 900})
		w.WriteHeader(200)
		w.Write(body)
	})}
	go srv.Serve(ln)
	defer srv.Close()
	election.ElectionInfo.LeaderAddress = ln.Addr().String()

	rs := NewRevisionSyncer(b, m, election, nil)
	defer rs.Close()
	if err := rs.SyncReadRevision(); err != nil {
		t.Fatalf("sync: %v", err)
	}
	if got := b.GetCurrentRevision(); got < written {
		t.Errorf("read revision %d after the late sync, the acknowledged write has revision %d", got, written)
	}
	g, err := b.Get(context.Background(), &proto.GetRequest{Key: []byte("/late/k")})
	if err != nil || g.Kv == nil {
		t.Errorf("the acknowledged write is not readable on the leader: %v %v", g, err)
	}
}
