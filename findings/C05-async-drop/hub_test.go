package backend

// Demonstration for finding C05-async-drop (copy into /repo/pkg/backend to run).
// The hub drops a subscriber whose buffer is full with `go DeleteWatcher(...)`.
// Until that goroutine gets the write lock the subscriber is still registered, so the
// next batch can be delivered to it: the stream continues past a batch it never got.

import (
	"context"
	"runtime"
	"testing"

	proto "github.com/kubewharf/kubebrain-client/api/v2rpc"

	"github.com/golang/mock/gomock"

	"github.com/kubewharf/kubebrain/pkg/metrics/mock"
)

func TestHubNeverDeliversPastADrop(t *testing.T) {
	runtime.GOMAXPROCS(8)
	gaps := 0
	ctrl := gomock.NewController(t)
	m := mock.NewMinimalMetrics(ctrl)
	for trial := 0; trial < 300 && gaps == 0; trial++ {
		hub := &WatcherHub{subs: map[chan []*proto.Event]struct{}{}, metricCli: m}
		input := make(chan []*proto.Event, 2*watchBuffer)
		ctx, cancel := context.WithCancel(context.Background())
		sub, _ := hub.AddWatcher(ctx)
		n := uint64(watchBuffer + 40)
		for i := uint64(1); i <= n; i++ {
			input <- []*proto.Event{{Revision: i}}
		}
		done := make(chan struct{})
		go func() { // consumer: starts reading only when the buffer is about to overflow
			defer close(done)
			for len(sub) < watchBuffer {
				runtime.Gosched()
			}
			last := uint64(0)
			for evs := range sub {
				if evs[0].Revision != last+1 {
					gaps++
				}
				last = evs[0].Revision
			}
		}()
		go hub.Stream(input)
		for len(input) > 0 {
			runtime.Gosched()
		}
		close(input)
		<-done
		cancel()
	}
	if gaps > 0 {
		t.Fatalf("a subscriber received a batch after one it was never given (%d gaps)", gaps)
	}
}
