// Demo for the defect fixed in /repo by "fix: memkv expires a key only while it holds the value the ttl was set for".
// Place in pkg/backend/ (package backend). History: an Event is created (ttl 3 s) and updated one second later; when the
// ttl counted from the creation is over, the in-process engine's expiry timer used to delete the index record by key,
// although it had been rewritten (with ttl 0) by the update: the newest change was younger than the ttl, the index was
// gone and the new version stayed (create succeeds over a key that reads as present, update from the latest revision is
// refused). Derived from the demonstration the independent C17 agent of round 7 wrote for its badger mutant, which makes
// badger behave the way the in-process engine behaved on the pinned tree.
package backend

import (
	"context"
	"path"
	"testing"
	"time"

	"github.com/stretchr/testify/assert"

	proto "github.com/kubewharf/kubebrain-client/api/v2rpc"
)

func TestMemkvExpiryAfterUpdate(t *testing.T) {
	defaultEventsTTL := eventsTTL
	eventsTTL = 3
	defer func() { eventsTTL = defaultEventsTTL }()

	s, closer := newTestSuites(t, memKvStorage)
	defer closer()
	b := s.backend.(*backend)
	ctx := context.Background()
	ast := assert.New(t)

	key := []byte(path.Join(prefix, "events", "default", "demo-m1"))
	control := []byte(path.Join(prefix, "events", "default", "demo-m1-control"))

	t0 := time.Now()
	cresp, err := b.Create(ctx, &proto.CreateRequest{Key: key, Value: []byte("v1")})
	ast.NoError(err)
	ast.True(cresp.Succeeded)
	r1 := cresp.Header.Revision

	ctlResp, err := b.Create(ctx, &proto.CreateRequest{Key: control, Value: []byte("c1")})
	ast.NoError(err)
	ast.True(ctlResp.Succeeded)

	// the newest change of the event happens one second after its creation
	time.Sleep(time.Second)
	uresp, err := b.Update(ctx, &proto.UpdateRequest{Kv: &proto.KeyValue{Key: key, Value: []byte("v2"), Revision: r1}})
	ast.NoError(err)
	if !ast.True(uresp.Succeeded) {
		return
	}
	r2 := uresp.Header.Revision
	updatedAt := time.Now()

	// ttl since the creation is over, ttl since the update is not
	time.Sleep(time.Until(t0.Add(time.Duration(eventsTTL)*time.Second + 400*time.Millisecond)))
	if age := time.Since(updatedAt); age >= time.Duration(eventsTTL)*time.Second {
		t.Skipf("machine too slow, the update is already %v old", age)
	}

	// control: an event that was not changed since its creation is removed as a whole
	gresp, err := b.Get(ctx, &proto.GetRequest{Key: control})
	ast.NoError(err)
	ast.Nil(gresp.Kv, "control event must be expired")
	_, err = b.kv.Get(ctx, b.coder.EncodeRevisionKey(control))
	ast.Error(err, "index of the control event must be expired")

	// the updated event is younger than the ttl: every record of it must still be there
	idx, err := b.kv.Get(ctx, b.coder.EncodeRevisionKey(key))
	if ast.NoError(err, "index record of an event changed %v ago (ttl %ds) was removed", time.Since(updatedAt), eventsTTL) {
		ast.Equal(uint64ToBytes(r2), idx)
	}

	gresp, err = b.Get(ctx, &proto.GetRequest{Key: key})
	ast.NoError(err)
	if ast.NotNil(gresp.Kv) {
		ast.Equal("v2", string(gresp.Kv.Value))
		ast.Equal(r2, gresp.Kv.Revision)
	}

	// the key exists, so it can not be created
	cresp, err = b.Create(ctx, &proto.CreateRequest{Key: key, Value: []byte("v3")})
	ast.NoError(err)
	ast.False(cresp.Succeeded, "create succeeded over an event that reads as present")

	// and it can be updated from its latest revision
	uresp, err = b.Update(ctx, &proto.UpdateRequest{Kv: &proto.KeyValue{Key: key, Value: []byte("v4"), Revision: r2}})
	ast.NoError(err)
	ast.True(uresp.Succeeded, "update from the latest revision of the event was refused")
}

