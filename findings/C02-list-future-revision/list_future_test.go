package backend

// Demonstration for KNOWN FINDING C02-list-future-revision (copy into /repo/pkg/backend to run; it FAILS on the
// current tree, this defect is recorded, not repaired).
// List with an explicit read revision above the committed revision scans at that revision but answers with the
// committed revision as header: while write W1 (revision r1) is still in flight, W2 (r2 = r1+1) has completed and
// its writer lists at the revision it was given (r2). The response contains W2's key with mod revision r2 under a
// header revision r1-1.

import (
	"context"
	"sync"
	"testing"
	"time"

	"github.com/golang/mock/gomock"

	proto "github.com/kubewharf/kubebrain-client/api/v2rpc"

	"github.com/kubewharf/kubebrain/pkg/metrics/mock"
	"github.com/kubewharf/kubebrain/pkg/storage"
	imemkv "github.com/kubewharf/kubebrain/pkg/storage/memkv"
)

type gateKV struct {
	storage.KvStorage
	mu     sync.Mutex
	armed  bool
	gate   chan struct{}
	parked chan struct{}
}

func (g *gateKV) BeginBatchWrite() storage.BatchWrite {
	g.mu.Lock()
	hold := g.armed
	g.armed = false
	g.mu.Unlock()
	if hold {
		close(g.parked)
		<-g.gate
	}
	return g.KvStorage.BeginBatchWrite()
}

func TestListHeaderNotBelowData(t *testing.T) {
	ctrl := gomock.NewController(t)
	m := mock.NewMinimalMetrics(ctrl)
	kv := &gateKV{KvStorage: imemkv.NewKvStorage(), gate: make(chan struct{}), parked: make(chan struct{})}
	b := NewBackend(kv, Config{Prefix: prefix, Identity: "x"}, m)
	b.SetCurrentRevision(1000)
	ctx := context.Background()

	kv.mu.Lock()
	kv.armed = true
	kv.mu.Unlock()
	done := make(chan struct{})
	go func() { // W1: allocates r1, then parks before touching the engine
		defer close(done)
		b.Create(ctx, &proto.CreateRequest{Key: []byte(prefix + "/lf/a"), Value: []byte("1")})
	}()
	<-kv.parked
	w2, err := b.Create(ctx, &proto.CreateRequest{Key: []byte(prefix + "/lf/b"), Value: []byte("2")})
	if err != nil || !w2.Succeeded {
		t.Fatal(err)
	}
	time.Sleep(50 * time.Millisecond)
	resp, err := b.List(ctx, &proto.RangeRequest{Key: []byte(prefix + "/lf/"), End: PrefixEnd([]byte(prefix + "/lf/")), Revision: w2.Header.Revision})
	close(kv.gate)
	<-done
	if err != nil {
		t.Fatal(err)
	}
	for _, kv := range resp.Kvs {
		if kv.Revision > resp.Header.Revision {
			t.Fatalf("response header revision %d is smaller than the mod revision %d of returned key %s", resp.Header.Revision, kv.Revision, kv.Key)
		}
	}
}
