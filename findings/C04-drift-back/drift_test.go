package backend

// Demonstration for finding C04-drift-back (copy into /repo/pkg/backend to run).
// An Update/Delete whose expected revision lies in the future allocates a revision,
// fails with ErrRevisionDriftBack and (before the fix) reports revision 0 to the
// sequencer, so the slot is never filled and the committed revision freezes for good.

import (
	"context"
	"testing"
	"time"

	proto "github.com/kubewharf/kubebrain-client/api/v2rpc"
)

func TestDriftBackDoesNotWedge(t *testing.T) {
	s, c := newTestSuites(t, memKvStorage)
	defer c()
	ctx := context.Background()
	key := []byte(prefix + "/drift/a")
	r, err := s.backend.Create(ctx, &proto.CreateRequest{Key: key, Value: []byte("v")})
	if err != nil || !r.Succeeded {
		t.Fatal(err)
	}
	// expected revision far in the future (what a negative etcd mod revision becomes)
	_, err = s.backend.Update(ctx, &proto.UpdateRequest{Kv: &proto.KeyValue{Key: key, Value: []byte("w"), Revision: 1 << 62}})
	if err == nil {
		t.Fatal("expected an error for a future expected revision")
	}
	_, err = s.backend.Delete(ctx, &proto.DeleteRequest{Key: key, Revision: 1 << 62})
	_ = err
	r2, err := s.backend.Create(ctx, &proto.CreateRequest{Key: []byte(prefix + "/drift/b"), Value: []byte("v")})
	if err != nil || !r2.Succeeded {
		t.Fatal(err)
	}
	deadline := time.Now().Add(3 * time.Second)
	for s.backend.GetCurrentRevision() < r2.Header.Revision {
		if time.Now().After(deadline) {
			t.Fatalf("committed revision stuck at %d, want %d: a later write never became readable", s.backend.GetCurrentRevision(), r2.Header.Revision)
		}
		time.Sleep(10 * time.Millisecond)
	}
}
