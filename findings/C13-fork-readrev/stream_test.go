package backend

// Demonstration for finding C13-fork-readrev (copy into /repo/pkg/backend to run).
// streamResultReceiver.fork() copies the stream but not the read revision, so every
// data batch of a streamed range carries header revision 0.

import (
	"context"
	"testing"

	proto "github.com/kubewharf/kubebrain-client/api/v2rpc"
)

func TestStreamBatchesNameTheirRevision(t *testing.T) {
	s, c := newTestSuites(t, memKvStorage)
	defer c()
	ctx := context.Background()
	var rev uint64
	for i := 0; i < 3; i++ {
		r, err := s.backend.Create(ctx, &proto.CreateRequest{Key: []byte(prefix + "/stream/" + string(rune('a'+i))), Value: []byte("v")})
		if err != nil || !r.Succeeded {
			t.Fatal(err)
		}
		rev = r.Header.Revision
	}
	waitUntilRevisionEqualOrTimeout(s.backend, rev)
	// streamed ranges are requested per advertised partition (internal keys)
	parts, err := s.backend.GetPartitions(ctx, &proto.ListPartitionRequest{Key: []byte(prefix + "/stream/"), End: PrefixEnd([]byte(prefix + "/stream/"))})
	if err != nil || len(parts.PartitionKeys) < 2 {
		t.Fatal(err)
	}
	ch, err := s.backend.ListByStream(ctx, parts.PartitionKeys[0], parts.PartitionKeys[len(parts.PartitionKeys)-1], rev)
	if err != nil {
		t.Fatal(err)
	}
	n := 0
	for resp := range ch {
		if resp.RangeResponse.More {
			n += len(resp.RangeResponse.Kvs)
			if resp.RangeResponse.Header.Revision != rev {
				t.Fatalf("streamed batch names revision %d, it was read at %d", resp.RangeResponse.Header.Revision, rev)
			}
		}
	}
	if n != 3 {
		t.Fatalf("got %d kvs", n)
	}
}
