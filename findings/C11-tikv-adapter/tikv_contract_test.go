package backend

// Demonstration for findings C11-tikv-cas-missing-key and C11-tikv-iter-first-unbounded
// (copy into /repo/pkg/backend to run; uses the suite's mock TiKV cluster).

import (
	"context"
	"io"
	"testing"

	"github.com/pkg/errors"
	"github.com/stretchr/testify/assert"

	"github.com/kubewharf/kubebrain/pkg/storage"
)

func TestTiKVCASOnMissingKeyIsAFailedCondition(t *testing.T) {
	ast := assert.New(t)
	st := newTestRefactorTiKVStorage(ast)
	defer st.Close()
	b := st.BeginBatchWrite()
	b.CAS([]byte("zz-missing"), []byte("new"), []byte("old"), 0)
	err := b.Commit(context.Background())
	if !errors.Is(err, storage.ErrCASFailed) {
		t.Fatalf("compare-and-swap on a missing key must report a failed condition, got %v", err)
	}
}

func TestTiKVReverseIterHonoursEndBoundOnFirstElement(t *testing.T) {
	ast := assert.New(t)
	st := newTestRefactorTiKVStorage(ast)
	defer st.Close()
	ctx := context.Background()
	b := st.BeginBatchWrite()
	b.Put([]byte("ka"), []byte("1"), 0)
	ast.NoError(b.Commit(ctx))
	// descending scan over (kb, kc]: nothing stored there, "ka" lies below the end bound
	it, err := st.Iter(ctx, []byte("kc"), []byte("kb"), 0, 0)
	ast.NoError(err)
	defer it.Close()
	if err := it.Next(ctx); err != io.EOF {
		t.Fatalf("iterator yielded %q, which is outside the requested interval (err=%v)", it.Key(), err)
	}
}
