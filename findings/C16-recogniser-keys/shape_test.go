package etcd

// Demonstration for finding C16-recogniser-keys (copy into /repo/pkg/server/etcd to run).
// The shape recognisers never compare the key of the Compare with the key of the
// Put / DeleteRange / Range they accept and ignore RangeEnd, so a structurally valid but
// unsupported transaction (condition on one key, write to another; ranged delete) is
// executed as a create / update / delete of a single key.

import (
	"testing"

	pb "go.etcd.io/etcd/api/v3/etcdserverpb"
)

func cmpMod(key string, rev int64) *pb.Compare {
	return &pb.Compare{Target: pb.Compare_MOD, Result: pb.Compare_EQUAL, Key: []byte(key), TargetUnion: &pb.Compare_ModRevision{ModRevision: rev}}
}
func opPut(key, val string) *pb.RequestOp {
	return &pb.RequestOp{Request: &pb.RequestOp_RequestPut{RequestPut: &pb.PutRequest{Key: []byte(key), Value: []byte(val)}}}
}
func opGet(key string) *pb.RequestOp {
	return &pb.RequestOp{Request: &pb.RequestOp_RequestRange{RequestRange: &pb.RangeRequest{Key: []byte(key)}}}
}
func opDel(key, end string) *pb.RequestOp {
	return &pb.RequestOp{Request: &pb.RequestOp_RequestDeleteRange{RequestDeleteRange: &pb.DeleteRangeRequest{Key: []byte(key), RangeEnd: []byte(end)}}}
}

func TestUnsupportedShapesAreNotRecognised(t *testing.T) {
	// sanity: the kubernetes shapes are recognised
	if isCreate(&pb.TxnRequest{Compare: []*pb.Compare{cmpMod("/a", 0)}, Success: []*pb.RequestOp{opPut("/a", "v")}}) == nil {
		t.Fatal("create shape not recognised")
	}
	if _, _, _, _, ok := isUpdate(&pb.TxnRequest{Compare: []*pb.Compare{cmpMod("/a", 3)}, Success: []*pb.RequestOp{opPut("/a", "v")}, Failure: []*pb.RequestOp{opGet("/a")}}); !ok {
		t.Fatal("update shape not recognised")
	}
	if _, _, ok := isDelete(&pb.TxnRequest{Compare: []*pb.Compare{cmpMod("/a", 3)}, Success: []*pb.RequestOp{opDel("/a", "")}, Failure: []*pb.RequestOp{opGet("/a")}}); !ok {
		t.Fatal("guarded delete shape not recognised")
	}
	if _, _, ok := isDelete(&pb.TxnRequest{Success: []*pb.RequestOp{opGet("/a"), opDel("/a", "")}}); !ok {
		t.Fatal("unguarded delete shape not recognised")
	}

	// condition on /a, write to /b
	if isCreate(&pb.TxnRequest{Compare: []*pb.Compare{cmpMod("/a", 0)}, Success: []*pb.RequestOp{opPut("/b", "v")}}) != nil {
		t.Error("txn {if mod(/a)==0 then put /b} executed as create of /b")
	}
	if _, _, _, _, ok := isUpdate(&pb.TxnRequest{Compare: []*pb.Compare{cmpMod("/a", 3)}, Success: []*pb.RequestOp{opPut("/b", "v")}, Failure: []*pb.RequestOp{opGet("/a")}}); ok {
		t.Error("txn {if mod(/a)==3 then put /b} executed as update of /a")
	}
	if _, _, ok := isDelete(&pb.TxnRequest{Compare: []*pb.Compare{cmpMod("/a", 3)}, Success: []*pb.RequestOp{opDel("/b", "")}, Failure: []*pb.RequestOp{opGet("/a")}}); ok {
		t.Error("txn {if mod(/a)==3 then delete /b} executed as delete of /b")
	}
	// ranged delete
	if _, _, ok := isDelete(&pb.TxnRequest{Success: []*pb.RequestOp{opGet("/a"), opDel("/a", "/b")}}); ok {
		t.Error("txn {get /a; delete [/a,/b)} executed as delete of the single key /a")
	}
}
