package backend

// Demonstration for finding C09-repair-fault-dropped (copy into /repo/pkg/backend to run:
//   go test -vet=off -count=1 -run TestRepairWriteFaultLosesEvent ./pkg/backend/).
//
// History: Create(k) is answered "outcome unknown" by the engine but DID land (version R1 is stored).
// The retry queue repairs it by rewriting k at a fresh revision R2; that repair commit is answered
// "outcome unknown" too and did NOT land. Before the fix retry() popped the R1 entry anyway; the follow-up
// entry for R2 then finds the newest version is R1 != R2, concludes "no need to fix" and is dropped as well.
// End state: k is readable (value at R1) but no event for it was ever delivered and nothing is queued:
// replaying the delivered events over the earlier snapshot does not yield the final state.

import (
	"context"
	"fmt"
	"sync"
	"testing"
	"time"

	"github.com/golang/mock/gomock"
	proto "github.com/kubewharf/kubebrain-client/api/v2rpc"

	"github.com/kubewharf/kubebrain/pkg/metrics/mock"
	"github.com/kubewharf/kubebrain/pkg/storage"
	"github.com/kubewharf/kubebrain/pkg/storage/memkv"
)

type faultKv struct {
	storage.KvStorage
	mu   sync.Mutex
	plan []string // per commit: "land-unknown", "drop-unknown"; afterwards healthy
}

// faultBatch records the operations and replays them on a real batch only if the commit is to land
// (the in-memory engine holds its lock from BeginBatchWrite to Commit, so a dropped batch must never begin).
type faultBatch struct {
	kv  *faultKv
	ops []func(storage.BatchWrite)
}

func (f *faultKv) BeginBatchWrite() storage.BatchWrite { return &faultBatch{kv: f} }

func (b *faultBatch) PutIfNotExist(key []byte, val []byte, ttl int64) {
	b.ops = append(b.ops, func(w storage.BatchWrite) { w.PutIfNotExist(key, val, ttl) })
}
func (b *faultBatch) CAS(key []byte, newVal []byte, oldVal []byte, ttl int64) {
	b.ops = append(b.ops, func(w storage.BatchWrite) { w.CAS(key, newVal, oldVal, ttl) })
}
func (b *faultBatch) Put(key []byte, val []byte, ttl int64) {
	b.ops = append(b.ops, func(w storage.BatchWrite) { w.Put(key, val, ttl) })
}
func (b *faultBatch) Del(key []byte) {
	b.ops = append(b.ops, func(w storage.BatchWrite) { w.Del(key) })
}
func (b *faultBatch) DelCurrent(it storage.Iter) {
	b.ops = append(b.ops, func(w storage.BatchWrite) { w.DelCurrent(it) })
}

func (b *faultBatch) Commit(ctx context.Context) error {
	b.kv.mu.Lock()
	step := ""
	if len(b.kv.plan) > 0 {
		step, b.kv.plan = b.kv.plan[0], b.kv.plan[1:]
	}
	b.kv.mu.Unlock()
	if step == "drop-unknown" {
		return storage.ErrUncertainResult
	}
	w := b.kv.KvStorage.BeginBatchWrite()
	for _, op := range b.ops {
		op(w)
	}
	err := w.Commit(ctx)
	if err == nil && step == "land-unknown" {
		return storage.ErrUncertainResult
	}
	return err
}

func TestRepairWriteFaultLosesEvent(t *testing.T) {
	for _, plan := range [][]string{
		{"land-unknown", "drop-unknown"}, // the history that failed before the fix
		{"land-unknown", "land-unknown"},
		{"drop-unknown"},
		{"land-unknown", "drop-unknown", "drop-unknown"},
		{"land-unknown", "land-unknown", "drop-unknown"},
		{"land-unknown", "drop-unknown", "land-unknown", "drop-unknown"},
	} {
		plan := plan
		t.Run(fmt.Sprint(plan), func(t *testing.T) { repairFaultHistory(t, plan) })
	}
}

func repairFaultHistory(t *testing.T, plan []string) {
	defaultRetryInterval, defaultCheckInterval := retryInterval, checkInterval
	retryInterval, checkInterval = 100*time.Millisecond, 50*time.Millisecond
	defer func() { retryInterval, checkInterval = defaultRetryInterval, defaultCheckInterval }()

	ctrl := gomock.NewController(t)
	m := mock.NewMinimalMetrics(ctrl)
	kv := &faultKv{KvStorage: memkv.NewKvStorage()}
	be := NewBackend(kv, Config{Prefix: prefix, Identity: getStorageIdentity()}, m)
	initRev := uint64(time.Now().UnixNano())
	be.SetCurrentRevision(initRev)
	b := be.(*backend)
	ctx, cancel := context.WithCancel(context.Background())
	defer cancel()

	// collect every event delivered from now on
	ch, err := be.Watch(ctx, prefix, initRev+1)
	if err != nil {
		t.Fatal(err)
	}
	var evMu sync.Mutex
	var got []*proto.Event
	go func() {
		for evs := range ch {
			evMu.Lock()
			got = append(got, evs...)
			evMu.Unlock()
		}
	}()

	key := []byte(prefix + "/c09/a")
	kv.mu.Lock()
	kv.plan = append([]string{}, plan...)
	kv.mu.Unlock()
	_, err = be.Create(ctx, &proto.CreateRequest{Key: key, Value: []byte("v")})
	if err == nil {
		t.Fatal("an unknown outcome must be reported to the client as an error")
	}

	// let the retry queue work until it is empty and stays empty
	deadline := time.Now().Add(5 * time.Second)
	quiet := 0
	for time.Now().Before(deadline) && quiet < 10 {
		time.Sleep(50 * time.Millisecond)
		if b.asyncFifoRetry.Size() == 0 {
			quiet++
		} else {
			quiet = 0
		}
	}
	if b.asyncFifoRetry.Size() != 0 {
		t.Fatalf("retry queue did not drain")
	}
	time.Sleep(200 * time.Millisecond)

	resp, err := be.Get(ctx, &proto.GetRequest{Key: key})
	if err != nil {
		t.Fatal(err)
	}
	stored := resp.Kv != nil
	evMu.Lock()
	delivered := 0
	for _, e := range got {
		if string(e.Kv.Key) == string(key) {
			delivered++
			t.Logf("event %v rev=%d", e.Type, e.Revision)
		}
	}
	evMu.Unlock()
	t.Logf("stored=%v delivered events=%d", stored, delivered)
	if stored && delivered > 0 {
		evMu.Lock()
		last := got[len(got)-1]
		evMu.Unlock()
		if last.Kv.Revision != resp.Kv.Revision {
			t.Fatalf("last delivered event is at revision %d but the stored version is %d", last.Kv.Revision, resp.Kv.Revision)
		}
	}
	if stored && delivered == 0 {
		t.Fatalf("key %s is readable at revision %d but no event was ever delivered and the retry queue is empty: store and watch stream do not converge", key, resp.Kv.Revision)
	}
	if !stored && delivered != 0 {
		t.Fatalf("events delivered for a write that is not stored")
	}
}
