package backend

// Demonstration for KNOWN FINDING C03-inband-tombstone (copy into /repo/pkg/backend to run; it FAILS on the
// current tree: recorded, not repaired — the repair needs a different encoding of deletions).
// A deletion is stored as a version record whose value is the reserved byte string "tombstone", and readers
// recognise deletions by value equality. A client value equal to that string is therefore read back as "deleted".

import (
	"context"
	"testing"

	proto "github.com/kubewharf/kubebrain-client/api/v2rpc"
)

func TestAnyNonEmptyValueIsReturned(t *testing.T) {
	s, c := newTestSuites(t, memKvStorage)
	defer c()
	ctx := context.Background()
	key := []byte(prefix + "/tv/a")
	r, err := s.backend.Create(ctx, &proto.CreateRequest{Key: key, Value: []byte("tombstone")})
	if err != nil || !r.Succeeded {
		t.Fatal(err)
	}
	waitUntilRevisionEqualOrTimeout(s.backend, r.Header.Revision)
	g, err := s.backend.Get(ctx, &proto.GetRequest{Key: key})
	if err != nil {
		t.Fatal(err)
	}
	if g.Kv == nil || string(g.Kv.Value) != "tombstone" {
		t.Fatalf("a successfully created key with value %q reads back as absent: %v", "tombstone", g)
	}
}
