// Demo of an open defect (not repaired; see README.md). Place in pkg/backend/ (package backend).
// A Range whose start key is lastKey+"\x00" - the continuation form of Kubernetes' paginated LIST - returns lastKey
// again: the bound is built with the record encoder, and magic+k+"\x00"+'$'+rev sorts BEFORE magic+k+'$'+rev.
package backend

import (
	"path"
	"testing"
	"time"
)

func TestPaginationContinueKey(t *testing.T) {
	s, closer := newTestSuites(t, memKvStorage)
	defer closer()
	b := s.backend.(*backend)
	dir := path.Join(prefix, "pag") + "/"
	var lastRev uint64
	for _, k := range []string{"a", "b", "c"} {
		resp, err := b.Create(s.ctx, newCreateRequest(dir+k, "v"))
		s.ast.NoError(err)
		lastRev = resp.Header.Revision
	}
	for i := 0; i < 200 && b.GetCurrentRevision() < lastRev; i++ {
		time.Sleep(10 * time.Millisecond)
	}
	end := string(getEnd([]byte(dir)))
	first, err := b.List(s.ctx, newRangeRequest(0, dir, end, 2))
	s.ast.NoError(err)
	if !s.ast.Len(first.Kvs, 2) {
		return
	}
	last := string(first.Kvs[len(first.Kvs)-1].Key)
	next, err := b.List(s.ctx, newRangeRequest(0, last+"\x00", end, 0))
	s.ast.NoError(err)
	var got []string
	for _, kv := range next.Kvs {
		got = append(got, string(kv.Key))
	}
	// etcd answers [c]; the unmodified tree answers [b c]
	s.ast.Equal([]string{dir + "c"}, got, "continuation from %q", last+"\\x00")
}
