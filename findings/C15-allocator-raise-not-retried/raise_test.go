package tso

import (
	"sync"
	"testing"
)

// Two Commit calls that overlap (the leader-start callback and a follower sync that arrives late): afterwards the
// allocator must not be below the committed revision, or the next revision handed out is one that reads already cover.
func TestAllocatorNotBelowCommittedAfterOverlappingCommits(t *testing.T) {
	for i := 0; i < 2000000; i++ {
		o := NewTSO()
		o.Commit(800)
		var wg sync.WaitGroup
		wg.Add(2)
		start := make(chan struct{})
		go func() { defer wg.Done(); <-start; o.Commit(900) }()
		go func() { defer wg.Done(); <-start; o.Commit(1000) }()
		close(start)
		wg.Wait()
		committed := o.GetRevision()
		next, _ := o.Deal()
		if next <= committed {
			t.Fatalf("trial %d: committed revision %d, next revision handed out %d", i, committed, next)
		}
	}
}
