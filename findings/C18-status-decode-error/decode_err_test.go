// Demo for the defect fixed in /repo f4216ff ("fix: follower rejects a leader status answer it cannot decode").
// Place in pkg/server/service/revision/ of a tree at 7e6911f: the test fails there
//   decode_err_test.go:35: SyncReadRevision reported success for an undecodable answer; follower read revision is now 0 (was 42)
// and passes from f4216ff on.
package revision

import (
	"net"
	"net/http"
	"testing"

	"github.com/golang/mock/gomock"

	"github.com/kubewharf/kubebrain/pkg/metrics/mock"
	"github.com/kubewharf/kubebrain/pkg/server/service/leader"
)

// A "leader" that answers 200 with a body that is not the revision document (an empty body, an intermediary's page,
// another service on a stale leader address): the follower must not take that for revision 0.
func TestFollowerRejectsUndecodableStatusBody(t *testing.T) {
	ctrl := gomock.NewController(t)
	defer ctrl.Finish()
	ln, err := net.Listen("tcp", "127.0.0.1:0")
	if err != nil {
		t.Fatal(err)
	}
	srv := &http.Server{Handler: http.HandlerFunc(func(w http.ResponseWriter, r *http.Request) {
		w.WriteHeader(http.StatusOK)
		w.Write([]byte("<html>ok</html>"))
	})}
	go srv.Serve(ln)
	defer srv.Close()

	bs := &backendStub{currentRev: 42}
	stub := &leader.Stub{ElectionInfo: leader.ElectionInfo{IsLeader: false, LeaderAddress: ln.Addr().String()}}
	rs := NewRevisionSyncer(bs, mock.NewMinimalMetrics(ctrl), stub, nil)
	defer rs.Close()
	if err := rs.SyncReadRevision(); err == nil {
		t.Fatalf("SyncReadRevision reported success for an undecodable answer; follower read revision is now %d (was 42)", bs.currentRev)
	}
}
