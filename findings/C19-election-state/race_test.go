package backend

// Demonstration for finding C19-election-state (copy into /repo/pkg/backend, run with -race).
// resourceLock.record / tso are written by the election loop (Get / Create / Update, once per retry period) and
// read by Describe(), which request handlers call on every follower read (revision syncer -> GetLeaderInfo),
// non-leader write and watch rejection. There is no synchronisation between them.

import (
	"sync"
	"testing"

	"k8s.io/client-go/tools/leaderelection/resourcelock"
)

func TestResourceLockDescribeRace(t *testing.T) {
	s, c := newTestSuites(t, memKvStorage)
	defer c()
	lock := s.backend.GetResourceLock()
	if err := lock.Create(resourcelock.LeaderElectionRecord{HolderIdentity: "a"}); err != nil {
		t.Fatal(err)
	}
	var wg sync.WaitGroup
	wg.Add(2)
	go func() { // the election loop
		defer wg.Done()
		for i := 0; i < 500; i++ {
			_, _ = lock.Get()
		}
	}()
	go func() { // a request handler on a follower
		defer wg.Done()
		for i := 0; i < 500; i++ {
			_ = lock.Describe()
		}
	}()
	wg.Wait()
}
