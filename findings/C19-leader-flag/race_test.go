package leader

// Demonstration for finding C19-leader-flag (copy into /repo/pkg/server/service/leader, run with -race).
// leaderElection.leader is a plain bool written by the OnStartedLeading / OnStoppedLeading callbacks (goroutine of
// client-go's leader elector) and read by IsLeader(), which every request handler calls.

import (
	"context"
	"testing"
	"time"

	"github.com/golang/mock/gomock"

	"github.com/kubewharf/kubebrain/pkg/backend"
	"github.com/kubewharf/kubebrain/pkg/metrics/mock"
	"github.com/kubewharf/kubebrain/pkg/storage/memkv"
)

func TestLeaderFlagRace(t *testing.T) {
	ctrl := gomock.NewController(t)
	m := mock.NewMinimalMetrics(ctrl)
	b := backend.NewBackend(memkv.NewKvStorage(), backend.Config{Prefix: "/t", Identity: "127.0.0.1:1"}, m)
	le := NewLeaderElection(b, m, func(ctx context.Context) {}, func() {})
	go le.Campaign()
	deadline := time.Now().Add(5 * time.Second)
	for !le.IsLeader() && time.Now().Before(deadline) { // request handlers poll the flag
		time.Sleep(time.Millisecond)
	}
	if !le.IsLeader() {
		t.Fatal("never became leader")
	}
}
