package prometheus

// Demonstration for finding C20-label-value-utf8 (copy into /repo/pkg/metrics/prometheus to run:
//   go test -vet=off -count=1 -run TestLabelValueFromRequestMustNotPanic ./pkg/metrics/prometheus/).
//
// backend.processEvents emits watcherhub.events_chan.closed with the client's watch prefix as a label VALUE
// (metrics.Tag("prefix", prefix)). Keys are arbitrary bytes; the prometheus client rejects label values that are not
// valid UTF-8 and the wrapper calls With(), which panics. A watch on a prefix such as "/registry/\xff" therefore
// crashes the node (the panic is raised in the per-watch goroutine) when the watch ends.

import (
	"testing"

	"github.com/kubewharf/kubebrain/pkg/metrics"
)

func TestLabelValueFromRequestMustNotPanic(t *testing.T) {
	m := NewMetrics()
	defer func() {
		if r := recover(); r != nil {
			t.Fatalf("emitting a metric whose label value comes from request bytes crashed: %v", r)
		}
	}()
	_ = m.EmitCounter("watcherhub.events_chan.closed", 1, metrics.Tag("prefix", "/registry/\xff"))
}
