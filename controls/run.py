#!/usr/bin/env python3
"""Positive controls written by the rule author: one small textual edit of /repo per rule that breaches exactly that
rule (each must still compile). For every control: copy /repo to a scratch directory (outside /repo and /verif,
removed afterwards), apply the edit, `go build ./...`, run the property's check and require that the named rule
reports a violation. Nothing is executed from the edited tree except the compiler. A control whose `old` text is no
longer present is reported as SKIPPED (the code moved on), never as a pass.
usage: controls/run.py [rule-prefix ...]   (default: all)  -> prints one line per control, writes controls/RESULTS.md
"""
import json, os, subprocess, sys, tempfile, shutil, importlib.util

here = os.path.dirname(os.path.abspath(__file__))
spec = importlib.util.spec_from_file_location("table", os.path.join(here, "table.py"))
table = importlib.util.module_from_spec(spec); spec.loader.exec_module(table)
env = dict(os.environ, GOFLAGS="-mod=mod", GOPROXY="off", GOSUMDB="off", GOTOOLCHAIN="local", GOWORK="off")
sel = sys.argv[1:]
rows = []
for c in table.CONTROLS:
    rule = c["rule"]
    if sel and not any(rule.startswith(s) or c.get("id", "").startswith(s) for s in sel):
        continue
    cid = c.get("id", rule)
    d = tempfile.mkdtemp(prefix="kbctl.")
    try:
        subprocess.run(["rsync", "-a", "--exclude", ".git", "/repo/", d + "/repo/"], check=True)
        os.makedirs(d + "/verif"); shutil.copy("/verif/known_findings.json", d + "/verif/")
        status = None
        for ed in c["edits"]:
            path = os.path.join(d, "repo", ed["file"])
            s = open(path).read()
            if s.count(ed["old"]) != 1:
                status = "SKIPPED (old text found %d times in %s)" % (s.count(ed["old"]), ed["file"])
                break
            open(path, "w").write(s.replace(ed["old"], ed["new"]))
        if status is None:
            b = subprocess.run(["go", "build", "./..."], cwd=d + "/repo", env=env, capture_output=True, text=True)
            if b.returncode != 0:
                status = "BUILD-FAILED " + b.stderr.strip().splitlines()[-1][:160]
        if status is None:
            prop = rule.split("-")[0]
            r = subprocess.run([os.environ.get("KBCHECK", "/verif/bin/kbcheck"), "-prop", prop, "-tier", "quick", "-repo", d + "/repo", "-verif", d + "/verif", "-no-mutants"],
                               env=env, capture_output=True, text=True)
            hits = [l for l in r.stdout.splitlines() if l.startswith("violated: rule=" + rule + " ")]
            others = sorted({l.split()[1] for l in r.stdout.splitlines() if l.startswith("violated: ")})
            if hits:
                status = "DETECTED"
            else:
                status = "MISSED (exit %d; other rules: %s)" % (r.returncode, ",".join(others) or "none")
        print("%-12s %-10s %s -- %s" % (cid, rule, status, c["what"]))
        rows.append((cid, rule, status, c["what"]))
    finally:
        shutil.rmtree(d, ignore_errors=True)
if not sel:
    with open(os.path.join(here, "RESULTS.md"), "w") as f:
        f.write("| control | rule | result | edit |\n|---|---|---|---|\n")
        for r in rows:
            f.write("| %s | %s | %s | %s |\n" % r)
sys.exit(0 if all(r[2] == "DETECTED" or r[2].startswith("SKIPPED") for r in rows) else 1)
