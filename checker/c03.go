package main

import (
	"fmt"
	"go/token"
	"go/types"
	"sort"
	"strings"

	"golang.org/x/tools/go/ssa"
)

func init() { register("C03", checkC03) }

func checkC03(p *Prog, res *Result, tier string) {
	r := p.roles()
	ts := p.tombstone()
	res.Explanation = "The scan algorithm's correctness for all histories (newest version <= R per key, minus tombstones, sorted, limit/more) is a statement about values and is not decided. Decided are: R1 version records are immutable — written only with an allocated revision (C02-R2) and deleted only by the compaction code (who-may-delete: engine deletes are issued only from the scanner package, whose deletion sites run only under the compact flag, C07-R1) — the necessary condition for 'the same answer whenever it is asked again'; R2 tombstone table agreement — the marker written by delete and the markers that the point read, the scan worker and the repair compare stored values with are all the one package variable (copied through Config fields), which only its initialiser writes; R3 in-band marker: because deletions are recognised by value equality, a client value must be rejected if it equals the marker before it reaches a version Put (today it is not: recorded finding); R4 every scan attempt starts from an empty receiver and accumulating receivers reset their state (C13-R6), and the partition borders stay contiguous (C13-R5) — otherwise a retried or partitioned read returns duplicated or missing keys; R5 (armed only while some adapter's iterator can yield keys outside its interval, C11-R3) the point read validates the decoded user key and revision."
	res.NotDecided = "the scan loop (version selection, tombstone suppression), limit+1 / more, byte-exact values other than the marker case, sort order."
	res.Assumptions = []string{"engines iterate a consistent snapshot in key order (C11)"}
	res.rule("C03-R1", "version records are written with allocated revisions only and deleted only by compaction code", 7)
	res.rule("C03-R2", "every comparison of a stored value with a deletion marker, and the marker written by delete, use the one marker variable", 4)
	res.rule("C03-R3", "a client value equal to the deletion marker is rejected before it is stored", 2)
	res.rule("C03-R6", "the internal keys a read is addressed with are well-formed: encoder and decoder agree on the layout and the encoder returns a fresh array (C10-R1)", 5)
	res.rule("C03-R7", "the revision a range answer names is the one its data was read at: one load of the committed revision before the scan feeds header and default read revision (C06-R2), and the etcd translation hands the backend's header on (C16-R9) - asking again at the named revision gives the same answer", 8)
	res.rule("C03-R8", "a key-value handed to a result receiver is one stored record: key, value and revision are all three of the record under the iterator, or all three loop-carried copies of the previous record", 2)
	res.rule("C03-R9", "the scan reads to the end of its partition: engine iterators of the scanner are opened with the constant record limit 0, and the end of the data is io.EOF itself (==), not an error that wraps it", 2)
	res.rule("C03-R10", "Count agrees with Range: the scan worker increments the count it returns exactly where it appends a key to the receiver (nothing decides between the two)", 2)
	res.rule("C03-R12", "in a reading scan every record that passed the revision filter becomes the worker's 'previous record': a way back to the loop head that keeps the carried record is taken only for undecodable keys, expired records, revisions above the read revision, or under the compaction flag", 3)
	res.rule("C03-R11", "no record of a key's history expires on its own except the classified Event create (C17-R5): a deletion marker that the engine removes before the version it hides brings a deleted key back", 8)
	res.rule("C03-R4", "scan attempts start from an empty receiver; partition borders stay contiguous; a failed partition fails the read (C13-R5/R6/R8)", 5)

	res.rule("C03-R13", "the engine snapshot a scan reads from is a snapshot: the TiKV adapter keeps its snapshots at snapshot isolation (C11-R19)", 1)
	{
		sub11 := newResult("C11")
		checkSnapshotIsolationKept(p, sub11, "C11-R19")
		for _, o := range sub11.Obls {
			res.add("C03-R13", o.Rule+" "+o.Construct, o.Status, o.Pos, o.Detail)
		}
	}

	// ---- R1 ----
	sub2 := p.subResult("C02", tier)
	for _, o := range sub2.Obls {
		if o.Rule == "C02-R2" {
			res.add("C03-R1", o.Rule+" "+o.Construct, o.Status, o.Pos, o.Detail)
		}
	}
	for _, f := range p.AllFuncs {
		if f.Synthetic != "" {
			continue
		}
		n := 0
		for _, c := range callsIn(f) {
			if !c.Common().IsInvoke() {
				continue
			}
			m := c.Common().Method
			if m != r.KVDel && m != r.KVDelCurrent && m != r.BWDel && m != r.BWDelCurrent {
				continue
			}
			n++
			construct := fmt.Sprintf("%s issues %s #%d", funcName(f), m.Name(), n)
			pkgPath := ""
			if f.Pkg != nil {
				pkgPath = f.Pkg.Pkg.Path()
			}
			switch {
			case pkgPath == modPath+"/pkg/backend/scanner":
				res.ok("C03-R1", construct, p.pos(c.Pos()), "compaction code (its sites run only under the compact flag, C07-R1)")
			case strings.HasPrefix(pkgPath, modPath+"/pkg/storage/"):
				res.ok("C03-R1", construct, p.pos(c.Pos()), "storage adapter / wrapper forwarding its own interface method")
			default:
				res.bad("C03-R1", construct, p.pos(c.Pos()), "a record is deleted outside the compaction code: a read at an earlier readable revision no longer returns what it returned before")
			}
		}
	}
	sub7 := p.subResult("C07", tier)
	for _, o := range sub7.Obls {
		// .. and a key whose superseded version could not be deleted keeps its deletion marker (C07-R4, C07-R3):
		// otherwise the old version reads as live again
		if o.Rule == "C07-R1" || o.Rule == "C07-R4" || o.Rule == "C07-R3" {
			res.add("C03-R1", o.Rule+" "+o.Construct, o.Status, o.Pos, o.Detail)
		}
	}

	// ---- R2 ----
	// marker written by delete
	nW := 0
	for _, vb := range p.versionedBatches() {
		if ts.is(p.ctxValue(vb.put.Val, vb.ctx)) {
			nW++
			res.ok("C03-R2", vb.b.name()+": deletion marker written", p.pos(vb.put.Call.Pos()), "the marker variable "+ts.global.Name())
		}
	}
	if nW == 0 {
		res.bad("C03-R2", "deletion marker written by delete", "-", "no version Put writes the marker variable: deletes are not recorded with the marker the readers look for")
	}
	if _, ok := p.globalInit(ts.global); ok {
		res.ok("C03-R2", "marker variable "+ts.global.Name()+": written only by its initialiser", p.pos(ts.global.Pos()), "single store in the package initialiser")
	} else {
		res.bad("C03-R2", "marker variable "+ts.global.Name()+": written only by its initialiser", p.pos(ts.global.Pos()), "the deletion marker is reassigned at run time: records written before and after disagree")
	}
	// the fields the marker travels through (configuration copies): every store into one of them is the marker, and
	// every literal of the owning struct sets it - a literal that leaves it out compares stored values with nil, so
	// that reader takes deletion markers for live values
	{
		var flds []*types.Var
		for fv := range ts.fields {
			flds = append(flds, fv)
		}
		sort.Slice(flds, func(i, j int) bool { return flds[i].Pkg().Path()+flds[i].Name() < flds[j].Pkg().Path()+flds[j].Name() })
		owner := func(fv *types.Var) types.Type {
			for _, pk := range p.Pkgs {
				if pk.Types != fv.Pkg() {
					continue
				}
				for _, name := range pk.Types.Scope().Names() {
					tn, ok := pk.Types.Scope().Lookup(name).(*types.TypeName)
					if !ok {
						continue
					}
					st, ok := tn.Type().Underlying().(*types.Struct)
					if !ok {
						continue
					}
					for i := 0; i < st.NumFields(); i++ {
						if st.Field(i) == fv {
							return tn.Type()
						}
					}
				}
			}
			return nil
		}
		for _, fv := range flds {
			T := owner(fv)
			if T == nil {
				continue
			}
			tname := types.TypeString(T, func(pk *types.Package) string { return strings.TrimPrefix(pk.Path(), modPath+"/") })
			for i, st := range p.fields().stores[fv] {
				construct := fmt.Sprintf("%s.%s: store #%d is the deletion marker", tname, fv.Name(), i+1)
				if ts.is(st.Val) {
					res.ok("C03-R2", construct, p.pos(st.Pos()), "the marker variable or a configuration field fed from it")
				} else {
					res.bad("C03-R2", construct, p.pos(st.Pos()), "a configuration field that readers compare stored values with is set to something other than the deletion marker")
				}
			}
			for _, f := range p.AllFuncs {
				if f.Synthetic != "" {
					continue
				}
				n := 0
				for _, b := range f.Blocks {
					for _, ins := range b.Instrs {
						al, ok := ins.(*ssa.Alloc)
						if !ok || !types.Identical(al.Type().(*types.Pointer).Elem(), T) {
							continue
						}
						nStores, sets := 0, false
						for _, ref := range *al.Referrers() {
							if fa, ok := ref.(*ssa.FieldAddr); ok {
								for _, r2 := range *fa.Referrers() {
									if st, ok := r2.(*ssa.Store); ok && st.Addr == ssa.Value(fa) {
										nStores++
										if fieldOf(fa) == fv {
											sets = true
										}
									}
								}
							}
						}
						// a whole-value copy into the variable (cfg := other) carries the field along
						whole := false
						for _, ref := range *al.Referrers() {
							if st, ok := ref.(*ssa.Store); ok && st.Addr == ssa.Value(al) {
								whole = true
							}
						}
						if nStores == 0 || whole {
							continue
						}
						n++
						construct := fmt.Sprintf("%s: literal of %s #%d sets %s", funcName(f), tname, n, fv.Name())
						if sets {
							res.ok("C03-R2", construct, p.pos(al.Pos()), "field set")
						} else {
							res.bad("C03-R2", construct, p.pos(al.Pos()), "this construction of "+tname+" leaves "+fv.Name()+" unset: the reader configured by it compares stored values with nil instead of the deletion marker - deleted keys come back as live values on this path only (its sibling literals set the field)")
						}
					}
				}
			}
		}
	}
	// recognition sites: bytes.Equal / bytes.Compare between a stored value and a package variable / config field
	isStoredValue := func(v ssa.Value) bool {
		return derivesFrom(p, v, func(x ssa.Value) bool {
			c, ok := x.(*ssa.Call)
			if !ok {
				return false
			}
			if r.is(c, r.ItVal) {
				return true
			}
			// results of repo functions returning (val []byte, rev uint64, err error): the point read
			sig := c.Common().Signature()
			if sig.Results().Len() == 3 && errorResultIndex(sig) == 2 {
				if _, isSlice := sig.Results().At(0).Type().Underlying().(*types.Slice); isSlice {
					return true
				}
			}
			return false
		})
	}
	isConfigOrGlobal := func(v ssa.Value) bool {
		v = p.resolveDeep(v)
		if globalLoad(v) != nil {
			return true
		}
		if ld, ok := v.(*ssa.UnOp); ok && ld.Op == token.MUL {
			if fa, ok := ld.X.(*ssa.FieldAddr); ok {
				// a field of a configuration object reached through a pointer - not a field of a local struct variable
				if _, isLocal := fa.X.(*ssa.Alloc); !isLocal {
					return true
				}
			}
		}
		// a byte-string literal: []byte("...")
		if cv, ok := v.(*ssa.Convert); ok {
			if _, isConst := cv.X.(*ssa.Const); isConst {
				return true
			}
		}
		return false
	}
	for _, f := range p.AllFuncs {
		if f.Pkg == nil || !strings.HasPrefix(f.Pkg.Pkg.Path(), modPath+"/pkg/backend") || f.Synthetic != "" {
			continue
		}
		n := 0
		for _, c := range callsIn(f) {
			sc := c.Common().StaticCallee()
			if sc == nil || sc.Pkg == nil || sc.Pkg.Pkg.Path() != "bytes" || (sc.Name() != "Equal" && sc.Name() != "Compare") {
				continue
			}
			a, b := c.Common().Args[0], c.Common().Args[1]
			var other ssa.Value
			switch {
			case isStoredValue(a) && isConfigOrGlobal(b):
				other = b
			case isStoredValue(b) && isConfigOrGlobal(a):
				other = a
			default:
				continue
			}
			n++
			construct := fmt.Sprintf("%s: stored value compared with a marker #%d", funcName(f), n)
			if ts.is(other) {
				res.ok("C03-R2", construct, p.pos(c.Pos()), "compared with the marker variable (directly or through a Config field fed from it)")
			} else {
				res.bad("C03-R2", construct, p.pos(c.Pos()), "a stored value is compared with a byte string that is not the deletion marker written by delete: deleted keys reappear (or live ones vanish) for this reader")
			}
		}
	}

	// ---- R3 ----
	for _, m := range []*types.Func{r.BCreate, r.BUpdate} {
		for _, f := range p.implsOf(m) {
			if f.Pkg != p.ssaPkg("pkg/backend") {
				continue
			}
			construct := funcName(f) + ": client value equal to the deletion marker is rejected"
			guarded := false
			for _, g := range append([]*ssa.Function{f}, localHelpers(f, f.Pkg)...) {
				for _, c := range callsIn(g) {
					sc := c.Common().StaticCallee()
					if sc == nil || sc.Pkg == nil || sc.Pkg.Pkg.Path() != "bytes" || (sc.Name() != "Equal" && sc.Name() != "Compare") {
						continue
					}
					a, b := c.Common().Args[0], c.Common().Args[1]
					if (ts.is(a) && !isStoredValue(b)) || (ts.is(b) && !isStoredValue(a)) {
						guarded = true
					}
				}
			}
			if guarded {
				res.ok("C03-R3", construct, p.pos(f.Pos()), "the request value is compared with the marker before the write")
			} else {
				res.bad("C03-R3", construct, p.pos(f.Pos()), "deletions are recognised by equality of the stored value with the marker, and the client's value reaches the version Put without being compared with it: a value equal to the marker is stored successfully and then reads back as 'deleted'")
			}
		}
	}

	// ---- R4 ----
	sub13 := p.subResult("C13", tier)
	for _, o := range sub13.Obls {
		// (C13-R3: every partition is scanned by exactly one worker, with its own configuration, and joined before the merge)
		if o.Rule == "C13-R5" || o.Rule == "C13-R6" || o.Rule == "C13-R8" || o.Rule == "C13-R3" {
			res.add("C03-R4", o.Rule+" "+o.Construct, o.Status, o.Pos, o.Detail)
		}
	}

	// .. on the snapshot that was taken before the compaction floor was checked, also after a retry (C08-R2/R3)
	{
		sub8 := newResult("C08")
		checkRangeReadsGuarded(p, r, p.compactKey(), sub8)
		for _, o := range sub8.Obls {
			if o.Rule == "C08-R3" || o.Rule == "C08-R2" {
				res.add("C03-R4", o.Rule+" "+o.Construct, o.Status, o.Pos, o.Detail)
			}
		}
	}

	// ---- R9: the scan reads to the end of its partition ----
	checkScanIteratorUnbounded(p, r, res, "C03-R9")
	checkCountMatchesAppends(p, res, "C03-R10")
	checkCarriedRecordAdvances(p, r, res, "C03-R12")
	// a read sees a deletion for as long as it sees the version the deletion hides: deletion markers and index records
	// are written without an engine TTL (C17-R5)
	for _, o := range p.subResult("C17", tier).Obls {
		if o.Rule == "C17-R5" {
			res.add("C03-R11", o.Rule+" "+o.Construct, o.Status, o.Pos, o.Detail)
		}
	}

	// ---- R8: a returned key-value is one stored record ----
	checkResultRecordConsistent(p, r, res, "C03-R8")

	// ---- R7: the revision an answer names is the revision its data was read at ----
	{
		sub16 := newResult("C16")
		checkShimHeaders(p, p.leaderRoles(), sub16, "C16-R9")
		for _, o := range sub16.Obls {
			res.add("C03-R7", o.Rule+" "+o.Construct, o.Status, o.Pos, o.Detail)
		}
		for _, o := range p.subResult("C06", tier).Obls {
			if o.Rule == "C06-R2" {
				res.add("C03-R7", o.Rule+" "+o.Construct, o.Status, o.Pos, o.Detail)
			}
		}
	}

	// ---- R6: the keys a read is addressed with ----
	sub10 := p.subResult("C10", tier)
	for _, o := range sub10.Obls {
		if o.Rule == "C10-R1" {
			res.add("C03-R6", o.Rule+" "+o.Construct, o.Status, o.Pos, o.Detail)
		}
	}

	// ---- R5 (conditional) ----
	sub11 := newResult("C11")
	checkIterBounds(p, r, sub11)
	unbounded := false
	for _, o := range sub11.Obls {
		if o.Status == Violated {
			unbounded = true
		}
	}
	if unbounded {
		res.rule("C03-R5", "the point read validates decoded user key and revision (armed: an adapter's iterator can leave its interval)", 1)
		for _, f := range p.AllFuncs {
			if f.Pkg != p.ssaPkg("pkg/backend") {
				continue
			}
			iter, dec := false, false
			for _, c := range callsIn(f) {
				if r.is(c, r.KVIter) && c.Common().IsInvoke() {
					iter = true
				}
				if r.is(c, r.Decode) && c.Common().IsInvoke() {
					dec = true
				}
			}
			if !iter || !dec {
				continue
			}
			construct := funcName(f) + ": point read validates the decoded key"
			validated := false
			for _, c := range callsIn(f) {
				sc := c.Common().StaticCallee()
				if sc != nil && sc.Pkg != nil && sc.Pkg.Pkg.Path() == "bytes" && (sc.Name() == "Compare" || sc.Name() == "Equal") {
					validated = true
				}
			}
			if validated {
				res.ok("C03-R5", construct, p.pos(f.Pos()), "decoded user key compared with the requested key")
			} else {
				res.bad("C03-R5", construct, p.pos(f.Pos()), "an adapter's iterator can yield a key outside the requested interval and the point read returns it without validation")
			}
		}
	}
}

// checkResultRecordConsistent: what a scan worker hands to its receiver is one stored record: the key, the value and
// the revision of an append are either the three values of the record under the iterator (decoded key, iterator
// value, decoded revision) or the three loop-carried copies of them ("previous record") - never a mixture, which pairs
// the visible value of a key with the revision of another version.
func checkResultRecordConsistent(p *Prog, r *Roles, res *Result, rule string) {
	sp := p.ssaPkg("pkg/backend/scanner")
	appendM := p.ifaceMethod("pkg/backend/scanner", "resultReceiver", "append")
	if appendM == nil {
		res.und(rule, "scanner: receiver append", "-", "interface method not found")
		return
	}
	// class of an operand: +1 the record under the iterator, -1 a loop-carried copy, 0 unknown
	var class func(v ssa.Value, kind int, d int) int // kind: 0 key, 1 revision, 2 value
	class = func(v ssa.Value, kind int, d int) int {
		if d > 6 {
			return 0
		}
		v = resolve(v)
		switch x := v.(type) {
		case *ssa.Extract:
			if c, ok := x.Tuple.(*ssa.Call); ok && r.is(c, r.Decode) && x.Index == kind && kind < 2 {
				return 1
			}
		case *ssa.Call:
			if kind == 2 && r.is(x, r.ItVal) {
				return 1
			}
		case *ssa.Phi:
			carried := false
			for _, e := range x.Edges {
				if e == ssa.Value(x) {
					continue
				}
				if k, ok := e.(*ssa.Const); ok && (k.IsNil() || k.Value == nil || isZeroConst(k)) {
					continue
				}
				switch class(e, kind, d+1) {
				case 1, -1:
					carried = true
				default:
					return 0
				}
			}
			if carried {
				return -1
			}
		}
		return 0
	}
	n := 0
	var fs []*ssa.Function
	for _, f := range p.AllFuncs {
		if f.Pkg == sp && f.Blocks != nil && f.Synthetic == "" {
			fs = append(fs, f)
		}
	}
	sort.Slice(fs, func(i, j int) bool { return funcName(fs[i]) < funcName(fs[j]) })
	for _, f := range fs {
		k := 0
		for _, c := range callsIn(f) {
			if !c.Common().IsInvoke() || c.Common().Method != appendM {
				continue
			}
			args := c.Common().Args
			if len(args) != 3 {
				continue
			}
			ck, cv, cr := class(args[0], 0, 0), class(args[1], 2, 0), class(args[2], 1, 0)
			// the record is kept in one struct variable: three different fields of the same variable
			fieldOfVar := func(v ssa.Value) (ssa.Value, *types.Var) {
				switch x := strip(v).(type) {
				case *ssa.UnOp:
					if fa, ok := x.X.(*ssa.FieldAddr); ok && x.Op == token.MUL {
						return strip(fa.X), fieldOf(fa)
					}
				case *ssa.Field:
					return resolve(x.X), fieldOfField(x)
				}
				return nil, nil
			}
			if b0, f0 := fieldOfVar(args[0]); b0 != nil {
				b1, f1 := fieldOfVar(args[1])
				b2, f2 := fieldOfVar(args[2])
				if b1 == b0 && b2 == b0 && f0 != f1 && f1 != f2 && f0 != f2 {
					k++
					n++
					res.ok(rule, fmt.Sprintf("%s: result record #%d is one stored record", funcName(f), k), p.pos(c.Pos()), "three fields of one record variable")
					continue
				}
			}
			if ck == 0 && cv == 0 && cr == 0 {
				continue // a forwarding receiver (merge), not the scan loop
			}
			k++
			n++
			construct := fmt.Sprintf("%s: result record #%d is one stored record", funcName(f), k)
			name := map[int]string{1: "current", -1: "previous", 0: "unknown"}
			// three loop-carried copies must be carried together: on every incoming edge all three keep their value,
			// or all three take the current record, or all three are the initial zero
			if ck == -1 && cv == -1 && cr == -1 {
				pk, ok1 := resolve(args[0]).(*ssa.Phi)
				pv, ok2 := resolve(args[1]).(*ssa.Phi)
				pr, ok3 := resolve(args[2]).(*ssa.Phi)
				together := ok1 && ok2 && ok3 && pk.Block() == pv.Block() && pv.Block() == pr.Block()
				if together {
					cat := func(phi *ssa.Phi, e ssa.Value, kind int) int {
						switch {
						case e == ssa.Value(phi):
							return 0
						case class(e, kind, 0) == 1:
							return 1
						}
						if k, ok := e.(*ssa.Const); ok && (k.IsNil() || k.Value == nil || isZeroConst(k)) {
							return 2
						}
						return 3
					}
					for i := range pk.Edges {
						a, b, c3 := cat(pk, pk.Edges[i], 0), cat(pv, pv.Edges[i], 2), cat(pr, pr.Edges[i], 1)
						if a != b || b != c3 || a == 3 {
							together = false
						}
					}
				}
				if !together {
					res.bad(rule, construct, p.pos(c.Pos()), "key, value and revision handed to the receiver are loop-carried, but not carried together (one of them is the running copy of the record under the iterator, another the copy of the previous record): a key is returned with the value of one version and the revision of another")
					continue
				}
			}
			if ck != 0 && ck == cv && cv == cr {
				res.ok(rule, construct, p.pos(c.Pos()), "key, value and revision of the "+name[ck]+" record")
			} else {
				res.bad(rule, construct, p.pos(c.Pos()), fmt.Sprintf("the record handed to the receiver mixes the %s key, the %s value and the %s revision: a key is returned with the value of one version and the revision of another (a modification revision above the header, or one that belongs to a version the read does not see)", name[ck], name[cv], name[cr]))
			}
		}
	}
	if n == 0 {
		res.und(rule, "scanner: result records", "-", "no append of a scanned record found")
	}
}

// checkScanIteratorUnbounded: the scan worker decides itself when it has enough (the receiver's needMore), because only
// it knows which records make up a key: the engine's iterator limit counts records - an index record and every version
// - not keys. Every engine iterator the scanner package opens is opened with the constant limit 0.
// And the worker tells the end of its partition from a failure by identity with io.EOF: an engine error that merely
// wraps io.EOF (a broken stream) is not the end of the data.
func checkScanIteratorUnbounded(p *Prog, r *Roles, res *Result, rule string) {
	sp := p.ssaPkg("pkg/backend/scanner")
	n := 0
	var fs []*ssa.Function
	for _, f := range p.AllFuncs {
		if f.Pkg == sp && f.Blocks != nil && f.Synthetic == "" {
			fs = append(fs, f)
		}
	}
	sort.Slice(fs, func(i, j int) bool { return funcName(fs[i]) < funcName(fs[j]) })
	for _, f := range fs {
		k := 0
		for _, c := range callsIn(f) {
			if !c.Common().IsInvoke() || !r.is(c, r.KVIter) {
				continue
			}
			k++
			n++
			construct := fmt.Sprintf("%s: iterator #%d is opened without a record limit", funcName(f), k)
			lim := argForSigParam(c, 4)
			if isZeroConst(resolve(lim)) {
				res.ok(rule, construct, p.pos(c.Pos()), "limit operand is the constant 0")
			} else {
				res.bad(rule, construct, p.pos(c.Pos()), "the scan hands the engine a record limit: the limit counts records (index record and every version), not keys, so keys with several versions exhaust it and the scan takes the end of the budget for the end of the range - fewer keys with more=false, or a key at an old version; the in-process engine ignores the operand")
			}
		}
		// end-of-data test
		j := 0
		for _, b := range f.Blocks {
			for _, ins := range b.Instrs {
				call, ok := ins.(*ssa.Call)
				if !ok {
					continue
				}
				sc := call.Common().StaticCallee()
				if sc == nil || sc.Pkg == nil || sc.Name() != "Is" || (sc.Pkg.Pkg.Path() != "errors" && sc.Pkg.Pkg.Path() != "github.com/pkg/errors") || len(call.Common().Args) != 2 {
					continue
				}
				g := globalLoad(call.Common().Args[1])
				if g == nil || g.Pkg == nil || g.Pkg.Pkg.Path() != "io" || g.Name() != "EOF" {
					continue
				}
				j++
				res.bad(rule, fmt.Sprintf("%s: end of data #%d is io.EOF itself", funcName(f), j), p.pos(call.Pos()), "the end of the partition is recognised with errors.Is(err, io.EOF): an engine failure in the middle of the scan whose error wraps io.EOF (a broken stream) is taken for the end of the data, and the part scanned so far is returned as the complete answer")
			}
		}
	}
	if n == 0 {
		res.und(rule, "scanner: engine iterators", "-", "none found")
	}
}

// checkCountMatchesAppends (C03-R10): Count is the number of keys Range returns because both come from the same
// worker loop - the worker counts a key exactly where it hands it to the receiver. Every increment of the count the
// worker returns sits next to an append (same basic block: nothing decides between the two), and every append next to
// an increment.
func checkCountMatchesAppends(p *Prog, res *Result, rule string) {
	appendM := p.ifaceMethod("pkg/backend/scanner", "resultReceiver", "append")
	sp := p.ssaPkg("pkg/backend/scanner")
	n := 0
	for _, f := range p.AllFuncs {
		if f.Pkg != sp || f.Blocks == nil || f.Signature.Results().Len() == 0 {
			continue
		}
		if bt, ok := f.Signature.Results().At(0).Type().Underlying().(*types.Basic); !ok || bt.Kind() != types.Int {
			continue
		}
		var appends []ssa.CallInstruction
		for _, c := range callsIn(f) {
			if c.Common().IsInvoke() && c.Common().Method == appendM {
				appends = append(appends, c)
			}
		}
		if len(appends) == 0 {
			continue
		}
		// the increments that feed the returned count
		incs := map[*ssa.BinOp]bool{}
		seen := map[ssa.Value]bool{}
		var walk func(v ssa.Value, d int)
		walk = func(v ssa.Value, d int) {
			v = resolve(v)
			if seen[v] || d > 12 {
				return
			}
			seen[v] = true
			switch x := v.(type) {
			case *ssa.Phi:
				for _, e := range x.Edges {
					walk(e, d+1)
				}
			case *ssa.BinOp:
				if x.Op == token.ADD {
					if k, ok := constInt(x.Y); ok && k == 1 {
						incs[x] = true
						walk(x.X, d+1)
					}
				}
			}
		}
		for _, b := range f.Blocks {
			if ret, ok := b.Instrs[len(b.Instrs)-1].(*ssa.Return); ok && len(ret.Results) > 0 {
				walk(ret.Results[0], 0)
			}
		}
		if len(incs) == 0 {
			// the count is kept in a field of the worker: the object outlives the attempt (a failed attempt is retried
			// on the same worker), so the field must be reset where the attempt starts
			for _, b := range f.Blocks {
				ret, ok := b.Instrs[len(b.Instrs)-1].(*ssa.Return)
				if !ok || len(ret.Results) == 0 {
					continue
				}
				for _, v := range resolveAll(ret.Results[0]) {
					ld, ok := v.(*ssa.UnOp)
					if !ok || ld.Op != token.MUL {
						continue
					}
					fa, ok := ld.X.(*ssa.FieldAddr)
					if !ok {
						continue
					}
					reset := false
					for _, b2 := range f.Blocks {
						for _, ins := range b2.Instrs {
							st, ok := ins.(*ssa.Store)
							if !ok {
								continue
							}
							fa2, ok := st.Addr.(*ssa.FieldAddr)
							if ok && fieldOf(fa2) == fieldOf(fa) && isZeroConst(st.Val) && loopOf(b2) == nil && b2.Dominates(appends[0].Block()) {
								reset = true
							}
						}
					}
					if !reset {
						n++
						res.bad(rule, fmt.Sprintf("%s: the returned count belongs to this attempt", funcName(f)), p.pos(ret.Pos()), "the count that is returned is kept in field "+fieldOf(fa).Name()+" of the worker, which is not reset where the attempt starts: a worker that is retried after a failed attempt adds the keys of the new attempt to those it counted before, and Count answers more keys than Range returns")
					}
				}
			}
			continue
		}
		for inc := range incs {
			n++
			construct := fmt.Sprintf("%s: count increment #%d is paired with an append", funcName(f), n)
			paired := false
			for _, a := range appends {
				if a.Block() == inc.Block() {
					paired = true
				}
			}
			if paired {
				res.ok(rule, construct, p.pos(inc.Pos()), "same basic block as receiver.append")
			} else {
				res.bad(rule, construct, p.pos(inc.Pos()), "the worker counts a key on a path on which it does not hand it to the receiver (or under a different condition): Count and Range at one revision disagree - a deleted key that is the last of the range is counted")
			}
		}
		for i, a := range appends {
			construct := fmt.Sprintf("%s: append #%d is counted", funcName(f), i+1)
			paired := false
			for inc := range incs {
				if a.Block() == inc.Block() {
					paired = true
				}
			}
			if paired {
				res.ok(rule, construct, p.pos(a.Pos()), "same basic block as the count increment")
			} else {
				res.bad(rule, construct, p.pos(a.Pos()), "the worker hands a key to the receiver without counting it: Count is smaller than the number of keys Range returns")
			}
		}
	}
	if n == 0 {
		res.und(rule, "scan worker: count", "-", "no function of the scanner returns a count that it increments next to receiver.append")
	}
}

// checkCarriedRecordAdvances (C03-R12): the scan worker decides what to do with a record when it sees the next one, so
// it carries "the previous record" from one iteration to the next. In a reading scan every record that passed the
// revision filter must become that previous record: a way back to the loop head that leaves the carried record as it
// was is taken only where the key did not decode, where the expiry helper said "expired", where the record's revision
// is above the read revision, or under the compaction flag. (A `continue` that a reading scan can take elsewhere makes
// the worker compare the next key with a record two steps back: the visible key before a later-deleted one is
// returned twice.)
func checkCarriedRecordAdvances(p *Prog, r *Roles, res *Result, rule string) {
	appendM := p.ifaceMethod("pkg/backend/scanner", "resultReceiver", "append")
	sp := p.ssaPkg("pkg/backend/scanner")
	n := 0
	for _, f := range p.AllFuncs {
		if f.Pkg != sp || f.Blocks == nil {
			continue
		}
		var carried *ssa.Phi
		var dc *ssa.Call
		for _, c := range callsIn(f) {
			if c.Common().IsInvoke() && c.Common().Method == appendM && len(c.Common().Args) >= 3 {
				if phi, ok := resolve(c.Common().Args[2]).(*ssa.Phi); ok && loopOf(phi.Block()) != nil {
					carried = phi
				}
			}
			if cc, ok := c.(*ssa.Call); ok && r.is(c, r.Decode) {
				dc = cc
			}
		}
		// the carried record may also be kept in one struct variable (a cell): a way back advances it if a store into
		// the cell dominates it within the loop
		var cell *ssa.Alloc
		if carried == nil && dc != nil {
			for _, c := range callsIn(f) {
				if c.Common().IsInvoke() && c.Common().Method == appendM && len(c.Common().Args) >= 3 {
					if ld, ok := resolve(c.Common().Args[2]).(*ssa.UnOp); ok && ld.Op == token.MUL {
						if fa, ok := ld.X.(*ssa.FieldAddr); ok {
							if al, ok := fa.X.(*ssa.Alloc); ok && al.Parent() == f {
								cell = al
							}
						}
					}
				}
			}
		}
		if (carried == nil && cell == nil) || dc == nil {
			continue
		}
		if carried == nil {
			lp := loopOf(dc.Block())
			if lp == nil {
				continue
			}
			var header *ssa.BasicBlock
			for hb := range lp {
				for _, pr := range hb.Preds {
					if !lp[pr] {
						header = hb
					}
				}
			}
			if header == nil {
				continue
			}
			var stores []*ssa.Store
			for _, ref := range *cell.Referrers() {
				switch x := ref.(type) {
				case *ssa.Store:
					if x.Addr == ssa.Value(cell) && lp[x.Block()] {
						stores = append(stores, x)
					}
				case *ssa.FieldAddr:
					for _, r2 := range *x.Referrers() {
						if st, ok := r2.(*ssa.Store); ok && st.Addr == ssa.Value(x) && lp[st.Block()] {
							stores = append(stores, st)
						}
					}
				}
			}
			exs := extractsOf(dc)
			k := 0
			for _, pred := range header.Preds {
				if !lp[pred] {
					continue
				}
				advanced := false
				for _, st := range stores {
					if st.Block() == pred || st.Block().Dominates(pred) {
						advanced = true
					}
				}
				if advanced {
					continue
				}
				k++
				n++
				construct := fmt.Sprintf("%s: way back to the loop head #%d that keeps the carried record", funcName(f), k)
				facts := dominatingFacts(pred)
				if ifOf(pred) != nil {
					for si, sc := range pred.Succs {
						if sc == header && pred.Succs[1-si] != header {
							facts = append(facts, expandFact(edgeFact(edge{pred, si}), 0)...)
						}
					}
				}
				ok := false
				for _, cf := range facts {
					if carriedExcuse(cf, exs, sp) {
						ok = true
					}
				}
				at := firstPositioned(pred)
				pos := "-"
				if at != nil {
					pos = p.pos(at.Pos())
				}
				if ok {
					res.ok(rule, construct, pos, "undecodable key, expired record, revision above the read revision, or compaction only")
				} else {
					res.bad(rule, construct, pos, "a reading scan can go on to the next record without making the current one the 'previous record': the next key is compared with a record two steps back, and the visible key before it is appended twice")
				}
			}
			continue
		}
		lp := loopOf(carried.Block())
		exs := extractsOf(dc)
		excused := func(cf condFact) bool { return carriedExcuse(cf, exs, sp) }
		k := 0
		for i, pred := range carried.Block().Preds {
			if !lp[pred] {
				continue
			}
			if resolve(carried.Edges[i]) != ssa.Value(carried) {
				continue // the record advances on this way back
			}
			k++
			n++
			construct := fmt.Sprintf("%s: way back to the loop head #%d that keeps the carried record", funcName(f), k)
			facts := dominatingFacts(pred)
			if ifOf(pred) != nil {
				for si, sc := range pred.Succs {
					if sc == carried.Block() && pred.Succs[1-si] != carried.Block() {
						facts = append(facts, expandFact(edgeFact(edge{pred, si}), 0)...)
					}
				}
			}
			ok := false
			for _, cf := range facts {
				if excused(cf) {
					ok = true
				}
			}
			at := firstPositioned(pred)
			pos := "-"
			if at != nil {
				pos = p.pos(at.Pos())
			}
			if ok {
				res.ok(rule, construct, pos, "undecodable key, expired record, revision above the read revision, or compaction only")
			} else {
				res.bad(rule, construct, pos, "a reading scan can go on to the next record without making the current one the 'previous record' (the way back is not limited to undecodable keys, expired records, revisions above the read revision or compaction): the next key is compared with a record two steps back, and the visible key before it is appended twice - a range read at an older revision returns a key twice, a limited one cuts at the wrong place")
			}
		}
	}
	if n == 0 {
		res.und(rule, "scan worker: carried record", "-", "no loop-carried record that is appended to the receiver found")
	}
}

// carriedExcuse: the facts under which the scan loop may go on without advancing its carried record.
func carriedExcuse(cf condFact, exs map[int]ssa.Value, sp *ssa.Package) bool {
	// (iv) the compaction flag
	if ld, ok := resolve(cf.Raw).(*ssa.UnOp); ok && ld.Op == token.MUL && cf.Want {
		if fa, ok := ld.X.(*ssa.FieldAddr); ok {
			if bt, ok := fieldOf(fa).Type().Underlying().(*types.Basic); ok && bt.Kind() == types.Bool {
				return true
			}
		}
	}
	// (ii) a helper of the package that answered true (expired)
	if ex, ok := resolve(cf.Raw).(*ssa.Extract); ok && cf.Want {
		if c, ok := ex.Tuple.(*ssa.Call); ok && c.Common().StaticCallee() != nil && c.Common().StaticCallee().Pkg == sp {
			return true
		}
	}
	if cf.Call != nil && cf.Want && cf.Call.Common().StaticCallee() != nil && cf.Call.Common().StaticCallee().Pkg == sp {
		return true
	}
	if cf.X == nil {
		return false
	}
	x, y := resolve(cf.X), resolve(cf.Y)
	// (i) the key did not decode
	if exs[2] != nil && x == exs[2] && isNilConst(y) && ((cf.Op == token.NEQ && cf.Want) || (cf.Op == token.EQL && !cf.Want)) {
		return true
	}
	// (iii) above the read revision
	if exs[1] != nil && x == exs[1] && ((cf.Op == token.GTR && cf.Want) || (cf.Op == token.LEQ && !cf.Want)) {
		if ld, ok := y.(*ssa.UnOp); ok && ld.Op == token.MUL {
			if _, ok := ld.X.(*ssa.FieldAddr); ok {
				return true
			}
		}
	}
	return false
}
