package main

import (
	"fmt"
	"go/token"
	"go/types"
	"sort"
	"strings"

	"golang.org/x/tools/go/ssa"
)

func init() { register("C05", checkC05) }

// watchRoles resolves the functions of the watch pipeline by what they do.
type watchRoles struct {
	hubType       *types.Named
	subsField     *types.Var
	register      *ssa.Function // inserts into the subscriber map
	remover       *ssa.Function // deletes from the subscriber map and closes the channel
	fanout        *ssa.Function // non-blocking send over the subscriber map
	hubLoop       *ssa.Function // receives from the broadcast channel and (directly or through fanout) fans out
	cacheAdd      *ssa.Function // called by the sequencer with the new event
	cacheAddBatch bool          // .. or with the whole batch
	cacheFind     *ssa.Function // other method of the cache type, called by Watch
	watchImpl     *ssa.Function // Backend.Watch implementation
	forwarder     *ssa.Function // per-watch goroutine started by Watch
	sequencer     *ssa.Function
	bcastField    *types.Var // field holding the broadcast channel
}

func isEventSliceChan(t types.Type) bool {
	ch, ok := t.Underlying().(*types.Chan)
	if !ok {
		return false
	}
	return strings.Contains(ch.Elem().String(), "Event") || strings.Contains(ch.Elem().String(), "WatchResponse")
}

func (p *Prog) watchRoles() *watchRoles {
	r := p.roles()
	w := &watchRoles{sequencer: r.Sequencer}
	bp := p.ssaPkg("pkg/backend")
	// hub: struct type in pkg/backend with a field map[chan ...]struct{}
	for _, m := range bp.Members {
		t, ok := m.(*ssa.Type)
		if !ok {
			continue
		}
		n, _ := t.Type().(*types.Named)
		st, ok := t.Type().Underlying().(*types.Struct)
		if !ok || n == nil {
			continue
		}
		for i := 0; i < st.NumFields(); i++ {
			if mt, ok := st.Field(i).Type().Underlying().(*types.Map); ok {
				if _, isChan := mt.Key().Underlying().(*types.Chan); isChan {
					w.hubType, w.subsField = n, st.Field(i)
				}
			}
		}
	}
	if w.hubType == nil {
		brokenf("watch roles: no hub type (struct with a map keyed by subscriber channels) in pkg/backend")
	}
	for _, f := range p.AllFuncs {
		if f.Pkg != bp || f.Synthetic != "" {
			continue
		}
		hasUpdate, hasDelete, hasNBSend := false, false, false
		for _, b := range f.Blocks {
			for _, ins := range b.Instrs {
				switch x := ins.(type) {
				case *ssa.MapUpdate:
					if isSubsMap(x.Map, w.subsField) {
						hasUpdate = true
					}
				case *ssa.Call:
					if bi, ok := x.Common().Value.(*ssa.Builtin); ok && bi.Name() == "delete" && isSubsMap(x.Common().Args[0], w.subsField) {
						hasDelete = true
					}
				case *ssa.Select:
					if !x.Blocking {
						for _, s := range x.States {
							if s.Dir == types.SendOnly && isEventSliceChan(s.Chan.Type()) {
								hasNBSend = true
							}
						}
					}
				}
			}
		}
		if hasDelete {
			w.remover = f
		} else if hasUpdate {
			w.register = f
		}
		// the fan-out is the non-blocking sender that ranges over the subscriber map; any other non-blocking send on an
		// event channel is a matter for R4, not for role resolution
		readsSubs := false
		for _, b := range f.Blocks {
			for _, ins := range b.Instrs {
				if rg, ok := ins.(*ssa.Range); ok && isSubsMap(rg.X, w.subsField) {
					readsSubs = true
				}
			}
		}
		if hasNBSend && readsSubs {
			if w.fanout != nil && w.fanout != f {
				brokenf("watch roles: two functions with a non-blocking send over the subscriber map (%s, %s)", funcName(w.fanout), funcName(f))
			}
			w.fanout = f
		}
	}
	if w.register == nil || w.remover == nil || w.fanout == nil {
		brokenf("watch roles: registration / removal / fan-out functions of the hub not all found")
	}
	// hub loop: the function that receives from the broadcast channel in a loop and (transitively) fans out
	w.hubLoop = w.fanout
	for _, f := range p.AllFuncs {
		if f.Pkg != bp || f.Synthetic != "" || f == w.fanout {
			continue
		}
		recv := false
		for _, b := range f.Blocks {
			for _, ins := range b.Instrs {
				if u, ok := ins.(*ssa.UnOp); ok && u.Op == token.ARROW && isEventSliceChan(u.X.Type()) {
					recv = true
				}
			}
		}
		if !recv {
			continue
		}
		for _, c := range callsIn(f) {
			if c.Common().StaticCallee() == w.fanout {
				w.hubLoop = f
			}
		}
	}
	// cache add: call in the sequencer whose argument is the proto.Event built there
	evType := p.namedType("github.com/kubewharf/kubebrain-client/api/v2rpc", "Event")
	for _, ch := range r.SeqRegion.chainsIn(p, func(ins ssa.Instruction) bool {
		c, ok := ins.(ssa.CallInstruction)
		if !ok {
			return false
		}
		sc := c.Common().StaticCallee()
		if sc == nil || sc.Signature.Recv() == nil || len(c.Common().Args) != 2 || sc.Signature.Results().Len() != 0 {
			return false
		}
		return types.Identical(c.Common().Args[1].Type(), types.NewPointer(evType))
	}) {
		w.cacheAdd = ch.target.(ssa.CallInstruction).Common().StaticCallee()
	}
	if w.cacheAdd == nil {
		// the batch form: a method that is handed the slice of events
		for _, ch := range r.SeqRegion.chainsIn(p, func(ins ssa.Instruction) bool {
			c, ok := ins.(ssa.CallInstruction)
			if !ok {
				return false
			}
			sc := c.Common().StaticCallee()
			if sc == nil || sc.Signature.Recv() == nil || len(c.Common().Args) != 2 || sc.Signature.Results().Len() != 0 || sc.Pkg != bp {
				return false
			}
			return types.Identical(c.Common().Args[1].Type(), types.NewSlice(types.NewPointer(evType)))
		}) {
			w.cacheAdd = ch.target.(ssa.CallInstruction).Common().StaticCallee()
			w.cacheAddBatch = true
		}
	}
	if w.cacheAdd == nil {
		brokenf("watch roles: cache insert of the sequencer not found")
	}
	impls := p.implsOf(r.BWatch)
	for _, f := range impls {
		if f.Pkg == bp {
			w.watchImpl = f
		}
	}
	if w.watchImpl == nil {
		brokenf("watch roles: Backend.Watch implementation not found")
	}
	cacheRecv := w.cacheAdd.Signature.Recv().Type()
	for _, wf := range withAnon(w.watchImpl) {
		for _, c := range callsIn(wf) {
			sc := c.Common().StaticCallee()
			if sc != nil && sc.Signature.Recv() != nil && types.Identical(sc.Signature.Recv().Type(), cacheRecv) && sc != w.cacheAdd {
				w.cacheFind = sc
			}
			if g, ok := c.(*ssa.Go); ok {
				if sc := g.Common().StaticCallee(); sc != nil {
					w.forwarder = sc
				}
			}
		}
	}
	if w.cacheFind == nil || w.forwarder == nil {
		brokenf("watch roles: cache lookup / per-watch forwarder not found in %s", funcName(w.watchImpl))
	}
	// broadcast channel field: the channel the sequencer sends on
	// (in the sequencer goroutine's function or a helper it calls)
	for _, ch := range r.SeqRegion.chainsIn(p, func(ins ssa.Instruction) bool { _, ok := ins.(*ssa.Send); return ok }) {
		s := ch.target.(*ssa.Send)
		if ld, ok := resolve(s.Chan).(*ssa.UnOp); ok {
			if fa, ok := ld.X.(*ssa.FieldAddr); ok && isEventSliceChan(fieldOf(fa).Type()) {
				w.bcastField = fieldOf(fa)
			}
		}
	}
	if w.bcastField == nil {
		brokenf("watch roles: broadcast channel of the sequencer not found")
	}
	return w
}

func isSubsMap(v ssa.Value, f *types.Var) bool {
	ld, ok := resolve(v).(*ssa.UnOp)
	if !ok {
		return false
	}
	fa, ok := ld.X.(*ssa.FieldAddr)
	return ok && fieldOf(fa) == f
}

// derivesFrom reports whether the backward slice of v (through arithmetic, phis, cells, conversions, field loads)
// contains an instruction accepted by pred.
func derivesFrom(p *Prog, v ssa.Value, pred func(ssa.Value) bool) bool {
	seen := map[ssa.Value]bool{}
	var rec func(v ssa.Value, d int) bool
	rec = func(v ssa.Value, d int) bool {
		if v == nil || seen[v] || d > 40 {
			return false
		}
		seen[v] = true
		if pred(v) {
			return true
		}
		for _, x := range resolveAll(v) {
			if x != v && rec(x, d+1) {
				return true
			}
		}
		switch x := v.(type) {
		case *ssa.BinOp:
			return rec(x.X, d+1) || rec(x.Y, d+1)
		case *ssa.UnOp:
			return rec(x.X, d+1)
		case *ssa.Convert:
			return rec(x.X, d+1)
		case *ssa.ChangeType:
			return rec(x.X, d+1)
		case *ssa.FieldAddr:
			return rec(x.X, d+1)
		case *ssa.Field:
			return rec(x.X, d+1)
		case *ssa.Extract:
			return rec(x.Tuple, d+1)
		case *ssa.Phi:
			for _, e := range x.Edges {
				if rec(e, d+1) {
					return true
				}
			}
		case *ssa.Call:
			// pure selection helpers (min/max) and builtins pass their operands through
			pass := false
			if _, ok := x.Common().Value.(*ssa.Builtin); ok {
				pass = true
			} else if sc := x.Common().StaticCallee(); sc != nil && (isMinFn(sc) || isMaxFn(sc)) {
				pass = true
			}
			if pass {
				for _, a := range x.Common().Args {
					if rec(a, d+1) {
						return true
					}
				}
			}
		}
		return false
	}
	return rec(v, 0)
}

func checkC05(p *Prog, res *Result, tier string) {
	r := p.roles()
	w := p.watchRoles()
	res.Explanation = "Ordering and hand-over facts of the watch pipeline: R1 Watch registers with the hub before it reads the event cache, and the revision from which the live stream resumes derives from the request or from that cache snapshot, never from a later read of the committed revision; R2 in the sequencer every event placed in the outgoing batch is inserted into the cache before the batch can be broadcast, only for valid slots; R3 the hub's fan-out removes a subscriber whose buffer is full synchronously (no `go` removal) before it can receive the next batch; R4 no other hop of the per-watch pipeline drops batches (non-blocking sends exist only in the hub); R5 single producers: one sequencer goroutine, one hub goroutine, the broadcast channel is sent to only by the sequencer; R6 the per-watch forwarder closes its output on every return."
	res.NotDecided = "ring arithmetic of the event cache (wrap-around slicing, binary search), the revision/prefix filters, event payloads, delivery under all schedules."
	res.Assumptions = []string{"Go channel semantics; sync.RWMutex"}
	res.rule("C05-R1", "subscribe before cache read; the resume revision of the live stream derives from the request or the cache snapshot only", 5)
	res.rule("C05-R2", "cache insert precedes broadcast for every batched event, and happens only for valid slots", 2)
	res.rule("C05-R3", "a slow subscriber is removed synchronously by the fan-out before the next batch", 2)
	res.rule("C05-R4", "non-blocking sends on event channels exist only in the hub fan-out", 1)
	res.rule("C05-R5", "one goroutine each for sequencer and hub; only the sequencer sends on the broadcast channel", 3)
	res.rule("C05-R6", "the per-watch forwarder closes its output channel on every return", 1)
	res.rule("C05-R12", "one party per end of a watch's channels: the hub never receives from a subscriber channel, Watch starts one consumer of it, and once a goroutine sending on the result channel is started nothing else sends on it (the replay is synchronous and precedes the forwarder)", 3)
	res.rule("C05-R13", "the per-watch forwarder filters every batch it receives with the revision it was started with (the parameter itself on every path; no receive-to-send path avoids the filter)", 1)
	res.rule("C05-R14", "a watch is served only by the node that sequences the writes: every Watch call of the server layer is dominated by IsLeader()==true (C18-R2) - a follower's own event history is empty, its watch stays open and silent", 2)
	res.rule("C05-R15", "no dead error guard: no branch tests an error variable that is nil on every path (an assignment turned into a shadowing :=): the test that stops a stream after a failed send must be able to fire", 1)
	res.rule("C05-R16", "the event cache is searched and copied at logical positions: whatever is handed to the ring's wrap function is the ring's start or end counter plus or minus an offset", 6)
	res.rule("C05-R17", "revisions are not positions: no position into the event cache and no size of a replay is computed from a revision by arithmetic (revisions are not dense); they meet only in comparisons", 8)
	res.rule("C05-R18", "events are filtered, ordered and searched by their own revision (Event.Revision), never by the revision of the key-value they carry (for a DELETE: the removed version)", 1)
	res.rule("C05-R21", "a watch continues exactly behind what it replayed from the event cache: the live subscription starts at the requested revision on the paths without a replay and at the newest replayed revision + 1 on the paths with one", 3)
	res.rule("C05-R20", "the etcd shim acknowledges the creation of a watch before it starts the goroutine that sends the events of that watch: the Send of the Created response dominates every go statement of Start", 2)
	res.rule("C05-R19", "an answer of the event cache is one snapshot: a method of the ring takes the ring's lock at most once per call, directly or through the methods it calls", 3)
	res.rule("C05-R11", "a delete hands the previous value and revision it read to the event sink on every path after the commit, whatever the commit returned: the DELETE event of a write with unknown outcome (delivered after the repair) still names what was deleted", 2)
	res.rule("C05-R10", "a forwarder start guarded by a comparison of the requested with the committed revision uses the strict form (requested > committed)", 1)
	res.rule("C05-R9", "a slice handed over a channel (a broadcast batch, a streamed response) is not written by the sender afterwards: no reuse of a once-allocated buffer, no reset of a field buffer by re-slicing", 2)
	res.rule("C05-R8", "event batches are shared between subscribers (and with the cache): no function of pkg/backend appends onto a re-slice of, or stores into, an event slice it received as a parameter or from a channel", 3)
	res.rule("C05-R7", "a write that was applied but reported with unknown outcome is queued for repair (errors.Is test, before commit), otherwise it is readable but never delivered to watchers (C09-R1)", 3)
	res.Stats["roles"] = map[string]string{"register": funcName(w.register), "remover": funcName(w.remover), "fanout": funcName(w.fanout),
		"cacheAdd": funcName(w.cacheAdd), "cacheFind": funcName(w.cacheFind), "watch": funcName(w.watchImpl), "forwarder": funcName(w.forwarder)}

	// ---- R1 ----
	var regCall, findCall *ssa.Call
	for _, c := range callsIn(w.watchImpl) {
		cc, ok := c.(*ssa.Call)
		if !ok {
			continue
		}
		switch cc.Common().StaticCallee() {
		case w.register:
			regCall = cc
		case w.cacheFind:
			findCall = cc
		}
	}
	if regCall == nil || findCall == nil {
		res.bad("C05-R1", funcName(w.watchImpl)+": subscribe before cache read", p.pos(w.watchImpl.Pos()), "hub registration or cache lookup is missing from Watch")
	} else if instrDominates(regCall, findCall) {
		res.ok("C05-R1", funcName(w.watchImpl)+": subscribe before cache read", p.pos(regCall.Pos()), "hub registration dominates the cache lookup")
	} else {
		res.bad("C05-R1", funcName(w.watchImpl)+": subscribe before cache read", p.pos(findCall.Pos()), "the event cache is read before (or not always after) the watcher is registered with the hub: events broadcast in between are in neither source")
	}
	// resume revision of each forwarder start
	revIdx := -1
	for i, prm := range w.forwarder.Params {
		if b, ok := prm.Type().Underlying().(*types.Basic); ok && b.Kind() == types.Uint64 {
			revIdx = i
		}
	}
	if revIdx < 0 {
		res.und("C05-R1", funcName(w.forwarder), "-", "revision parameter of the forwarder not found")
	}
	// the starts of the per-watch forwarder: go statements in Watch or in a function literal of Watch that it calls;
	// the revision argument is traced to the frame of Watch along each call chain
	inWatch := func(g *ssa.Function) bool {
		for g.Parent() != nil {
			g = g.Parent()
		}
		return g == w.watchImpl
	}
	var starts []callChain
	if revIdx >= 0 {
		starts = enumerateChains(p, w.watchImpl, func(ins ssa.Instruction) bool {
			g, ok := ins.(*ssa.Go)
			return ok && g.Common().StaticCallee() == w.forwarder
		}, inWatch, 3)
	}
	n := 0
	for _, ch := range starts {
		g := ch.target.(*ssa.Go)
		n++
		construct := fmt.Sprintf("%s: resume revision of forwarder start #%d", funcName(w.watchImpl), n)
		arg := ch.up(g.Common().Args[revIdx], len(ch.fns)-1)
		tainted := derivesFrom(p, arg, func(v ssa.Value) bool {
			c, ok := v.(*ssa.Call)
			return ok && (p.isCallToMethod(c, r.TSOGetRevision) || p.isCallToMethod(c, r.BGetCur))
		})
		if tainted {
			res.bad("C05-R1", construct, p.pos(g.Pos()), "the live stream resumes from a revision derived from a read of the committed revision made after the cache snapshot: a write committed between the cache read and that read is in neither the replay nor the live stream ("+ch.String()+")")
			continue
		}
		res.ok("C05-R1", construct, p.pos(g.Pos()), "derives from the request revision / the cache snapshot only")
	}
	// when cached events are replayed the resume bound must come from the cache result (newest + 1)
	for _, ch := range starts {
		g := ch.target.(*ssa.Go)
		if findCall == nil {
			continue
		}
		top := ssa.Instruction(g)
		if len(ch.calls) > 0 {
			top = ch.calls[0].(ssa.Instruction)
		}
		if !findCall.Block().Dominates(top.Block()) {
			continue
		}
		arg := ch.up(g.Common().Args[revIdx], len(ch.fns)-1)
		if ph, ok := resolve(arg).(*ssa.Phi); ok {
			construct := fmt.Sprintf("%s: resume bound after replay", funcName(w.watchImpl))
			fromCache := false
			for _, e := range ph.Edges {
				if derivesFrom(p, e, func(v ssa.Value) bool { return v == ssa.Value(findCall) }) {
					fromCache = true
				}
			}
			if fromCache {
				res.ok("C05-R1", construct, p.pos(g.Pos()), "after a replay the live stream resumes right after the newest replayed cache entry")
			} else {
				res.bad("C05-R1", construct, p.pos(g.Pos()), "after replaying cached events the resume revision does not derive from the cache snapshot")
			}
		}
	}

	// R10: a forwarder start that is conditional on a comparison of the requested revision with the committed
	// revision (the history-free start while the cache is empty) needs the strict form: at equality the event of the
	// committed revision exists, is not in the (empty) cache and would never be delivered
	{
		reqRev := (*ssa.Parameter)(nil)
		for _, prm := range w.watchImpl.Params {
			if isUint64(prm.Type()) {
				reqRev = prm
			}
		}
		isCommitted := func(v ssa.Value) bool {
			return derivesFrom(p, v, func(x ssa.Value) bool {
				c, ok := x.(*ssa.Call)
				return ok && (p.isCallToMethod(c, r.TSOGetRevision) || p.isCallToMethod(c, r.BGetCur))
			})
		}
		n := 0
		for _, ch := range starts {
			g := ch.target.(*ssa.Go)
			for _, cf := range ch.facts() {
				if cf.X == nil || cf.Y == nil || reqRev == nil {
					continue
				}
				x, y, op := ch.up(cf.X, cf.level), ch.up(cf.Y, cf.level), cf.Op
				if resolve(y) == ssa.Value(reqRev) && isCommitted(x) {
					x, y = y, x
					op = map[token.Token]token.Token{token.LSS: token.GTR, token.GTR: token.LSS, token.LEQ: token.GEQ, token.GEQ: token.LEQ, token.EQL: token.EQL, token.NEQ: token.NEQ}[op]
				}
				if resolve(x) != ssa.Value(reqRev) || !isCommitted(y) {
					continue
				}
				if !cf.Want {
					op = map[token.Token]token.Token{token.LSS: token.GEQ, token.GTR: token.LEQ, token.LEQ: token.GTR, token.GEQ: token.LSS, token.EQL: token.NEQ, token.NEQ: token.EQL}[op]
				}
				// requested >= committed+1 is the strict form, too
				if bo, ok := resolve(y).(*ssa.BinOp); ok && bo.Op == token.ADD && op == token.GEQ {
					if k, ok := constInt(bo.Y); ok && k == 1 {
						op = token.GTR
					}
				}
				// op now reads: requested <op> committed holds at the start
				n++
				construct := fmt.Sprintf("%s: history-free forwarder start #%d needs requested revision > committed revision", funcName(w.watchImpl), n)
				switch op {
				case token.GTR:
					res.ok("C05-R10", construct, p.pos(g.Pos()), "started only when the requested revision is strictly above the committed one")
				case token.GEQ, token.EQL:
					res.bad("C05-R10", construct, p.pos(g.Pos()), "a watch from exactly the committed revision is started without history: the event of that revision is in neither the cache nor the live stream and is never delivered")
				default:
					n--
				}
			}
		}
	}

	// R11: what the delete read travels with the event also when the commit's outcome is unknown
	checkDeletePayload(p, r, res, "C05-R11")
	checkWatchChannelPeers(p, w, res, "C05-R12")
	checkForwarderFiltersEveryBatch(p, w, res, "C05-R13")
	// ---- R14: a watch is served from the event history of the leader only (C18-R2) ----
	for _, o := range p.subResult("C18", tier).Obls {
		if o.Rule == "C18-R2" {
			res.add("C05-R14", o.Rule+" "+o.Construct, o.Status, o.Pos, o.Detail)
		}
	}
	checkDeadErrorGuards(p, res, "C05-R15")
	checkRingLogicalPositions(p, res, "C05-R16")
	checkRevisionsAreNotPositions(p, res, "C05-R17")
	checkEventsComparedByOwnRevision(p, res, "C05-R18")
	checkRingSingleSnapshot(p, res, "C05-R19")
	checkCreatedAckFirst(p, res, "C05-R20")
	checkResumeBehindReplay(p, r, res, "C05-R21")

	// ---- R2 ----
	checkCacheBeforeBroadcast(p, r, w, res)

	// ---- R3 ----
	{
		scope := []*ssa.Function{w.hubLoop}
		if w.fanout != w.hubLoop {
			scope = append(scope, w.fanout)
		}
		// (a) no go statement reaching the remover in the hub loop / fan-out
		bad := false
		for _, f := range scope {
			for _, b := range f.Blocks {
				for _, ins := range b.Instrs {
					if g, ok := ins.(*ssa.Go); ok {
						for _, callee := range p.calleesOf(g) {
							if reachesFunc(p, callee, w.remover, 3) {
								bad = true
								res.bad("C05-R3", funcName(w.hubLoop)+": no asynchronous removal", p.pos(g.Pos()), "a subscriber that missed a batch is removed by a separate goroutine: until it runs, the next batch can still be delivered to that subscriber (stream continues past an undelivered event)")
							}
						}
					}
				}
			}
		}
		if !bad {
			res.ok("C05-R3", funcName(w.hubLoop)+": no asynchronous removal", p.pos(w.hubLoop.Pos()), "no go statement in the hub loop / fan-out reaches the subscriber removal")
		}
		// (b) within one iteration of the hub loop, after the fan-out (the non-blocking send, or the call of the function
		// containing it) a synchronous call of the subscriber removal is reachable before the next receive
		f := w.hubLoop
		var start ssa.Instruction
		for _, b := range f.Blocks {
			for _, ins := range b.Instrs {
				switch x := ins.(type) {
				case *ssa.Select:
					if !x.Blocking {
						start = x
					}
				case *ssa.Call:
					if x.Common().StaticCallee() == w.fanout && w.fanout != f {
						start = x
					}
				}
			}
		}
		construct := funcName(f) + ": dropped subscriber is removed before the next batch"
		if start == nil {
			res.und("C05-R3", construct, "-", "fan-out point of the hub loop not found")
		} else {
			isRecv := func(ins ssa.Instruction) bool {
				u, ok := ins.(*ssa.UnOp)
				return ok && u.Op == token.ARROW
			}
			found := false
			sp0 := posOf(start)
			searchFrom(sp0.b, sp0.i+1, searchOpts{
				stop: isRecv,
				bad: func(ins ssa.Instruction) bool {
					c, ok := ins.(*ssa.Call)
					if ok {
						for _, callee := range p.calleesOf(c) {
							if reachesFunc(p, callee, w.remover, 2) {
								found = true
								return true
							}
						}
					}
					return false
				},
			})
			if found {
				res.ok("C05-R3", construct, p.pos(start.Pos()), "a synchronous call of the subscriber removal is reachable after the fan-out before the next receive from the broadcast channel")
			} else {
				res.bad("C05-R3", construct, p.pos(start.Pos()), "after a non-blocking send failed the subscriber is never removed synchronously before the next batch is read: the watch continues past a batch it did not receive")
			}
		}
	}

	// ---- R4 ----
	nb := 0
	for _, f := range p.AllFuncs {
		if f.Synthetic != "" {
			continue
		}
		for _, b := range f.Blocks {
			for _, ins := range b.Instrs {
				s, ok := ins.(*ssa.Select)
				if !ok || s.Blocking {
					continue
				}
				for _, st := range s.States {
					if st.Dir == types.SendOnly && isEventSliceChan(st.Chan.Type()) {
						nb++
						construct := funcName(f) + ": non-blocking send on an event channel"
						if f == w.fanout {
							res.ok("C05-R4", construct, p.pos(s.Pos()), "the hub fan-out (R3 makes it close the stream)")
						} else {
							res.bad("C05-R4", construct, p.pos(s.Pos()), "a hop of the watch pipeline other than the hub can drop a batch silently (select with default around a send): the stream continues past an undelivered event")
						}
					}
				}
			}
		}
	}

	// ---- R5 ----
	goCount := func(target *ssa.Function) (int, string) {
		n, pos := 0, "-"
		for _, f := range p.AllFuncs {
			for _, b := range f.Blocks {
				for _, ins := range b.Instrs {
					if g, ok := ins.(*ssa.Go); ok {
						if sc := g.Common().StaticCallee(); sc != nil && unwrapSynthetic(sc) == target {
							n++
							pos = p.pos(g.Pos())
						}
					}
				}
			}
		}
		return n, pos
	}
	for _, t := range []*ssa.Function{w.sequencer, w.hubLoop} {
		n, pos := goCount(t)
		construct := funcName(t) + ": started by exactly one go statement"
		if n == 1 {
			res.ok("C05-R5", construct, pos, "one go site")
		} else {
			res.bad("C05-R5", construct, pos, fmt.Sprintf("%d go statements start this loop: two producers destroy revision order", n))
		}
	}
	{
		bad := false
		for _, f := range p.AllFuncs {
			for _, b := range f.Blocks {
				for _, ins := range b.Instrs {
					s, ok := ins.(*ssa.Send)
					if !ok {
						continue
					}
					if ld, ok := resolve(s.Chan).(*ssa.UnOp); ok {
						if fa, ok := ld.X.(*ssa.FieldAddr); ok && fieldOf(fa) == w.bcastField && f != w.sequencer && !(r.SeqRegion.descend(f) && p.onlyWithin(f, w.sequencer, 0)) {
							bad = true
							res.bad("C05-R5", "broadcast channel: single sender", p.pos(s.Pos()), funcName(f)+" sends on the broadcast channel besides the sequencer")
						}
					}
				}
			}
		}
		if !bad {
			res.ok("C05-R5", "broadcast channel: single sender", p.pos(w.sequencer.Pos()), "only the sequencer sends on it")
		}
	}

	// ---- R7: writes whose outcome is unknown are queued for repair so that they eventually produce their event (C09-R1) ----
	sub9 := p.subResult("C09", tier)
	for _, o := range sub9.Obls {
		// queued before commit (R1), kept queued until the repair is known to have landed (R3: head not popped),
		// and never turned into a definite failure on the way (R6): otherwise the applied write gets no event
		if o.Rule == "C09-R1" || o.Rule == "C09-R6" || (o.Rule == "C09-R3" && strings.Contains(o.Construct, "head not popped")) {
			res.add("C05-R7", o.Rule+" "+o.Construct, o.Status, o.Pos, o.Detail)
		}
		// .. by one consumer (R10), whatever the value (R11), and not before the configured age (R13: a repair that
		// runs while the original is still committing announces the write twice)
		if o.Rule == "C09-R10" || o.Rule == "C09-R11" || (o.Rule == "C09-R13" && strings.HasPrefix(o.Construct, "retry.")) {
			res.add("C05-R7", o.Rule+" "+o.Construct, o.Status, o.Pos, o.Detail)
		}
	}

	// ---- R6 ----
	{
		f := w.forwarder
		var out *ssa.Parameter
		for _, prm := range f.Params {
			if ch, ok := prm.Type().Underlying().(*types.Chan); ok && ch.Dir() == types.SendOnly {
				out = prm
			}
		}
		construct := funcName(f) + ": close(out) on every return"
		if out == nil {
			res.und("C05-R6", construct, "-", "output channel parameter not found")
		} else {
			ins, path := searchFrom(f.Blocks[0], 0, searchOpts{
				stop: func(ins ssa.Instruction) bool {
					c, ok := ins.(*ssa.Call)
					if !ok {
						return false
					}
					bi, ok := c.Common().Value.(*ssa.Builtin)
					return ok && bi.Name() == "close" && resolve(c.Common().Args[0]) == ssa.Value(out)
				},
				bad: func(ins ssa.Instruction) bool { _, ok := ins.(*ssa.Return); return ok },
			})
			if ins != nil {
				res.bad("C05-R6", construct, p.pos(ins.Pos()), "the forwarder can return without closing its output: a closed watch is not observable: "+blockPath(p, path))
			} else {
				res.ok("C05-R6", construct, p.pos(f.Pos()), "every return is preceded by close(out)")
			}
		}
	}
	// ---- R8: received batches are read-only ----
	{
		bp := p.ssaPkg("pkg/backend")
		evT := types.NewSlice(types.NewPointer(p.namedType("github.com/kubewharf/kubebrain-client/api/v2rpc", "Event")))
		isEvSlice := func(t types.Type) bool { return types.Identical(t, evT) }
		// foreign: the slice value comes (possibly re-sliced) from a parameter or a channel receive
		var foreign func(v ssa.Value, d int, seen map[ssa.Value]bool) bool
		foreign = func(v ssa.Value, d int, seen map[ssa.Value]bool) bool {
			if v == nil || d > 10 || seen[v] {
				return false
			}
			seen[v] = true
			for _, x := range allCellValuesOpt(p, v, false) {
				switch y := x.(type) {
				case *ssa.Parameter:
					// a parameter is as foreign as the arguments it is called with; unknown callers count as foreign
					acts := p.paramActuals(y)
					if len(acts) == 0 || p.addressTaken(y.Parent()) {
						return true
					}
					for _, a := range acts {
						if foreign(a, d+1, seen) {
							return true
						}
					}
				case *ssa.Slice:
					if foreign(y.X, d+1, seen) {
						return true
					}
				case *ssa.UnOp:
					if y.Op == token.ARROW {
						return true
					}
				case *ssa.Extract:
					if u, ok := y.Tuple.(*ssa.UnOp); ok && u.Op == token.ARROW {
						return true
					}
					if _, ok := y.Tuple.(*ssa.Next); ok {
						return true // range over a channel / map of batches
					}
					if _, ok := y.Tuple.(*ssa.Select); ok {
						return true
					}
				case *ssa.Call:
					if bi, ok := y.Common().Value.(*ssa.Builtin); ok && bi.Name() == "append" && foreign(y.Common().Args[0], d+1, seen) {
						return true
					}
					// the result of a repo helper (a filter that re-slices its argument): whatever it returns
					if sc := y.Common().StaticCallee(); sc != nil && sc.Blocks != nil && sc.Pkg == bp {
						for _, b := range sc.Blocks {
							if ret, ok := b.Instrs[len(b.Instrs)-1].(*ssa.Return); ok {
								for _, rv := range ret.Results {
									if isEvSlice(rv.Type()) && foreign(rv, d+1, seen) {
										return true
									}
								}
							}
						}
					}
				}
			}
			return false
		}
		n := 0
		for _, f := range p.AllFuncs {
			if f.Pkg != bp || f.Synthetic != "" {
				continue
			}
			k := 0
			for _, b := range f.Blocks {
				for _, ins := range b.Instrs {
					switch x := ins.(type) {
					case *ssa.Call:
						bi, ok := x.Common().Value.(*ssa.Builtin)
						if !ok || bi.Name() != "append" || !isEvSlice(x.Common().Args[0].Type()) {
							continue
						}
						k++
						n++
						construct := fmt.Sprintf("%s: append to an event slice #%d", funcName(f), k)
						// appending onto a RE-SLICE of a foreign batch reuses its backing array; appending onto a
						// foreign batch at full length may too, so both count
						if foreign(x.Common().Args[0], 0, map[ssa.Value]bool{}) {
							res.bad("C05-R8", construct, p.pos(x.Pos()), "the destination of the append is (a re-slice of) a batch received as a parameter or from a channel: the write lands in the array shared with the other subscribers and with what was already handed to the consumer")
						} else {
							res.ok("C05-R8", construct, p.pos(x.Pos()), "the destination is a slice made in this function")
						}
					case *ssa.Store:
						ia, ok := x.Addr.(*ssa.IndexAddr)
						if !ok || !isEvSlice(ia.X.Type()) {
							continue
						}
						k++
						n++
						construct := fmt.Sprintf("%s: element store into an event slice #%d", funcName(f), k)
						if foreign(ia.X, 0, map[ssa.Value]bool{}) {
							res.bad("C05-R8", construct, p.pos(x.Pos()), "an element of a batch received as a parameter or from a channel is overwritten: the batch is shared with the other subscribers")
						} else {
							res.ok("C05-R8", construct, p.pos(x.Pos()), "the slice was made in this function")
						}
					}
				}
			}
		}
		res.Stats["event_slice_writes"] = n
	}

	// ---- R9: hand-off aliasing ----
	checkHandOffAliasing(p, res, "C05-R9", "pkg/backend", "pkg/backend/scanner")

}

func reachesFunc(p *Prog, from, target *ssa.Function, depth int) bool {
	if from == nil {
		return false
	}
	from = unwrapSynthetic(from)
	if from == target {
		return true
	}
	if depth == 0 || from.Blocks == nil {
		return false
	}
	for _, c := range callsIn(from) {
		for _, callee := range p.calleesOf(c) {
			if reachesFunc(p, callee, target, depth-1) {
				return true
			}
		}
	}
	return false
}

func checkCacheBeforeBroadcast(p *Prog, r *Roles, w *watchRoles, res *Result) {
	seq := w.sequencer
	rg := r.SeqRegion
	evType := p.namedType("github.com/kubewharf/kubebrain-client/api/v2rpc", "Event")
	// the event placed into the outgoing batch: the *proto.Event stored into an element of the batch slice
	// (built in place or by a helper), in the sequencer goroutine's function or a helper it calls
	var batchStore *ssa.Store
	var bsFrame *frame
	var ev ssa.Value
	for _, ch := range rg.chainsIn(p, func(ins ssa.Instruction) bool {
		st, ok := ins.(*ssa.Store)
		if !ok {
			return false
		}
		_, isIdx := st.Addr.(*ssa.IndexAddr)
		return isIdx && types.Identical(st.Val.Type(), types.NewPointer(evType))
	}) {
		batchStore = ch.target.(*ssa.Store)
		bsFrame = frameOfChain(ch)
		ev = rg.origin(batchStore.Val, bsFrame)
	}
	if batchStore == nil {
		res.und("C05-R2", funcName(seq), "-", "store of an event into the outgoing batch not found")
		return
	}
	isAdd := func(ins ssa.Instruction, fr *frame) bool {
		c, ok := ins.(*ssa.Call)
		if !ok || c.Common().StaticCallee() != w.cacheAdd {
			return false
		}
		return w.cacheAddBatch || rg.origin(c.Common().Args[1], fr) == ev
	}
	// from the construction of the event: the cache insert must come before any broadcast send / next slot load
	se, _ := sequencerEvent(p, r)
	var loadCall ssa.Instruction
	if se != nil {
		loadCall = se.load.(ssa.Instruction)
	}
	sp := posOf(batchStore)
	// accept an insert that precedes the store in the same function (insert, then place in the batch)
	insertedBefore := false
	for _, c := range callsIn(batchStore.Parent()) {
		if ci, ok := c.(*ssa.Call); ok && isAdd(ci, bsFrame) && instrDominates(ci, batchStore) {
			insertedBefore = true
		}
	}
	construct := funcName(seq) + ": cache insert before broadcast"
	if insertedBefore {
		res.ok("C05-R2", construct, p.pos(batchStore.Pos()), "the cache insert dominates the store into the outgoing batch")
	} else {
		ins, fr, path := rg.search(bsFrame, sp.b, sp.i+1, superOpts{
			stop: isAdd,
			bad: func(ins ssa.Instruction, _ *frame) bool {
				if _, ok := ins.(*ssa.Send); ok {
					return true
				}
				return ins == loadCall
			},
		})
		if ins != nil {
			res.bad("C05-R2", construct, p.pos(ins.Pos()), "an event placed in the outgoing batch can be broadcast (or the next slot consumed) before it is inserted into the event cache: a watcher registering in between gets it from neither side (in "+fr.String()+path+")")
		} else {
			res.ok("C05-R2", construct, p.pos(batchStore.Pos()), "every path from batching the event to a broadcast send or the next slot passes the cache insert")
		}
	}
	// only for valid slots
	validField := p.structField("pkg/backend/common", "WatchEvent", "Valid")
	construct = funcName(seq) + ": only valid slots produce events"
	okValid := false
	for _, cf := range dominatingFacts(batchStore.Block()) {
		// the tested value may be the result of a helper of the sequencer that returns slot.Valid
		if ld, ok := r.SeqRegion.origin(cf.Raw, bsFrame).(*ssa.UnOp); ok && cf.Want {
			if fa, ok := ld.X.(*ssa.FieldAddr); ok && fieldOf(fa) == validField {
				okValid = true
			}
		}
	}
	if !okValid {
		// the event may be built by a helper of the sequencer that tests the slot itself: every construction of an
		// event in the sequencer's function and the package functions it calls sits behind Valid == true
		nAlloc, allGuarded := 0, true
		seenFn := map[*ssa.Function]bool{}
		var visit func(f *ssa.Function, d int)
		visit = func(f *ssa.Function, d int) {
			if f == nil || f.Blocks == nil || seenFn[f] || d > 2 || f.Pkg != seq.Pkg {
				return
			}
			seenFn[f] = true
			for _, b := range f.Blocks {
				for _, ins := range b.Instrs {
					if al, ok := ins.(*ssa.Alloc); ok && types.Identical(al.Type(), types.NewPointer(evType)) {
						nAlloc++
						guarded := false
						for _, cf := range localFacts(b) {
							if cf.Raw == nil || !cf.Want {
								continue
							}
							if ld, ok := resolve(cf.Raw).(*ssa.UnOp); ok {
								if fa, ok := ld.X.(*ssa.FieldAddr); ok && fieldOf(fa) == validField {
									guarded = true
								}
							}
						}
						if !guarded {
							allGuarded = false
						}
					}
					if c, ok := ins.(*ssa.Call); ok {
						visit(c.Common().StaticCallee(), d+1)
					}
				}
			}
		}
		visit(seq, 0)
		if nAlloc > 0 && allGuarded {
			okValid = true
		}
	}
	if okValid {
		res.ok("C05-R2", construct, p.pos(batchStore.Pos()), "event construction is dominated by Valid == true")
	} else {
		res.bad("C05-R2", construct, p.pos(batchStore.Pos()), "an event is produced for a slot that is not known to be valid: failed writes would be delivered to watchers")
	}
}

// checkHandOffAliasing: a slice that has been handed to another goroutine through a channel (directly, or inside a
// message built for the send) must not be written by the sender afterwards.
//
//	(i)  local buffers: after the send, no element store into (a re-slice of) the same backing slice is reachable
//	     without passing the allocation of that slice again (a buffer allocated once outside the loop and sent as
//	     buf[:n] is overwritten by the next iteration);
//	(ii) buffers kept in a struct field: a field whose value is handed off is never "emptied" by re-slicing
//	     (f = f[:0] keeps the array that the receiver is still reading); it is replaced by a fresh allocation.
func checkHandOffAliasing(p *Prog, res *Result, rule string, pkgs ...string) {
	inPkgs := func(f *ssa.Function) bool {
		for _, rel := range pkgs {
			if f.Pkg == p.ssaPkg(rel) {
				return true
			}
		}
		return false
	}
	isSlice := func(t types.Type) bool { _, ok := t.Underlying().(*types.Slice); return ok }
	// the slices a sent value hands over: the value itself, or slice-typed fields of message literals reachable from it
	var handed func(v ssa.Value, d int, seen map[ssa.Value]bool) []ssa.Value
	handed = func(v ssa.Value, d int, seen map[ssa.Value]bool) []ssa.Value {
		v = resolve(v)
		if v == nil || d > 4 || seen[v] {
			return nil
		}
		seen[v] = true
		if isSlice(v.Type()) {
			return []ssa.Value{v}
		}
		var out []ssa.Value
		if al, ok := v.(*ssa.Alloc); ok {
			for _, ref := range *al.Referrers() {
				if fa, ok := ref.(*ssa.FieldAddr); ok {
					for _, r2 := range *fa.Referrers() {
						if st, ok := r2.(*ssa.Store); ok && st.Addr == ssa.Value(fa) {
							out = append(out, handed(st.Val, d+1, seen)...)
						}
					}
				}
			}
		}
		return out
	}
	baseOf := func(v ssa.Value) ssa.Value {
		for i := 0; i < 8; i++ {
			v = resolve(v)
			s, ok := v.(*ssa.Slice)
			if !ok {
				return v
			}
			v = s.X
		}
		return v
	}
	handedFields := map[*types.Var]ssa.Instruction{}
	nSends := 0
	for _, f := range p.AllFuncs {
		if !inPkgs(f) || f.Synthetic != "" {
			continue
		}
		k := 0
		for _, b := range f.Blocks {
			for _, ins := range b.Instrs {
				snd, ok := ins.(*ssa.Send)
				if !ok {
					continue
				}
				for _, hv := range handed(snd.X, 0, map[ssa.Value]bool{}) {
					k++
					nSends++
					construct := fmt.Sprintf("%s: slice handed over a channel #%d is not written afterwards", funcName(f), k)
					base := baseOf(hv)
					// (ii) field-held buffer: remember the field
					if ld, ok := base.(*ssa.UnOp); ok && ld.Op == token.MUL {
						if fa, ok := ld.X.(*ssa.FieldAddr); ok {
							handedFields[fieldOf(fa)] = snd
						}
					}
					// (i) local buffer allocated in this function
					var mk ssa.Instruction
					isMake := false
					switch bx := base.(type) {
					case *ssa.MakeSlice:
						mk, isMake = bx, true
					case *ssa.Alloc:
						// make([]T, constant) is an array allocation that is sliced
						if _, isArr := bx.Type().(*types.Pointer).Elem().Underlying().(*types.Array); isArr {
							mk, isMake = bx, true
						}
					}
					if !isMake {
						res.ok(rule, construct, p.pos(snd.Pos()), "not a buffer allocated in this function (field buffers are judged by their resets)")
						continue
					}
					sp := posOf(snd)
					bad, _ := searchFrom(sp.b, sp.i+1, searchOpts{
						stop: func(i ssa.Instruction) bool { return i == mk },
						bad: func(i ssa.Instruction) bool {
							st, ok := i.(*ssa.Store)
							if !ok {
								return false
							}
							ia, ok := st.Addr.(*ssa.IndexAddr)
							return ok && baseOf(ia.X) == base
						},
					})
					if bad != nil {
						res.bad(rule, construct, p.pos(bad.Pos()), "after the send an element of the same backing array is overwritten (the buffer is allocated once and re-sliced for each send): receivers that have not processed the batch yet see later data in place of it")
					} else {
						res.ok(rule, construct, p.pos(snd.Pos()), "the sent slice is allocated for this send; no element store into it is reachable afterwards")
					}
				}
			}
		}
	}
	// (ii) resets of handed-off field buffers
	var flds []*types.Var
	for fv := range handedFields {
		flds = append(flds, fv)
	}
	sort.Slice(flds, func(i, j int) bool { return flds[i].Name() < flds[j].Name() })
	for _, fv := range flds {
		construct := fmt.Sprintf("buffer field %s: replaced, never re-sliced, after it was handed over", fv.Name())
		bad := ""
		for _, st := range p.fields().stores[fv] {
			if sl, ok := resolve(st.Val).(*ssa.Slice); ok {
				if ld, ok := baseOf(sl).(*ssa.UnOp); ok && ld.Op == token.MUL {
					if fa, ok := ld.X.(*ssa.FieldAddr); ok && fieldOf(fa) == fv {
						bad = p.pos(st.Pos())
					}
				}
			}
		}
		if bad == "" {
			res.ok(rule, construct, p.pos(handedFields[fv].Pos()), "every assignment to the field is a fresh slice or an append")
		} else {
			res.bad(rule, construct, bad, "the buffer is emptied by re-slicing (f = f[:0]) although its array has been handed to the receiver of the channel: the next appends overwrite data the receiver has not read yet")
		}
	}
	if nSends == 0 {
		res.und(rule, "slices handed over channels", "-", "no send of a slice found")
	}
}

// checkDeletePayload: (a) in the function that commits the deletion-marker batch, every return reachable after the
// commit returns a previous key-value built from the point read that also supplied the expected index value - not an
// empty one on the error path; (b) the entry point hands fields of that result to the event sink.
func checkDeletePayload(p *Prog, r *Roles, res *Result, rule string) {
	ts := p.tombstone()
	bp := p.ssaPkg("pkg/backend")
	n := 0
	for _, vb := range p.versionedBatches() {
		f := vb.b.Fn
		if f.Pkg != bp || vb.cond == nil || !ts.is(p.ctxValue(vb.put.Val, vb.ctx)) || len(vb.b.Commits) != 1 {
			continue
		}
		n++
		commit := vb.b.Commits[0].(ssa.Instruction)
		expected := vb.cond.Old
		// the batch may be built and committed by a helper (commit(key, new, expected ..)): the function that read the
		// key and answers the entry point is then the helper's caller, and the call is where the commit happens
		if vb.ctx != nil {
			if _, hasStruct := structResultIndex(f); !hasStruct {
				f, commit, expected = vb.ctx.Parent(), vb.ctx.(ssa.Instruction), p.ctxValue(vb.cond.Old, vb.ctx)
			}
		}
		// the read(s) the expected index value comes from
		readCalls := map[*ssa.Call]bool{}
		derivesFromCallArgs(p, expected, func(v ssa.Value) bool {
			if ex, ok := v.(*ssa.Extract); ok {
				if c, ok := ex.Tuple.(*ssa.Call); ok && c.Parent() == f {
					readCalls[c] = true
				}
			}
			return false
		})
		fromRead := func(v ssa.Value) bool {
			return derivesFromCallArgs(p, v, func(x ssa.Value) bool {
				if ex, ok := x.(*ssa.Extract); ok {
					if c, ok := ex.Tuple.(*ssa.Call); ok && readCalls[c] {
						return true
					}
				}
				return false
			})
		}
		construct := funcName(f) + ": previous key-value returned after the commit is the one that was read"
		cp := posOf(commit)
		var rets []*ssa.Return
		searchFrom(cp.b, cp.i+1, searchOpts{bad: func(i ssa.Instruction) bool {
			if rt, ok := i.(*ssa.Return); ok {
				rets = append(rets, rt)
			}
			return false
		}})
		bad := ""
		structIdx, _ := structResultIndex(f)
		if structIdx < 0 || len(rets) == 0 || len(readCalls) == 0 {
			res.und(rule, construct, p.pos(f.Pos()), "shape not recognised (no struct result, no return after the commit, or no read feeding the expected value)")
			continue
		}
		for _, rt := range rets {
			var vals []ssa.Value
			var expand func(v ssa.Value, d int)
			expand = func(v ssa.Value, d int) {
				if ph, isPhi := v.(*ssa.Phi); isPhi && d < 6 {
					for _, e := range ph.Edges {
						expand(e, d+1)
					}
					return
				}
				vals = append(vals, v)
			}
			expand(rt.Results[structIdx], 0)
			for _, v := range vals {
				ok := false
				if ld, isLd := v.(*ssa.UnOp); isLd && ld.Op == token.MUL {
					if cell, isCell := ld.X.(*ssa.Alloc); isCell {
						// (1) the cell holds fields copied from the read when the commit runs ..
						isCellAddr := func(a ssa.Value) bool {
							if a == ssa.Value(cell) {
								return true
							}
							fa, isFA := a.(*ssa.FieldAddr)
							return isFA && fa.X == ssa.Value(cell)
						}
						for _, ref := range *cell.Referrers() {
							if fa, isFA := ref.(*ssa.FieldAddr); isFA {
								for _, r2 := range *fa.Referrers() {
									if st, isSt := r2.(*ssa.Store); isSt && st.Addr == ssa.Value(fa) && fromRead(st.Val) && instrDominates(st, commit) {
										ok = true
									}
								}
							}
						}
						// (2) .. and is not written again between the commit and this return
						if ok {
							w, _ := searchFrom(cp.b, cp.i+1, searchOpts{
								stop: func(i ssa.Instruction) bool { return i == ssa.Instruction(rt) },
								bad: func(i ssa.Instruction) bool {
									st, isSt := i.(*ssa.Store)
									if !isSt || !isCellAddr(st.Addr) || !reaches(st, rt) {
										return false
									}
									// `return .., old, ..` with a named result copies the cell onto itself
									if ld2, isLd2 := st.Val.(*ssa.UnOp); isLd2 && ld2.Op == token.MUL && ld2.X == ssa.Value(cell) && st.Addr == ssa.Value(cell) {
										return false
									}
									return true
								},
							})
							if w != nil {
								ok = false
							}
						}
					}
				}
				if !ok {
					bad = p.pos(rt.Pos())
				}
			}
		}
		if bad == "" {
			res.ok(rule, construct, p.pos(commit.Pos()), fmt.Sprintf("%d return(s) after the commit, each returning the key-value built from the read", len(rets)))
		} else {
			res.bad(rule, construct, bad, "on a path after the commit the previous key-value that is returned is not the one that was read (an empty one on the error path): when the commit's outcome is unknown and the delete did land, the DELETE event produced by the repair carries no previous value and no previous revision")
		}
		// (b) the callers hand it to the sink
		p.buildCallersLite()
		for _, cs := range p.staticCallers[f] {
			cc, ok := cs.(*ssa.Call)
			if !ok {
				continue
			}
			caller := cc.Parent()
			if caller == f {
				continue // a recursive retry: what it returns is returned by the outer call, which is judged at its caller
			}
			construct2 := funcName(caller) + ": the event sink receives the previous value and revision the delete returned"
			exs := extractsOf(cc)
			if structIdx >= len(exs) || exs[structIdx] == nil {
				res.bad(rule, construct2, p.pos(cc.Pos()), "the previous key-value returned by the delete is dropped")
				continue
			}
			prev := exs[structIdx]
			nFromPrev, found := 0, false
			for _, c := range callsIn(caller) {
				if c.Common().StaticCallee() != r.Sink {
					continue
				}
				found = true
				for _, a := range c.Common().Args {
					if derivesFrom(p, a, func(x ssa.Value) bool {
						if x == ssa.Value(prev) {
							return true
						}
						// the result kept in a local struct variable
						if cell, ok := x.(*ssa.Alloc); ok {
							for _, ref := range *cell.Referrers() {
								if st, ok := ref.(*ssa.Store); ok && st.Addr == ssa.Value(cell) && st.Val == ssa.Value(prev) {
									return true
								}
							}
						}
						return false
					}) {
						nFromPrev++
					}
				}
			}
			switch {
			case !found:
				res.und(rule, construct2, p.pos(cc.Pos()), "no call of the event sink in the caller")
			case nFromPrev >= 2:
				res.ok(rule, construct2, p.pos(cc.Pos()), "value and previous revision are fields of the returned key-value")
			default:
				res.bad(rule, construct2, p.pos(cc.Pos()), "the event sink is not handed the previous value and previous revision that the delete returned")
			}
		}
	}
	if n == 0 {
		res.und(rule, "delete batch", "-", "no batch writing the deletion marker found in pkg/backend")
	}
}

func structResultIndex(f *ssa.Function) (int, bool) {
	idx := -1
	for i := 0; i < f.Signature.Results().Len(); i++ {
		if _, ok := f.Signature.Results().At(i).Type().Underlying().(*types.Struct); ok {
			idx = i
		}
	}
	return idx, idx >= 0
}

// checkDeadErrorGuards (C05-R15): a branch on `x != nil` where x can only be nil is a guard that was meant to stop
// something and cannot - the variable it tests is never assigned (typically because the assignment was turned into a
// `:=` that declares a new variable in an inner scope). In go/ssa such a test shows as a comparison of two nil
// constants, which nobody writes on purpose. Reported for the stream handlers: the guard that stops sending after a
// failed Send is of this kind.
func checkDeadErrorGuards(p *Prog, res *Result, rule string) {
	n := 0
	for _, f := range p.AllFuncs {
		if f.Pkg == nil || f.Blocks == nil || !strings.HasPrefix(f.Pkg.Pkg.Path(), modPath+"/pkg") {
			continue
		}
		for _, b := range f.Blocks {
			iff := ifOf(b)
			if iff == nil {
				continue
			}
			for _, cf := range expandFact(factOf(iff.Cond, true), 0) {
				if cf.X == nil || (cf.Op != token.EQL && cf.Op != token.NEQ) {
					continue
				}
				allNil := func(v ssa.Value) bool {
					v = resolve(v)
					if phi, ok := v.(*ssa.Phi); ok {
						for _, e := range phi.Edges {
							if !isNilConst(resolve(e)) && resolve(e) != ssa.Value(phi) {
								return false
							}
						}
						return true
					}
					return isNilConst(v)
				}
				if !allNil(cf.X) || !allNil(cf.Y) {
					continue
				}
				if !types.Identical(cf.X.Type(), types.Universe.Lookup("error").Type()) {
					continue
				}
				n++
				res.bad(rule, fmt.Sprintf("%s: test of an error that is never assigned #%d", funcName(f), n), p.pos(iff.Cond.Pos()), "the branch tests an error variable that nothing assigns (both sides of the comparison are nil on every path): the guard it was written as cannot fire - after a failed send the loop goes on sending later batches on the same stream, the client sees events behind a gap and the stream ends as if complete")
			}
		}
	}
	if n == 0 {
		res.ok(rule, "error guards", "-", "no branch tests an error that can only be nil")
	}
}

// checkEventsComparedByOwnRevision (C05-R18): an event is filtered, ordered and searched by the revision of the change
// it reports (Event.Revision). The key-value it carries has a revision of its own, which for a DELETE is the revision of
// the version that was removed: a comparison of that field with a watch's start revision drops deletions of objects
// older than the start revision although the deletion itself is newer.
func checkEventsComparedByOwnRevision(p *Prog, res *Result, rule string) {
	n, bad := 0, 0
	for _, f := range p.AllFuncs {
		if f.Pkg == nil || f.Blocks == nil || !strings.HasPrefix(f.Pkg.Pkg.Path(), modPath+"/pkg/backend") {
			continue
		}
		k := 0
		for _, b := range f.Blocks {
			for _, ins := range b.Instrs {
				bo, ok := ins.(*ssa.BinOp)
				if !ok {
					continue
				}
				switch bo.Op {
				case token.LSS, token.LEQ, token.GTR, token.GEQ, token.EQL, token.NEQ:
				default:
					continue
				}
				for _, opnd := range []ssa.Value{bo.X, bo.Y} {
					v := resolve(opnd)
					for {
						if cv, ok := v.(*ssa.Convert); ok {
							v = resolve(cv.X)
							continue
						}
						break
					}
					ld, ok := v.(*ssa.UnOp)
					if !ok || ld.Op != token.MUL {
						continue
					}
					fa, ok := ld.X.(*ssa.FieldAddr)
					if !ok || fieldOf(fa).Name() != "Revision" {
						continue
					}
					// whose Revision? the struct the field belongs to, and where its pointer was loaded from
					owner := ""
					if pt, ok := fa.X.Type().Underlying().(*types.Pointer); ok {
						if nm, ok := pt.Elem().(*types.Named); ok {
							owner = nm.Obj().Name()
						}
					}
					if owner == "Event" {
						n++
						continue
					}
					if owner != "KeyValue" {
						continue
					}
					// a key-value reached through an event's Kv field
					base, ok := resolve(fa.X).(*ssa.UnOp)
					if !ok || base.Op != token.MUL {
						continue
					}
					bfa, ok := base.X.(*ssa.FieldAddr)
					if !ok {
						continue
					}
					if pt, ok := bfa.X.Type().Underlying().(*types.Pointer); ok {
						if nm, ok := pt.Elem().(*types.Named); ok && nm.Obj().Name() == "Event" {
							k++
							bad++
							res.bad(rule, fmt.Sprintf("%s: comparison #%d of an event's key-value revision", funcName(f), k), p.pos(bo.Pos()), "an event is compared by the revision of the key-value it carries instead of its own: for a DELETE that is the revision of the removed version, so a deletion of an object older than the watch's start revision is filtered out (or ordered before changes it follows) although it happened after it - the stream stays open and the client never learns of the deletion")
						}
					}
				}
			}
		}
	}
	if bad == 0 {
		res.ok(rule, "comparisons of event revisions", "-", fmt.Sprintf("%d comparison(s) of Event.Revision, none of an event's key-value revision", n))
	}
}
