package main

import (
	"fmt"
	"go/types"
	"strings"

	"golang.org/x/tools/go/ssa"
)

func init() { register("C06", checkC06) }

func checkC06(p *Prog, res *Result, tier string) {
	r := p.roles()
	res.Explanation = "List-then-watch is a hyper-property of the read path and the event path; decided are its coupling points. R1 event <=> successful commit: every sink call reports the allocated revision with valid == (err == nil) of the committing call (C04-R4), and the sequencer builds an event only for valid slots, with the slot's revision as event revision and as revision of the carried key-value (previous revision for deletes). R2 header before snapshot: in List, Count, GetPartitions and ListByStream the committed revision is loaded before the scan starts, the response header derives from that load and from no later one, and the default read revision is that same value; in the scanner the engine snapshot timestamp precedes the compaction-floor check (C08-R3). R3 unknown-outcome writes are queued before their revision is committed (C09-R1), otherwise a compaction can erase the only evidence and the event is never produced."
	res.NotDecided = "the scan result itself (C03) and delivery (C05); interleavings with compaction beyond the stated ordering facts."
	res.Assumptions = []string{"C03 (snapshot reads) and C05 (delivery) residues", "sequencer commits revisions in order (C04-R3)"}
	res.rule("C06-R1", "one event per successful write with the revision of the stored version (sink validity; event fields copied from the slot; only valid slots)", 7)
	res.rule("C06-R2", "range-style reads load the committed revision before the scan; header and default read revision derive from that load only", 6)
	res.rule("C06-R3", "unknown-outcome writes are queued before commit (C09-R1)", 2)
	res.rule("C06-R8", "a read at an explicit revision is answered at that revision: the committed revision stands in for the requested one only on the edge on which the requested revision is 0", 2)
	res.rule("C06-R7", "replayed and live events reach the client through one sender at a time, and each watcher's batches through one receiver (C05-R12): applying events in delivery order otherwise goes back to an older value", 3)
	res.rule("C06-R5", "listed and streamed data are not overwritten after they were handed over (C05-R9)", 2)
	res.rule("C06-R6", "a key vanishes from reads only with a DELETE event: compaction keeps the deletion marker until the versions it hides are gone (C07-R3/R4), expiry touches event keys only and only marks older than the TTL (C17-R1/R2)", 8)
	res.rule("C06-R4", "the listed state is the complete snapshot: partition borders contiguous and realigned, retried attempts start empty, a failed partition fails the read (C13-R5/R6/R8)", 5)

	checkRevisionDefaultOnlyForZero(p, r, res, "C06-R8")
	// ---- R1 ----
	sub4 := p.subResult("C04", tier)
	for _, o := range sub4.Obls {
		if o.Rule == "C04-R4" || o.Rule == "C04-R12" {
			res.add("C06-R1", o.Rule+" "+o.Construct, o.Status, o.Pos, o.Detail)
		}
	}
	sub5 := newResult("C05")
	w := p.watchRoles()
	checkCacheBeforeBroadcast(p, r, w, sub5)
	for _, o := range sub5.Obls {
		if strings.Contains(o.Construct, "only valid slots") {
			res.add("C06-R1", o.Rule+" "+o.Construct, o.Status, o.Pos, o.Detail)
		}
	}
	checkEventFields(p, r, res)

	// ---- R2 ----
	scanRange := p.ifaceMethod("pkg/backend/scanner", "Scanner", "Range")
	scanCount := p.ifaceMethod("pkg/backend/scanner", "Scanner", "Count")
	scanStream := p.ifaceMethod("pkg/backend/scanner", "Scanner", "RangeStream")
	// a load of the committed revision: the call itself, or a helper of the package whose result derives from one
	// (everything the helper does happens before it returns, so a dominating helper call is a dominating load)
	var isLoad func(c ssa.CallInstruction, d int) bool
	isLoad = func(c ssa.CallInstruction, d int) bool {
		if p.isCallToMethod(c, r.TSOGetRevision) || p.isCallToMethod(c, r.BGetCur) {
			return true
		}
		sc := c.Common().StaticCallee()
		if d > 2 || sc == nil || sc.Blocks == nil || sc.Pkg != p.ssaPkg("pkg/backend") {
			return false
		}
		if rs := sc.Signature.Results(); rs.Len() != 1 || !isUint64(rs.At(0).Type()) {
			return false
		}
		for _, b := range sc.Blocks {
			ret, ok := b.Instrs[len(b.Instrs)-1].(*ssa.Return)
			if !ok {
				continue
			}
			if derivesFrom(p, ret.Results[0], func(v ssa.Value) bool {
				cc, ok := v.(*ssa.Call)
				return ok && cc.Parent() == sc && isLoad(cc, d+1)
			}) {
				return true
			}
		}
		return false
	}
	for _, m := range []*types.Func{r.BList, r.BCount, r.BGetPartitions, r.BListByStream} {
		for _, f := range p.implsOf(m) {
			if f.Pkg != p.ssaPkg("pkg/backend") {
				continue
			}
			var scans []ssa.CallInstruction
			var bounds []ssa.Value
			for _, c := range callsIn(f) {
				switch {
				case p.isCallToMethod(c, scanRange), p.isCallToMethod(c, scanCount), p.isCallToMethod(c, scanStream):
					scans = append(scans, c)
					bounds = append(bounds, argForSigParam(c, 3))
				case p.isCallToMethod(c, r.KVGetPartitions) && c.Common().IsInvoke():
					scans = append(scans, c)
					bounds = append(bounds, nil)
				}
			}
			var loads []*ssa.Call
			for _, c := range callsIn(f) {
				if cc, ok := c.(*ssa.Call); ok && isLoad(c, 0) {
					loads = append(loads, cc)
				}
			}
			name := funcName(f)
			if len(scans) == 0 {
				res.und("C06-R2", name, p.pos(f.Pos()), "no scan call found")
				continue
			}
			// header values
			var hdrs []ssa.Value
			for _, c := range callsIn(f) {
				if sc := c.Common().StaticCallee(); sc != nil && sc.Name() == "responseHeader" {
					hdrs = append(hdrs, c.Common().Args[0])
				}
			}
			if m == r.BListByStream {
				// the scanner stamps batches with the revision argument
				hdrs = append(hdrs, bounds...)
			}
			for i, sc := range scans {
				construct := fmt.Sprintf("%s: committed revision loaded before scan #%d", name, i+1)
				var dom *ssa.Call
				for _, l := range loads {
					if instrDominates(l, sc.(ssa.Instruction)) {
						dom = l
					}
				}
				if dom == nil {
					res.bad("C06-R2", construct, p.pos(sc.Pos()), "the committed revision is not loaded before the scan starts: the header can name a revision newer than the snapshot, and a watch from header+1 skips writes the list did not see")
					continue
				}
				res.ok("C06-R2", construct, p.pos(dom.Pos()), "GetRevision dominates the scan call")
				for j, h := range hdrs {
					c2 := fmt.Sprintf("%s: header #%d derives only from the pre-scan load", name, j+1)
					late := derivesFrom(p, h, func(v ssa.Value) bool {
						c, ok := v.(*ssa.Call)
						if !ok || !isLoad(c, 0) {
							return false
						}
						return !instrDominates(c, sc.(ssa.Instruction))
					})
					early := derivesFrom(p, h, func(v ssa.Value) bool { return v == ssa.Value(dom) })
					switch {
					case late:
						res.bad("C06-R2", c2, p.pos(sc.Pos()), "the response header derives from a read of the committed revision made after the scan started: a write committed during the scan is excluded from the result and from a watch started at header+1")
					case !early:
						res.bad("C06-R2", c2, p.pos(sc.Pos()), "the response header does not derive from the committed revision loaded before the scan")
					default:
						res.ok("C06-R2", c2, p.pos(sc.Pos()), "derives from the pre-scan load")
					}
				}
				if bounds[i] != nil {
					c3 := fmt.Sprintf("%s: default read revision is the pre-scan load (scan #%d)", name, i+1)
					if derivesFrom(p, bounds[i], func(v ssa.Value) bool { return v == ssa.Value(dom) }) {
						res.ok("C06-R2", c3, p.pos(sc.Pos()), "the scan bound is (or defaults to) the same value as the header")
					} else {
						res.bad("C06-R2", c3, p.pos(sc.Pos()), "the scan bound does not default to the committed revision that the header reports")
					}
				}
			}
		}
	}
	// snapshot before floor check
	sub8 := newResult("C08")
	checkRangeReadsGuarded(p, r, p.compactKey(), sub8)
	for _, o := range sub8.Obls {
		if o.Rule == "C08-R3" {
			res.add("C06-R2", o.Rule+" "+o.Construct, o.Status, o.Pos, o.Detail)
		}
	}

	// ---- R5: hand-off aliasing (C05-R9) ----
	checkHandOffAliasing(p, res, "C06-R5", "pkg/backend", "pkg/backend/scanner")

	// ---- R4: what List returns is the whole snapshot (C13-R5/R6/R8) ----
	sub13 := p.subResult("C13", tier)
	for _, o := range sub13.Obls {
		if o.Rule == "C13-R5" || o.Rule == "C13-R6" || o.Rule == "C13-R8" || o.Rule == "C13-R3" {
			res.add("C06-R4", o.Rule+" "+o.Construct, o.Status, o.Pos, o.Detail)
		}
	}

	// ---- R6: keys leave the store only through deletes that produce an event, or through a compaction that keeps the
	// deletion marker until what it hides is gone (C07-R3/R4) and expires nothing but event keys (C17-R1/R2) ----
	{
		sub7 := p.subResult("C07", tier)
		for _, o := range sub7.Obls {
			if o.Rule == "C07-R3" || o.Rule == "C07-R4" || o.Rule == "C07-R2" {
				res.add("C06-R6", o.Rule+" "+o.Construct, o.Status, o.Pos, o.Detail)
			}
		}
		sub17 := p.subResult("C17", tier)
		for _, o := range sub17.Obls {
			if o.Rule == "C17-R1" || o.Rule == "C17-R2" {
				res.add("C06-R6", o.Rule+" "+o.Construct, o.Status, o.Pos, o.Detail)
			}
		}
	}

	// ---- R7: the events that follow a list arrive in revision order (C05-R12) ----
	{
		sub5 := newResult("C05")
		checkWatchChannelPeers(p, w, sub5, "C05-R12")
		for _, o := range sub5.Obls {
			res.add("C06-R7", o.Rule+" "+o.Construct, o.Status, o.Pos, o.Detail)
		}
		// .. and resume exactly after the cached events that were replayed (C05-R1)
		for _, o := range p.subResult("C05", tier).Obls {
			// (C05-R16: .. and that are found at their logical positions in the cache)
			// (C05-R4: .. none of which is dropped on the way to the client; C05-R17..R19: found by comparison, by their
			// own revision, in one snapshot of the cache)
			if o.Rule == "C05-R1" || o.Rule == "C05-R16" || o.Rule == "C05-R4" || o.Rule == "C05-R17" || o.Rule == "C05-R18" || o.Rule == "C05-R19" {
				res.add("C06-R7", o.Rule+" "+o.Construct, o.Status, o.Pos, o.Detail)
			}
		}
	}

	// ---- R3 ----
	sub9 := p.subResult("C09", tier)
	// a compaction runs only where the repair queue is: on the leader, whose Compact keeps below the oldest queued
	// unknown-outcome write (a follower has no queue and would compact the evidence the repair needs; C18-R1)
	for _, o := range p.subResult("C18", tier).Obls {
		if o.Rule == "C18-R1" && strings.Contains(o.Construct, "Compact") {
			res.add("C06-R3", o.Rule+" "+o.Construct, o.Status, o.Pos, o.Detail)
		}
	}
	for _, o := range sub9.Obls {
		if o.Rule == "C09-R1" && strings.Contains(o.Construct, "collectStorageWriteEvents") || (o.Rule == "C09-R1" && strings.Contains(o.Construct, "sequencer")) {
			res.add("C06-R3", o.Rule+" "+o.Construct, o.Status, o.Pos, o.Detail)
		}
		// an unknown outcome must reach the sequencer as such (C09-R6) and stay queued until repaired (C09-R3)
		// .. and the compaction must look at the committed revision before it looks at the queue (reader side of C09-R1)
		if o.Rule == "C09-R6" || (o.Rule == "C09-R3" && strings.Contains(o.Construct, "head not popped")) || (o.Rule == "C09-R2" && strings.Contains(o.Construct, "read before")) {
			res.add("C06-R3", o.Rule+" "+o.Construct, o.Status, o.Pos, o.Detail)
		}
	}
	for _, o := range sub9.Obls {
		if o.Rule == "C09-R1" && o.Construct == funcName(r.Sequencer)+": enqueue unknown-outcome slot before commit" {
			return
		}
	}

}

// checkEventFields: the proto.Event built by the sequencer copies Revision (and Kv.Revision for non-deletes,
// PrevRevision for deletes) from the consumed slot.
func checkEventFields(p *Prog, r *Roles, res *Result) {
	seq := r.Sequencer
	evType := p.namedType("github.com/kubewharf/kubebrain-client/api/v2rpc", "Event")
	var evRev *types.Var
	st := evType.Underlying().(*types.Struct)
	for i := 0; i < st.NumFields(); i++ {
		if st.Field(i).Name() == "Revision" {
			evRev = st.Field(i)
		}
	}
	slotRev := p.structField("pkg/backend/common", "WatchEvent", "Revision")
	construct := funcName(seq) + ": event revision is the slot's revision"
	// the event may be built by a helper of the sequencer: every store to Event.Revision in the goroutine's region,
	// judged in the frame of each call chain that reaches it
	se, _ := sequencerEvent(p, r)
	n := 0
	if se != nil {
		for _, ch := range se.rg.chainsIn(p, func(ins ssa.Instruction) bool {
			st, ok := ins.(*ssa.Store)
			if !ok {
				return false
			}
			fa, ok := st.Addr.(*ssa.FieldAddr)
			return ok && fieldOf(fa) == evRev
		}) {
			s := ch.target.(*ssa.Store)
			n++
			if se.fieldOfEv(s.Val, slotRev, frameOfChain(ch)) {
				res.ok("C06-R1", construct, p.pos(s.Pos()), "Event.Revision = slot.Revision")
			} else {
				res.bad("C06-R1", construct, p.pos(s.Pos()), "the event is stamped with a revision other than the one of the stored version: replaying events no longer matches the store")
			}
		}
	}
	if n == 0 {
		res.bad("C06-R1", construct, p.pos(seq.Pos()), "the event's revision is never set")
	}
}
