package main

import (
	"fmt"
	"go/constant"
	"go/token"
	"go/types"
	"strings"

	"golang.org/x/tools/go/ssa"
)

func init() { register("C01", checkC01) }

// tombstoneRole: the package variable that holds the deletion marker and the Config fields it is copied into.
type tombstoneRole struct {
	p      *Prog
	global *ssa.Global
	fields map[*types.Var]bool
}

func (p *Prog) tombstone() *tombstoneRole {
	t := &tombstoneRole{p: p, fields: map[*types.Var]bool{}}
	// the marker is the package variable whose value the backend's delete writes into the version record: resolve it
	// from the Config fields named Tombstone in scanner / retry (role: fields fed from one global)
	for _, pk := range []string{"pkg/backend/scanner", "pkg/backend/retry"} {
		fv := p.structField(pk, "Config", "Tombstone")
		t.fields[fv] = true
		for _, v := range p.fieldStores(fv) {
			if g := globalLoad(p.resolveDeep(v)); g != nil {
				if t.global != nil && t.global != g {
					brokenf("tombstone role: Config.Tombstone fields are fed from different package variables (%s, %s)", t.global.Name(), g.Name())
				}
				t.global = g
			}
		}
	}
	// worker config copy
	t.fields[p.structField("pkg/backend/scanner", "workerConfig", "tombstone")] = true
	if t.global == nil {
		brokenf("tombstone role: no package variable feeds scanner/retry Config.Tombstone")
	}
	return t
}

// is reports whether v is the deletion marker (the global, or a load of a config field that is fed from it).
func (t *tombstoneRole) is(v ssa.Value) bool {
	v = t.p.resolveDeep(v)
	if g := globalLoad(v); g != nil {
		return g == t.global
	}
	switch x := v.(type) {
	case *ssa.UnOp:
		if x.Op == token.MUL {
			if fa, ok := x.X.(*ssa.FieldAddr); ok {
				return t.fields[fieldOf(fa)]
			}
		}
	case *ssa.Field:
		return t.fields[fieldOfField(x)]
	}
	return false
}

type versionedBatch struct {
	b     *batchModel
	ctx   ssa.CallInstruction
	put   batchOp // the version-key Put
	pk    keyProv
	cond  *batchOp
	ck    keyProv
	other []batchOp
}

// versionedBatches finds the batches that write a version record, specialised per calling context.
func (p *Prog) versionedBatches() []versionedBatch {
	var out []versionedBatch
	for _, b := range p.batches() {
		if strings.Contains(funcName(b.Fn), "pkg/storage/") {
			continue
		}
		for _, ctx := range p.contextsOf(b) {
			var vb *versionedBatch
			for _, op := range b.Ops {
				if op.Kind != "Put" {
					continue
				}
				kp := p.keyProvenance(p.ctxValue(op.Key, ctx))
				if kp.Kind == keyVersion {
					vb = &versionedBatch{b: b, ctx: ctx, put: op, pk: kp}
				}
			}
			if vb == nil {
				continue
			}
			for i := range b.Ops {
				op := b.Ops[i]
				if op.Call == vb.put.Call {
					continue
				}
				if (op.Kind == "CAS" || op.Kind == "PutIfNotExist") && vb.cond == nil {
					vb.cond = &b.Ops[i]
					vb.ck = p.keyProvenance(p.ctxValue(op.Key, ctx))
				} else {
					vb.other = append(vb.other, op)
				}
			}
			// operands of the coder calls that are parameters of the batch function: seen from the writer that called it
			if ctx != nil {
				up := func(v ssa.Value) ssa.Value {
					if prm, ok := p.resolveDeep(v).(*ssa.Parameter); ok && prm.Parent() == b.Fn && ctx.Common().StaticCallee() == b.Fn {
						if i := paramIndex(prm); i < len(ctx.Common().Args) {
							return ctx.Common().Args[i]
						}
					}
					return v
				}
				if vb.pk.Rev != nil {
					vb.pk.Rev = up(vb.pk.Rev)
				}
				if vb.pk.RawKey != nil {
					vb.pk.RawKey = up(vb.pk.RawKey)
				}
				if vb.ck.RawKey != nil {
					vb.ck.RawKey = up(vb.ck.RawKey)
				}
			}
			out = append(out, *vb)
		}
	}
	return out
}

func checkC01(p *Prog, res *Result, tier string) {
	r := p.roles()
	ts := p.tombstone()
	res.Explanation = "Structural necessary conditions of lost-update freedom: R1 the index record (the optimistic lock) is written only by CAS / PutIfNotExist / compare-and-delete, never by an unconditional Put/Del; R2 every batch that writes a version record carries exactly one conditional operation on the index key of the same user key, the new index value encodes the same revision as the version key, and the batch is committed exactly once after its operations on every path; R3 the expected value of each CAS is the caller's expectation, an observed value under the documented guard (create over a tombstone only if isTombstone && prevRevision < revision; delete falls back to the read revision only when no expectation was given) or the queued revision of the repair write; R4 a delete is committed only if the allocated revision exceeds the revision just read; R5 the write entry points never issue deletes or compensating writes."
	res.NotDecided = "linearizability of conditional writes under concurrency (engine atomicity, C11); 'a condition is reported failed only if the key really differed'; compaction racing a create."
	res.Assumptions = []string{"engines apply a batch atomically and evaluate CAS/PutIfNotExist against the committed state (C11)"}
	res.rule("C01-R1", "no unconditional Put/Del on an index key; index keys from an iterator are deleted only by compare-and-delete", 6)
	res.rule("C01-R2", "every version-writing batch = one conditional op on the index key of the same user key + version Put with the same revision, committed exactly once after all ops on every path", 5)
	res.rule("C01-R3", "the expected value of each index CAS has an accepted provenance and guard", 4)
	res.rule("C01-R4", "the tombstone-writing batch is committed only on the false branch of newRevision <= modRevision", 1)
	res.rule("C01-R5", "no delete / compare-and-delete is reachable from the write entry points (failure leaves the key unchanged)", 4)
	res.rule("C01-R7", "the index value carries the deletion flag exactly when the version record written with it is the deletion marker (also in the repair write, which re-plays either kind)", 4)
	res.rule("C01-R8", "index and version records are written without an engine TTL, except by the classified Event create (C17-R5): a record that the engine removes by itself makes a later condition fail, or a create succeed, although no write intervened", 8)
	res.rule("C01-R9", "a condition is reported as failed only for a failed condition: every package-level error variable is an error class of its own (none wraps another), so errors.Is(err, ErrCASFailed) on the write paths holds for failed compares only", 6)
	res.rule("C01-R13", "a handler does not rewrite the verdict of the backend: no store into the Succeeded field of the response a Backend.Create / Update / Delete call returned (native handlers and etcd shim)", 4)
	res.rule("C01-R12", "a condition is reported failed only by the compare: the native write handlers answer a write (nil error) with the response the backend returned, never with one they built themselves", 3)
	res.rule("C01-R11", "each successful update lands above the revision it named: the revision written was allocated without error - in particular without 'revision drift back' (C02-R7)", 4)
	res.rule("C01-R10", "the reader of the index record tells 'deleted' from 'live' the way the writers encode it - by the length of the record (8 bytes: revision; 9: revision and flag), never by the content of a revision byte", 2)
	res.rule("C01-R6", "every engine evaluates CAS / PutIfNotExist atomically with the write: compare-before-write, one engine commit, memkv lock held from BeginBatchWrite to Commit (C11-R1/R2); the metrics wrapper forwards conditional operations unchanged (C11-R5)", 12)

	// ---- R1 ----
	for _, b := range p.batches() {
		for _, ctx := range p.contextsOf(b) {
			n := 0
			for _, op := range b.Ops {
				if op.Key == nil {
					continue
				}
				kp := p.keyProvenance(p.ctxValue(op.Key, ctx))
				if kp.Kind != keyIndex {
					continue
				}
				n++
				construct := fmt.Sprintf("%s%s: %s on an index key #%d", b.name(), ctxName(p, ctx), op.Kind, n)
				switch op.Kind {
				case "CAS", "PutIfNotExist":
					res.ok("C01-R1", construct, p.pos(op.Call.Pos()), "conditional write of the index record")
				default:
					res.bad("C01-R1", construct, p.pos(op.Call.Pos()), "the index record doubles as the optimistic lock: an unconditional "+op.Kind+" lets two writers conditioned on the same revision both succeed")
				}
			}
		}
	}
	// direct KvStorage.Del on an index key / iterator key guarded as index
	for _, f := range p.AllFuncs {
		if strings.Contains(funcName(f), "pkg/storage/") || f.Synthetic != "" {
			continue
		}
		n := 0
		for _, c := range callsIn(f) {
			if !r.is(c, r.KVDel) || !c.Common().IsInvoke() {
				continue
			}
			n++
			key := argForSigParam(c, 1)
			construct := fmt.Sprintf("%s: KvStorage.Del #%d", funcName(f), n)
			// parameters: expand over call sites
			vals := []ssa.Value{p.resolveDeep(key)}
			if prm, ok := vals[0].(*ssa.Parameter); ok {
				vals = nil
				for _, a := range p.paramActuals(prm) {
					vals = append(vals, p.resolveDeep(a))
				}
			}
			bad := ""
			for _, v := range vals {
				if p.keyProvenance(v).Kind == keyIndex {
					bad = "unconditional delete of an index key"
				}
			}
			if bad != "" {
				res.bad("C01-R1", construct, p.pos(c.Pos()), bad+": the index record must be removed by compare-and-delete only")
			} else {
				res.ok("C01-R1", construct, p.pos(c.Pos()), fmt.Sprintf("key operand(s) are version keys or iterator keys outside an index-record branch (%d provenance(s))", len(vals)))
			}
		}
	}

	// ---- R2 / R3 / R4 ----
	vbs := p.versionedBatches()
	a := &allocInfo{p: p, r: r}
	a.compute()
	for _, vb := range vbs {
		b := vb.b
		name := b.name() + ctxName(p, vb.ctx)
		pos := p.pos(b.Begin.Pos())
		if b.escapes() {
			res.und("C01-R2", name, pos, "the batch value escapes the function")
			continue
		}
		switch {
		case vb.cond == nil:
			res.bad("C01-R2", name+": conditional index op", pos, "a version record is written in a batch that has no conditional operation on the index record")
		case vb.ck.Kind != keyIndex:
			res.bad("C01-R2", name+": conditional index op", p.pos(vb.cond.Call.Pos()), "the conditional operation of the batch is not on an index key")
		case !sameVal(vb.ck.RawKey, vb.pk.RawKey):
			res.bad("C01-R2", name+": conditional index op", p.pos(vb.cond.Call.Pos()), "the index key and the version key of the batch are derived from different user keys")
		default:
			res.ok("C01-R2", name+": conditional index op", p.pos(vb.cond.Call.Pos()), vb.cond.Kind+" on the index key of the same user key as the version record")
		}
		if len(vb.other) > 0 {
			res.bad("C01-R2", name+": no other operation", p.pos(vb.other[0].Call.Pos()), fmt.Sprintf("the batch carries %d further operation(s) (%s) besides the index condition and the version Put", len(vb.other), vb.other[0].Kind))
		} else {
			res.ok("C01-R2", name+": no other operation", pos, "exactly two operations")
		}
		if vb.cond != nil {
			rb, ok := p.revisionBytesOf(p.ctxValue(vb.cond.Val, vb.ctx))
			switch {
			case !ok:
				res.und("C01-R2", name+": index value encodes the version revision", p.pos(vb.cond.Call.Pos()), "cannot identify the revision encoded in the new index value")
			case !sameVal(rb.Rev, vb.pk.Rev):
				res.bad("C01-R2", name+": index value encodes the version revision", p.pos(vb.cond.Call.Pos()), "the new index value encodes a different revision than the one in the version key: the index would point to a version that does not exist")
			default:
				res.ok("C01-R2", name+": index value encodes the version revision", p.pos(vb.cond.Call.Pos()), "same revision value in index value and version key")
			}
		}
		checkCommitDiscipline(p, res, "C01-R2", b, name)

		// R3
		if vb.cond != nil && vb.cond.Kind == "CAS" {
			checkExpectedProvenance(p, r, ts, a, res, vb, name)
		}
		// R4: tombstone write
		if ts.is(p.ctxValue(vb.put.Val, vb.ctx)) && len(b.Commits) > 0 {
			construct := name + ": delete order guard"
			newRev := p.resolveDeep(vb.pk.Rev)
			guarded := false
			facts := dominatingFacts(b.Commits[0].Block())
			if vb.ctx != nil {
				// a batch helper shared by several writers: the guard is the one of this writer's call
				facts = append(localFacts(b.Commits[0].Block()), dominatingFacts(vb.ctx.Block())...)
			}
			for _, cf := range facts {
				if cf.X == nil {
					continue
				}
				x, y, op, want := cf.X, cf.Y, cf.Op, cf.Want
				if p.resolveDeep(y) == newRev {
					x, y = y, x
					switch op {
					case token.LSS:
						op = token.GTR
					case token.LEQ:
						op = token.GEQ
					case token.GTR:
						op = token.LSS
					case token.GEQ:
						op = token.LEQ
					}
				}
				if p.resolveDeep(x) != newRev {
					continue
				}
				if !isReadRevision(y) {
					continue
				}
				if (op == token.LEQ && !want) || (op == token.GTR && want) {
					guarded = true
				}
			}
			if guarded {
				res.ok("C01-R4", construct, p.pos(b.Commits[0].Pos()), "commit dominated by newRevision > modRevision (revision just read)")
			} else {
				res.bad("C01-R4", construct, p.pos(b.Commits[0].Pos()), "the delete batch is committed without the guard newRevision > modRevision: a delete that allocated an earlier revision can overwrite a later writer")
			}
		}
	}
	res.Stats["versioned_batches"] = len(vbs)

	// ---- R7: deletion flag of the index value <=> deletion marker in the version record ----
	for _, vb := range vbs {
		if vb.cond == nil {
			continue
		}
		name := vb.b.name()
		construct := name + ": index value carries the deletion flag exactly when the version record is the deletion marker"
		V := p.ctxValue(vb.put.Val, vb.ctx)
		N := p.ctxValue(vb.cond.Val, vb.ctx)
		pos := p.pos(vb.cond.Call.Pos())
		// does the function compare the written value with the marker? (the repair write re-plays either kind)
		var cmp *ssa.Call
		for _, c := range callsIn(vb.b.Fn) {
			cc, ok := c.(*ssa.Call)
			sc := c.Common().StaticCallee()
			if !ok || sc == nil || sc.Pkg == nil || sc.Pkg.Pkg.Path() != "bytes" || (sc.Name() != "Equal" && sc.Name() != "Compare") {
				continue
			}
			a, b := c.Common().Args[0], c.Common().Args[1]
			if (ts.is(a) && sameVal(b, V)) || (ts.is(b) && sameVal(a, V)) {
				cmp = cc
			}
		}
		isMarkerFact := func(cf condFact) bool {
			if cmp == nil {
				return false
			}
			if cf.Call == cmp && cmp.Common().StaticCallee().Name() == "Equal" {
				return cf.Want
			}
			if cf.X != nil && resolve(cf.X) == ssa.Value(cmp) && isZeroConst(cf.Y) {
				return (cf.Op == token.EQL && cf.Want) || (cf.Op == token.NEQ && !cf.Want)
			}
			return false
		}
		switch {
		case ts.is(V):
			rb, ok := p.revisionBytesOf(N)
			switch {
			case !ok:
				res.und("C01-R7", construct, pos, "index value not a recognised revision encoding")
			case rb.Flag && rb.Len != 0:
				res.ok("C01-R7", construct, pos, "deletion marker with flagged index value")
			default:
				res.bad("C01-R7", construct, pos, "the version record written is the deletion marker, but the index value lacks the deletion flag on some path: readers see the key as deleted while every conditional write treats it as live (create refused for ever, update resurrects it)")
			}
		case cmp != nil:
			// dynamic: flagged on the edge(s) on which the value is known to be the marker, and only there
			good := flagFollowsMarker(p, N, isMarkerFact, 0)
			if good {
				res.ok("C01-R7", construct, pos, "the flag is appended on the branch where the re-played value is the deletion marker, and only there")
			} else {
				res.bad("C01-R7", construct, pos, "the write re-plays either a value or the deletion marker, but the deletion flag of the index value does not follow the comparison with the marker: a re-played delete leaves an index record that reads as live (or a re-played write one that reads as deleted)")
			}
		default:
			rb, ok := p.revisionBytesOf(N)
			switch {
			case !ok:
				res.und("C01-R7", construct, pos, "index value not a recognised revision encoding")
			case rb.Flag:
				res.bad("C01-R7", construct, pos, "a live value is written, but the index value carries the deletion flag: the key reads as deleted for conditional writes")
			default:
				res.ok("C01-R7", construct, pos, "live value with unflagged index value")
			}
		}
	}

	// ---- R6: engines evaluate the conditions atomically with the write (C11-R1 / C11-R2) ----
	sub11 := p.subResult("C11", tier)
	for _, o := range sub11.Obls {
		if (o.Rule == "C11-R1" && (strings.Contains(o.Construct, "CAS") || strings.Contains(o.Construct, "PutIfNotExist"))) ||
			(o.Rule == "C11-R2" && (strings.Contains(o.Construct, "Commit:") || strings.Contains(o.Construct, "memkv:"))) ||
			// the metrics wrapper in front of every engine hands the conditional operations on unchanged
			(o.Rule == "C11-R5" && (strings.HasSuffix(o.Construct, ".CAS") || strings.HasSuffix(o.Construct, ".PutIfNotExist") || strings.HasSuffix(o.Construct, ".DelCurrent") || strings.HasSuffix(o.Construct, ".Commit"))) ||
			// a read leaves the records alone (the in-process engine's seek marker), the condition is read inside the batch's transaction
			(o.Rule == "C11-R3" && strings.Contains(o.Construct, "read path removes only")) {
			res.add("C01-R6", o.Rule+" "+o.Construct, o.Status, o.Pos, o.Detail)
		}
	}

	// ---- R1 (iterator keys): the compaction scan removes the record under its iterator unconditionally only when that
	// record is a deletion marker (never an index record), and the index record only by compare-and-delete, on the
	// compaction branch (C07-R2/R3) and on the expiry branch (C17-R3) ----
	{
		sub7 := p.subResult("C07", tier)
		for _, o := range sub7.Obls {
			if (o.Rule == "C07-R3" && strings.Contains(o.Construct, "current record deleted only")) ||
				(o.Rule == "C07-R2" && strings.Contains(o.Construct, "current index site")) {
				res.add("C01-R1", o.Rule+" "+o.Construct, o.Status, o.Pos, o.Detail)
			}
		}
		sub17 := p.subResult("C17", tier)
		for _, o := range sub17.Obls {
			if o.Rule == "C17-R3" {
				res.add("C01-R1", o.Rule+" "+o.Construct, o.Status, o.Pos, o.Detail)
			}
			// ---- R8: the records the conditions are evaluated on do not vanish by themselves ----
			if o.Rule == "C17-R5" && strings.Contains(o.Construct, "TTL operand") {
				res.add("C01-R8", o.Rule+" "+o.Construct, o.Status, o.Pos, o.Detail)
			}
		}
	}

	// ---- R9: 'failed condition' is a class of its own ----
	checkSentinelIdentity(p, res, "C01-R9")
	checkIndexReaderAgrees(p, res, "C01-R10")
	checkHandlersAnswerWithBackendResult(p, r, res, "C01-R12")
	checkHandlersKeepVerdict(p, r, res, "C01-R13")
	// the chain is in revision order only if an update lands above the revision it is conditioned on: the allocator's
	// drift-back error must not be dropped on the way to the commit (C02-R7)
	{
		ai := &allocInfo{p: p, r: r}
		ai.compute()
		sub := newResult("C02")
		checkAllocErrorChecked(p, r, ai, sub, "C02-R7")
		for _, o := range sub.Obls {
			res.add("C01-R11", o.Rule+" "+o.Construct, o.Status, o.Pos, o.Detail)
		}
	}

	// ---- R5: no deletes reachable from write entry points ----
	entries := []*ssa.Function{}
	for _, m := range []*types.Func{r.BCreate, r.BUpdate, r.BDelete} {
		for _, impl := range p.implsOf(m) {
			if strings.Contains(funcName(impl), "pkg/backend.") {
				entries = append(entries, impl)
			}
		}
	}
	retryRun := p.ifaceMethod("pkg/backend/retry", "AsyncFifoRetry", "Run")
	entries = append(entries, p.implsOf(retryRun)...)
	for _, e := range entries {
		seen := map[*ssa.Function]bool{}
		var hit ssa.CallInstruction
		var chain string
		var walk func(f *ssa.Function, path string)
		walk = func(f *ssa.Function, path string) {
			if seen[f] || hit != nil || f.Blocks == nil {
				return
			}
			seen[f] = true
			for _, c := range callsIn(f) {
				if c.Common().IsInvoke() && (c.Common().Method == r.KVDel || c.Common().Method == r.KVDelCurrent || c.Common().Method == r.BWDel || c.Common().Method == r.BWDelCurrent) {
					hit, chain = c, path
					return
				}
				for _, callee := range p.calleesOf(c) {
					if callee.Pkg == nil || !strings.HasPrefix(callee.Pkg.Pkg.Path(), modPath+"/pkg/backend") {
						continue
					}
					walk(callee, path+" -> "+funcName(callee))
				}
			}
		}
		walk(e, funcName(e))
		construct := funcName(e) + ": no delete reachable"
		if hit != nil {
			res.bad("C01-R5", construct, p.pos(hit.Pos()), "a delete is reachable from a write entry point (a failed write must leave the key unchanged; deletes belong to compaction): "+chain)
		} else {
			res.ok("C01-R5", construct, p.pos(e.Pos()), fmt.Sprintf("%d functions of pkg/backend/** reachable, none issues Del/DelCurrent", len(seen)))
		}
	}
}

// isReadRevision: v is a uint64 result of a call returning ([]byte, uint64, error) — the point read of the key.
func isReadRevision(v ssa.Value) bool {
	c, idx, ok := extractOf(v)
	if !ok {
		return false
	}
	sig := c.Common().Signature()
	if sig.Results().Len() != 3 || idx != 1 {
		return false
	}
	_, isSlice := sig.Results().At(0).Type().Underlying().(*types.Slice)
	b, isU := sig.Results().At(1).Type().Underlying().(*types.Basic)
	return isSlice && isU && b.Kind() == types.Uint64 && errorResultIndex(sig) == 2
}

// checkCommitDiscipline: exactly one Commit, after all operations, on every path from BeginBatchWrite to an exit.
func checkCommitDiscipline(p *Prog, res *Result, rule string, b *batchModel, name string) {
	construct := name + ": committed exactly once after its operations"
	pos := p.pos(b.Begin.Pos())
	if len(b.Commits) != 1 {
		if len(b.Commits) == 0 {
			res.bad(rule, construct, pos, "the batch is never committed in this function (with memkv the store lock taken by BeginBatchWrite is never released)")
		} else {
			res.bad(rule, construct, pos, fmt.Sprintf("the batch is committed at %d sites: index and version may be split over two commits or applied twice", len(b.Commits)))
		}
		return
	}
	commit := b.Commits[0].(ssa.Instruction)
	for _, op := range b.Ops {
		// operations staged by a builder precede whatever is done with the batch it returns
		if b.BuiltFor != nil && op.Call.Parent() == b.Fn {
			continue
		}
		// an op may sit in a branch (CAS vs PutIfNotExist); it must precede the commit on its own paths
		if !(instrDominates(op.Call.(ssa.Instruction), commit) || reaches(op.Call.(ssa.Instruction), commit)) || reaches(commit, op.Call.(ssa.Instruction)) {
			res.bad(rule, construct, p.pos(op.Call.Pos()), op.Kind+" is not ordered before the commit of its batch")
			return
		}
	}
	// every path from Begin (from the builder's call) to a return passes the commit
	bp := posOf(b.Begin)
	if b.BuiltFor != nil {
		bp = posOf(b.BuiltFor.(ssa.Instruction))
	}
	ins, path := searchFrom(bp.b, bp.i+1, searchOpts{
		stop: func(i ssa.Instruction) bool { return i == commit },
		bad:  func(i ssa.Instruction) bool { _, ok := i.(*ssa.Return); return ok },
	})
	if ins != nil {
		res.bad(rule, construct, p.pos(ins.Pos()), "a path returns after BeginBatchWrite without committing the batch (operations silently dropped; with memkv the store stays locked): "+blockPath(p, path))
		return
	}
	res.ok(rule, construct, pos, fmt.Sprintf("%d operation(s), one commit on every path", len(b.Ops)))
}

// reaches: instruction a can be followed by instruction b on some CFG path.
func reaches(a, b ssa.Instruction) bool {
	pa := posOf(a)
	ins, _ := searchFrom(pa.b, pa.i+1, searchOpts{bad: func(i ssa.Instruction) bool { return i == b }})
	return ins != nil
}

// checkExpectedProvenance classifies the expected value of the index CAS of a versioned batch.
func checkExpectedProvenance(p *Prog, r *Roles, ts *tombstoneRole, a *allocInfo, res *Result, vb versionedBatch, name string) {
	construct := name + ": expected value of the index CAS"
	pos := p.pos(vb.cond.Call.Pos())
	old := p.ctxValue(vb.cond.Old, vb.ctx)
	fn := vb.b.Fn
	if vb.ctx != nil {
		fn = vb.ctx.Parent()
	}
	// form A/B/D: revision bytes of some revision value
	if rb, ok := p.revisionBytesOf(old); ok {
		// (the encoded revision may be a parameter of a batch helper: seen from the writer that calls it)
		rev := p.resolveDeep(rb.Rev)
		if prm, ok := rev.(*ssa.Parameter); ok && prm.Parent() == vb.b.Fn && vb.ctx != nil && len(fn.Params) > 0 {
			// the expectation is handed to the batch function by its caller: seen from that writer, if it is one of
			// the writer's own parameters there; otherwise it stays the batch function's parameter
			if i := paramIndex(prm); vb.ctx.Common().StaticCallee() == prm.Parent() && i < len(vb.ctx.Common().Args) {
				if up, ok := p.resolveDeep(vb.ctx.Common().Args[i]).(*ssa.Parameter); ok && up.Parent() == fn {
					rev = up
				} else if _, isRevBytesParam := p.resolveDeep(vb.cond.Old).(*ssa.Parameter); !isRevBytesParam {
					res.ok("C01-R3", construct, pos, fmt.Sprintf("encodes parameter %q of %s (the caller's expected revision)", prm.Name(), funcName(prm.Parent())))
					return
				}
			}
		}
		switch x := rev.(type) {
		case *ssa.Parameter:
			if x.Parent() == fn {
				res.ok("C01-R3", construct, pos, fmt.Sprintf("encodes parameter %q of %s (the caller's expected revision / the queued revision)", x.Name(), funcName(fn)))
				return
			}
		case *ssa.Phi:
			// delete: phi(expected parameter, revision just read) where the read edge is taken only if the parameter is <= 0
			okAll := true
			detail := ""
			for i, e := range x.Edges {
				ev := p.resolveDeep(e)
				pred := x.Block().Preds[i]
				if prm, ok := ev.(*ssa.Parameter); ok && prm.Parent() == fn {
					continue
				}
				if isReadRevision(ev) {
					// the predecessor must be dominated by (param <= 0) or (param == 0)
					g := false
					for _, cf := range dominatingFacts(pred) {
						if cf.X == nil {
							continue
						}
						if prm, ok := p.resolveDeep(cf.X).(*ssa.Parameter); ok && prm.Parent() == fn && isZeroConst(cf.Y) {
							if ((cf.Op == token.LEQ || cf.Op == token.EQL) && cf.Want) || ((cf.Op == token.GTR || cf.Op == token.NEQ) && !cf.Want) {
								g = true
							}
						}
					}
					if g {
						continue
					}
					okAll, detail = false, "the revision just read is used as the expectation although the caller supplied one"
					continue
				}
				okAll, detail = false, "an operand of the expected revision is neither the caller's expectation nor the revision just read"
			}
			if okAll {
				res.ok("C01-R3", construct, pos, "caller's expected revision, or the revision just read only when no expectation was given")
			} else {
				res.bad("C01-R3", construct, pos, detail)
			}
			return
		}
		res.bad("C01-R3", construct, pos, "the expected value of the CAS encodes a revision that is neither the caller's expectation nor an observed value")
		return
	}
	// form C: raw bytes observed in a conflict or a re-read, guarded by ParseRevision(old) => isTombstone && prev < new.
	// The observation, the parse and the guard may live in the caller(s) of the batch function: the expected value is
	// followed up the call chain and the guard is looked for among the facts that hold at the CAS (interprocedural).
	parse := p.fn("pkg/backend/coder", "ParseRevision")
	oldUp := resolveUp(old)
	var pc *ssa.Call
	for _, g := range p.AllFuncs {
		for _, c := range callsIn(g) {
			if cc, ok := c.(*ssa.Call); ok && cc.Common().StaticCallee() == parse && sameVal(cc.Common().Args[0], oldUp) {
				pc = cc
			}
		}
	}
	site := ssa.Instruction(vb.cond.Call.(ssa.Instruction))
	if pc == nil {
		res.bad("C01-R3", construct, pos, "the expected value is a raw byte string that is not parsed by ParseRevision before use: no evidence it is an observed index value under the tombstone guard")
		return
	}
	ex := extractsOf(pc)
	newRev := p.resolveDeep(vb.pk.Rev)
	tomb, ordered := false, false
	for _, cf := range dominatingFacts(site.Block()) {
		if cf.Raw == ex[1] && cf.Want {
			tomb = true
		}
		if cf.X != nil {
			x, y, op, want := cf.X, cf.Y, cf.Op, cf.Want
			if sameVal(x, ex[0]) && sameVal(y, newRev) && ((op == token.LSS && want) || (op == token.GEQ && !want)) {
				ordered = true
			}
			if sameVal(y, ex[0]) && sameVal(x, newRev) && ((op == token.GTR && want) || (op == token.LEQ && !want)) {
				ordered = true
			}
		}
	}
	switch {
	case !tomb:
		res.bad("C01-R3", construct, p.pos(site.Pos()), "a create overwrites the observed index record without the guard isTombstone: a live key can be replaced by a create")
	case !ordered:
		res.bad("C01-R3", construct, p.pos(site.Pos()), "a create overwrites a tombstoned index record without the guard prevRevision < revision: a create that allocated an earlier revision can land on top of a later delete (revisions of the key go backwards)")
	default:
		res.ok("C01-R3", construct, p.pos(site.Pos()), "observed bytes, used only under isTombstone && prevRevision < revision of ParseRevision(observed)")
	}
}

// flagFollowsMarker: the revision bytes v carry the deletion flag exactly on the paths on which `marker` holds. v is a
// phi whose flagged edges are those guarded by the marker fact, or the result of a helper h(.., b, ..) whose bool
// argument b is the marker test itself and whose result follows b in the same way.
func flagFollowsMarker(p *Prog, v ssa.Value, marker func(condFact) bool, depth int) bool {
	if depth > 3 {
		return false
	}
	v = resolve(v)
	switch x := v.(type) {
	case *ssa.Phi:
		nFlag := 0
		for i, e := range x.Edges {
			rb, ok := p.revisionBytesOf(e)
			if !ok {
				return false
			}
			pred := x.Block().Preds[i]
			holds := false
			for _, cf := range dominatingFacts(pred) {
				if marker(cf) {
					holds = true
				}
			}
			if iff := ifOf(pred); iff != nil && !holds {
				for si := 0; si < 2; si++ {
					if pred.Succs[si] == x.Block() {
						for _, cf := range expandFact(edgeFact(edge{pred, si}), 0) {
							if marker(cf) {
								holds = true
							}
						}
					}
				}
			}
			if rb.Flag != holds {
				return false
			}
			if rb.Flag {
				nFlag++
			}
		}
		return nFlag > 0
	case *ssa.Extract:
		if c, ok := x.Tuple.(*ssa.Call); ok {
			return flagFollowsMarkerCall(p, c, x.Index, marker, depth)
		}
	case *ssa.Call:
		return flagFollowsMarkerCall(p, x, 0, marker, depth)
	}
	return false
}

// flagFollowsMarkerCall: result #ridx of a helper that is handed the marker test as a bool argument.
func flagFollowsMarkerCall(p *Prog, x *ssa.Call, ridx int, marker func(condFact) bool, depth int) bool {
	{
		h := x.Common().StaticCallee()
		if h == nil || h.Blocks == nil || h.Signature.Results().Len() <= ridx {
			return false
		}
		for j, a := range x.Common().Args {
			bt, ok := a.Type().Underlying().(*types.Basic)
			if !ok || bt.Kind() != types.Bool || j >= len(h.Params) {
				continue
			}
			// the argument is the marker test
			isTest := false
			for _, cf := range expandFact(factOf(a, true), 0) {
				if marker(cf) {
					isTest = true
				}
			}
			if !isTest {
				continue
			}
			prm := h.Params[j]
			inner := func(cf condFact) bool { return cf.Raw == ssa.Value(prm) && cf.Want }
			var rets []ssa.Value
			for _, b := range h.Blocks {
				if ret, ok := b.Instrs[len(b.Instrs)-1].(*ssa.Return); ok {
					rets = append(rets, ret.Results[ridx])
				}
			}
			if len(rets) == 1 && flagFollowsMarker(p, rets[0], inner, depth+1) {
				return true
			}
			// several returns: each is flagged exactly when its block is guarded by the parameter
			if len(rets) > 1 {
				okAll, nFlag := true, 0
				for _, b := range h.Blocks {
					ret, ok := b.Instrs[len(b.Instrs)-1].(*ssa.Return)
					if !ok {
						continue
					}
					rb, ok := p.revisionBytesOf(ret.Results[ridx])
					holds := false
					for _, cf := range dominatingFacts(b) {
						if inner(cf) {
							holds = true
						}
					}
					if !ok || rb.Flag != holds {
						okAll = false
					}
					if ok && rb.Flag {
						nFlag++
					}
				}
				if okAll && nFlag > 0 {
					return true
				}
			}
		}
	}
	return false
}

// checkIndexReaderAgrees: writer and reader of the index record agree on the deletion flag. The writers (C01-R7) encode
// a revision in 8 bytes and append one byte for a deletion; the reader (coder.ParseRevision, whose answer guards the
// create-over-tombstone branch, C01-R3) must therefore answer 'deleted' exactly where it has found the record to be 9
// bytes long and 'live' where it has found 8 - a decision that looks at a byte of the record depends on the revision.
func checkIndexReaderAgrees(p *Prog, res *Result, rule string) {
	f := p.fn("pkg/backend/coder", "ParseRevision")
	var prm *ssa.Parameter
	for _, q := range f.Params {
		if sl, ok := q.Type().Underlying().(*types.Slice); ok {
			if b, ok := sl.Elem().Underlying().(*types.Basic); ok && b.Kind() == types.Byte {
				prm = q
			}
		}
	}
	boolIdx, errIdx := -1, errorResultIndex(f.Signature)
	for i := 0; i < f.Signature.Results().Len(); i++ {
		if b, ok := f.Signature.Results().At(i).Type().Underlying().(*types.Basic); ok && b.Kind() == types.Bool {
			boolIdx = i
		}
	}
	if prm == nil || boolIdx < 0 || errIdx < 0 {
		res.und(rule, funcName(f), p.pos(f.Pos()), "cannot identify the record parameter / the flag result / the error result of the index parser")
		return
	}
	isLen := func(v ssa.Value) bool {
		c, ok := resolve(v).(*ssa.Call)
		if !ok {
			return false
		}
		b, ok := c.Common().Value.(*ssa.Builtin)
		return ok && b.Name() == "len" && resolve(c.Common().Args[0]) == ssa.Value(prm)
	}
	pinned := func(at *ssa.BasicBlock) (int64, bool) {
		for _, cf := range localFacts(at) {
			if cf.X == nil {
				continue
			}
			x, y := cf.X, cf.Y
			if isLen(y) {
				x, y = y, x
			}
			k, isK := constInt(y)
			if isLen(x) && isK && ((cf.Op == token.EQL && cf.Want) || (cf.Op == token.NEQ && !cf.Want)) {
				return k, true
			}
		}
		return 0, false
	}
	var judge func(v ssa.Value, at *ssa.BasicBlock, depth int) (string, bool)
	judge = func(v ssa.Value, at *ssa.BasicBlock, depth int) (string, bool) {
		v = resolve(v)
		if phi, ok := v.(*ssa.Phi); ok && depth < 4 {
			for i, e := range phi.Edges {
				if why, ok := judge(e, phi.Block().Preds[i], depth+1); !ok {
					return why, false
				}
			}
			return "every alternative follows the length of the record", true
		}
		if k, ok := v.(*ssa.Const); ok && k.Value != nil && k.Value.Kind() == constant.Bool {
			want := int64(8)
			if constant.BoolVal(k.Value) {
				want = 9
			}
			if n, ok := pinned(at); ok && n == want {
				return fmt.Sprintf("answers %v where the record was found to be %d bytes long", constant.BoolVal(k.Value), want), true
			}
			return fmt.Sprintf("the parser answers deleted=%v on a path where it has not found the record to be %d bytes long: live index records are taken for deleted ones (a create succeeds over a live key) or deleted ones for live", constant.BoolVal(k.Value), want), false
		}
		if bo, ok := v.(*ssa.BinOp); ok {
			x, y, op := bo.X, bo.Y, bo.Op
			if isLen(y) {
				x, y = y, x
				switch op {
				case token.LSS:
					op = token.GTR
				case token.LEQ:
					op = token.GEQ
				case token.GTR:
					op = token.LSS
				case token.GEQ:
					op = token.LEQ
				}
			}
			if k, isK := constInt(y); isLen(x) && isK {
				if (op == token.EQL && k == 9) || (op == token.GTR && k == 8) || (op == token.GEQ && k == 9) {
					return "the flag is the comparison of the record's length with the flagged length", true
				}
			}
		}
		// the flag byte itself, read where the record is known to have one (the writers append a zero byte)
		if bo, ok := v.(*ssa.BinOp); ok && bo.Op == token.EQL {
			x, y := resolve(bo.X), resolve(bo.Y)
			if isZeroConst(x) {
				x, y = y, x
			}
			if ld, ok := x.(*ssa.UnOp); ok && ld.Op == token.MUL && isZeroConst(y) {
				if ia, ok := ld.X.(*ssa.IndexAddr); ok && resolve(ia.X) == ssa.Value(prm) {
					idxOK := false
					if k, isK := constInt(ia.Index); isK && k == 8 {
						idxOK = true
					}
					if sub, ok := resolve(ia.Index).(*ssa.BinOp); ok && sub.Op == token.SUB && isLen(sub.X) {
						if k, isK := constInt(sub.Y); isK && k == 1 {
							idxOK = true
						}
					}
					if n, ok := pinned(at); ok && n == 9 && idxOK {
						return "the flag byte of a record found to be 9 bytes long", true
					}
				}
			}
		}
		return "the parser decides 'deleted' from the content of the record instead of its length: for a live record the byte it looks at is a byte of the revision, so the answer depends on the revision (a live key whose revision ends in a zero byte reads as deleted and can be created over)", false
	}
	n := 0
	for _, b := range f.Blocks {
		ret, ok := b.Instrs[len(b.Instrs)-1].(*ssa.Return)
		if !ok || b.Comment == "recover" || !isNilConst(resolve(ret.Results[errIdx])) {
			continue
		}
		n++
		construct := fmt.Sprintf("%s: deletion flag of successful return #%d", funcName(f), n)
		if why, ok := judge(ret.Results[boolIdx], b, 0); ok {
			res.ok(rule, construct, p.pos(ret.Pos()), why)
		} else {
			res.bad(rule, construct, p.pos(ret.Pos()), why)
		}
	}
}

// checkHandlersAnswerWithBackendResult (C01-R12): "the condition failed" is something only the compare in the storage
// batch can find out. A write handler of the server layer therefore answers a write (nil error) with the response the
// backend returned for it - it does not make up a Succeeded=false answer from a look at the committed revision, which
// lags behind what is stored while an older write is still in flight (an update that names the revision just written
// would be refused although the key never differed from the expectation).
func checkHandlersAnswerWithBackendResult(p *Prog, r *Roles, res *Result, rule string) {
	writes := map[*types.Func]bool{r.BCreate: true, r.BUpdate: true, r.BDelete: true}
	n := 0
	for _, f := range p.AllFuncs {
		if f.Pkg == nil || f.Blocks == nil || !strings.HasPrefix(f.Pkg.Pkg.Path(), modPath+"/pkg/server/brain") || f.Synthetic != "" {
			continue
		}
		ei := errorResultIndex(f.Signature)
		if ei != 1 || f.Signature.Results().Len() != 2 {
			continue
		}
		var bcalls []*ssa.Call
		for _, c := range callsIn(f) {
			if cc, ok := c.(*ssa.Call); ok && c.Common().IsInvoke() && writes[c.Common().Method] {
				bcalls = append(bcalls, cc)
			}
		}
		if len(bcalls) == 0 {
			continue
		}
		k := 0
		for _, b := range f.Blocks {
			ret, ok := b.Instrs[len(b.Instrs)-1].(*ssa.Return)
			if !ok || b.Comment == "recover" {
				continue
			}
			k++
			n++
			construct := fmt.Sprintf("%s: response of return #%d", funcName(f), k)
			good := true
			for _, v := range resolveAll(ret.Results[0]) {
				if isNilConst(v) {
					continue
				}
				fromBackend := false
				if ex, ok := v.(*ssa.Extract); ok && ex.Index == 0 {
					for _, bc := range bcalls {
						if ex.Tuple == ssa.Value(bc) {
							fromBackend = true
						}
					}
				}
				if !fromBackend {
					good = false
				}
			}
			if good {
				res.ok(rule, construct, p.pos(ret.Pos()), "nil, or the response of the backend call")
			} else {
				res.bad(rule, construct, p.pos(ret.Pos()), "the handler answers a write without an error with a response it built itself instead of the backend's: a refusal that does not come from the compare in the storage batch (e.g. from a look at the committed revision, which lags behind what is stored while an older write is in flight) reports a failed condition for a key that never differed from the expectation")
			}
		}
	}
	if n == 0 {
		res.und(rule, "native write handlers", "-", "no function of pkg/server/brain calls Backend.Create / Update / Delete")
	}
}
