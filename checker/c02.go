package main

import (
	"fmt"
	"go/token"
	"go/types"
	"strings"

	"golang.org/x/tools/go/ssa"
)

func init() { register("C02", checkC02) }

func isAtomicCall(c ssa.CallInstruction) (string, bool) {
	sc := c.Common().StaticCallee()
	if sc == nil || sc.Pkg == nil || sc.Pkg.Pkg.Path() != "sync/atomic" {
		return "", false
	}
	return sc.Name(), true
}

func checkC02(p *Prog, res *Result, tier string) {
	r := p.roles()
	res.Explanation = "R1 the two counters of the TSO implementation are touched only through sync/atomic; the dealt counter is written only by AddUint64(+1) in Deal (whose result is returned), StoreUint64 in Init and a CompareAndSwap in Commit guarded by old < new (monotone raise) — premises of 'one atomic fetch-add per attempt' from which uniqueness and real-time order of allocations follow; R2 the revision in every version key written to storage (and hence in the new index value, C01-R2) is an allocated revision, followed through helper parameters; R3 only the sequencer, the leader-start callback, the follower sync and pass-throughs may reset the counters; R4 for each response of the backend that carries a header revision h and a key-value with revision d, h >= d is established by one of the proof forms (h = max(.., d) as helper call or compare-and-assign, h == d, or h allocated after the read that produced d)."
	res.NotDecided = "real-time order of responses (only of allocations); the engine timestamp used to seed the counter (C15); revisions of range results against the header when the client names an explicit read revision (recorded finding)."
	res.Assumptions = []string{"sync/atomic semantics", "C01-R1..R4 hold (per-key monotonicity needs the index CAS discipline)"}
	res.rule("C02-R1", "TSO counters: atomic-only access; dealt counter written only by +1 in Deal, Store in Init, guarded monotone CAS in Commit; committed counter only by Store in Init and guarded monotone CAS in Commit", 6)
	res.rule("C02-R2", "every version key written to storage carries an allocated revision", 5)
	res.rule("C02-R3", "only the sequencer, the leader-start callback, the follower sync and pass-throughs call TSO.Init/Commit/SetCurrentRevision", 3)
	res.rule("C02-R8", "TSO.Commit leaves the allocator at or above the committed revision on every path: no return of Commit is reached without an atomic operation on the allocator field", 1)
	res.rule("C02-R7", "a version record is committed with an allocated revision only where that allocation's error (oracle failure, revision drift back below the revision the write is conditioned on) was found nil", 4)
	res.rule("C02-R5", "along one key's history revisions increase: guards of the index CAS (create over a tombstone only if prevRevision < revision; delete only if newRevision > modRevision) — C01-R3/R4, evaluated atomically by every engine (C01-R6)", 12)
	res.rule("C02-R6", "a node that becomes leader seeds its counters from the lock's engine timestamp before it admits writes (C15-R1): no revision is handed out twice across a hand-over", 3)
	res.rule("C02-R4", "each backend response with header revision h and data revision d establishes h >= d by an accepted proof form", 5)

	// ---- R1 ----
	checkTSOCounters(p, r, res, "C02-R1")

	// ---- R2 ----
	a := &allocInfo{p: p, r: r}
	a.compute()
	for _, vb := range p.versionedBatches() {
		name := vb.b.name() + ctxName(p, vb.ctx)
		construct := name + ": revision of the version key"
		why, ok := a.isAllocated(vb.pk.Rev, 0)
		if ok {
			res.ok("C02-R2", construct, p.pos(vb.put.Call.Pos()), why)
		} else {
			res.bad("C02-R2", construct, p.pos(vb.put.Call.Pos()), "the version record is stamped with a revision that is not a freshly allocated one ("+why+"): two writes can share a revision or a key's history can go backwards")
		}
	}

	checkAllocErrorChecked(p, r, a, res, "C02-R7")
	checkCommitRaisesAllocator(p, r, res, "C02-R8")

	// ---- R5: per-key monotonicity rests on the guards of the index CAS (C01-R3 / C01-R4) ----
	sub1 := p.subResult("C01", tier)
	for _, o := range sub1.Obls {
		// .. which decide anything only if the engine evaluates them atomically with the write (C01-R6 <- C11-R1/R2)
		// .. and only while the index record is never removed or replaced behind the back of a conditional write (C01-R1)
		if o.Rule == "C01-R3" || o.Rule == "C01-R4" || o.Rule == "C01-R6" || o.Rule == "C01-R1" {
			res.add("C02-R5", o.Rule+" "+o.Construct, o.Status, o.Pos, o.Detail)
		}
	}

	// ---- R3 ----
	checkWhoMayAdvance(p, r, res, "C02-R3")
	// .. and what the sequencer commits is the revision of the slot it consumed, nothing computed from a request (C04-R3)
	for _, o := range p.subResult("C04", tier).Obls {
		if o.Rule == "C04-R3" {
			res.add("C02-R3", o.Rule+" "+o.Construct, o.Status, o.Pos, o.Detail)
		}
	}

	// ---- R4 ----
	checkHeaderVsData(p, r, a, res)
	// .. and the etcd translation hands that header on instead of looking at the committed revision again (C16-R9)
	checkShimHeaders(p, p.leaderRoles(), res, "C02-R4")
	// .. and the modification revision a scan returns with a value is the revision of that version (C03-R8)
	checkResultRecordConsistent(p, r, res, "C02-R4")

	// compaction never runs above the committed revision: the deletion record that a delayed create must see (C01-R3's
	// tombstone guard) is still there (C09-R2)
	checkCompactionClamp(p, r, res, "C02-R5")

	// ---- R6 (one allocator at a time): the lock that makes a node leader is taken by conditional writes only (C14-R1/R2) ----
	for _, o := range p.subResult("C14", tier).Obls {
		if o.Rule == "C14-R1" || o.Rule == "C14-R2" {
			res.add("C02-R6", o.Rule+" "+o.Construct, o.Status, o.Pos, o.Detail)
		}
	}
	// ---- R6: hand-over (C15-R1) ----
	checkLeaderStart(p, r, res, "C02-R6")
	// .. from a timestamp that was really read: a failed oracle read fails the lock operation (C15-R5)
	{
		sub15 := newResult("C15")
		checkOracleErrorPreserved(p, r, sub15, "C15-R5")
		for _, o := range sub15.Obls {
			res.add("C02-R6", o.Rule+" "+o.Construct, o.Status, o.Pos, o.Detail)
		}
	}
}

// isAllocated: v is the allocated-revision result of an allocation site, possibly through parameters (all call sites).
func (a *allocInfo) isAllocated(v ssa.Value, depth int) (string, bool) {
	p := a.p
	if depth > 4 {
		return "provenance too deep", false
	}
	v = p.resolveDeep(v)
	switch x := v.(type) {
	case *ssa.Parameter:
		acts := p.paramActuals(x)
		if len(acts) == 0 {
			// interface-dispatched method: find call sites through the interface
			acts = p.ifaceActuals(x)
		}
		if len(acts) == 0 {
			return fmt.Sprintf("parameter %s of %s has no resolved call site", x.Name(), funcName(x.Parent())), false
		}
		for _, act := range acts {
			if why, ok := a.isAllocated(act, depth+1); !ok {
				return why, false
			}
		}
		return fmt.Sprintf("parameter %q: allocated revision at all %d call site(s)", x.Name(), len(acts)), true
	case *ssa.Extract, *ssa.Call:
		c, idx, ok := extractOf(v)
		if !ok {
			break
		}
		if a.r.is(c, a.r.TSODeal) && idx == 0 {
			return "result of tso.TSO.Deal", true
		}
		if sc := c.Common().StaticCallee(); sc != nil {
			if ai, ok := a.allocRet[sc]; ok && ai == idx {
				return "allocated revision returned by " + funcName(sc), true
			}
		}
	}
	return "value " + v.String() + " is not an allocation result", false
}

// ifaceActuals: actuals for a parameter of a method that is called through an interface (CHA over repo).
func (p *Prog) ifaceActuals(prm *ssa.Parameter) []ssa.Value {
	p.buildCallers()
	fn := prm.Parent()
	si := sigParamIndex(prm)
	var out []ssa.Value
	for _, cs := range p.callers[fn] {
		if cs.Common().IsInvoke() && si >= 0 {
			if v := argForSigParam(cs, si); v != nil {
				out = append(out, v)
			}
		}
	}
	return out
}

// ---------- R4 ----------

func isMaxFn(f *ssa.Function) bool {
	if f == nil || f.Blocks == nil || len(f.Params) != 2 || f.Signature.Results().Len() != 1 {
		return false
	}
	a, b := f.Params[0], f.Params[1]
	// every return r is a or b, and the a-return is dominated by a > b (or b < a), the b-return by its negation
	n := 0
	for _, blk := range f.Blocks {
		ret, ok := blk.Instrs[len(blk.Instrs)-1].(*ssa.Return)
		if !ok {
			continue
		}
		n++
		rv := resolve(ret.Results[0])
		good := false
		for _, cf := range dominatingFacts(blk) {
			if cf.X == nil {
				continue
			}
			x, y := resolve(cf.X), resolve(cf.Y)
			gtAB := (x == ssa.Value(a) && y == ssa.Value(b) && ((cf.Op == token.GTR && cf.Want) || (cf.Op == token.LEQ && !cf.Want) || (cf.Op == token.GEQ && cf.Want) || (cf.Op == token.LSS && !cf.Want))) ||
				(x == ssa.Value(b) && y == ssa.Value(a) && ((cf.Op == token.LSS && cf.Want) || (cf.Op == token.GEQ && !cf.Want) || (cf.Op == token.LEQ && cf.Want) || (cf.Op == token.GTR && !cf.Want)))
			leAB := (x == ssa.Value(a) && y == ssa.Value(b) && ((cf.Op == token.GTR && !cf.Want) || (cf.Op == token.LEQ && cf.Want) || (cf.Op == token.LSS && cf.Want) || (cf.Op == token.GEQ && !cf.Want))) ||
				(x == ssa.Value(b) && y == ssa.Value(a) && ((cf.Op == token.LSS && !cf.Want) || (cf.Op == token.GEQ && cf.Want) || (cf.Op == token.GTR && cf.Want) || (cf.Op == token.LEQ && !cf.Want)))
			if rv == ssa.Value(a) && gtAB {
				good = true
			}
			if rv == ssa.Value(b) && leAB {
				good = true
			}
		}
		if !good {
			return false
		}
	}
	return n == 2
}

// geProof tries to prove h >= d from the shape of h.
func geProof(p *Prog, h, d ssa.Value) (string, bool) {
	h, d = p.resolveDeep(h), p.resolveDeep(d)
	if h == d {
		return "header revision is the data revision itself", true
	}
	switch x := h.(type) {
	case *ssa.Call:
		if sc := x.Common().StaticCallee(); sc != nil && isMaxFn(sc) {
			for _, a := range x.Common().Args {
				if p.resolveDeep(a) == d {
					return "header = " + sc.Name() + "(.., data revision)", true
				}
				if _, ok := geProof(p, a, d); ok {
					return "header = " + sc.Name() + "(x, ..) with x >= data revision", true
				}
			}
		}
	case *ssa.Phi:
		// if d > a { h = d } else { h = a }: every edge value e has e == d, or the edge is taken only when d <= e
		all := true
		for i, e := range x.Edges {
			ev := p.resolveDeep(e)
			if ev == d {
				continue
			}
			pred := x.Block().Preds[i]
			okEdge := false
			facts := dominatingFacts(pred)
			// the edge itself may carry the fact (pred ends with the If)
			if iff := ifOf(pred); iff != nil {
				for s := 0; s < 2; s++ {
					if pred.Succs[s] == x.Block() {
						facts = append(facts, edgeFact(edge{pred, s}))
					}
				}
			}
			for _, cf := range facts {
				if cf.X == nil {
					continue
				}
				fx, fy := p.resolveDeep(cf.X), p.resolveDeep(cf.Y)
				if fx == d && fy == ev && ((cf.Op == token.GTR && !cf.Want) || (cf.Op == token.LEQ && cf.Want) || (cf.Op == token.LSS && cf.Want)) {
					okEdge = true
				}
				if fx == ev && fy == d && ((cf.Op == token.LSS && !cf.Want) || (cf.Op == token.GEQ && cf.Want) || (cf.Op == token.GTR && cf.Want)) {
					okEdge = true
				}
			}
			if !okEdge {
				all = false
			}
		}
		if all {
			return "header = (data > cur ? data : cur) compare-and-assign", true
		}
	}
	return "", false
}

func checkHeaderVsData(p *Prog, r *Roles, a *allocInfo, res *Result) {
	bp := p.ssaPkg("pkg/backend")
	kvType := p.namedType("github.com/kubewharf/kubebrain-client/api/v2rpc", "KeyValue")
	hdrType := p.namedType("github.com/kubewharf/kubebrain-client/api/v2rpc", "ResponseHeader")
	var kvRev, hdrRev *types.Var
	for i := 0; i < kvType.Underlying().(*types.Struct).NumFields(); i++ {
		if f := kvType.Underlying().(*types.Struct).Field(i); f.Name() == "Revision" {
			kvRev = f
		}
	}
	for i := 0; i < hdrType.Underlying().(*types.Struct).NumFields(); i++ {
		if f := hdrType.Underlying().(*types.Struct).Field(i); f.Name() == "Revision" {
			hdrRev = f
		}
	}
	// header constructor helpers: functions returning &ResponseHeader{Revision: param}
	hdrCtor := map[*ssa.Function]int{}
	for _, f := range p.AllFuncs {
		if f.Signature.Results().Len() != 1 || !types.Identical(f.Signature.Results().At(0).Type(), types.NewPointer(hdrType)) {
			continue
		}
		for _, st := range p.fields().stores[hdrRev] {
			if st.Parent() == f {
				if prm, ok := st.Val.(*ssa.Parameter); ok {
					hdrCtor[f] = paramIndex(prm)
				}
			}
		}
	}
	headerValueOf := func(v ssa.Value) (ssa.Value, bool) {
		v = p.resolveDeep(v)
		switch x := v.(type) {
		case *ssa.Call:
			if sc := x.Common().StaticCallee(); sc != nil {
				if pi, ok := hdrCtor[sc]; ok {
					return x.Common().Args[pi], true
				}
			}
		case *ssa.Alloc:
			for _, st := range p.fields().stores[hdrRev] {
				if fa := st.Addr.(*ssa.FieldAddr); fa.X == ssa.Value(x) {
					return st.Val, true
				}
			}
		}
		return nil, false
	}
	for _, f := range p.AllFuncs {
		if f.Pkg != bp || f.Synthetic != "" {
			continue
		}
		// responses built in f
		for _, b := range f.Blocks {
			for _, ins := range b.Instrs {
				al, ok := ins.(*ssa.Alloc)
				if !ok {
					continue
				}
				rt, ok := al.Type().(*types.Pointer).Elem().(*types.Named)
				if !ok || rt.Obj().Pkg() == nil || !strings.HasSuffix(rt.Obj().Pkg().Path(), "api/v2rpc") || !strings.HasSuffix(rt.Obj().Name(), "Response") {
					continue
				}
				st, ok := rt.Underlying().(*types.Struct)
				if !ok {
					continue
				}
				var hdrF, kvF *types.Var
				for i := 0; i < st.NumFields(); i++ {
					switch st.Field(i).Name() {
					case "Header":
						hdrF = st.Field(i)
					case "Kv":
						kvF = st.Field(i)
					}
				}
				if hdrF == nil || kvF == nil {
					continue
				}
				isThis := func(v ssa.Value) bool { return p.resolveDeep(v) == ssa.Value(al) }
				// initial header
				var h0 ssa.Value
				for _, s := range p.fields().stores[hdrF] {
					if s.Parent() == f && isThis(s.Addr.(*ssa.FieldAddr).X) {
						if hv, ok := headerValueOf(s.Val); ok {
							h0 = hv
						}
					}
				}
				// later header updates: stores to (<resp>.Header).Revision
				type hupd struct {
					st  *ssa.Store
					val ssa.Value
				}
				var upds []hupd
				for _, s := range p.fields().stores[hdrRev] {
					if s.Parent() != f {
						continue
					}
					fa := s.Addr.(*ssa.FieldAddr)
					// fa.X = load of <resp>.Header
					if ld, ok := resolve(fa.X).(*ssa.UnOp); ok {
						if hfa, ok := ld.X.(*ssa.FieldAddr); ok && fieldOf(hfa) == hdrF && isThis(hfa.X) {
							upds = append(upds, hupd{s, s.Val})
						}
					}
				}
				// data
				n := 0
				for _, s := range p.fields().stores[kvF] {
					if s.Parent() != f || !isThis(s.Addr.(*ssa.FieldAddr).X) {
						continue
					}
					// the key-value literal (possibly made by a local builder function)
					d, ok := p.builtFieldValue(s.Val, kvRev)
					if !ok || d == nil {
						continue // nil / passed-through kv
					}
					n++
					construct := fmt.Sprintf("%s: %s.Kv #%d", funcName(f), rt.Obj().Name(), n)
					pos := p.pos(s.Pos())
					// effective header at this data store
					h := h0
					for _, u := range upds {
						if instrDominates(u.st, s) {
							h = u.val
						}
					}
					if h == nil {
						res.und("C02-R4", construct, pos, "header revision of the response not identified")
						continue
					}
					if why, ok := geProof(p, h, d); ok {
						res.ok("C02-R4", construct, pos, why)
						continue
					}
					// the header is raised inside a helper that is handed <resp>.Header: header.Revision =
					// max(header.Revision, q) with q the helper's parameter for which the data revision is passed
					raised := false
					for _, c := range callsIn(f) {
						g := c.Common().StaticCallee()
						if g == nil || g.Blocks == nil || g.Pkg != bp || !(instrDominates(c.(ssa.Instruction), s) || resolve(s.Val) == c.Value()) {
							continue
						}
						for ai, a := range c.Common().Args {
							ld, ok := resolve(a).(*ssa.UnOp)
							if !ok || ai >= len(g.Params) {
								continue
							}
							hfa, ok := ld.X.(*ssa.FieldAddr)
							if !ok || fieldOf(hfa) != hdrF || !isThis(hfa.X) {
								continue
							}
							for _, st := range p.fields().stores[hdrRev] {
								fa := st.Addr.(*ssa.FieldAddr)
								if st.Parent() != g || resolve(fa.X) != ssa.Value(g.Params[ai]) {
									continue
								}
								mc, ok := resolve(st.Val).(*ssa.Call)
								if !ok || mc.Common().StaticCallee() == nil || !isMaxFn(mc.Common().StaticCallee()) {
									continue
								}
								for _, ma := range mc.Common().Args {
									if q, ok := resolve(ma).(*ssa.Parameter); ok && q.Parent() == g && paramIndex(q) < len(c.Common().Args) && sameVal(c.Common().Args[paramIndex(q)], d) {
										raised = true
									}
								}
							}
						}
					}
					if raised {
						res.ok("C02-R4", construct, pos, "the helper that builds the key-value raises the header it is handed to max(header, data revision)")
						continue
					}
					// form (iii): h allocated by a call whose summary says the data was read before the allocation
					if why, ok := allocatedAfterRead(p, a, h, d); ok {
						res.ok("C02-R4", construct, pos, why)
						continue
					}
					res.bad("C02-R4", construct, pos, fmt.Sprintf("no proof that the header revision (%s) is >= the revision of the returned key-value (%s): expected header = max(.., data), header == data, or header allocated after the read", p.resolveDeep(h).String(), p.resolveDeep(d).String()))
				}
			}
		}
	}
	// range responses: header vs scan bound
	checkRangeHeader(p, r, res)
}

// allocatedAfterRead: h is result #i of call C to an allocator G, d is field Revision of result #j of the same call,
// and inside G, on every return, that field holds the revision of a point read that dominates the allocation.
func allocatedAfterRead(p *Prog, a *allocInfo, h, d ssa.Value) (string, bool) {
	hc, hi, ok := extractOf(h)
	if !ok {
		return "", false
	}
	g := hc.Common().StaticCallee()
	if g == nil {
		return "", false
	}
	if ai, isAlloc := a.allocRet[g]; !isAlloc || ai != hi {
		return "", false
	}
	// d: field "Revision" of a struct result of the same call (through a local copy)
	dv := p.resolveDeep(d)
	var structRes ssa.Value
	var fld *types.Var
	switch x := dv.(type) {
	case *ssa.Field:
		structRes, fld = p.resolveDeep(x.X), fieldOfField(x)
	case *ssa.UnOp:
		if fa, ok := x.X.(*ssa.FieldAddr); ok {
			fld = fieldOf(fa)
			if al, ok := fa.X.(*ssa.Alloc); ok {
				// local copy of the struct result: unique whole-value store
				for _, ref := range *al.Referrers() {
					if st, ok := ref.(*ssa.Store); ok && st.Addr == ssa.Value(al) {
						structRes = p.resolveDeep(st.Val)
					}
				}
			}
		}
	}
	if structRes == nil || fld == nil {
		return "", false
	}
	dc, di, ok := extractOf(structRes)
	if !ok || dc != hc {
		return "", false
	}
	// inside g
	for _, b := range g.Blocks {
		ret, ok := b.Instrs[len(b.Instrs)-1].(*ssa.Return)
		if !ok {
			continue
		}
		rv := resolve(ret.Results[di])
		if c, isC := rv.(*ssa.Const); isC && c.Value == nil {
			continue // zero struct: revision 0
		}
		// rv = load of a local struct built field by field
		ld, ok := rv.(*ssa.UnOp)
		if !ok {
			return "", false
		}
		al, ok := ld.X.(*ssa.Alloc)
		if !ok {
			return "", false
		}
		var fieldVal ssa.Value
		for _, ref := range *al.Referrers() {
			if fa, ok := ref.(*ssa.FieldAddr); ok && fieldOf(fa) == fld {
				for _, r2 := range *fa.Referrers() {
					if st, ok := r2.(*ssa.Store); ok {
						fieldVal = st.Val
					}
				}
			}
		}
		if fieldVal == nil || !isReadRevision(fieldVal) {
			return "", false
		}
		readCall, _, _ := extractOf(fieldVal)
		// the allocation carried by result #hi on this return must be dominated by the read
		allocCall, _, ok := extractOf(ret.Results[hi])
		if !ok || !instrDominates(readCall, allocCall) {
			return "", false
		}
	}
	return fmt.Sprintf("header is the revision allocated inside %s after the point read that produced the returned revision (allocations are monotone, R1)", funcName(g)), true
}

// checkRangeHeader: List-style responses (Kvs): the scan bound must be provably <= the header revision.
func checkRangeHeader(p *Prog, r *Roles, res *Result) {
	rangeM := p.ifaceMethod("pkg/backend/scanner", "Scanner", "Range")
	for _, f := range p.AllFuncs {
		if f.Pkg != p.ssaPkg("pkg/backend") || f.Synthetic != "" {
			continue
		}
		for _, c := range callsIn(f) {
			if !p.isCallToMethod(c, rangeM) || !c.Common().IsInvoke() {
				continue
			}
			bound := p.resolveDeep(argForSigParam(c, 3))
			construct := funcName(f) + ": range response header vs scan bound"
			// header of the RangeResponse built in f
			var h ssa.Value
			for _, c2 := range callsIn(f) {
				if sc := c2.Common().StaticCallee(); sc != nil && sc.Name() == "responseHeader" {
					h = p.resolveDeep(c2.Common().Args[0])
				}
			}
			if h == nil {
				res.und("C02-R4", construct, p.pos(c.Pos()), "header value not identified")
				continue
			}
			if bound == h {
				res.ok("C02-R4", construct, p.pos(c.Pos()), "scan bound is the header revision")
				continue
			}
			// bound = phi(client revision, h) -> data may exceed the header when the client names a future revision.
			// Each source of the bound is judged on its own, so that the recorded finding (client-supplied revision)
			// does not hide a different defect (e.g. a second, later read of the committed revision).
			edges := []ssa.Value{bound}
			if ph, ok := bound.(*ssa.Phi); ok {
				edges = nil
				for _, e := range ph.Edges {
					edges = append(edges, p.resolveDeep(e))
				}
			}
			client, other := false, ""
			for _, e := range edges {
				if e == h {
					continue
				}
				isReqField := false
				if ld, ok := e.(*ssa.UnOp); ok && ld.Op == token.MUL {
					if fa, ok := ld.X.(*ssa.FieldAddr); ok {
						if _, isPrm := p.resolveDeep(fa.X).(*ssa.Parameter); isPrm {
							isReqField = true
						}
					}
				}
				if isReqField {
					client = true
				} else {
					other = e.String()
				}
			}
			c2 := funcName(f) + ": scan bound and header come from the same read of the committed revision"
			if other != "" {
				res.bad("C02-R4", c2, p.pos(c.Pos()), "when the client names no revision the scan is bounded by a value ("+other+") other than the one placed in the header: a write committed between the two reads is returned with a revision above the header")
			} else {
				res.ok("C02-R4", c2, p.pos(c.Pos()), "the default bound is the header value itself")
			}
			if client {
				res.bad("C02-R4", construct, p.pos(c.Pos()), "the scan is bounded by a client-supplied read revision that is not clamped to the committed revision used as header: a read at a revision above the committed one returns data newer than the header")
			} else {
				res.ok("C02-R4", construct, p.pos(c.Pos()), "scan bound is the header revision on every path")
			}
		}
	}
}

// checkTSOCounters: the two counters of the revision allocator (see the rule text of C02-R1).
func checkTSOCounters(p *Prog, r *Roles, res *Result, rule string) {
	for _, impl := range p.implsOf(r.TSODeal) {
		recv := impl.Signature.Recv().Type()
		named, _ := recv.(*types.Named)
		if pt, ok := recv.(*types.Pointer); ok {
			named, _ = pt.Elem().(*types.Named)
		}
		if named == nil {
			continue
		}
		st, ok := named.Underlying().(*types.Struct)
		if !ok {
			res.und(rule, named.Obj().Name(), "-", "TSO implementation is not a struct")
			continue
		}
		tname := named.Obj().Name()
		// classify fields by role: the field AddUint64'ed in Deal is the dealt counter; the one loaded in GetRevision the committed counter
		var dealt, committed *types.Var
		for _, c := range callsIn(impl) {
			if n, ok := isAtomicCall(c); ok && n == "AddUint64" {
				if fa, ok := c.Common().Args[0].(*ssa.FieldAddr); ok {
					dealt = fieldOf(fa)
				}
			}
		}
		for _, g := range p.implsOf(r.TSOGetRevision) {
			if !types.Identical(g.Signature.Recv().Type(), impl.Signature.Recv().Type()) {
				continue
			}
			for _, c := range callsIn(g) {
				if n, ok := isAtomicCall(c); ok && n == "LoadUint64" {
					if fa, ok := c.Common().Args[0].(*ssa.FieldAddr); ok {
						committed = fieldOf(fa)
					}
				}
			}
		}
		if dealt == nil {
			res.bad(rule, tname+".Deal: atomic increment", p.pos(impl.Pos()), "Deal does not allocate through sync/atomic.AddUint64 on a field of the TSO")
			continue
		}
		// Deal returns the result of AddUint64(&dealt, 1)
		{
			good := false
			for _, b := range impl.Blocks {
				if ret, ok := b.Instrs[len(b.Instrs)-1].(*ssa.Return); ok {
					if c, ok := resolve(ret.Results[0]).(*ssa.Call); ok {
						if n, isA := isAtomicCall(c); isA && n == "AddUint64" {
							if k, ok := constInt(c.Common().Args[1]); ok && k == 1 {
								good = true
								continue
							}
						}
					}
					good = false
					break
				}
			}
			if good {
				res.ok(rule, tname+".Deal: returns AddUint64(&dealt, 1)", p.pos(impl.Pos()), "one atomic fetch-add per attempt")
			} else {
				res.bad(rule, tname+".Deal: returns AddUint64(&dealt, 1)", p.pos(impl.Pos()), "Deal does not return the result of a single atomic increment by 1: two attempts can obtain the same revision")
			}
		}
		for i := 0; i < st.NumFields(); i++ {
			fv := st.Field(i)
			role := "field " + fv.Name()
			if fv == dealt {
				role = "dealt counter"
			} else if fv == committed {
				role = "committed counter"
			}
			n := 0
			// judge one use of the counter's address. f is the method of the TSO the use belongs to (directly, or
			// through helpers that are handed the address and use it only with sync/atomic); isCounter recognises the
			// address in the frame of the use.
			var judge func(ref ssa.Instruction, f *ssa.Function, via string, isCounter func(ssa.Value) bool, depth int)
			judge = func(ref ssa.Instruction, f *ssa.Function, via string, isCounter func(ssa.Value) bool, depth int) {
				if _, dbg := ref.(*ssa.DebugRef); dbg {
					return
				}
				c, isCall := ref.(ssa.CallInstruction)
				an, isAtomic := "", false
				if isCall {
					an, isAtomic = isAtomicCall(c)
				}
				// the address handed to a helper of the repository: its uses of the parameter are uses of the counter by f
				if isCall && !isAtomic && depth < 2 {
					if sc := c.Common().StaticCallee(); sc != nil && sc.Blocks != nil && !c.Common().IsInvoke() {
						if _, isGo := ref.(*ssa.Go); !isGo {
							var prms []*ssa.Parameter
							for i, a := range c.Common().Args {
								if isCounter(a) && i < len(sc.Params) {
									prms = append(prms, sc.Params[i])
								}
							}
							if len(prms) == 1 && prms[0].Referrers() != nil {
								prm := prms[0]
								for _, r2 := range *prm.Referrers() {
									judge(r2, f, via+" via "+funcName(sc), func(v ssa.Value) bool { return resolve(v) == ssa.Value(prm) }, depth+1)
								}
								return
							}
						}
					}
				}
				n++
				construct := fmt.Sprintf("%s.%s accessed in %s%s #%d", tname, fv.Name(), funcName(f), via, n)
				if !isAtomic {
					res.bad(rule, construct, p.pos(ref.Pos()), "the "+role+" is accessed without sync/atomic: allocations are no longer one atomic step")
					return
				}
				isWrite := an != "LoadUint64"
				if !isWrite || (fv != dealt && fv != committed) {
					res.ok(rule, construct, p.pos(ref.Pos()), role+": atomic."+an)
					return
				}
				// writers of the dealt counter, and of the committed counter (the revision reads are served at): it
				// has no Deal, everything else is the same - Init stores, Commit raises under a guard
				isImplOf := func(m *types.Func) bool {
					for _, x := range p.implsOf(m) {
						if x == f {
							return true
						}
					}
					return false
				}
				switch {
				case an == "AddUint64" && isImplOf(r.TSODeal) && fv == dealt:
					res.ok(rule, construct, p.pos(ref.Pos()), "the allocation itself")
				case an == "StoreUint64" && isImplOf(r.TSOInit):
					res.ok(rule, construct, p.pos(ref.Pos()), "Init (who may call it: R3)")
				case an == "CompareAndSwapUint64" && isImplOf(r.TSOCommit):
					old, nw := c.Common().Args[1], c.Common().Args[2]
					g := false
					for _, cf := range dominatingFacts(ref.Block()) {
						if cf.X == nil {
							continue
						}
						if resolve(cf.X) == resolve(old) && resolve(cf.Y) == resolve(nw) && ((cf.Op == token.LSS && cf.Want) || (cf.Op == token.GEQ && !cf.Want)) {
							g = true
						}
						if resolve(cf.Y) == resolve(old) && resolve(cf.X) == resolve(nw) && ((cf.Op == token.GTR && cf.Want) || (cf.Op == token.LEQ && !cf.Want)) {
							g = true
						}
					}
					// old must be a load of the same counter
					lc, isLoad := resolve(old).(*ssa.Call)
					if isLoad {
						ln, _ := isAtomicCall(lc)
						isLoad = ln == "LoadUint64" && isCounter(lc.Common().Args[0])
					}
					// .. and a lost compare-and-swap is retried: the CAS sits in a loop that re-loads the counter (giving
					// up after losing to a concurrent raise to a smaller value leaves the counter below the new value)
					retried := false
					if isLoad {
						if lp := loopOf(ref.Block()); lp != nil && lp[lc.Block()] {
							retried = true
						}
					}
					if g && isLoad && !retried {
						res.bad(rule, construct, p.pos(ref.Pos()), "the raise of the "+role+" is a single compare-and-swap that is not retried: when two Commit calls overlap (leader start and a follower sync that arrives late) the one with the larger value can lose the swap and give up, and the counter stays below the value that was to be committed (allocator below the committed revision: the next revision handed out is one reads already cover)")
					} else if g && isLoad {
						res.ok(rule, construct, p.pos(ref.Pos()), "monotone raise: CAS(old, new) under old < new with old loaded from the counter, retried in a loop")
					} else {
						res.bad(rule, construct, p.pos(ref.Pos()), "Commit moves the "+role+" without the guard old < new on the loaded value: the counter can go backwards (dealt counter: revisions handed out twice; committed counter: the read revision drops below acknowledged writes)")
					}
				default:
					if fv == committed {
						res.bad(rule, construct, p.pos(ref.Pos()), fmt.Sprintf("atomic.%s writes the committed counter outside Init(store)/Commit(guarded CAS): a value that arrives late (a follower's sync overtaken by this node's start as leader) lowers the revision reads are served at below writes that were already acknowledged", an))
					} else {
						res.bad(rule, construct, p.pos(ref.Pos()), fmt.Sprintf("atomic.%s writes the dealt counter outside Deal(+1)/Init(store)/Commit(guarded CAS): revisions can repeat or go backwards", an))
					}
				}
			}
			for _, fa := range p.fields().addrs[fv] {
				fa := fa
				for _, ref := range *fa.Referrers() {
					judge(ref, fa.Parent(), "", func(v ssa.Value) bool {
						x, ok := resolve(v).(*ssa.FieldAddr)
						return ok && fieldOf(x) == fv
					}, 0)
				}
			}
		}
	}

}

// checkAllocErrorChecked (C02-R7): an allocation can fail - the oracle can, and the backend's own allocator reports
// "revision drift back" when the revision it hands out is not above the revision the caller's write is conditioned on.
// A version record may be committed with an allocated revision only where that allocation's error was found nil; an
// allocator wrapper that drops the error may serve the paths that return without writing, not the path to a commit.
func checkAllocErrorChecked(p *Prog, r *Roles, a *allocInfo, res *Result, rule string) {
	// does f (an allocating function without an error result) discard the error of an allocator it calls?
	swallows := func(f *ssa.Function) (string, bool) {
		if f == nil || f.Blocks == nil {
			return "", false
		}
		for _, c := range callsIn(f) {
			call, ok := c.(*ssa.Call)
			if !ok {
				continue
			}
			isAlloc := r.is(c, r.TSODeal)
			if sc := c.Common().StaticCallee(); sc != nil {
				if _, ok := a.allocRet[sc]; ok {
					isAlloc = true
				}
			}
			ei := -1
			if tup, ok := call.Type().(*types.Tuple); ok {
				for i := 0; i < tup.Len(); i++ {
					if types.Identical(tup.At(i).Type(), types.Universe.Lookup("error").Type()) {
						ei = i
					}
				}
			}
			if !isAlloc || ei < 0 {
				continue
			}
			used := false
			for _, ref := range *call.Referrers() {
				if ex, ok := ref.(*ssa.Extract); ok && ex.Index == ei && ex.Referrers() != nil && len(*ex.Referrers()) > 0 {
					used = true
				}
			}
			if !used {
				return callName(call), true
			}
		}
		return "", false
	}
	var judge func(v ssa.Value, use ssa.Instruction, depth int) (string, bool)
	judge = func(v ssa.Value, use ssa.Instruction, depth int) (string, bool) {
		if depth > 4 {
			return "provenance too deep", true
		}
		v = p.resolveDeep(v)
		switch x := v.(type) {
		case *ssa.Parameter:
			p.buildCallers()
			si := sigParamIndex(x)
			n := 0
			for _, cs := range p.callers[x.Parent()] {
				var act ssa.Value
				if cs.Common().IsInvoke() {
					if si >= 0 {
						act = argForSigParam(cs, si)
					}
				} else if i := paramIndex(x); i < len(cs.Common().Args) {
					act = cs.Common().Args[i]
				}
				if act == nil {
					continue
				}
				n++
				if why, ok := judge(act, cs.(ssa.Instruction), depth+1); !ok {
					return why, false
				}
			}
			return fmt.Sprintf("checked at all %d call site(s)", n), true
		case *ssa.Extract, *ssa.Call:
			c, idx, ok := extractOf(v)
			if !ok {
				break
			}
			isAlloc := r.is(c, r.TSODeal) && idx == 0
			sc := c.Common().StaticCallee()
			if sc != nil {
				if ai, ok := a.allocRet[sc]; ok && ai == idx {
					isAlloc = true
				}
			}
			if !isAlloc {
				break
			}
			ei := -1
			if tup, ok := c.Type().(*types.Tuple); ok {
				for i := 0; i < tup.Len(); i++ {
					if types.Identical(tup.At(i).Type(), types.Universe.Lookup("error").Type()) {
						ei = i
					}
				}
			}
			if ei < 0 {
				if what, sw := swallows(sc); sw {
					return fmt.Sprintf("the revision comes from %s, which discards the error of %s: a revision that is not above the revision the write is conditioned on (revision drift back after a change of leader), or the zero revision of a failed oracle, is written as if it had been allocated properly - the update succeeds below the version it replaces", funcName(sc), what), false
				}
				return "allocator without an error", true
			}
			var errV ssa.Value
			for _, ref := range *c.Referrers() {
				if ex, ok := ref.(*ssa.Extract); ok && ex.Index == ei {
					errV = ex
				}
			}
			if errV != nil {
				for _, cf := range dominatingFacts(use.Block()) {
					if cf.X == nil {
						continue
					}
					x, y := resolve(cf.X), resolve(cf.Y)
					if isNilConst(x) {
						x, y = y, x
					}
					if sameVal(x, errV) && isNilConst(y) && ((cf.Op == token.EQL && cf.Want) || (cf.Op == token.NEQ && !cf.Want)) {
						return "the allocation's error was found nil", true
					}
				}
			}
			return "the version record is committed with a revision whose allocation error was not found nil on the way (revision drift back / a failed oracle read is ignored): the write lands below the version it replaces", false
		}
		return "not an allocation in this frame", true
	}
	for _, vb := range p.versionedBatches() {
		name := vb.b.name() + ctxName(p, vb.ctx)
		construct := name + ": the allocation of the written revision succeeded"
		var use ssa.Instruction = vb.put.Call.(ssa.Instruction)
		if len(vb.b.Commits) > 0 {
			use = vb.b.Commits[0].(ssa.Instruction)
		}
		rev := vb.pk.Rev
		if vb.ctx != nil {
			// the batch is built by a helper: the revision and the branch facts are those of the helper's call site
			rev = p.ctxValue(rev, vb.ctx)
			if ins, ok := p.resolveDeep(rev).(ssa.Instruction); ok && ins.Parent() == vb.ctx.Parent() {
				use = vb.ctx.(ssa.Instruction)
			}
		}
		if why, ok := judge(rev, use, 0); ok {
			res.ok(rule, construct, p.pos(use.Pos()), why)
		} else {
			res.bad(rule, construct, p.pos(use.Pos()), why)
		}
	}
}
