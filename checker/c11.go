package main

import (
	"fmt"
	"go/token"
	"go/types"
	"sort"
	"strings"

	"golang.org/x/tools/go/ssa"
)

func init() {
	register("C11", checkC11)
	register("C12", checkC12)
}

var adapterPkgs = []string{"pkg/storage/memkv", "pkg/storage/badger", "pkg/storage/tikv"}

func withAnon(f *ssa.Function) []*ssa.Function {
	out := []*ssa.Function{f}
	for _, a := range f.AnonFuncs {
		out = append(out, withAnon(a)...)
	}
	return out
}

// implIn returns the implementation of interface method m declared in package rel (nil if none).
func (p *Prog) implIn(m *types.Func, rel string) *ssa.Function {
	sp := p.ssaPkg(rel)
	for _, f := range p.implsOf(m) {
		if f.Pkg == sp && f.Synthetic == "" {
			return f
		}
	}
	return nil
}

// errClass classifies an error value into {nil, conflict, sentinel:<name>, engine}.
func (p *Prog) errClasses(v ssa.Value) []string {
	set := map[string]bool{}
	var rec func(v ssa.Value, d int)
	rec = func(v ssa.Value, d int) {
		if d > 6 {
			set["engine"] = true
			return
		}
		for _, x := range resolveAll(v) {
			switch y := x.(type) {
			case zeroValueMarker:
				set["nil"] = true
			case *ssa.Const:
				set["nil"] = true
			case *ssa.Call:
				sc := y.Common().StaticCallee()
				switch {
				case sc != nil && sc.Pkg != nil && sc.Pkg.Pkg.Path() == modPath+"/pkg/storage" && sc.Name() == "NewErrConflict":
					set["conflict"] = true
				case sc != nil && sc.Pkg != nil && sc.Pkg.Pkg.Path() == modPath+"/pkg/storage" && sc.Name() == "NewErrUncertainResult":
					set["uncertain"] = true
				case sc != nil && sc.Pkg != nil && sc.Pkg.Pkg.Path() == "github.com/pkg/errors" && strings.HasPrefix(sc.Name(), "Wrap"):
					rec(y.Common().Args[0], d+1)
				default:
					set["engine"] = true
				}
			case *ssa.UnOp:
				if g := globalLoad(y); g != nil && g.Pkg.Pkg.Path() == modPath+"/pkg/storage" {
					if g.Name() == "ErrCASFailed" {
						set["conflict"] = true
					} else {
						set["sentinel:"+g.Name()] = true
					}
				} else {
					set["engine"] = true
				}
			default:
				set["engine"] = true
			}
		}
	}
	rec(v, 0)
	var out []string
	for k := range set {
		out = append(out, k)
	}
	sort.Strings(out)
	return out
}

type errProd struct {
	ins     ssa.Instruction
	classes []string
}

// errorProductions lists the error values an operation can report: returns of error-typed results of the op's
// closures and stores into error-typed fields of the batch.
func (p *Prog) errorProductions(op *ssa.Function) []errProd {
	var out []errProd
	errT := types.Universe.Lookup("error").Type()
	for _, f := range withAnon(op) {
		ei := errorResultIndex(f.Signature)
		for _, b := range f.Blocks {
			for _, ins := range b.Instrs {
				switch x := ins.(type) {
				case *ssa.Return:
					if ei >= 0 {
						out = append(out, errProd{x, p.errClasses(x.Results[ei])})
					}
				case *ssa.Store:
					if fa, ok := x.Addr.(*ssa.FieldAddr); ok && types.Identical(fieldOf(fa).Type(), errT) {
						out = append(out, errProd{x, p.errClasses(x.Val)})
					}
				}
			}
		}
	}
	return out
}

func hasClass(cs []string, c string) bool {
	for _, x := range cs {
		if x == c || (strings.HasSuffix(c, ":") && strings.HasPrefix(x, c)) {
			return true
		}
	}
	return false
}

// mismatchConflict: the op contains a comparison (bytes.Equal / bytes.Compare / version !=) whose mismatch edge
// dominates a conflict-class error production.
func (p *Prog) mismatchConflict(op *ssa.Function) (bool, string) {
	prods := p.errorProductions(op)
	foundCmp := false
	for _, f := range withAnon(op) {
		for _, b := range f.Blocks {
			if ifOf(b) == nil {
				continue
			}
			for s := 0; s < 2; s++ {
				cf := edgeFact(edge{b, s})
				mismatch := false
				isBytesCall := func(v ssa.Value, name string) bool {
					c, ok := v.(*ssa.Call)
					if !ok {
						return false
					}
					sc := c.Common().StaticCallee()
					return sc != nil && sc.Pkg != nil && sc.Pkg.Pkg.Path() == "bytes" && sc.Name() == name
				}
				switch {
				case cf.Call != nil && isBytesCall(cf.Call, "Equal"):
					foundCmp = true
					mismatch = !cf.Want
				case cf.X != nil && isBytesCall(resolve(cf.X), "Compare") && isZeroConst(cf.Y):
					foundCmp = true
					mismatch = (cf.Op == token.NEQ && cf.Want) || (cf.Op == token.EQL && !cf.Want)
				case cf.X != nil && isVersionCall(cf.X) && isVersionCall(cf.Y):
					foundCmp = true
					mismatch = (cf.Op == token.NEQ && cf.Want) || (cf.Op == token.EQL && !cf.Want)
				}
				if !mismatch {
					continue
				}
				for _, pr := range prods {
					if pr.ins.Parent() == f && edgeDominates(edge{b, s}, pr.ins.Block()) && hasClass(pr.classes, "conflict") {
						return true, p.pos(pr.ins.Pos())
					}
				}
			}
		}
	}
	if !foundCmp {
		return false, "no comparison of the stored value/version with the expected one"
	}
	return false, "the mismatch branch of the comparison does not report a failed condition"
}

func isVersionCall(v ssa.Value) bool {
	c, ok := resolve(v).(*ssa.Call)
	if !ok {
		return false
	}
	sc := c.Common().StaticCallee()
	return sc != nil && sc.Name() == "Version"
}

func checkC11(p *Prog, res *Result, tier string) {
	r := p.roles()
	res.Explanation = "Sibling cross-checks of the three storage adapters (memkv, badger, tikv) and the metrics wrapper. R1 every error a conditional operation (PutIfNotExist, CAS, DelCurrent) can report is nil, a failed condition (Conflict / ErrCASFailed) or an engine error — never another storage sentinel — and CAS / DelCurrent compare the stored value or version with the expected one and report a failed condition on the mismatch branch; the op x class table is printed per adapter. R2 all-or-nothing structure of Commit: an operation error returns before the engine commit, there is exactly one engine commit per batch and none inside a loop, no new engine transaction is opened in Commit, the transaction is discarded on error exits; for memkv (conditions evaluated eagerly) the store mutex is acquired by BeginBatchWrite, released only by Commit, and every batch is committed on all paths (C01-R2). R3 every key an iterator can yield has been compared with the end bound. R5 the metrics wrapper forwards each overridden method exactly once with its parameters in order. R6 Get reports a missing key with the ErrKeyNotFound sentinel itself. R7 partitions reported by an engine are clamped into the requested interval."
	res.NotDecided = "the behavioural contract over all operation sequences; the engines' own transaction semantics and snapshot isolation (trusted); scan direction agreement beyond the presence of the start/end comparison."
	res.Assumptions = []string{"badger / tikv transactions are atomic and isolated", "huandu/skiplist is not safe for concurrent use"}
	res.rule("C11-R1", "conditional ops report only nil / failed condition / engine errors, and compare before they write", 15)
	res.rule("C11-R2", "Commit is all-or-nothing by structure; memkv holds its lock from BeginBatchWrite to Commit", 10)
	res.rule("C11-R3", "iterator keys are checked against the end bound; an iterator reads at the caller's timestamp or at one read from the oracle, never at a constant", 3)
	res.rule("C11-R5", "metrics wrapper forwards each overridden method exactly once with parameters in order", 8)
	res.rule("C11-R6", "Get returns the ErrKeyNotFound sentinel itself", 3)
	res.rule("C11-R11", "an adapter does not turn a failure of its engine into success or end-of-data: the error of every engine call in badger / tikv is returned (as is, wrapped or translated after a classifying test) on every path on which it can be non-nil", 20)
	res.rule("C11-R12", "the conditions of a batch see the operations staged earlier in the same batch: the in-process engine reads the store only on the miss edge of the lookup in the batch's staged operations (the transactional engines read through their transaction)", 3)
	res.rule("C11-R13", "the in-process engine, which keeps the slices it is given and hands out the slices it keeps, never writes a stored value in place", 2)
	res.rule("C11-R14", "the in-process engine's Commit applies every staged operation: each iteration of its loop over the staged operations passes a Remove or a Set on the skip list", 1)
	res.rule("C11-R15", "the in-process engine's ttl timer removes a key only after comparing what it holds with the value the ttl was set for (what the engines with native ttl do when a key is overwritten)", 1)
	res.rule("C11-R16", "the bound test of every adapter's iterator excludes the end key and admits exactly one side of it, for every value of the direction flag (tabulated over the three outcomes of bytes.Compare and the iterator's boolean fields)", 5)
	res.rule("C11-R17", "the TiKV adapter starts a backward iteration at the immediate successor of start (start followed by one zero byte): the engine's reverse iterator excludes its seek key, and any larger successor admits longer keys that begin with start", 1)
	res.rule("C11-R18", "the in-process engine decides 'no such key' by the nil result of its lookup, never by the length of the value (a stored value may be empty; the other engines decide by their not-found error)", 3)
	res.rule("C11-R19", "the snapshots of the TiKV adapter stay at snapshot isolation: no SetIsolationLevel with another level (a read-committed scan passes over the locks of transactions whose commit timestamp is at or below the snapshot)", 1)
	res.rule("C11-R20", "the in-process engine's Commit is all-or-nothing: once it has applied a staged operation to the store no path returns an error", 2)
	res.rule("C11-R9", "deleting a key that is not there is not an error in any adapter: Del never reports the ErrKeyNotFound sentinel (the compaction deletes a record it has already deleted, and treats any error as a failed delete)", 3)
	res.rule("C11-R10", "an adapter that advertises native TTL hands the ttl of every write form (Put, PutIfNotExist, CAS) to the engine (or records it with the staged operation)", 6)
	res.rule("C11-R8", "the in-process engine's iterator yields snapshot copies: live skip-list elements are dereferenced only under the store lock (C19-R3)", 2)
	res.rule("C11-R7", "reported partitions are clamped into the requested interval", 3)

	table := map[string]map[string][]string{}
	ops := []struct {
		name string
		m    *types.Func
	}{{"PutIfNotExist", r.BWPutIfNotExist}, {"CAS", r.BWCAS}, {"DelCurrent", r.BWDelCurrent}}
	for _, ap := range adapterPkgs {
		short := ap[strings.LastIndex(ap, "/")+1:]
		table[short] = map[string][]string{}
		for _, op := range ops {
			f := p.implIn(op.m, ap)
			construct := fmt.Sprintf("%s.%s: error classes", short, op.name)
			if f == nil {
				res.und("C11-R1", construct, "-", "implementation not found")
				continue
			}
			prods := p.errorProductions(f)
			set := map[string]bool{}
			var badPos string
			for _, pr := range prods {
				for _, c := range pr.classes {
					set[c] = true
					if strings.HasPrefix(c, "sentinel:") || c == "uncertain" {
						badPos = p.pos(pr.ins.Pos())
					}
				}
			}
			var cls []string
			for c := range set {
				cls = append(cls, c)
			}
			sort.Strings(cls)
			table[short][op.name] = cls
			switch {
			case badPos != "":
				res.bad("C11-R1", construct, badPos, fmt.Sprintf("a conditional operation reports %v: a failed condition must surface as Conflict / ErrCASFailed, the backend turns every other error into an RPC error (and the sibling adapters report a failed condition here)", cls))
			case !set["conflict"]:
				res.bad("C11-R1", construct, p.pos(f.Pos()), "the operation can never report a failed condition")
			default:
				res.ok("C11-R1", construct, p.pos(f.Pos()), strings.Join(cls, ", "))
			}
			// the condition is evaluated inside the batch's own engine transaction: an operation that reads through the
			// adapter's store-level methods (each of which runs in a transaction of its own) is not covered by the
			// engine's conflict detection between its read and the batch's commit
			if ap != "pkg/storage/memkv" {
				c3 := fmt.Sprintf("%s.%s: condition read inside the batch's transaction", short, op.name)
				storeImpl := p.implIn(r.KVGet, ap)
				var outside ssa.CallInstruction
				if storeImpl != nil && storeImpl.Signature.Recv() != nil {
					st := storeImpl.Signature.Recv().Type()
					for _, g := range withAnon(f) {
						for _, c := range callsIn(g) {
							if sc := c.Common().StaticCallee(); sc != nil && sc.Signature.Recv() != nil && types.Identical(sc.Signature.Recv().Type(), st) {
								outside = c
							}
							if c.Common().IsInvoke() && c.Common().Method.Pkg() != nil && c.Common().Method.Pkg().Path() == modPath+"/pkg/storage" && c.Common().Method.Name() != "Key" && c.Common().Method.Name() != "Val" {
								outside = c
							}
						}
					}
				}
				if outside != nil {
					res.bad("C11-R1", c3, p.pos(outside.Pos()), "the operation reads through a store-level method, i.e. in another transaction than the one its write is staged in: the engine tracks no read for the batch, so two batches whose conditions both held at their own reads both commit")
				} else {
					res.ok("C11-R1", c3, p.pos(f.Pos()), "no store-level call in the staged operation")
				}
			}
			if ap != "pkg/storage/memkv" {
				// the condition is read with the Get of the batch's own transaction: that is the read the engine records
				// for its commit-time conflict detection (also for a key that is absent), and the one that sees what the
				// batch has staged so far - an iterator, or the Get of a snapshot obtained from the transaction, is neither
				c5 := fmt.Sprintf("%s.%s: condition read through the transaction's own Get", short, op.name)
				var own, foreign ssa.CallInstruction
				// the operation, its literals, and the helpers of the adapter they call (a shared read helper)
				scope := withAnon(f)
				seenFn := map[*ssa.Function]bool{}
				for _, g := range scope {
					seenFn[g] = true
				}
				for d := 0; d < 2; d++ {
					for _, g := range append([]*ssa.Function{}, scope...) {
						for _, c := range callsIn(g) {
							if sc := c.Common().StaticCallee(); sc != nil && sc.Blocks != nil && sc.Pkg == f.Pkg && !seenFn[sc] {
								seenFn[sc] = true
								scope = append(scope, withAnon(sc)...)
							}
						}
					}
				}
				for _, g := range scope {
					for _, c := range callsIn(g) {
						if !isEngineCall(c, "Get") || len(c.Common().Args) == 0 {
							continue
						}
						recv := resolve(c.Common().Args[0])
						isField := false
						if ld, ok := recv.(*ssa.UnOp); ok && ld.Op == token.MUL {
							if _, ok := ld.X.(*ssa.FieldAddr); ok {
								isField = true
							}
						}
						if isField {
							own = c
						} else {
							foreign = c
						}
					}
				}
				switch {
				case foreign != nil:
					res.bad("C11-R1", c5, p.pos(foreign.Pos()), op.name+" reads the key through something obtained from the transaction (a snapshot) instead of the transaction itself: the read does not see the operations the batch has staged before it, so a condition on a key the same batch has just written or deleted is evaluated against the store")
				case own == nil:
					res.bad("C11-R1", c5, p.pos(f.Pos()), op.name+" does not read the key with the transaction's Get (an iterator, or no read at all): the engine records no read of the key for the batch, so its commit-time conflict detection cannot see that another batch wrote the key in between - two overlapping batches whose conditions both held both commit")
				default:
					res.ok("C11-R1", c5, p.pos(own.Pos()), "Get on the batch's transaction field")
				}
			}
			if op.name != "PutIfNotExist" && ap != "pkg/storage/memkv" {
				// an operation on a key that must exist does not write where the engine's read said "no such key"
				c4 := fmt.Sprintf("%s.%s: no engine write where the read reported not-found", short, op.name)
				var hit ssa.Instruction
				nEdges := 0
				for _, g := range withAnon(f) {
					for _, b := range g.Blocks {
						iff := ifOf(b)
						if iff == nil {
							continue
						}
						for si := 0; si < 2; si++ {
							isNF := false
							for _, cf := range expandFact(edgeFact(edge{b, si}), 0) {
								if cf.Call == nil || !cf.Want {
									continue
								}
								sc := cf.Call.Common().StaticCallee()
								if sc == nil {
									continue
								}
								if sc.Name() == "IsErrNotFound" {
									isNF = true
								}
								if sc.Name() == "Is" && len(cf.Call.Common().Args) == 2 {
									if ld, ok := resolve(cf.Call.Common().Args[1]).(*ssa.UnOp); ok && ld.Op == token.MUL {
										if gl, ok := ld.X.(*ssa.Global); ok && strings.Contains(gl.Name(), "NotFound") {
											isNF = true
										}
									}
								}
							}
							if !isNF {
								continue
							}
							nEdges++
							w, _ := searchFrom(b.Succs[si], 0, searchOpts{bad: func(i ssa.Instruction) bool {
								c, ok := i.(ssa.CallInstruction)
								return ok && isEngineCall(c, "Set", "SetEntry", "Delete")
							}})
							if w != nil {
								hit = w
							}
						}
					}
				}
				switch {
				case hit != nil:
					res.bad("C11-R1", c4, p.pos(hit.Pos()), op.name+" reaches the engine write on the path where its read of the key reported 'not found': the condition (the key holds what the caller saw) is false there, yet the operation reports success and the rest of the batch takes effect - the sibling adapters report a failed condition")
				case nEdges == 0:
					res.ok("C11-R1", c4, p.pos(f.Pos()), "the operation does not single out the not-found error of its read (it is returned like any other error)")
				default:
					res.ok("C11-R1", c4, p.pos(f.Pos()), "no engine write after a not-found read")
				}
			}
			if op.name != "PutIfNotExist" {
				c2 := fmt.Sprintf("%s.%s: compares before it writes", short, op.name)
				if ok, why := p.mismatchConflict(f); ok {
					res.ok("C11-R1", c2, why, "the mismatch branch of the stored-vs-expected comparison reports a failed condition")
				} else {
					res.bad("C11-R1", c2, p.pos(f.Pos()), op.name+" takes effect without its condition: "+why)
				}
			}
		}
	}
	res.Stats["condition_failure_table"] = table
	// sibling agreement: same class sets modulo "engine"/"nil"
	for _, op := range ops {
		ref := ""
		agree := true
		for _, ap := range adapterPkgs {
			short := ap[strings.LastIndex(ap, "/")+1:]
			var core []string
			for _, c := range table[short][op.name] {
				if c != "engine" && c != "nil" {
					core = append(core, c)
				}
			}
			k := strings.Join(core, ",")
			if ref == "" {
				ref = k
			} else if k != ref {
				agree = false
			}
		}
		construct := "sibling agreement on " + op.name
		if agree {
			res.ok("C11-R1", construct, "-", "memkv, badger and tikv report the same classes: "+ref)
		} else {
			res.bad("C11-R1", construct, "-", fmt.Sprintf("the adapters disagree on the error classes of %s: %v", op.name, table))
		}
	}

	checkCommitStructure(p, r, res)
	checkIterBounds(p, r, res)
	checkIterSnapshot(p, r, res)
	checkWrittenValue(p, r, res)
	checkOracleAPI(p, r, res)
	checkWrapperTransparency(p, r, res)
	checkNotFoundIdentity(p, r, res, "C11-R6")
	checkDelIdempotent(p, r, res, "C11-R9")
	checkReadersDoNotMutate(p, r, res, "C11-R3")
	checkStagedOpsShadowStore(p, r, res, "C11-R12")
	checkStoredValuesImmutable(p, res, "C11-R13")
	checkCommitAppliesEveryOp(p, r, res, "C11-R14")
	checkExpiryIsCompareAndDelete(p, r, res, "C11-R15")
	checkIteratorBoundTest(p, res, "C11-R16")
	checkBackwardSeekKey(p, r, res, "C11-R17")
	checkAbsentIsNil(p, res, "C11-R18")
	checkSnapshotIsolationKept(p, res, "C11-R19")
	checkCommitNoErrorAfterApply(p, r, res, "C11-R20")
	checkAdaptersReportCancellation(p, res, "C11-R11")
	checkAdapterErrorPreservation(p, r, res, "C11-R11")
	checkNativeTTLHonoured(p, r, res, "C11-R10")
	checkPartitionClamp(p, r, res, "C11-R7")
	{
		sub19 := newResult("C19")
		checkElementAccess(p, p.lockContext(), sub19)
		for _, o := range sub19.Obls {
			if strings.Contains(o.Construct, "pkg/storage/memkv") {
				res.add("C11-R8", o.Rule+" "+o.Construct, o.Status, o.Pos, o.Detail)
			}
		}
	}
}

// ---------- R2 ----------

func isEngineCall(c ssa.CallInstruction, names ...string) bool {
	sc := c.Common().StaticCallee()
	if sc == nil || sc.Pkg == nil || strings.HasPrefix(sc.Pkg.Pkg.Path(), modPath) {
		return false
	}
	pp := sc.Pkg.Pkg.Path()
	if !(strings.Contains(pp, "badger") || strings.Contains(pp, "tikv") || strings.Contains(pp, "skiplist")) {
		return false
	}
	for _, n := range names {
		if sc.Name() == n {
			return true
		}
	}
	return false
}

func inCycle(b *ssa.BasicBlock) bool {
	seen := map[*ssa.BasicBlock]bool{}
	var walk func(x *ssa.BasicBlock) bool
	walk = func(x *ssa.BasicBlock) bool {
		for _, s := range x.Succs {
			if s == b {
				return true
			}
			if !seen[s] {
				seen[s] = true
				if walk(s) {
					return true
				}
			}
		}
		return false
	}
	return walk(b)
}

func checkCommitStructure(p *Prog, r *Roles, res *Result) {
	for _, ap := range []string{"pkg/storage/badger", "pkg/storage/tikv"} {
		short := ap[strings.LastIndex(ap, "/")+1:]
		commit := p.implIn(r.BWCommit, ap)
		if commit == nil {
			res.und("C11-R2", short+".Commit", "-", "implementation not found")
			continue
		}
		// Commit's region: Commit, its function literals, and the functions of the package that run only inside it
		// (applyAndCommit, error translation helpers)
		var region []*ssa.Function
		inRegion := map[*ssa.Function]bool{}
		for _, f := range p.AllFuncs {
			if f.Pkg != commit.Pkg || f.Synthetic != "" {
				continue
			}
			top := f
			for top.Parent() != nil {
				top = top.Parent()
			}
			if top == commit || p.onlyWithin(top, commit, 0) {
				region = append(region, f)
				inRegion[f] = true
			}
		}
		var engCommits []ssa.CallInstruction
		for _, f := range region {
			for _, c := range callsIn(f) {
				if isEngineCall(c, "Commit") {
					engCommits = append(engCommits, c)
				}
				if isEngineCall(c, "NewTransaction", "Begin", "NewTransactionAt") {
					res.bad("C11-R2", short+".Commit: one engine transaction per batch", p.pos(c.Pos()), "Commit opens a new engine transaction: the batch is applied in pieces and a later failed condition leaves earlier pieces visible")
				}
			}
		}
		// the staged operations (methods of the batch type and the closures they queue) neither commit nor replace
		// the engine transaction: only Commit ends it, only BeginBatchWrite opens it
		{
			construct := short + ": staged operations never commit or replace the engine transaction"
			bad := false
			var batchT types.Type
			if commit.Signature.Recv() != nil {
				batchT = commit.Signature.Recv().Type()
			}
			for _, f := range p.AllFuncs {
				if f.Synthetic != "" || f.Pkg != commit.Pkg {
					continue
				}
				top := f
				for top.Parent() != nil {
					top = top.Parent()
				}
				if top == commit || inRegion[f] || top.Signature.Recv() == nil || batchT == nil || !types.Identical(top.Signature.Recv().Type(), batchT) {
					continue
				}
				for _, c := range callsIn(f) {
					if isEngineCall(c, "Commit", "CommitWith", "NewTransaction", "Begin", "NewTransactionAt") {
						bad = true
						res.bad("C11-R2", construct, p.pos(c.Pos()), funcName(f)+" ends or replaces the engine transaction while operations are being staged: the batch is carried by several engine transactions and is no longer all-or-nothing")
					}
				}
			}
			if !bad {
				res.ok("C11-R2", construct, p.pos(commit.Pos()), "no engine Commit / new transaction in the batch type's other methods or queued closures")
			}
		}
		construct := short + ".Commit: exactly one engine commit, not in a loop"
		switch {
		case len(engCommits) != 1:
			res.bad("C11-R2", construct, p.pos(commit.Pos()), fmt.Sprintf("%d engine commit calls in Commit: the batch is not applied by one transaction", len(engCommits)))
		case inCycle(engCommits[0].Block()):
			res.bad("C11-R2", construct, p.pos(engCommits[0].Pos()), "the engine commit sits inside a loop: the batch can be committed in pieces")
		default:
			res.ok("C11-R2", construct, p.pos(engCommits[0].Pos()), "single engine commit after the operation loop")
		}
		if len(engCommits) == 1 {
			// an op error returns before the engine commit: from every edge "op result != nil" the commit is unreachable
			ec := engCommits[0].(ssa.Instruction)
			construct := short + ".Commit: operation error returns before the engine commit"
			n, bad := 0, false
			for _, b := range ec.Parent().Blocks {
				if ifOf(b) == nil {
					continue
				}
				for s := 0; s < 2; s++ {
					cf := edgeFact(edge{b, s})
					if cf.X == nil {
						continue
					}
					x, y := cf.X, cf.Y
					if isNilConst(x) {
						x, y = y, x
					}
					if !isNilConst(y) || !((cf.Op == token.NEQ && cf.Want) || (cf.Op == token.EQL && !cf.Want)) {
						continue
					}
					// x is the result of calling an op closure (dynamic call)
					isOpRes := false
					for _, v := range resolveAllCells(x) {
						if c, ok := v.(*ssa.Call); ok && c.Common().StaticCallee() == nil && !c.Common().IsInvoke() {
							isOpRes = true
						}
						// or the result of a helper of the adapter that runs the queued closures and returns their
						// error unchanged (error preservation inside the helper)
						if c, ok := v.(*ssa.Call); ok {
							if h := c.Common().StaticCallee(); h != nil && h.Pkg == commit.Pkg && h.Blocks != nil && errorResultIndex(h.Signature) >= 0 {
								nOps, lost := 0, false
								for _, hc := range callsIn(h) {
									oc, ok := hc.(*ssa.Call)
									if !ok || oc.Common().StaticCallee() != nil || oc.Common().IsInvoke() {
										continue
									}
									if _, isB := oc.Common().Value.(*ssa.Builtin); isB {
										continue
									}
									ei := errorResultIndex(oc.Common().Signature())
									if ei < 0 {
										continue
									}
									nOps++
									if len(errLosses(p, h, oc, extractsOf(oc)[ei])) > 0 {
										lost = true
									}
								}
								if nOps > 0 && !lost {
									isOpRes = true
								}
							}
						}
					}
					if !isOpRes || !instrDominatesBlock(b, ec) && !reachesBlock(b, ec.Block()) {
						continue
					}
					n++
					ins, _ := searchFrom(b.Succs[s], 0, searchOpts{bad: func(i ssa.Instruction) bool { return i == ec }})
					if ins != nil {
						bad = true
						res.bad("C11-R2", construct, p.pos(b.Instrs[len(b.Instrs)-1].Pos()), "after an operation reported an error the engine commit is still reachable: part of a rejected batch can be applied")
					}
				}
			}
			if !bad && n > 0 {
				res.ok("C11-R2", construct, p.pos(ec.Pos()), fmt.Sprintf("%d error branch(es) checked", n))
			} else if n == 0 {
				res.bad("C11-R2", construct, p.pos(ec.Pos()), "the results of the staged operations are not checked before the engine commit")
			}
		}
		// rollback / discard on error exits: a deferred call reaching Discard / Rollback
		construct = short + ".Commit: transaction discarded on error exits"
		found := false
		for _, b := range commit.Blocks {
			for _, ins := range b.Instrs {
				if d, ok := ins.(*ssa.Defer); ok {
					for _, callee := range append(p.calleesOf(d), d.Common().StaticCallee()) {
						if callee == nil {
							continue
						}
						if callee.Name() == "Discard" || callee.Name() == "Rollback" {
							found = true
						}
						for _, f := range withAnon(callee) {
							for _, c := range callsIn(f) {
								if isEngineCall(c, "Discard", "Rollback") {
									found = true
								}
							}
						}
					}
				}
			}
		}
		// .. or an explicit one on every path on which Commit returns an error that is not known to be nil
		explicit := false
		if !found {
			ei := errorResultIndex(commit.Signature)
			rg := &fnRegion{root: commit, descend: func(g *ssa.Function) bool { return inRegion[g] }}
			nRet := 0
			missing, _, _ := rg.search(&frame{fn: commit}, commit.Blocks[0], 0, superOpts{
				stop: func(i ssa.Instruction, _ *frame) bool {
					c, ok := i.(ssa.CallInstruction)
					return ok && isEngineCall(c, "Discard", "Rollback")
				},
				bad: func(i ssa.Instruction, fr *frame) bool {
					ret, ok := i.(*ssa.Return)
					if !ok || fr.parent != nil || ei < 0 {
						return false
					}
					nRet++
					return !isNilConst(resolve(ret.Results[ei]))
				},
				skipEdge: func(from *ssa.BasicBlock, si int, fr *frame) bool {
					if fr.parent != nil || ifOf(from) == nil {
						return false
					}
					// the edge on which the error that Commit is about to return is nil
					cf := edgeFact(edge{from, si})
					if cf.X == nil {
						return false
					}
					x, y := cf.X, cf.Y
					if isNilConst(x) {
						x, y = y, x
					}
					if !isNilConst(y) || !((cf.Op == token.EQL && cf.Want) || (cf.Op == token.NEQ && !cf.Want)) {
						return false
					}
					for _, b := range commit.Blocks {
						if ret, ok := b.Instrs[len(b.Instrs)-1].(*ssa.Return); ok && resolve(ret.Results[ei]) == resolve(x) {
							return true
						}
					}
					return false
				},
			})
			_ = nRet
			nRollback := 0
			for _, f := range region {
				for _, c := range callsIn(f) {
					if isEngineCall(c, "Discard", "Rollback") {
						nRollback++
					}
				}
			}
			explicit = missing == nil && nRollback > 0
		}
		if found {
			res.ok("C11-R2", construct, p.pos(commit.Pos()), "deferred Discard / Rollback")
		} else if explicit {
			res.ok("C11-R2", construct, p.pos(commit.Pos()), "explicit Rollback / Discard on every path that returns an error not known to be nil")
		} else {
			res.bad("C11-R2", construct, p.pos(commit.Pos()), "Commit does not discard / roll back the engine transaction on its error exits")
		}
	}
	// memkv
	mp := p.ssaPkg("pkg/storage/memkv")
	begin := p.implIn(r.KVBegin, "pkg/storage/memkv")
	commit := p.implIn(r.BWCommit, "pkg/storage/memkv")
	if begin == nil || commit == nil {
		res.und("C11-R2", "memkv lock hand-over", "-", "BeginBatchWrite / Commit not found")
		return
	}
	lockCalls := func(f *ssa.Function, name string) (n int, deferred int) {
		for _, b := range f.Blocks {
			for _, ins := range b.Instrs {
				c, ok := ins.(ssa.CallInstruction)
				if !ok {
					continue
				}
				sc := c.Common().StaticCallee()
				if sc == nil || sc.Name() != name || sc.Signature.Recv() == nil || !(isNamed(sc.Signature.Recv().Type(), "sync", "Mutex") || isNamed(sc.Signature.Recv().Type(), "sync", "RWMutex")) {
					continue
				}
				n++
				if _, isD := ins.(*ssa.Defer); isD {
					deferred++
				}
			}
		}
		return
	}
	bl, _ := lockCalls(begin, "Lock")
	bu, _ := lockCalls(begin, "Unlock")
	cl, _ := lockCalls(commit, "Lock")
	cu, cud := lockCalls(commit, "Unlock")
	construct := "memkv: store lock acquired by BeginBatchWrite and released only by Commit"
	switch {
	case bl != 1 || bu != 0:
		res.bad("C11-R2", construct, p.pos(begin.Pos()), "BeginBatchWrite does not return with the store lock held: conditions are evaluated when an operation is staged, so compare and apply are no longer one atomic step and two writers conditioned on the same value can both succeed")
	case cl != 0 || cu < 1:
		res.bad("C11-R2", construct, p.pos(commit.Pos()), "Commit does not simply release the lock taken by BeginBatchWrite (it re-locks or never unlocks)")
	case cud == 0:
		// non-deferred unlock must be on every path
		ins, _ := searchFrom(commit.Blocks[0], 0, searchOpts{
			stop: func(i ssa.Instruction) bool {
				c, ok := i.(ssa.CallInstruction)
				if !ok {
					return false
				}
				sc := c.Common().StaticCallee()
				return sc != nil && sc.Name() == "Unlock"
			},
			bad: func(i ssa.Instruction) bool { _, ok := i.(*ssa.Return); return ok },
		})
		if ins != nil {
			res.bad("C11-R2", construct, p.pos(ins.Pos()), "a path through Commit returns without releasing the store lock")
		} else {
			res.ok("C11-R2", construct, p.pos(commit.Pos()), "Lock in BeginBatchWrite, Unlock on every path of Commit")
		}
	default:
		res.ok("C11-R2", construct, p.pos(commit.Pos()), "Lock in BeginBatchWrite (no Unlock), deferred Unlock in Commit (no Lock)")
	}
	// the batch's reads must not take the lock again (deadlock) nor bypass it: get() uses the unlocked getter
	// skip-list mutations only in Commit (after the recorded-error test) and in the iterator's sentinel pair
	construct = "memkv: skip list mutated only by Commit and the iterator sentinel pair"
	okMut := true
	for _, f := range p.AllFuncs {
		if f.Pkg != mp {
			continue
		}
		for _, c := range callsIn(f) {
			if !isEngineCall(c, "Set", "Remove", "RemoveElement", "RemoveFront", "RemoveBack", "Init") {
				continue
			}
			switch {
			case p.onlyWithin(f, commit, 0):
				// dominated by b.err == nil (in Commit itself or, for a helper of Commit, at its call sites)
				g := false
				for _, cf := range dominatingFacts(c.Block()) {
					if cf.X != nil && isNilConst(cf.Y) && ((cf.Op == token.NEQ && !cf.Want) || (cf.Op == token.EQL && cf.Want)) {
						g = true
					}
				}
				if !g {
					okMut = false
					res.bad("C11-R2", construct, p.pos(c.Pos()), "Commit mutates the skip list without having tested the recorded operation error")
				}
			case strings.Contains(funcName(f), ".iter)."):
				// sentinel insert / remove pair inside the iterator constructor
			default:
				okMut = false
				res.bad("C11-R2", construct, p.pos(c.Pos()), funcName(f)+" mutates the skip list outside a committed batch")
			}
		}
	}
	if okMut {
		res.ok("C11-R2", construct, p.pos(commit.Pos()), "all mutations are in Commit under err == nil, or the iterator's sentinel")
	}
	// every batch in the program is committed on all paths (a memkv batch that is not committed keeps the store locked)
	for _, b := range p.batches() {
		if b.escapes() {
			continue
		}
		checkCommitDiscipline(p, res, "C11-R2", b, b.name())
	}
}

func instrDominatesBlock(b *ssa.BasicBlock, ins ssa.Instruction) bool {
	return b.Dominates(ins.Block())
}

func reachesBlock(a, b *ssa.BasicBlock) bool {
	seen := map[*ssa.BasicBlock]bool{}
	var walk func(x *ssa.BasicBlock) bool
	walk = func(x *ssa.BasicBlock) bool {
		if x == b {
			return true
		}
		if seen[x] {
			return false
		}
		seen[x] = true
		for _, s := range x.Succs {
			if walk(s) {
				return true
			}
		}
		return false
	}
	return walk(a)
}

// ---------- R3 ----------

// boundCheckers: functions of the adapter package that compare a key with the iterator's end bound.
func boundCheckers(p *Prog, sp *ssa.Package) map[*ssa.Function]bool {
	out := map[*ssa.Function]bool{}
	for _, f := range p.AllFuncs {
		if f.Pkg != sp {
			continue
		}
		for _, c := range callsIn(f) {
			sc := c.Common().StaticCallee()
			if sc == nil || sc.Pkg == nil || sc.Pkg.Pkg.Path() != "bytes" || sc.Name() != "Compare" {
				continue
			}
			for _, a := range c.Common().Args {
				if ld, ok := resolve(a).(*ssa.UnOp); ok {
					if fa, ok := ld.X.(*ssa.FieldAddr); ok && fieldOf(fa).Name() == "end" {
						out[f] = true
					}
				}
			}
		}
	}
	return out
}

// checkWrittenValue: what Put / CAS / PutIfNotExist hand to the engine as the value to store is their own value
// parameter (not the value they read back for the comparison, not the expected value).
func checkWrittenValue(p *Prog, r *Roles, res *Result) {
	for _, ap := range []string{"pkg/storage/badger", "pkg/storage/tikv"} {
		short := ap[strings.LastIndex(ap, "/")+1:]
		for _, m := range []*types.Func{r.BWPut, r.BWCAS, r.BWPutIfNotExist} {
			f := p.implIn(m, ap)
			if f == nil {
				continue
			}
			valParam := f.Params[2] // receiver, key, value
			n, bad := 0, ""
			// the value operand of an engine write, or of a helper of the adapter all of whose engine writes store
			// one of its parameters (helper(key, val, ttl) { txn.Set(key, val) / NewEntry(key, val) })
			valueOperand := func(c ssa.CallInstruction) ssa.Value {
				if isEngineCall(c, "Set", "NewEntry") {
					args := c.Common().Args
					if len(args) >= 2 {
						if _, isSlice := args[len(args)-1].Type().Underlying().(*types.Slice); isSlice {
							return args[len(args)-1]
						}
					}
					return nil
				}
				h := c.Common().StaticCallee()
				if h == nil || h.Blocks == nil || h.Pkg != f.Pkg {
					return nil
				}
				pidx := -1
				for _, hc := range callsIn(h) {
					if !isEngineCall(hc, "Set", "NewEntry") {
						continue
					}
					args := hc.Common().Args
					if len(args) < 2 {
						continue
					}
					prm, ok := p.resolveDeep(args[len(args)-1]).(*ssa.Parameter)
					if !ok || prm.Parent() != h || (pidx >= 0 && paramIndex(prm) != pidx) {
						return nil
					}
					pidx = paramIndex(prm)
				}
				if pidx < 0 || pidx >= len(c.Common().Args) {
					return nil
				}
				return c.Common().Args[pidx]
			}
			skipped := ""
			for _, g := range withAnon(f) {
				var writes []ssa.CallInstruction
				for _, c := range callsIn(g) {
					v := valueOperand(c)
					if v == nil {
						continue
					}
					n++
					writes = append(writes, c)
					if p.resolveDeep(v) != ssa.Value(valParam) {
						bad = p.pos(c.Pos())
					}
				}
				// success is reported only after the write: a nil result of the operation's closure comes after an
				// engine write (a compare-and-swap that leaves the key out of the transaction when the value is
				// unchanged also leaves it out of the engine's conflict detection)
				if len(writes) == 0 || g.Signature.Results().Len() != 1 {
					continue
				}
				for _, b := range g.Blocks {
					ret, ok := b.Instrs[len(b.Instrs)-1].(*ssa.Return)
					if !ok || !isNilConst(resolve(ret.Results[0])) {
						continue
					}
					after := false
					for _, w := range writes {
						if instrDominates(w.(ssa.Instruction), ret) {
							after = true
						}
					}
					if !after {
						skipped = p.pos(ret.Pos())
					}
				}
			}
			if skipped != "" && bad == "" {
				res.bad("C11-R1", fmt.Sprintf("%s.%s: the value written is the value parameter", short, m.Name()), skipped, "the operation reports success on a path on which nothing was handed to the engine: the key is then not part of the engine transaction, so neither written nor covered by its conflict detection - a condition that held at the snapshot is not re-validated at commit")
				continue
			}
			construct := fmt.Sprintf("%s.%s: the value written is the value parameter", short, m.Name())
			switch {
			case n == 0:
				res.und("C11-R1", construct, p.pos(f.Pos()), "no engine write found")
			case bad != "":
				res.bad("C11-R1", construct, bad, "the engine is given a value other than the operation's new value (e.g. the value read back for the comparison): the operation reports success and stores something else")
			default:
				res.ok("C11-R1", construct, p.pos(f.Pos()), fmt.Sprintf("%d engine write(s), all of parameter %q", n, valParam.Name()))
			}
		}
	}
}

// checkOracleAPI: the TiKV adapter's timestamp oracle asks PD for a fresh timestamp (Oracle.GetTimestamp); the cached
// low-resolution / stale variants of the client lag behind commits made through another client of the pool.
func checkOracleAPI(p *Prog, r *Roles, res *Result) {
	f := p.implIn(r.KVGetTSO, "pkg/storage/tikv")
	if f == nil {
		return
	}
	construct := "tikv.GetTimestampOracle: fresh PD timestamp"
	n, bad := 0, ""
	for _, g := range withAnon(f) {
		for _, c := range callsIn(g) {
			name := ""
			if c.Common().IsInvoke() {
				name = c.Common().Method.Name()
			} else if sc := c.Common().StaticCallee(); sc != nil && sc.Pkg != nil && strings.Contains(sc.Pkg.Pkg.Path(), "tikv") {
				name = sc.Name()
			}
			if !strings.Contains(name, "Timestamp") && !strings.Contains(name, "TS") {
				continue
			}
			n++
			if name != "GetTimestamp" && name != "GetTimestampAsync" {
				bad = name
			}
		}
	}
	switch {
	case n == 0:
		res.und("C11-R6", construct, p.pos(f.Pos()), "no oracle call found")
	case bad != "":
		res.bad("C11-R6", construct, p.pos(f.Pos()), "the oracle is read through "+bad+", which may return a cached timestamp older than commits already acknowledged through another client: a new leader can start below revisions the old leader used")
	default:
		res.ok("C11-R6", construct, p.pos(f.Pos()), "Oracle.GetTimestamp")
	}
}

// checkIterSnapshot: where an adapter's Iter hands a read timestamp to its engine (tikv GetSnapshot, a managed badger
// transaction), that timestamp is the caller's or one obtained from the timestamp oracle. A constant ("newest") makes
// every batch of the scan read a different state: an iterator is no longer one snapshot.
func checkIterSnapshot(p *Prog, r *Roles, res *Result) {
	for _, ap := range adapterPkgs {
		short := ap[strings.LastIndex(ap, "/")+1:]
		it := p.implIn(r.KVIter, ap)
		if it == nil {
			continue
		}
		var tsParam *ssa.Parameter
		for _, prm := range it.Params {
			if bt, ok := prm.Type().Underlying().(*types.Basic); ok && bt.Kind() == types.Uint64 && tsParam == nil {
				tsParam = prm
			}
		}
		n := 0
		for _, f := range withAnon(it) {
			for _, c := range callsIn(f) {
				if !isEngineCall(c, "GetSnapshot", "NewTransactionAt", "NewStreamAt") {
					continue
				}
				for _, a := range c.Common().Args {
					bt, ok := a.Type().Underlying().(*types.Basic)
					if !ok || bt.Kind() != types.Uint64 {
						continue
					}
					n++
					construct := fmt.Sprintf("%s.Iter: read timestamp handed to the engine #%d", short, n)
					bad := ""
					for _, v := range valuesThroughClosures(p, a) {
						v = p.resolveDeep(v)
						if tsParam != nil && v == ssa.Value(tsParam) {
							continue
						}
						if cc, _, ok := extractOf(v); ok {
							if sc := cc.Common().StaticCallee(); sc != nil && unwrapSynthetic(sc) == p.implIn(r.KVGetTSO, ap) {
								continue
							}
							if cc.Common().IsInvoke() && cc.Common().Method == r.KVGetTSO {
								continue
							}
						}
						bad = v.String()
					}
					if bad == "" {
						res.ok("C11-R3", construct, p.pos(c.Pos()), "the caller's timestamp, or one read from the oracle when the caller gave none")
					} else {
						res.bad("C11-R3", construct, p.pos(c.Pos()), "the iterator reads at "+bad+", which is neither the caller's timestamp nor a timestamp obtained from the oracle: a scan that needs several engine requests is stitched together from different states of the store")
					}
				}
			}
		}
	}
}

func checkIterBounds(p *Prog, r *Roles, res *Result) {
	for _, ap := range adapterPkgs {
		short := ap[strings.LastIndex(ap, "/")+1:]
		sp := p.ssaPkg(ap)
		next := p.implIn(r.ItNext, ap)
		construct := short + ".iter: yielded keys are checked against the end bound"
		if next == nil {
			res.und("C11-R3", construct, "-", "Next not found")
			continue
		}
		bc := boundCheckers(p, sp)
		if len(bc) == 0 {
			res.bad("C11-R3", construct, p.pos(next.Pos()), "no function of the adapter compares a key with the iterator's end bound")
			continue
		}
		isBC := func(v ssa.Value) bool {
			c, ok := resolve(v).(*ssa.Call)
			return ok && c.Common().StaticCallee() != nil && bc[c.Common().StaticCallee()]
		}
		blockHasBCFact := func(b *ssa.BasicBlock) bool {
			for _, cf := range dominatingFacts(b) {
				if cf.Call != nil && isBC(cf.Call) && cf.Want {
					return true
				}
			}
			return false
		}
		// does Next position the engine iterator?
		positions := false
		var positionsIn func(f *ssa.Function, d int)
		positionsIn = func(f *ssa.Function, d int) {
			if f == nil || f.Blocks == nil || d > 2 {
				return
			}
			for _, c := range callsIn(f) {
				if isEngineCall(c, "Next", "Seek", "Rewind") || (c.Common().IsInvoke() && c.Common().Method.Name() == "Next") {
					positions = true
				}
				// a helper of the adapter that advances the engine iterator on behalf of Next
				if sc := c.Common().StaticCallee(); sc != nil && sc.Pkg == sp && sc != f {
					positionsIn(sc, d+1)
				}
			}
		}
		positionsIn(next, 0)
		if !positions {
			// pre-filtered buffer: every append to the buffer field is dominated by a bound-check fact
			okAll, n := true, 0
			for _, f := range p.AllFuncs {
				if f.Pkg != sp {
					continue
				}
				for _, b := range f.Blocks {
					for _, ins := range b.Instrs {
						st, ok := ins.(*ssa.Store)
						if !ok {
							continue
						}
						fa, ok := st.Addr.(*ssa.FieldAddr)
						if !ok || fieldOf(fa).Name() != "buf" {
							continue
						}
						if c, ok := resolve(st.Val).(*ssa.Call); ok {
							if bi, ok := c.Common().Value.(*ssa.Builtin); ok && bi.Name() == "append" {
								n++
								if !blockHasBCFact(b) {
									okAll = false
									res.bad("C11-R3", construct, p.pos(st.Pos()), "an element is buffered for iteration without having been compared with the end bound")
								}
							}
						}
					}
				}
			}
			if okAll && n > 0 {
				res.ok("C11-R3", construct, p.pos(next.Pos()), fmt.Sprintf("pre-filtered buffer: %d append site(s), all under the bound check", n))
			} else if n == 0 {
				res.bad("C11-R3", construct, p.pos(next.Pos()), "Next neither positions an engine iterator nor reads a bound-checked buffer")
			}
			continue
		}
		okAll, n := true, 0
		for _, b := range next.Blocks {
			ret, ok := b.Instrs[len(b.Instrs)-1].(*ssa.Return)
			if !ok {
				continue
			}
			for _, v := range resolveAllCells(ret.Results[0]) {
				mayNil := false
				switch x := v.(type) {
				case *ssa.Const:
					mayNil = x.Value == nil
				case *ssa.Call:
					if isBC(x) {
						continue // result of the bound check itself
					}
				}
				if _, isZero := v.(zeroValueMarker); isZero {
					mayNil = true
				}
				if !mayNil {
					continue
				}
				n++
				// nil return: must be before positioning (nothing yielded is impossible) or under a bound fact
				if blockHasBCFact(b) {
					continue
				}
				okAll = false
				res.bad("C11-R3", construct, p.pos(ret.Pos()), "Next can report an element without comparing its key with the end bound (e.g. the first element): the iterator yields a key outside the requested interval")
			}
		}
		if okAll {
			res.ok("C11-R3", construct, p.pos(next.Pos()), fmt.Sprintf("every nil return of Next is the bound check's result or dominated by it (%d nil return(s) examined)", n))
		}
	}
}

// ---------- R5 ----------

// unwrapsParam: v is prm, or a field of the value type-asserted out of prm, directly or as the result of a local
// helper applied to prm.
func (p *Prog) unwrapsParam(v ssa.Value, prm *ssa.Parameter, depth int) bool {
	if depth > 3 {
		return false
	}
	v = p.resolveDeep(v)
	if v == ssa.Value(prm) {
		return true
	}
	switch x := v.(type) {
	case *ssa.UnOp:
		if fa, ok := x.X.(*ssa.FieldAddr); ok {
			if ta, ok := p.resolveDeep(fa.X).(*ssa.TypeAssert); ok {
				return p.unwrapsParam(ta.X, prm, depth+1)
			}
		}
	case *ssa.Field:
		if ta, ok := p.resolveDeep(x.X).(*ssa.TypeAssert); ok {
			return p.unwrapsParam(ta.X, prm, depth+1)
		}
	case *ssa.Call:
		sc := x.Common().StaticCallee()
		if sc == nil || sc.Blocks == nil || sc.Pkg != prm.Parent().Pkg || sc.Signature.Results().Len() != 1 {
			return false
		}
		for ai, a := range x.Common().Args {
			if ai >= len(sc.Params) || !p.unwrapsParam(a, prm, depth+1) {
				continue
			}
			all := true
			for _, b := range sc.Blocks {
				if ret, ok := b.Instrs[len(b.Instrs)-1].(*ssa.Return); ok {
					if !p.unwrapsParam(ret.Results[0], sc.Params[ai], depth+1) {
						all = false
					}
				}
			}
			if all {
				return true
			}
		}
	}
	return false
}

func checkWrapperTransparency(p *Prog, r *Roles, res *Result) {
	wp := p.ssaPkg("pkg/storage/metrics")
	ifaces := []struct{ pkg, name string }{{"pkg/storage", "KvStorage"}, {"pkg/storage", "BatchWrite"}, {"pkg/storage", "Iter"}}
	for _, ifc := range ifaces {
		it := p.namedType(ifc.pkg, ifc.name).Underlying().(*types.Interface)
		for i := 0; i < it.NumMethods(); i++ {
			m := it.Method(i)
			f := p.implIn(m, "pkg/storage/metrics")
			if f == nil || f.Pkg != wp {
				continue // promoted from the embedded value: transparent by construction
			}
			construct := fmt.Sprintf("metrics wrapper %s.%s", ifc.name, m.Name())
			var fwd []ssa.CallInstruction
			for _, g := range withAnon(f) {
				for _, c := range callsIn(g) {
					if c.Common().IsInvoke() && c.Common().Method == m {
						fwd = append(fwd, c)
					}
				}
			}
			if len(fwd) != 1 {
				res.bad("C11-R5", construct, p.pos(f.Pos()), fmt.Sprintf("the wrapper calls the wrapped %s %d times (expected exactly once)", m.Name(), len(fwd)))
				continue
			}
			c := fwd[0]
			// parameters forwarded in order
			sig := m.Type().(*types.Signature)
			bad := ""
			for pi := 0; pi < sig.Params().Len(); pi++ {
				arg := p.resolveDeep(argForSigParam(c, pi))
				want := f.Params[pi+1]
				// the parameter itself, or the iterator unwrapped from it: (param.(*iterWrapper)).Iter, possibly in a helper
				if p.unwrapsParam(arg, want, 0) {
					continue
				}
				bad = fmt.Sprintf("argument #%d of the forwarded call is not parameter %q", pi, want.Name())
			}
			// the forwarded call runs on every path (directly in f: it must be reached before every return)
			if bad == "" && c.Parent() == f {
				ins, _ := searchFrom(f.Blocks[0], 0, searchOpts{
					stop: func(i ssa.Instruction) bool { return i == c.(ssa.Instruction) },
					bad:  func(i ssa.Instruction) bool { _, ok := i.(*ssa.Return); return ok },
				})
				if ins != nil {
					bad = "a path returns without calling the wrapped method"
				}
			}
			// the error of the wrapped call is the error the wrapper returns (directly, or through the named result
			// that a timing closure assigns)
			if ei := errorResultIndex(sig); bad == "" && ei >= 0 {
				if fc, ok := c.(*ssa.Call); ok {
					errVal := extractsOf(fc)[ei]
					returned := false
					for _, b := range f.Blocks {
						ret, ok := b.Instrs[len(b.Instrs)-1].(*ssa.Return)
						if !ok || b.Comment == "recover" || ei >= len(ret.Results) {
							continue
						}
						for _, v := range valuesThroughClosures(p, ret.Results[ei]) {
							if v == errVal && errVal != nil {
								returned = true
							}
						}
					}
					if !returned {
						bad = "the error returned by the wrapped call never reaches the wrapper's error result: a failed operation is reported as success"
					}
				}
			}
			if bad != "" {
				res.bad("C11-R5", construct, p.pos(c.Pos()), bad)
			} else {
				res.ok("C11-R5", construct, p.pos(c.Pos()), "one forwarded call, parameters in order, its error returned")
			}
		}
	}
}

// valuesThroughClosures: the values v can take, looking through local variables including the assignments that
// function literals of the same function make to them (a named result set inside a closure).
func valuesThroughClosures(p *Prog, v ssa.Value) []ssa.Value {
	var out []ssa.Value
	seen := map[ssa.Value]bool{}
	var rec func(v ssa.Value, d int)
	rec = func(v ssa.Value, d int) {
		v = strip(v)
		if v == nil || seen[v] || d > 10 {
			return
		}
		seen[v] = true
		if ph, ok := v.(*ssa.Phi); ok {
			for _, e := range ph.Edges {
				rec(e, d+1)
			}
			return
		}
		if u, ok := v.(*ssa.UnOp); ok && u.Op == token.MUL {
			if cell, ok := u.X.(*ssa.Alloc); ok {
				for _, ref := range *cell.Referrers() {
					switch x := ref.(type) {
					case *ssa.Store:
						if x.Addr == ssa.Value(cell) {
							rec(x.Val, d+1)
						}
					case *ssa.MakeClosure:
						fn := x.Fn.(*ssa.Function)
						for i, bnd := range x.Bindings {
							if bnd != ssa.Value(cell) {
								continue
							}
							for _, r2 := range *fn.FreeVars[i].Referrers() {
								if st, ok := r2.(*ssa.Store); ok && st.Addr == ssa.Value(fn.FreeVars[i]) {
									rec(st.Val, d+1)
								}
							}
						}
					}
				}
				return
			}
		}
		out = append(out, v)
	}
	rec(v, 0)
	return out
}

// ---------- R6 ----------

func checkNotFoundIdentity(p *Prog, r *Roles, res *Result, rule string) {
	nf := p.global("pkg/storage", "ErrKeyNotFound")
	for _, ap := range adapterPkgs {
		short := ap[strings.LastIndex(ap, "/")+1:]
		get := p.implIn(r.KVGet, ap)
		construct := short + ".Get: missing key -> ErrKeyNotFound itself"
		if get == nil {
			res.und(rule, construct, "-", "Get not found")
			continue
		}
		// Get itself, its function literals (a body run inside a transaction helper) and the helpers it calls
		scope := withAnon(get)
		for _, g := range withAnon(get) {
			for _, c := range callsIn(g) {
				if sc := c.Common().StaticCallee(); sc != nil && sc.Pkg == get.Pkg && sc.Blocks != nil {
					scope = append(scope, sc)
				}
			}
		}
		plain, wrapped := false, false
		for _, f := range scope {
			ei := errorResultIndex(f.Signature)
			if ei < 0 {
				continue
			}
			for _, b := range f.Blocks {
				ret, ok := b.Instrs[len(b.Instrs)-1].(*ssa.Return)
				if !ok {
					continue
				}
				for _, v := range resolveAllCells(ret.Results[ei]) {
					if globalLoad(v) == nf {
						plain = true
					}
					if c, ok := v.(*ssa.Call); ok {
						for _, a := range c.Common().Args {
							if globalLoad(a) == nf {
								wrapped = true
							}
						}
					}
				}
			}
		}
		switch {
		case wrapped:
			res.bad(rule, construct, p.pos(get.Pos()), "Get wraps ErrKeyNotFound: callers compare with ==, a missing key would become an RPC error")
		case !plain:
			res.bad(rule, construct, p.pos(get.Pos()), "Get never returns the ErrKeyNotFound sentinel: a missing key is reported with an engine-specific error")
		default:
			res.ok(rule, construct, p.pos(get.Pos()), "returns the sentinel unwrapped")
		}
	}
}

// ---------- R7 ----------

func isBytesMinMax(f *ssa.Function) string {
	if f == nil || f.Blocks == nil || len(f.Params) != 2 || f.Signature.Results().Len() != 1 {
		return ""
	}
	if _, ok := f.Params[0].Type().Underlying().(*types.Slice); !ok {
		return ""
	}
	a, b := f.Params[0], f.Params[1]
	kind := ""
	n := 0
	for _, blk := range f.Blocks {
		ret, ok := blk.Instrs[len(blk.Instrs)-1].(*ssa.Return)
		if !ok {
			continue
		}
		n++
		rv := resolve(ret.Results[0])
		for _, cf := range dominatingFacts(blk) {
			if cf.X == nil || !isZeroConst(cf.Y) {
				continue
			}
			c, ok := resolve(cf.X).(*ssa.Call)
			if !ok || c.Common().StaticCallee() == nil || c.Common().StaticCallee().Name() != "Compare" {
				continue
			}
			if resolve(c.Common().Args[0]) != ssa.Value(a) || resolve(c.Common().Args[1]) != ssa.Value(b) {
				continue
			}
			aGreater := (cf.Op == token.GTR && cf.Want) || (cf.Op == token.LEQ && !cf.Want)
			aNotGreater := (cf.Op == token.GTR && !cf.Want) || (cf.Op == token.LEQ && cf.Want)
			var k string
			switch {
			case aGreater && rv == ssa.Value(a), aNotGreater && rv == ssa.Value(b):
				k = "max"
			case aGreater && rv == ssa.Value(b), aNotGreater && rv == ssa.Value(a):
				k = "min"
			}
			if k != "" {
				if kind != "" && kind != k {
					return ""
				}
				kind = k
			}
		}
	}
	if n != 2 {
		return ""
	}
	return kind
}

func checkPartitionClamp(p *Prog, r *Roles, res *Result, rule string) {
	startF := p.structField("pkg/storage", "Partition", "Start")
	endF := p.structField("pkg/storage", "Partition", "End")
	for _, ap := range adapterPkgs {
		short := ap[strings.LastIndex(ap, "/")+1:]
		gp := p.implIn(r.KVGetPartitions, ap)
		if gp == nil {
			res.und(rule, short+".GetPartitions", "-", "not found")
			continue
		}
		var startP, endP *ssa.Parameter
		for _, prm := range gp.Params {
			switch prm.Name() {
			case "start":
				startP = prm
			case "end":
				endP = prm
			}
		}
		// fall back to position: (ctx, start, end)
		if startP == nil || endP == nil {
			if len(gp.Params) >= 4 {
				startP, endP = gp.Params[2], gp.Params[3]
			}
		}
		// judge: is v, evaluated on the way into block at, the requested bound or the clamp of an engine border with it?
		// A value chosen between several (phi), and one computed by a helper of the repository that is handed the bound,
		// is judged alternative by alternative, each under the branch conditions it is chosen under.
		// function-valued parameters of a helper, bound to the functions passed at the call the judgement descended
		// through (clip(key, bound, maxBytes)): set on descent, read when the helper calls its parameter
		fenv := map[*ssa.Parameter]*ssa.Function{}
		calleeOfCall := func(c *ssa.Call) *ssa.Function {
			if sc := c.Common().StaticCallee(); sc != nil {
				return sc
			}
			if prm, ok := c.Common().Value.(*ssa.Parameter); ok {
				return fenv[prm]
			}
			return nil
		}
		var judge func(v ssa.Value, at *ssa.BasicBlock, bound ssa.Value, wantKind, what string, depth int) (string, bool)
		judge = func(v ssa.Value, at *ssa.BasicBlock, bound ssa.Value, wantKind, what string, depth int) (string, bool) {
			v = p.resolveDeep(v)
			if v == bound {
				return "the requested bound itself", true
			}
			if depth > 6 {
				return "the partition border is not clamped to the requested interval", false
			}
			if phi, ok := v.(*ssa.Phi); ok {
				for i, e := range phi.Edges {
					if why, ok := judge(e, phi.Block().Preds[i], bound, wantKind, what, depth+1); !ok {
						return why, false
					}
				}
				return "every alternative is the requested bound or its clamp", true
			}
			// result of a helper
			var hc *ssa.Call
			idx := 0
			if ex, ok := v.(*ssa.Extract); ok {
				hc, _ = ex.Tuple.(*ssa.Call)
				idx = ex.Index
			} else if c, ok := v.(*ssa.Call); ok && isBytesMinMax(calleeOfCall(c)) == "" {
				hc = c
			}
			if hc != nil {
				sc := calleeOfCall(hc)
				if sc == nil || sc.Blocks == nil || hc.Common().IsInvoke() || sc.Pkg == nil || !strings.HasPrefix(sc.Pkg.Pkg.Path(), modPath) {
					return "the partition border is not clamped to the requested interval", false
				}
				var bp *ssa.Parameter
				for i, a := range hc.Common().Args {
					if p.resolveDeep(a) == bound && i < len(sc.Params) {
						bp = sc.Params[i]
					}
					if fn, ok := p.resolveDeep(a).(*ssa.Function); ok && i < len(sc.Params) {
						fenv[sc.Params[i]] = fn
					}
				}
				if bp == nil {
					return "the partition border is computed without the requested bound", false
				}
				n := 0
				for _, blk := range sc.Blocks {
					ret, ok := blk.Instrs[len(blk.Instrs)-1].(*ssa.Return)
					if !ok || blk.Comment == "recover" || idx >= len(ret.Results) {
						continue
					}
					n++
					if why, ok := judge(ret.Results[idx], blk, bp, wantKind, what, depth+1); !ok {
						return why, false
					}
				}
				if n == 0 {
					return "the partition border is not clamped to the requested interval", false
				}
				return wantKind + "(engine border, requested bound) in " + funcName(sc), true
			}
			if c, ok := v.(*ssa.Call); ok {
				if k := isBytesMinMax(calleeOfCall(c)); k != "" {
					hasBound := false
					for _, a := range c.Common().Args {
						if p.resolveDeep(a) == bound {
							hasBound = true
						}
					}
					if k == wantKind && hasBound && wantKind == "min" {
						// an empty engine end border means "unbounded": min would turn it into the smallest key, so
						// the clamp must run only where the border is known to be non-empty
						guarded := false
						facts := dominatingFacts(c.Block())
						if at != nil && at != c.Block() {
							facts = append(facts, dominatingFacts(at)...)
						}
						for _, a := range c.Common().Args {
							if p.resolveDeep(a) == bound {
								continue
							}
							ak := accessPath(a)
							for _, cf := range facts {
								if cf.X == nil {
									continue
								}
								lc, ok := resolve(cf.X).(*ssa.Call)
								if !ok {
									continue
								}
								if bi, ok := lc.Common().Value.(*ssa.Builtin); !ok || bi.Name() != "len" || accessPath(lc.Common().Args[0]) != ak {
									continue
								}
								if isZeroConst(cf.Y) && ((cf.Op == token.NEQ && cf.Want) || (cf.Op == token.EQL && !cf.Want) || (cf.Op == token.GTR && cf.Want)) {
									guarded = true
								}
							}
						}
						if !guarded {
							return "min(engine end border, requested end) without the guard len(engine border) != 0: the open end of the last region (empty key) becomes the smallest key and the partition covers nothing", false
						}
					}
					if k == wantKind && hasBound {
						return wantKind + "(engine border, requested bound)", true
					}
					return fmt.Sprintf("the partition %s is %s(..) of the engine border instead of %s(engine border, requested %s): the partition reaches outside the requested interval and range reads return keys beyond it", strings.ToLower(what), k, wantKind, strings.ToLower(what)), false
				}
			}
			return "the partition border is not clamped to the requested interval", false
		}
		check := func(fld *types.Var, bound *ssa.Parameter, wantKind, what string) {
			n := 0
			for _, st := range p.fields().stores[fld] {
				if st.Parent() != gp {
					continue
				}
				n++
				construct := fmt.Sprintf("%s.GetPartitions: Partition.%s #%d", short, what, n)
				if why, ok := judge(st.Val, st.Block(), ssa.Value(bound), wantKind, what, 0); ok {
					res.ok(rule, construct, p.pos(st.Pos()), why)
				} else {
					res.bad(rule, construct, p.pos(st.Pos()), why)
				}
			}
		}
		check(startF, startP, "max", "Start")
		check(endF, endP, "min", "End")
	}
}

// ---------- C12 ----------

func checkC12(p *Prog, res *Result, tier string) {
	r := p.roles()
	res.Explanation = "Engine independence is a 2-safety property over engines; statically it reduces to the points where engine differences can leak. Shared with C11: identical condition-failure classes across adapters and compare-before-write (C11-R1), not-found identity (C11-R6), wrapper transparency (C11-R5), partition clamp (C11-R7). Own rules: R1 dispatch completeness — the write paths of the backend test errors only for the classes the adapter table defines (errors.Is ErrCASFailed / ErrUncertainResult, ==/Is ErrKeyNotFound, the Conflict type assertion), never for an engine-specific error; R2 the engine feature flag SupportTTL is consulted only in the scanner's expiry code."
	res.NotDecided = "equality of transcripts across engines; engine-specific limits (transaction size, TTL timing)."
	res.Assumptions = []string{"C11 assumptions"}
	res.rule("C12-R0", "C11-R1 / R2 / R5 / R6 / R7 / R9 / R12 / R13 (sibling agreement of the adapters and the wrapper; batch begin/commit discipline, which only the in-process engine turns into a lock)", 30)
	res.rule("C12-R6", "the scan-based expiry, which stands in for native TTL on the one engine that has none, removes an event record only under an age guard on that record's own revision, the index record by compare-and-delete (C17-R2/R3)", 4)
	res.rule("C12-R7", "the snapshot timestamp handed to an engine iterator (an operand only TiKV reads) is the constant 0 or a value of GetTimestampOracle, never a revision", 2)
	res.rule("C12-R8", "the in-process engine's expiry timers each see their own record: no function literal that runs later captures a per-loop variable (C19-R10)", 1)
	res.rule("C12-R5", "bytes handed to an engine write are not a window into a reusable buffer: the in-process engine keeps the slice it is given, the others copy it", 10)
	res.rule("C12-R4", "results do not depend on how the engine partitions the key space, which only TiKV does (C13-R5, C13-R9)", 2)
	res.rule("C12-R1", "the backend's write paths dispatch only on the error classes of the adapter table", 5)
	res.rule("C12-R2", "SupportTTL is consulted only by the scanner's expiry code", 2)
	res.rule("C12-R3", "the in-process engine's iterator yields snapshot copies: live skip-list elements are dereferenced only under the store lock (C19-R3)", 4)

	sub := p.subResult("C11", tier)
	for _, o := range sub.Obls {
		if o.Rule == "C11-R1" || o.Rule == "C11-R2" || o.Rule == "C11-R5" || o.Rule == "C11-R6" || o.Rule == "C11-R7" || o.Rule == "C11-R9" || o.Rule == "C11-R12" || o.Rule == "C11-R13" || o.Rule == "C11-R14" || o.Rule == "C11-R16" || o.Rule == "C11-R18" || o.Rule == "C11-R19" || o.Rule == "C11-R20" {
			res.add("C12-R0", o.Rule+" "+o.Construct, o.Status, o.Pos, o.Detail)
		}
	}
	// R4: only one engine reports more than one partition, so every dependence of a result on the partitioning is a
	// dependence on the engine (C13-R5: borders contiguous and realigned)
	sub13 := newResult("C13")
	checkBorderContiguity(p, r, sub13, p.ssaPkg("pkg/backend/scanner"))
	checkAdvertisedBorders(p, r, sub13, "C13-R9")
	for _, o := range sub13.Obls {
		res.add("C12-R4", o.Rule+" "+o.Construct, o.Status, o.Pos, o.Detail)
	}
	for k, v := range sub.Stats {
		res.Stats[k] = v
	}
	// R6: the substitute for native TTL on the engine that has none removes what native TTL would remove (C17-R2/R3)
	for _, o := range p.subResult("C17", tier).Obls {
		// (R10 / R11: the emulation's clock - the compaction marks - is kept as the engines with native TTL keep theirs)
		if (o.Rule == "C17-R2" && strings.Contains(o.Construct, "age guard")) || o.Rule == "C17-R3" || o.Rule == "C17-R10" || o.Rule == "C17-R11" {
			res.add("C12-R6", o.Rule+" "+o.Construct, o.Status, o.Pos, o.Detail)
		}
	}
	// R7: an operand only one engine looks at
	checkIterTimestamps(p, r, res, "C12-R7")
	// R5: who owns the bytes of a write
	checkValueOwnership(p, r, res, "C12-R5", func(*ssa.Function) bool { return true })

	// R3: iterators of the in-process engine hand out snapshot copies, as the other engines do (C19-R3)
	sub19 := newResult("C19")
	checkElementAccess(p, p.lockContext(), sub19)
	for _, o := range sub19.Obls {
		if strings.Contains(o.Construct, "pkg/storage/memkv") {
			res.add("C12-R3", o.Rule+" "+o.Construct, o.Status, o.Pos, o.Detail)
		}
	}

	// R0: an overlap of two conditional batches ends as "condition failed" on every engine: the TiKV adapter maps the
	// engine's commit-time write conflict to ErrCASFailed (C09-R4)
	{
		sub9 := newResult("C09")
		checkCommitClassification(p, r, sub9)
		for _, o := range sub9.Obls {
			res.add("C12-R0", o.Rule+" "+o.Construct, o.Status, o.Pos, o.Detail)
		}
	}
	// R8: the in-process engine expires each record on its own timer, as the engines with native TTL do: the timer's
	// function does not share a loop variable with the timers of the other records of the batch (C19-R10)
	{
		sub := newResult("C19")
		checkLoopVarCapture(p, sub, "C19-R10")
		for _, o := range sub.Obls {
			res.add("C12-R8", o.Rule+" "+o.Construct, o.Status, o.Pos, o.Detail)
		}
	}

	// R1
	allowedIs := map[string]bool{"ErrCASFailed": true, "ErrUncertainResult": true, "ErrKeyNotFound": true}
	scope := map[*ssa.Function]bool{}
	for _, m := range []*types.Func{r.BCreate, r.BUpdate, r.BDelete} {
		for _, f := range p.implsOf(m) {
			if f.Pkg == p.ssaPkg("pkg/backend") {
				scope[f] = true
			}
		}
	}
	for _, f := range p.AllFuncs {
		if f.Pkg == p.ssaPkg("pkg/backend/creator") || f.Pkg == p.ssaPkg("pkg/backend/retry") {
			scope[f] = true
		}
		if f.Pkg == p.ssaPkg("pkg/backend") && (f == r.Sequencer) {
			scope[f] = true
		}
	}
	// helper functions of pkg/backend called directly from the entry points (one level, deterministic)
	var roots []*ssa.Function
	for f := range scope {
		roots = append(roots, f)
	}
	for _, f := range roots {
		for _, c := range callsIn(f) {
			if sc := c.Common().StaticCallee(); sc != nil && sc.Pkg == p.ssaPkg("pkg/backend") && sc.Blocks != nil {
				scope[sc] = true
			}
		}
	}
	errT := types.Universe.Lookup("error").Type()
	for f := range scope {
		n := 0
		for _, b := range f.Blocks {
			for _, ins := range b.Instrs {
				construct, bad := "", ""
				switch x := ins.(type) {
				case *ssa.Call:
					if _, tgt, ok := errorsIsCall(x); ok {
						n++
						construct = fmt.Sprintf("%s: error test #%d", funcName(f), n)
						g := globalLoad(tgt)
						if g == nil || g.Pkg.Pkg.Path() != modPath+"/pkg/storage" || !allowedIs[g.Name()] {
							bad = "errors.Is against " + tgt.String() + ": not a class of the adapter table"
						}
					}
				case *ssa.BinOp:
					if (x.Op == token.EQL || x.Op == token.NEQ) && types.Identical(x.X.Type(), errT) && !isNilConst(x.X) && !isNilConst(x.Y) {
						n++
						construct = fmt.Sprintf("%s: error test #%d", funcName(f), n)
						g := globalLoad(x.X)
						if g == nil {
							g = globalLoad(x.Y)
						}
						if g == nil || g.Pkg.Pkg.Path() != modPath+"/pkg/storage" || g.Name() != "ErrKeyNotFound" {
							bad = "comparison of an error with something other than storage.ErrKeyNotFound"
						}
					}
				case *ssa.TypeAssert:
					if types.Identical(x.X.Type(), errT) {
						n++
						construct = fmt.Sprintf("%s: error test #%d", funcName(f), n)
						if !isNamed(x.AssertedType, modPath+"/pkg/storage", "Conflict") {
							bad = "type assertion of an error to " + x.AssertedType.String()
						}
					}
				}
				if construct == "" {
					continue
				}
				if bad != "" {
					res.bad("C12-R1", construct, p.pos(ins.Pos()), "the write path dispatches on an engine-dependent error ("+bad+"): behaviour differs between engines")
				} else {
					res.ok("C12-R1", construct, p.pos(ins.Pos()), "class of the adapter table")
				}
			}
		}
	}
	// R2
	for _, f := range p.AllFuncs {
		if f.Synthetic != "" {
			continue
		}
		n := 0
		for _, c := range callsIn(f) {
			if !(c.Common().IsInvoke() && c.Common().Method == r.KVSupportTTL) {
				continue
			}
			n++
			construct := fmt.Sprintf("%s consults SupportTTL #%d", funcName(f), n)
			if f.Pkg == p.ssaPkg("pkg/backend/scanner") {
				res.ok("C12-R2", construct, p.pos(c.Pos()), "scanner expiry code")
			} else {
				res.bad("C12-R2", construct, p.pos(c.Pos()), "an engine feature flag steers behaviour outside the scanner's expiry code: client-visible behaviour becomes engine dependent")
			}
		}
	}
}

// checkDelIdempotent: no adapter's stand-alone Del reports a storage sentinel (ErrKeyNotFound); a missing key is a no-op
// for every engine, and the callers (compaction, expiry) rely on that.
func checkDelIdempotent(p *Prog, r *Roles, res *Result, rule string) {
	errT := types.Universe.Lookup("error").Type()
	for _, ap := range adapterPkgs {
		short := ap[strings.LastIndex(ap, "/")+1:]
		f := p.implIn(r.KVDel, ap)
		construct := short + ".Del: a missing key is not an error"
		if f == nil {
			res.und(rule, construct, "-", "implementation not found")
			continue
		}
		bad := ""
		for _, g := range withAnon(f) {
			for _, b := range g.Blocks {
				ret, ok := b.Instrs[len(b.Instrs)-1].(*ssa.Return)
				if !ok {
					continue
				}
				for _, rv := range ret.Results {
					if !types.Identical(rv.Type(), errT) {
						continue
					}
					for _, cl := range p.errClasses(rv) {
						if strings.HasPrefix(cl, "sentinel:") {
							bad = p.pos(ret.Pos()) + " (" + cl + ")"
						}
					}
				}
			}
		}
		if bad == "" {
			res.ok(rule, construct, p.pos(f.Pos()), "returns nil or the engine's error only")
		} else {
			res.bad(rule, construct, bad, "Del reports a storage sentinel for a key that is not there; the other adapters treat that as a no-op, and the compaction worker, which may delete a record twice, takes the error for a failed delete and leaves the key's superseded versions behind on this engine only")
		}
	}
}

// checkNativeTTLHonoured: where SupportTTL() is the constant true, the ttl parameter of Put / PutIfNotExist / CAS
// reaches a call into the engine library (it is not dropped).
func checkNativeTTLHonoured(p *Prog, r *Roles, res *Result, rule string) {
	n := 0
	for _, ap := range adapterPkgs {
		short := ap[strings.LastIndex(ap, "/")+1:]
		st := p.implIn(r.KVSupportTTL, ap)
		if st == nil {
			continue
		}
		native := false
		for _, b := range st.Blocks {
			if ret, ok := b.Instrs[len(b.Instrs)-1].(*ssa.Return); ok && len(ret.Results) == 1 {
				if k, ok := ret.Results[0].(*ssa.Const); ok && k.Value != nil && k.Value.String() == "true" {
					native = true
				}
			}
		}
		if !native {
			continue
		}
		for _, op := range []struct {
			name string
			m    *types.Func
		}{{"Put", r.BWPut}, {"PutIfNotExist", r.BWPutIfNotExist}, {"CAS", r.BWCAS}} {
			f := p.implIn(op.m, ap)
			construct := fmt.Sprintf("%s.%s: ttl handed to the engine", short, op.name)
			if f == nil {
				res.und(rule, construct, "-", "implementation not found")
				continue
			}
			n++
			var ttl *ssa.Parameter
			for _, prm := range f.Params {
				if b, ok := prm.Type().Underlying().(*types.Basic); ok && b.Kind() == types.Int64 {
					ttl = prm
				}
			}
			if ttl == nil {
				res.und(rule, construct, p.pos(f.Pos()), "ttl parameter not found")
				continue
			}
			used, how := ttlUsed(p, f, ttl, 0)
			// .. and nothing else decides when the written record expires: no expiry read from the engine (the old
			// record's) or computed otherwise is stored into the entry
			var foreign ssa.Instruction
			for _, g := range withAnon(f) {
				for _, b := range g.Blocks {
					for _, ins := range b.Instrs {
						st, ok := ins.(*ssa.Store)
						if !ok {
							continue
						}
						fa, ok := st.Addr.(*ssa.FieldAddr)
						if !ok || fieldOf(fa).Name() != "ExpiresAt" || fieldOf(fa).Pkg() == nil || strings.HasPrefix(fieldOf(fa).Pkg().Path(), modPath) {
							continue
						}
						if !derivesFrom(p, st.Val, func(x ssa.Value) bool { return p.resolveDeep(x) == ssa.Value(ttl) }) {
							foreign = st
						}
					}
				}
			}
			if used && foreign != nil {
				res.bad(rule, construct, p.pos(foreign.Pos()), "the expiry of the written entry is set from something other than the ttl operand (e.g. inherited from the record it replaces): a write with ttl 0 is meant to make the record permanent - an Event's index record that is rewritten keeps the expiry of its creation and vanishes while its newest version stays")
			} else if used {
				res.ok(rule, construct, p.pos(f.Pos()), how)
			} else {
				res.bad(rule, construct, p.pos(f.Pos()), "this engine advertises native TTL (the expiry worker leaves its events alone), but this write form drops the ttl: a record written through it never expires - an event re-created over a deleted one keeps its index record for ever")
			}
		}
	}
	if n == 0 {
		res.und(rule, "native-TTL adapters", "-", "no adapter with SupportTTL() == true found")
	}
}

// ttlUsed: the value of parameter prm of f (or of f's function literals) reaches a call into a library outside the
// repository, or a struct field that is read somewhere, directly or through helpers of the repository that are handed
// it as an argument.
func ttlUsed(p *Prog, f *ssa.Function, prm *ssa.Parameter, depth int) (bool, string) {
	if depth > 3 {
		return false, ""
	}
	fromPrm := func(v ssa.Value) bool {
		return derivesFrom(p, v, func(x ssa.Value) bool { return p.resolveDeep(x) == ssa.Value(prm) })
	}
	for _, g := range withAnon(f) {
		for _, c := range callsIn(g) {
			sc := c.Common().StaticCallee()
			if sc == nil || sc.Pkg == nil || strings.Contains(sc.Pkg.Pkg.Path(), "klog") {
				continue
			}
			inRepo := strings.HasPrefix(sc.Pkg.Pkg.Path(), modPath)
			if !inRepo && !strings.Contains(sc.Pkg.Pkg.Path(), ".") {
				continue // standard library (fmt, time ..)
			}
			for i, a := range c.Common().Args {
				if !fromPrm(a) {
					continue
				}
				if !inRepo {
					return true, "the ttl reaches a call into the engine library (" + sc.Name() + ")"
				}
				if sc.Blocks != nil && i < len(sc.Params) {
					if ok, how := ttlUsed(p, sc, sc.Params[i], depth+1); ok {
						return true, how + " through " + sc.Name()
					}
				}
			}
		}
		for _, b := range g.Blocks {
			for _, ins := range b.Instrs {
				st, ok := ins.(*ssa.Store)
				if !ok {
					continue
				}
				fa, ok := st.Addr.(*ssa.FieldAddr)
				if !ok || len(p.fields().loads[fieldOf(fa)]) == 0 {
					continue
				}
				if fromPrm(st.Val) {
					return true, "the ttl is recorded in the staged operation (field " + fieldOf(fa).Name() + "), which is read when the batch is applied"
				}
			}
		}
	}
	return false, ""
}

// checkAdapterErrorPreservation: error discipline of the engine adapters (the library calls of badger / tikv that
// return an error, judged in the adapter function or function literal that makes them).
func checkAdapterErrorPreservation(p *Prog, r *Roles, res *Result, rule string) {
	inScope := func(f *ssa.Function) bool {
		if f.Pkg == nil {
			return false
		}
		pp := f.Pkg.Pkg.Path()
		return pp == modPath+"/pkg/storage/badger" || pp == modPath+"/pkg/storage/tikv"
	}
	fallible := func(c ssa.CallInstruction) (string, bool) {
		cc := c.Common()
		var pkgPath, name string
		if cc.IsInvoke() {
			if cc.Method.Pkg() == nil {
				return "", false
			}
			pkgPath, name = cc.Method.Pkg().Path(), cc.Method.Name()
		} else if sc := cc.StaticCallee(); sc != nil && sc.Pkg != nil {
			pkgPath, name = sc.Pkg.Pkg.Path(), sc.Name()
			if sc.Signature.Recv() != nil {
				name = "(" + types.TypeString(sc.Signature.Recv().Type(), func(*types.Package) string { return "" }) + ")." + name
			}
		} else {
			return "", false
		}
		// (an adapter may name the engine's iterator through a small interface of its own: invokes on it are engine calls)
		ownIface := cc.IsInvoke() && (pkgPath == modPath+"/pkg/storage/badger" || pkgPath == modPath+"/pkg/storage/tikv")
		if !(strings.Contains(pkgPath, "dgraph-io/badger") || strings.Contains(pkgPath, "tikv/client-go") || ownIface) {
			return "", false
		}
		if strings.HasSuffix(name, "Rollback") || strings.HasSuffix(name, "Close") || strings.HasSuffix(name, "Discard") {
			return "", false
		}
		// one named exception: badger's stand-alone Del discards the error of Txn.Delete and returns the commit's.
		// Txn.Delete fails only for keys that cannot have been stored either (empty, oversized, reserved prefix) or on
		// a read-only / discarded transaction, which this freshly opened update transaction is not.
		top := c.Parent()
		for top.Parent() != nil {
			top = top.Parent()
		}
		if strings.HasSuffix(name, "(*Txn).Delete") && funcName(top) == "(*pkg/storage/badger.store).Del" {
			return "", false
		}
		return name, true
	}
	errflowAcceptFailure = true
	defer func() { errflowAcceptFailure = false }()
	checkErrorPreservation(p, res, rule, inScope, fallible, "a failed engine operation would be reported as success (or as the end of the data): the layers above act on an answer the engine never gave")
}

// checkReadersDoNotMutate: the in-process engine's read operations (Get, iterator construction and what they call)
// change the skip list only by inserting a seek marker and removing that very element again - never by key: a
// removal by key deletes a stored record when the marker's key happens to exist.
func checkReadersDoNotMutate(p *Prog, r *Roles, res *Result, rule string) {
	mp := p.ssaPkg("pkg/storage/memkv")
	var roots []*ssa.Function
	for _, m := range []*types.Func{r.KVIter, r.KVGet} {
		if f := p.implIn(m, "pkg/storage/memkv"); f != nil {
			roots = append(roots, f)
		}
	}
	seen := map[*ssa.Function]bool{}
	var work []*ssa.Function
	work = append(work, roots...)
	for len(work) > 0 {
		f := work[0]
		work = work[1:]
		if seen[f] || f.Blocks == nil {
			continue
		}
		seen[f] = true
		for _, g := range withAnon(f) {
			seen[g] = true
			for _, c := range callsIn(g) {
				if sc := c.Common().StaticCallee(); sc != nil && sc.Pkg == mp && !seen[sc] {
					work = append(work, sc)
				}
			}
		}
	}
	n := 0
	var fs []*ssa.Function
	for f := range seen {
		fs = append(fs, f)
	}
	sort.Slice(fs, func(i, j int) bool { return funcName(fs[i]) < funcName(fs[j]) })
	for _, f := range fs {
		k := 0
		for _, c := range callsIn(f) {
			if !isEngineCall(c, "Remove", "RemoveElement", "RemoveFront", "RemoveBack", "Init") {
				continue
			}
			n++
			k++
			top := f
			for top.Parent() != nil {
				top = top.Parent()
			}
			construct := fmt.Sprintf("%s: read path removes only its own seek marker #%d", funcName(top), k)
			name := c.Common().StaticCallee().Name()
			own := false
			if name == "RemoveElement" {
				// the element comes from a Set call (the marker this read inserted), possibly handed back by a seek
				// helper of the package; nil stands for "nothing inserted"
				nSet, other := 0, false
				seenV := map[ssa.Value]bool{}
				var walk func(v ssa.Value, d int)
				walk = func(v ssa.Value, d int) {
					for _, x := range allCellValuesOpt(p, v, false) {
						x = p.resolveDeep(x)
						if seenV[x] || d > 6 {
							continue
						}
						seenV[x] = true
						switch y := x.(type) {
						case *ssa.Const:
							if y.Value != nil {
								other = true
							}
						case *ssa.Call:
							if isEngineCall(y, "Set") {
								nSet++
							} else if h := y.Common().StaticCallee(); h != nil && h.Pkg == mp && h.Blocks != nil && h.Signature.Results().Len() == 1 {
								for _, b := range h.Blocks {
									if ret, ok := b.Instrs[len(b.Instrs)-1].(*ssa.Return); ok {
										walk(ret.Results[0], d+1)
									}
								}
							} else {
								other = true
							}
						case *ssa.Extract:
							hc, ok := y.Tuple.(*ssa.Call)
							h := (*ssa.Function)(nil)
							if ok {
								h = hc.Common().StaticCallee()
							}
							if h == nil || h.Pkg != mp || h.Blocks == nil {
								other = true
								continue
							}
							for _, b := range h.Blocks {
								if ret, ok := b.Instrs[len(b.Instrs)-1].(*ssa.Return); ok && y.Index < len(ret.Results) {
									walk(ret.Results[y.Index], d+1)
								}
							}
						case *ssa.Phi:
							for _, e := range y.Edges {
								walk(e, d+1)
							}
						default:
							other = true
						}
					}
				}
				walk(c.Common().Args[len(c.Common().Args)-1], 0)
				own = nSet > 0 && !other
			}
			if own {
				res.ok(rule, construct, p.pos(c.Pos()), "RemoveElement of the element this read inserted")
			} else {
				res.bad(rule, construct, p.pos(c.Pos()), "a read operation of the in-process engine removes from the skip list by key (or an element it did not insert): when a read starts exactly at a stored key, no marker is inserted and the removal deletes that record - a List or Get silently erases an index or version record")
			}
		}
	}
	if n == 0 {
		res.und(rule, "memkv read path", "-", "no removal of a seek marker found on the read path (role no longer resolves)")
	}
}
