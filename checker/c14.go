package main

import (
	"fmt"
	"go/token"
	"go/types"
	"strings"

	"golang.org/x/tools/go/ssa"
)

func init() {
	register("C14", checkC14)
	register("C15", checkC15)
}

// electionRoles: the lock type, its key field, the "last observed" field and the engine-timestamp field.
type electionRoles struct {
	lockT    *types.Named
	keyF     *types.Var
	lastF    *types.Var                   // bytes last observed / written for the election key
	tsoF     *types.Var                   // engine timestamp
	getters  map[*ssa.Function]*types.Var // func returning a load of field
	setters  map[*ssa.Function]*types.Var // func storing its parameter into field
	observer *ssa.Function                // function that stores KVGet(electionKey) into lastF
}

func (p *Prog) electionRoles() *electionRoles {
	r := p.roles()
	e := &electionRoles{getters: map[*ssa.Function]*types.Var{}, setters: map[*ssa.Function]*types.Var{}}
	ep := p.ssaPkg("pkg/backend/election")
	// lock type: the type implementing resourcelock.Interface in this package
	for _, m := range ep.Members {
		t, ok := m.(*ssa.Type)
		if !ok {
			continue
		}
		n, _ := t.Type().(*types.Named)
		if _, isStruct := t.Type().Underlying().(*types.Struct); !isStruct || n == nil {
			continue
		}
		ms := p.SSA.MethodSets.MethodSet(types.NewPointer(n))
		has := func(name string) bool { return ms.Lookup(n.Obj().Pkg(), name) != nil }
		if has("Get") && has("Create") && has("Update") && has("Describe") && !strings.Contains(n.Obj().Name(), "Manager") {
			st := n.Underlying().(*types.Struct)
			direct := false
			for i := 0; i < st.NumFields(); i++ {
				if _, isSlice := st.Field(i).Type().Underlying().(*types.Slice); isSlice {
					direct = true
				}
			}
			if direct {
				e.lockT = n
			}
		}
	}
	if e.lockT == nil {
		brokenf("election roles: resource lock type not found")
	}
	// accessor helpers
	for _, f := range p.AllFuncs {
		if f.Pkg != ep || f.Signature.Recv() == nil || f.Synthetic != "" {
			continue
		}
		// setter: stores its parameter into a field of the receiver (possibly inside a closure run under the lock)
		if len(f.Params) == 2 {
			for _, g := range withAnon(f) {
				for _, b := range g.Blocks {
					for _, ins := range b.Instrs {
						st, ok := ins.(*ssa.Store)
						if !ok {
							continue
						}
						fa, ok := st.Addr.(*ssa.FieldAddr)
						if ok && p.resolveDeep(fa.X) == ssa.Value(f.Params[0]) && p.resolveDeep(st.Val) == ssa.Value(f.Params[1]) {
							e.setters[f] = fieldOf(fa)
						}
					}
				}
			}
		}
		// getter: returns nothing but the value of one field of the receiver
		if len(f.Params) == 1 && f.Signature.Results().Len() == 1 {
			var fld *types.Var
			pure := true
			for _, b := range f.Blocks {
				ret, ok := b.Instrs[len(b.Instrs)-1].(*ssa.Return)
				if !ok {
					continue
				}
				for _, v := range allCellValuesOpt(p, ret.Results[0], false) {
					ld, ok := v.(*ssa.UnOp)
					if ok && ld.Op == token.MUL {
						if fa, ok := ld.X.(*ssa.FieldAddr); ok && p.resolveDeep(fa.X) == ssa.Value(f.Params[0]) && (fld == nil || fld == fieldOf(fa)) {
							fld = fieldOf(fa)
							continue
						}
					}
					if c, ok := v.(*ssa.Const); ok && c.Value == nil {
						continue // the zero value a named result starts with
					}
					pure = false
				}
			}
			if fld != nil && pure {
				e.getters[f] = fld
			}
		}
	}
	// key field: the field passed as key to KVGet in a method of the lock type
	for _, f := range p.AllFuncs {
		if f.Pkg != ep {
			continue
		}
		for _, c := range callsIn(f) {
			if !r.is(c, r.KVGet) || !c.Common().IsInvoke() {
				continue
			}
			if ld, ok := resolve(argForSigParam(c, 1)).(*ssa.UnOp); ok {
				if fa, ok := ld.X.(*ssa.FieldAddr); ok {
					e.keyF = fieldOf(fa)
					// last observed: where does Extract #0 go?
					cc := c.(*ssa.Call)
					val := extractsOf(cc)[0]
					for _, ref := range *val.Referrers() {
						switch x := ref.(type) {
						case *ssa.Store:
							if fa2, ok := x.Addr.(*ssa.FieldAddr); ok {
								e.lastF, e.observer = fieldOf(fa2), f
							}
						case *ssa.Call:
							if sc := x.Common().StaticCallee(); sc != nil {
								if fld, ok := e.setters[sc]; ok {
									e.lastF, e.observer = fld, f
								}
							}
						}
					}
				}
			}
		}
	}
	// tso field: where the result of GetTimestampOracle goes
	for _, f := range p.AllFuncs {
		if f.Pkg != ep {
			continue
		}
		for _, c := range callsIn(f) {
			cc, ok := c.(*ssa.Call)
			if !ok || !r.is(c, r.KVGetTSO) {
				continue
			}
			val := extractsOf(cc)[0]
			if val == nil {
				continue
			}
			for _, ref := range *val.Referrers() {
				switch x := ref.(type) {
				case *ssa.Store:
					if fa2, ok := x.Addr.(*ssa.FieldAddr); ok {
						e.tsoF = fieldOf(fa2)
					}
				case *ssa.Call:
					if sc := x.Common().StaticCallee(); sc != nil {
						if fld, ok := e.setters[sc]; ok {
							e.tsoF = fld
						}
					}
				}
			}
		}
	}
	if e.keyF == nil || e.lastF == nil || e.tsoF == nil || e.observer == nil {
		brokenf("election roles: key / last-observed / timestamp fields of the lock not all found")
	}
	return e
}

// fieldRead: v is a load of field fld (directly, or through a getter helper).
func (e *electionRoles) fieldRead(p *Prog, v ssa.Value, fld *types.Var) bool {
	v = p.resolveDeep(v)
	switch x := v.(type) {
	case *ssa.UnOp:
		if x.Op == token.MUL {
			if fa, ok := x.X.(*ssa.FieldAddr); ok {
				return fieldOf(fa) == fld
			}
		}
	case *ssa.Call:
		if sc := x.Common().StaticCallee(); sc != nil {
			return e.getters[sc] == fld
		}
	}
	return false
}

type fieldWrite struct {
	ins ssa.Instruction
	val ssa.Value
	fn  *ssa.Function
}

// fieldWrites: all places a value is stored into fld (direct stores outside the setter, and setter call sites).
func (e *electionRoles) fieldWrites(p *Prog, fld *types.Var) []fieldWrite {
	var out []fieldWrite
	for _, st := range p.fields().stores[fld] {
		top := st.Parent()
		for top.Parent() != nil {
			top = top.Parent()
		}
		if _, isSetter := e.setters[top]; isSetter {
			continue
		}
		if isFreshObject(st.Addr.(*ssa.FieldAddr).X) {
			continue
		}
		out = append(out, fieldWrite{st, st.Val, st.Parent()})
	}
	p.buildCallersLite()
	for s, f := range e.setters {
		if f != fld {
			continue
		}
		for _, cs := range p.staticCallers[s] {
			out = append(out, fieldWrite{cs.(ssa.Instruction), cs.Common().Args[1], cs.Parent()})
		}
	}
	return out
}

// isErrorConstructor: calls that always return a non-nil error.
func isErrorConstructor(c *ssa.Call) bool {
	sc := c.Common().StaticCallee()
	if sc == nil || sc.Pkg == nil {
		return false
	}
	switch sc.Pkg.Pkg.Path() + "." + sc.Name() {
	case "errors.New", "fmt.Errorf", "github.com/pkg/errors.New", "github.com/pkg/errors.Errorf", "google.golang.org/grpc/status.Errorf", "google.golang.org/grpc/status.Error":
		return true
	}
	return false
}

func nonNilFactOn(b *ssa.BasicBlock, v ssa.Value) bool {
	for _, cf := range dominatingFacts(b) {
		if cf.X == nil {
			continue
		}
		x, y := cf.X, cf.Y
		if isNilConst(x) {
			x, y = y, x
		}
		if isNilConst(y) && resolve(x) == v && ((cf.Op == token.NEQ && cf.Want) || (cf.Op == token.EQL && !cf.Want)) {
			return true
		}
	}
	return false
}

func nilFactOn(b *ssa.BasicBlock, v ssa.Value) bool {
	for _, cf := range dominatingFacts(b) {
		if cf.X == nil {
			continue
		}
		x, y := cf.X, cf.Y
		if isNilConst(x) {
			x, y = y, x
		}
		if isNilConst(y) && resolve(x) == v && ((cf.Op == token.EQL && cf.Want) || (cf.Op == token.NEQ && !cf.Want)) {
			return true
		}
	}
	return false
}

func checkC14(p *Prog, res *Result, tier string) {
	r := p.roles()
	e := p.electionRoles()
	res.Explanation = "R1 every storage write to the election key is PutIfNotExist or CAS (no Put/Del); R2 the expected value of that CAS is the lock's 'last observed' field and nothing else; R3 that field is written only with the bytes returned by KvStorage.Get on the election key (in the observer, which only the lock's Get entry point may call) or, in Create, with the bytes just written after Commit returned nil; R4 Create/Update return nil only after Commit returned nil; R5 the engines evaluate CAS / PutIfNotExist atomically with the write (C11-R1 compare-before-write, C11-R2 commit structure and memkv lock hand-over). Together: an acquire-or-renew succeeds only if the record is still exactly what this candidate last read through Get."
	res.NotDecided = "the engines' own atomicity (assumption); client-go's leader-election protocol on top of the lock."
	res.Assumptions = []string{"client-go calls Get before each Update in its acquire/renew cycle"}
	res.rule("C14-R1", "the election key is written only by PutIfNotExist / CAS", 2)
	res.rule("C14-R2", "the CAS on the election key expects exactly the last observed bytes", 1)
	res.rule("C14-R3", "the last-observed field is written only from Get(electionKey) in the observer called by the lock's Get, or from the bytes just created after a nil Commit", 2)
	res.rule("C14-R4", "Create / Update return nil only after Commit returned nil", 2)
	res.rule("C14-R5", "adapters evaluate conditions atomically with the write (C11-R1/R2)", 15)
	res.rule("C14-R7", "the record bytes handed to the engine (and remembered as last observed) are not a window into a reusable buffer", 2)
	res.rule("C14-R8", "the lock record is written without an engine TTL (C17-R5): on engines that expire keys themselves an accepted record would vanish inside its lease and a standby's create would succeed", 2)
	res.rule("C14-R9", "the bytes a candidate observed are not rewritten under it: the in-process engine, whose Get returns the stored slice itself, never writes a stored value in place (C11-R13); otherwise the compare-and-swap of a stale candidate compares the store with itself and succeeds", 2)
	res.rule("C14-R6", "the lock's Get / Create / Update are driven by the elector only: repository code calls none of them (a Get from elsewhere replaces the bytes the pending round's compare-and-swap expects)", 1)
	res.Stats["roles"] = map[string]string{"lock": e.lockT.Obj().Name(), "key": e.keyF.Name(), "lastObserved": e.lastF.Name(), "timestamp": e.tsoF.Name(), "observer": funcName(e.observer)}

	isKey := func(v ssa.Value) bool {
		ld, ok := p.resolveDeep(v).(*ssa.UnOp)
		if !ok {
			return false
		}
		fa, ok := ld.X.(*ssa.FieldAddr)
		return ok && fieldOf(fa) == e.keyF
	}
	type site struct {
		b  *batchModel
		op batchOp
	}
	var casSites, pineSites []site
	for _, b := range p.batches() {
		n := 0
		for _, op := range b.Ops {
			if op.Key == nil || !isKey(op.Key) {
				continue
			}
			n++
			construct := fmt.Sprintf("%s: %s on the election key #%d", b.name(), op.Kind, n)
			switch op.Kind {
			case "CAS":
				casSites = append(casSites, site{b, op})
				res.ok("C14-R1", construct, p.pos(op.Call.Pos()), "conditional")
			case "PutIfNotExist":
				pineSites = append(pineSites, site{b, op})
				res.ok("C14-R1", construct, p.pos(op.Call.Pos()), "conditional")
			default:
				res.bad("C14-R1", construct, p.pos(op.Call.Pos()), "the lock record is written unconditionally: an accepted record can be silently overwritten and two candidates can both acquire")
			}
		}
	}
	for _, f := range p.AllFuncs {
		for _, c := range callsIn(f) {
			if (r.is(c, r.KVDel)) && c.Common().IsInvoke() && isKey(argForSigParam(c, 1)) {
				res.bad("C14-R1", funcName(f)+": KvStorage.Del on the election key", p.pos(c.Pos()), "the lock record is deleted unconditionally")
			}
		}
	}
	// R2
	for _, s := range casSites {
		construct := s.b.name() + ": expected value of the election CAS"
		if e.fieldRead(p, s.op.Old, e.lastF) {
			res.ok("C14-R2", construct, p.pos(s.op.Call.Pos()), "the last observed bytes ("+e.lastF.Name()+")")
		} else {
			res.bad("C14-R2", construct, p.pos(s.op.Call.Pos()), "the compare-and-swap on the lock record does not expect the bytes this candidate last observed: it can overwrite a record it never saw")
		}
	}
	// R6: who may call the lock
	{
		lockIface := p.namedType("k8s.io/client-go/tools/leaderelection/resourcelock", "Interface")
		isLockRecv := func(t types.Type) bool {
			if pt, ok := t.(*types.Pointer); ok {
				t = pt.Elem()
			}
			return types.Identical(t, lockIface) || types.Identical(t, e.lockT)
		}
		seen, n := 0, 0
		for _, f := range p.AllFuncs {
			if f.Synthetic != "" || f.Pkg == nil || !strings.HasPrefix(f.Pkg.Pkg.Path(), modPath) {
				continue
			}
			for _, c := range callsIn(f) {
				name := ""
				if c.Common().IsInvoke() {
					if isLockRecv(c.Common().Value.Type()) {
						name = c.Common().Method.Name()
					}
				} else if sc := c.Common().StaticCallee(); sc != nil && sc.Signature.Recv() != nil && isLockRecv(sc.Signature.Recv().Type()) {
					name = sc.Name()
				}
				if name == "" {
					continue
				}
				seen++
				if name != "Get" && name != "Create" && name != "Update" {
					continue
				}
				n++
				res.bad("C14-R6", fmt.Sprintf("%s calls the lock's %s #%d", funcName(f), name, n), p.pos(c.Pos()),
					"the lock's "+name+" is called from repository code, outside the elector's acquire/renew round: it replaces the last-observed bytes, so that the compare-and-swap of a round that is under way expects a record that round never examined and can overwrite an accepted record")
			}
		}
		if seen == 0 {
			res.und("C14-R6", "calls on the election lock", "-", "no call on the lock interface found in repository code (the role no longer resolves)")
		} else if n == 0 {
			res.ok("C14-R6", "calls on the election lock from repository code", "-", fmt.Sprintf("%d call site(s) on the lock, none of Get / Create / Update", seen))
		}
	}
	// R7: the record bytes become the engine's
	checkValueOwnership(p, r, res, "C14-R7", func(f *ssa.Function) bool { return f.Pkg == p.ssaPkg("pkg/backend/election") })
	// R3
	p.buildCallersLite()
	for i, w := range e.fieldWrites(p, e.lastF) {
		construct := fmt.Sprintf("%s: write #%d of the last-observed field", funcName(w.fn), i+1)
		v := p.resolveDeep(w.val)
		// (a) result of Get(electionKey), err nil
		if c, idx, ok := extractOf(v); ok && idx == 0 && r.is(c, r.KVGet) && isKey(argForSigParam(c, 1)) {
			gerr := extractsOf(c)[1]
			if !nilFactOn(w.ins.Block(), gerr) {
				res.bad("C14-R3", construct, p.pos(w.ins.Pos()), "the observed bytes are recorded although the read failed")
				continue
			}
			// who may call the observer
			okCallers := true
			for _, cs := range p.staticCallers[w.fn] {
				caller := cs.Parent()
				if caller.Name() != "Get" || caller.Signature.Recv() == nil {
					okCallers = false
					res.bad("C14-R3", fmt.Sprintf("%s calls the observer %s", funcName(caller), funcName(w.fn)), p.pos(cs.Pos()),
						"the last-observed bytes are refreshed outside the lock's Get entry point: a candidate whose CAS just lost adopts the winner's record as its own expectation and its next Update overwrites an accepted record")
				}
			}
			if okCallers {
				res.ok("C14-R3", construct, p.pos(w.ins.Pos()), "bytes returned by Get(electionKey), err == nil; observer called only by the lock's Get")
			}
			continue
		}
		// (b) the bytes just written by PutIfNotExist / CAS in the same function, after Commit == nil
		matched := false
		for _, s := range append(pineSites, casSites...) {
			if s.b.Fn != w.fn || p.resolveDeep(s.op.Val) != v || len(s.b.Commits) != 1 {
				continue
			}
			matched = true
			cm, _ := s.b.Commits[0].(*ssa.Call)
			if cm != nil && nilFactOn(w.ins.Block(), cm) {
				res.ok("C14-R3", construct, p.pos(w.ins.Pos()), "the bytes just written, recorded only after Commit returned nil")
			} else {
				res.bad("C14-R3", construct, p.pos(w.ins.Pos()), "the written bytes are recorded as observed without Commit having returned nil")
			}
		}
		if !matched {
			res.bad("C14-R3", construct, p.pos(w.ins.Pos()), "the last-observed field is assigned a value that is neither read from the store nor just written by this candidate")
		}
	}
	// R4
	for _, s := range append(pineSites, casSites...) {
		f := s.b.Fn
		if len(s.b.Commits) != 1 {
			continue
		}
		cm, ok := s.b.Commits[0].(*ssa.Call)
		if !ok {
			continue
		}
		ei := errorResultIndex(f.Signature)
		if ei < 0 {
			continue
		}
		construct := funcName(f) + ": nil only after Commit returned nil"
		bad := false
		for _, b := range f.Blocks {
			ret, ok := b.Instrs[len(b.Instrs)-1].(*ssa.Return)
			if !ok || b.Comment == "recover" {
				continue
			}
			mayNil := false
			for _, v := range resolveAllCells(ret.Results[ei]) {
				if isNilConst(v) {
					mayNil = true
				}
				// an error value that is not known to be non-nil on this path may be nil
				switch x := v.(type) {
				case *ssa.Extract:
					if !nonNilFactOn(b, v) {
						mayNil = true
					}
				case *ssa.Call:
					if !nonNilFactOn(b, v) && !isErrorConstructor(x) {
						mayNil = true
					}
				}
			}
			if !mayNil {
				continue
			}
			if !nilFactOn(b, cm) {
				bad = true
				res.bad("C14-R4", construct, p.pos(ret.Pos()), "the lock operation can report success on a path where Commit did not return nil")
			}
		}
		if !bad {
			res.ok("C14-R4", construct, p.pos(cm.Pos()), "every possibly-nil return is dominated by Commit() == nil")
		}
	}
	// R5
	sub := p.subResult("C11", tier)
	for _, o := range sub.Obls {
		if (o.Rule == "C11-R1" && (strings.Contains(o.Construct, "CAS") || strings.Contains(o.Construct, "PutIfNotExist"))) ||
			(o.Rule == "C11-R2" && (strings.Contains(o.Construct, "Commit") || strings.Contains(o.Construct, "memkv") || strings.Contains(o.Construct, "election"))) {
			res.add("C14-R5", o.Rule+" "+o.Construct, o.Status, o.Pos, o.Detail)
		}
		// .. and a read that failed is not taken for "the key is absent" (C11-R11 on the conditional operations)
		if o.Rule == "C11-R11" && (strings.Contains(o.Construct, "PutIfNotExist") || strings.Contains(o.Construct, "CAS")) {
			res.add("C14-R5", o.Rule+" "+o.Construct, o.Status, o.Pos, o.Detail)
		}
	}
	// R9: what a candidate observed stays what it observed (C11-R13)
	for _, o := range sub.Obls {
		if o.Rule == "C11-R13" {
			res.add("C14-R9", o.Rule+" "+o.Construct, o.Status, o.Pos, o.Detail)
		}
	}
	// R8: the lock record is written without an engine TTL (C17-R5)
	for _, o := range p.subResult("C17", tier).Obls {
		if o.Rule == "C17-R5" && strings.Contains(o.Construct, "TTL operand") && strings.Contains(o.Construct, "/election.") {
			res.add("C14-R8", o.Rule+" "+o.Construct, o.Status, o.Pos, o.Detail)
		}
	}
}

func checkC15(p *Prog, res *Result, tier string) {
	r := p.roles()
	e := p.electionRoles()
	res.Explanation = "Whether the engine's clock exceeds every revision an old leader issued is a relation between run-time counters and is not decided. Decided is the wiring without which the property fails on every engine: R1 the leader-start callback calls SetCurrentRevision(v) before it sets the leader flag and before the started-leading hook, with v parsed from the numeric part of the lock's Describe(); R2 that numeric part is the lock's engine-timestamp field, which is assigned only from GetTimestampOracle (in Get, and in Create/Update after the commit succeeded); R3 TSO.Commit(r) leaves the dealt counter >= r through the monotone guarded CAS (C02-R1), so the first Deal after the callback exceeds v; R4 nobody else resets the counters (C02-R3)."
	res.NotDecided = "engine clock vs. revisions consumed by failed writes of the old leader (the Badger read-timestamp concern); wall-clock behaviour."
	res.Assumptions = []string{"the engine timestamp oracle exceeds the revisions present in the store (per engine; not decided here)"}
	res.rule("C15-R1", "leader start: SetCurrentRevision(version parsed from Describe()) precedes the leader flag and the started-leading hook", 3)
	res.rule("C15-R2", "the lock's timestamp field is fed only by GetTimestampOracle and is what Describe() prints", 4)
	res.rule("C15-R3", "TSO.Commit raises the dealt counter monotonically (C02-R1)", 5)
	res.rule("C15-R4", "nobody else resets the counters (C02-R3)", 3)
	res.rule("C15-R7", "the in-process engine's timestamp oracle reads the wall clock on every call, so that it is ahead of every revision a leader can have handed out (failed writes consume revisions without committing anything)", 1)
	res.rule("C15-R6", "the TiKV adapter's oracle asks PD for a fresh timestamp, never a cached one (C11-R6)", 1)
	res.rule("C15-R5", "a failed read of the engine timestamp fails the lock operation (its error is returned), so that the lock never reports success with a stale or zero timestamp cached", 2)

	// ---- R1 ----
	checkLeaderStart(p, r, res, "C15-R1")

	// ---- R2 ----
	for i, w := range e.fieldWrites(p, e.tsoF) {
		construct := fmt.Sprintf("%s: write #%d of the lock's timestamp field", funcName(w.fn), i+1)
		c, idx, ok := extractOf(p.resolveDeep(w.val))
		if !ok || idx != 0 || !r.is(c, r.KVGetTSO) {
			res.bad("C15-R2", construct, p.pos(w.ins.Pos()), "the lock's timestamp is assigned something other than the engine's timestamp oracle")
			continue
		}
		// in functions that commit a batch on the election key the assignment must follow Commit == nil
		var cm *ssa.Call
		for _, b := range p.batches() {
			if b.Fn == w.fn && len(b.Commits) == 1 {
				cm, _ = b.Commits[0].(*ssa.Call)
			}
		}
		if cm != nil && !nilFactOn(w.ins.Block(), cm) {
			res.bad("C15-R2", construct, p.pos(w.ins.Pos()), "the timestamp is refreshed although the lock write did not commit")
			continue
		}
		// the refresh lives in a helper: the same at each of its call sites in a function that commits a lock write
		late := false
		if cm == nil {
			for _, cs := range p.staticCallers[w.fn] {
				for _, b := range p.batches() {
					if b.Fn == cs.Parent() && len(b.Commits) == 1 {
						if cm2, ok := b.Commits[0].(*ssa.Call); ok && !nilFactOn(cs.Block(), cm2) {
							res.bad("C15-R2", construct, p.pos(cs.Pos()), "the timestamp is refreshed although the lock write did not commit")
							late = true
						}
					}
				}
			}
		}
		if late {
			continue
		}
		res.ok("C15-R2", construct, p.pos(w.ins.Pos()), "GetTimestampOracle result")
	}
	// Describe prints the field
	for _, f := range p.AllFuncs {
		if f.Name() != "Describe" || f.Signature.Recv() == nil || f.Pkg != p.ssaPkg("pkg/backend/election") || f.Synthetic != "" {
			continue
		}
		construct := funcName(f) + ": prints the timestamp field"
		all, n := true, 0
		for _, b := range f.Blocks {
			ret, ok := b.Instrs[len(b.Instrs)-1].(*ssa.Return)
			if !ok || b.Comment == "recover" {
				continue
			}
			for _, v := range allCellValuesOpt(p, ret.Results[0], false) {
				n++
				if !derivesFromCallArgs(p, v, func(x ssa.Value) bool { return e.fieldRead(p, x, e.tsoF) }) {
					all = false
				}
			}
		}
		// .. on every path: each 64-bit operand of the formatting is the field whichever way control came (a constant
		// merged in for "no holder" makes the next leader start from revision 0)
		var constLeaf ssa.Value
		{
			seen := map[ssa.Value]bool{}
			var walk func(v ssa.Value, d int)
			walk = func(v ssa.Value, d int) {
				if v == nil || seen[v] || d > 40 {
					return
				}
				seen[v] = true
				if isUint64(v.Type()) {
					for _, alt := range resolveAll(v) {
						if cv, ok := alt.(*ssa.Convert); ok {
							alt = cv.X
						}
						if _, isConst := alt.(*ssa.Const); isConst {
							constLeaf = alt
						}
						if _, isZero := alt.(zeroValueMarker); isZero {
							constLeaf = alt
						}
					}
					return
				}
				for _, x := range resolveAll(v) {
					if x != v {
						walk(x, d+1)
					}
				}
				switch x := v.(type) {
				case *ssa.Call:
					for _, a := range x.Common().Args {
						walk(a, d+1)
					}
				case *ssa.Slice:
					walk(x.X, d+1)
				case *ssa.Alloc:
					for _, ref := range *x.Referrers() {
						if ia, ok := ref.(*ssa.IndexAddr); ok {
							for _, r2 := range *ia.Referrers() {
								if st, ok := r2.(*ssa.Store); ok && st.Addr == ssa.Value(ia) {
									walk(st.Val, d+1)
								}
							}
						}
					}
				case *ssa.MakeInterface:
					walk(x.X, d+1)
				case *ssa.BinOp:
					walk(x.X, d+1)
					walk(x.Y, d+1)
				case *ssa.Phi:
					for _, e := range x.Edges {
						walk(e, d+1)
					}
				case *ssa.ChangeType:
					walk(x.X, d+1)
				}
			}
			for _, b := range f.Blocks {
				if ret, ok := b.Instrs[len(b.Instrs)-1].(*ssa.Return); ok && b.Comment != "recover" {
					walk(ret.Results[0], 0)
				}
			}
		}
		if all && n > 0 && constLeaf != nil {
			res.bad("C15-R2", construct, p.pos(f.Pos()), "on some path Describe() formats a constant where the lock's engine timestamp belongs (e.g. when the observed record has no holder): the node that takes over an explicitly released lock parses 0 as its start revision and hands out revisions the old leader already used")
		} else if all && n > 0 {
			res.ok("C15-R2", construct, p.pos(f.Pos()), "every returned description is formatted from the timestamp field")
		} else {
			res.bad("C15-R2", construct, p.pos(f.Pos()), "Describe() does not print the lock's engine timestamp: the new leader parses something else as its start revision")
		}
	}

	// ---- R3 / R4 ----
	sub := p.subResult("C02", tier)
	for _, o := range sub.Obls {
		if o.Rule == "C02-R1" && (strings.Contains(o.Construct, "Commit") || strings.Contains(o.Construct, "Deal")) {
			res.add("C15-R3", o.Rule+" "+o.Construct, o.Status, o.Pos, o.Detail)
		}
		if o.Rule == "C02-R3" {
			res.add("C15-R4", o.Rule+" "+o.Construct, o.Status, o.Pos, o.Detail)
		}
	}
	// ---- R5: the oracle's error is preserved by the lock operations ----
	checkOracleErrorPreserved(p, r, res, "C15-R5")
	// .. and the adapters themselves report a failed oracle read as an error: a fallback value of another kind (the wall
	// clock instead of the cluster's timestamp) seeds one leader far above what every later leader starts from (C11-R11)
	for _, o := range p.subResult("C11", tier).Obls {
		if o.Rule == "C11-R11" && strings.Contains(o.Construct, "GetTimestampOracle") {
			res.add("C15-R5", o.Rule+" "+o.Construct, o.Status, o.Pos, o.Detail)
		}
	}

	// ---- R6: the engine's oracle is fresh (C11-R6) ----
	{
		sub := newResult("C11")
		checkOracleAPI(p, r, sub)
		for _, o := range sub.Obls {
			res.add("C15-R6", o.Rule+" "+o.Construct, o.Status, o.Pos, o.Detail)
		}
	}
	// ---- R2 (freshness): a lock write that committed is followed by a read of the oracle on every path ----
	// (the timestamp the next leader starts from is taken after the write that made it leader, not whenever the node
	// first looked at the lock)
	for _, b := range p.batches() {
		if b.Fn.Pkg != p.ssaPkg("pkg/backend/election") || len(b.Commits) != 1 {
			continue
		}
		cm, ok := b.Commits[0].(*ssa.Call)
		if !ok {
			continue
		}
		construct := funcName(b.Fn) + ": the engine timestamp is read after the committed lock write on every path"
		rg := &fnRegion{root: b.Fn, descend: func(g *ssa.Function) bool { return g.Pkg == b.Fn.Pkg && g.Synthetic == "" }}
		pa := posOf(cm)
		miss, _, path := rg.search(&frame{fn: b.Fn}, pa.b, pa.i+1, superOpts{
			stop: func(i ssa.Instruction, _ *frame) bool {
				ci, ok := i.(ssa.CallInstruction)
				return ok && r.is(ci, r.KVGetTSO)
			},
			bad: func(i ssa.Instruction, fr *frame) bool {
				_, isRet := i.(*ssa.Return)
				return isRet && fr.fn == b.Fn
			},
			skipEdge: func(from *ssa.BasicBlock, succ int, fr *frame) bool {
				if fr.fn != b.Fn {
					return false
				}
				iff := ifOf(from)
				if iff == nil {
					return false
				}
				cf := factOf(iff.Cond, succ == 0)
				if cf.X == nil || !isNilConst(cf.Y) || !((cf.Op == token.NEQ && cf.Want) || (cf.Op == token.EQL && !cf.Want)) {
					return false
				}
				rc, _, ok := extractOf(p.resolveDeep(cf.X))
				return ok && rc == cm // the branch on which the commit failed
			},
		})
		if miss != nil {
			res.bad("C15-R2", construct, p.pos(miss.Pos()), "after a lock write that committed the function can return without having asked the engine for a timestamp ("+path+"): the lock keeps an older timestamp (the time the node first polled the lock), and a standby that takes over starts from a revision at or below revisions the previous leader has already stored")
		} else {
			res.ok("C15-R2", construct, p.pos(cm.Pos()), "every path from Commit()==nil to the return passes GetTimestampOracle")
		}
	}
	// ---- R7: the in-process engine's oracle is the wall clock ----
	if impl := p.implIn(r.KVGetTSO, "pkg/storage/memkv"); impl != nil {
		construct := funcName(impl) + ": the timestamp is read from the wall clock"
		okAll, n := true, 0
		for _, b := range impl.Blocks {
			ret, ok := b.Instrs[len(b.Instrs)-1].(*ssa.Return)
			if !ok || b.Comment == "recover" {
				continue
			}
			for _, v := range allCellValuesOpt(p, ret.Results[0], false) {
				if isZeroConst(v) && len(ret.Results) > 1 && !isNilConst(resolve(ret.Results[1])) {
					continue // (0, err)
				}
				n++
				if !derivesFromCallArgs(p, v, func(x ssa.Value) bool {
					c, ok := x.(*ssa.Call)
					if !ok {
						return false
					}
					sc := c.Common().StaticCallee()
					return sc != nil && sc.Pkg != nil && sc.Pkg.Pkg.Path() == "time" && sc.Name() == "Now" && c.Parent() == impl
				}) {
					okAll = false
				}
			}
		}
		if okAll && n > 0 {
			res.ok("C15-R7", construct, p.pos(impl.Pos()), "every returned timestamp derives from time.Now() read in the call")
		} else {
			res.bad("C15-R7", construct, p.pos(impl.Pos()), "the in-process engine's oracle does not read the wall clock (a counter advanced by successful commits?): revisions are consumed by failed writes as well, so the allocator of a busy leader outruns such a counter and the next leader, which starts from the oracle, hands out revisions that are already in the store")
		}
	}

}

// derivesFromCallArgs is derivesFrom that also looks through the arguments of any call (fmt.Sprintf, strings.Split,
// varargs slices) — used for string-formatting provenance.
func derivesFromCallArgs(p *Prog, v ssa.Value, pred func(ssa.Value) bool) bool {
	seen := map[ssa.Value]bool{}
	var rec func(v ssa.Value, d int) bool
	rec = func(v ssa.Value, d int) bool {
		if v == nil || seen[v] || d > 60 {
			return false
		}
		seen[v] = true
		if pred(v) {
			return true
		}
		for _, x := range resolveAll(v) {
			if x != v && rec(x, d+1) {
				return true
			}
		}
		switch x := v.(type) {
		case *ssa.Call:
			for _, a := range x.Common().Args {
				if rec(a, d+1) {
					return true
				}
			}
			// through the result of a repo helper (several results are handled at the Extract)
			if sc := x.Common().StaticCallee(); sc != nil && sc.Blocks != nil && sc.Pkg != nil && strings.HasPrefix(sc.Pkg.Pkg.Path(), modPath) && sc.Signature.Results().Len() == 1 {
				for _, b := range sc.Blocks {
					if ret, ok := b.Instrs[len(b.Instrs)-1].(*ssa.Return); ok {
						for _, rv := range ret.Results {
							if rec(rv, d+1) {
								return true
							}
						}
					}
				}
			}
		case *ssa.Alloc:
			// a local variable (possibly a struct): everything stored into it or into its fields
			for _, ref := range *x.Referrers() {
				switch y := ref.(type) {
				case *ssa.Store:
					if y.Addr == ssa.Value(x) && rec(y.Val, d+1) {
						return true
					}
				case *ssa.FieldAddr:
					for _, r2 := range *y.Referrers() {
						if st, ok := r2.(*ssa.Store); ok && st.Addr == ssa.Value(y) && rec(st.Val, d+1) {
							return true
						}
					}
				}
			}
		case *ssa.Field:
			return rec(x.X, d+1)
		case *ssa.Parameter:
			// a pure helper that is handed the value (parse(describe())): what its callers hand it
			if acts := p.paramActuals(x); len(acts) > 0 && len(acts) <= 8 {
				for _, a := range acts {
					if rec(a, d+1) {
						return true
					}
				}
			}
		case *ssa.BinOp:
			return rec(x.X, d+1) || rec(x.Y, d+1)
		case *ssa.UnOp:
			return rec(x.X, d+1)
		case *ssa.Convert:
			return rec(x.X, d+1)
		case *ssa.ChangeType:
			return rec(x.X, d+1)
		case *ssa.MakeInterface:
			return rec(x.X, d+1)
		case *ssa.Extract:
			// one result of a repo helper: only what that helper returns in this position
			if c, ok := x.Tuple.(*ssa.Call); ok {
				if sc := c.Common().StaticCallee(); sc != nil && sc.Blocks != nil && sc.Pkg != nil && strings.HasPrefix(sc.Pkg.Pkg.Path(), modPath) {
					for _, b := range sc.Blocks {
						if ret, ok := b.Instrs[len(b.Instrs)-1].(*ssa.Return); ok && x.Index < len(ret.Results) {
							if rec(ret.Results[x.Index], d+1) {
								return true
							}
						}
					}
					return false
				}
			}
			return rec(x.Tuple, d+1)
		case *ssa.IndexAddr:
			return rec(x.X, d+1)
		case *ssa.FieldAddr:
			return rec(x.X, d+1)
		case *ssa.Slice:
			// varargs: elements stored into the backing array
			if al, ok := x.X.(*ssa.Alloc); ok {
				for _, ref := range *al.Referrers() {
					if ia, ok := ref.(*ssa.IndexAddr); ok {
						for _, r2 := range *ia.Referrers() {
							if st, ok := r2.(*ssa.Store); ok && rec(st.Val, d+1) {
								return true
							}
						}
					}
				}
			}
			return rec(x.X, d+1)
		case *ssa.Phi:
			for _, e := range x.Edges {
				if rec(e, d+1) {
					return true
				}
			}
		}
		return false
	}
	return rec(v, 0)
}

// checkLeaderStart: the leader-start callback seeds the revision counters from the lock's engine timestamp before it
// raises the leader flag and before the started-leading hook runs.
func checkLeaderStart(p *Prog, r *Roles, res *Result, rule string) {
	var cb *ssa.Function
	for _, f := range p.AllFuncs {
		if isLeaderStartCallback(p, f) {
			cb = f
		}
	}
	if cb == nil {
		res.und(rule, "leader-start callback", "-", "not found")
	} else {
		var setCur *ssa.Call
		for _, c := range callsIn(cb) {
			if cc, ok := c.(*ssa.Call); ok && r.is(c, r.BSetCur) {
				setCur = cc
			}
		}
		// leader flag writes: stores / atomic stores of a non-zero constant to a field of the election type inside the callback
		var flagWrites []ssa.Instruction
		for _, b := range cb.Blocks {
			for _, ins := range b.Instrs {
				switch x := ins.(type) {
				case *ssa.Store:
					if fa, ok := x.Addr.(*ssa.FieldAddr); ok && !isFreshObject(fa.X) {
						if k, ok := x.Val.(*ssa.Const); ok && k.Value != nil && k.Value.String() != "false" && k.Value.String() != "0" {
							flagWrites = append(flagWrites, x)
						}
					}
				case *ssa.Call:
					if n, ok := isAtomicCall(x); ok && strings.HasPrefix(n, "Store") {
						if k, ok := x.Common().Args[1].(*ssa.Const); ok && k.Value != nil && k.Value.String() != "0" && k.Value.String() != "false" {
							flagWrites = append(flagWrites, x)
						}
					}
				}
			}
		}
		// the flag may also be raised by a helper of the election type (setLeader(true)): the leader flag is the field
		// that the IsLeader implementation reads; a call of a helper that writes it is a flag write at the call site
		isLeaderFound := false
		if len(flagWrites) == 0 {
			flagFields := map[*types.Var]bool{}
			var reads func(f *ssa.Function, d int)
			reads = func(f *ssa.Function, d int) {
				if f == nil || f.Blocks == nil || d > 2 || f.Pkg != cb.Pkg {
					return
				}
				for _, b := range f.Blocks {
					for _, ins := range b.Instrs {
						if fa, ok := ins.(*ssa.FieldAddr); ok {
							flagFields[fieldOf(fa)] = true
						}
						if c, ok := ins.(*ssa.Call); ok {
							reads(c.Common().StaticCallee(), d+1)
						}
					}
				}
			}
			for _, impl := range p.implsOf(p.ifaceMethod("pkg/server/service/leader", "LeaderElection", "IsLeader")) {
				if impl.Pkg != cb.Pkg {
					continue
				}
				isLeaderFound = true
				reads(impl, 0)
			}
			var writes func(f *ssa.Function, d int) bool
			writes = func(f *ssa.Function, d int) bool {
				if f == nil || f.Blocks == nil || d > 2 || f.Pkg != cb.Pkg {
					return false
				}
				for _, b := range f.Blocks {
					for _, ins := range b.Instrs {
						switch x := ins.(type) {
						case *ssa.Store:
							if fa, ok := x.Addr.(*ssa.FieldAddr); ok && flagFields[fieldOf(fa)] {
								return true
							}
						case *ssa.Call:
							if n, ok := isAtomicCall(x); ok && (strings.HasPrefix(n, "Store") || strings.HasPrefix(n, "Swap") || strings.HasPrefix(n, "CompareAndSwap")) {
								if fa, ok := x.Common().Args[0].(*ssa.FieldAddr); ok && flagFields[fieldOf(fa)] {
									return true
								}
							}
							if writes(x.Common().StaticCallee(), d+1) {
								return true
							}
						}
					}
				}
				return false
			}
			for _, c := range callsIn(cb) {
				if cc, ok := c.(*ssa.Call); ok && writes(c.Common().StaticCallee(), 0) {
					flagWrites = append(flagWrites, cc)
				}
			}
		}
		construct := funcName(cb) + ": SetCurrentRevision before the leader flag"
		switch {
		case setCur == nil:
			res.bad(rule, construct, p.pos(cb.Pos()), "the leader-start callback never seeds the revision counters: the new leader hands out revisions from its stale counter")
		case len(flagWrites) == 0 && isLeaderFound:
			res.bad(rule, construct, p.pos(cb.Pos()), "nothing that IsLeader() reads is written by the leader-start callback: leadership is reported from some other source (the lock record, say) and can become true before SetCurrentRevision has seeded the counters - a write admitted in that window is stamped with a revision below what the store already contains")
		case len(flagWrites) == 0:
			res.und(rule, construct, p.pos(cb.Pos()), "leader flag write not found in the callback")
		default:
			bad := false
			for _, fw := range flagWrites {
				if !instrDominates(setCur, fw) {
					bad = true
					res.bad(rule, construct, p.pos(fw.Pos()), "the leader flag is raised before (or without) SetCurrentRevision: a write admitted in between is stamped with a revision below what the store already contains")
				}
			}
			if !bad {
				res.ok(rule, construct, p.pos(setCur.Pos()), fmt.Sprintf("dominates %d flag write(s)", len(flagWrites)))
			}
		}
		// started-leading hook: dynamic call of a func-typed field, must come after SetCurrentRevision
		if setCur != nil {
			construct = funcName(cb) + ": SetCurrentRevision before the started-leading hook"
			n, bad := 0, false
			for _, c := range callsIn(cb) {
				if c.Common().StaticCallee() != nil || c.Common().IsInvoke() {
					continue
				}
				if ld, ok := resolve(c.Common().Value).(*ssa.UnOp); ok {
					if _, ok := ld.X.(*ssa.FieldAddr); ok {
						n++
						if !instrDominates(setCur, c.(ssa.Instruction)) {
							bad = true
							res.bad(rule, construct, p.pos(c.Pos()), "the started-leading hook (which opens the node for clients) runs before the revision counters are seeded")
						}
					}
				}
			}
			if !bad && n > 0 {
				res.ok(rule, construct, p.pos(setCur.Pos()), "hook call dominated by SetCurrentRevision")
			}
			// provenance of v
			construct = funcName(cb) + ": seeded revision is parsed from Describe()"
			// the seeded value derives (through helper results, local variables and struct fields) from
			// strconv.ParseUint applied to something that derives from the lock's Describe()
			okProv := derivesFromCallArgs(p, argForSigParam(setCur, 0), func(v ssa.Value) bool {
				pc, ok := v.(*ssa.Call)
				if !ok || pc.Common().StaticCallee() == nil || pc.Common().StaticCallee().Name() != "ParseUint" || len(pc.Common().Args) == 0 {
					return false
				}
				return derivesFromCallArgs(p, pc.Common().Args[0], func(w ssa.Value) bool {
					dc, ok := w.(*ssa.Call)
					return ok && dc.Common().IsInvoke() && dc.Common().Method.Name() == "Describe"
				})
			})
			// .. on every success return of the helper that hands it back: a return with a nil error and some other
			// version (a constant 0 for "no holder") would seed the counters with it
			parsed := func(x ssa.Value) bool {
				return derivesFromCallArgs(p, x, func(v ssa.Value) bool {
					pc, ok := v.(*ssa.Call)
					if !ok || pc.Common().StaticCallee() == nil || pc.Common().StaticCallee().Name() != "ParseUint" || len(pc.Common().Args) == 0 {
						return false
					}
					return derivesFromCallArgs(p, pc.Common().Args[0], func(w ssa.Value) bool {
						dc, ok := w.(*ssa.Call)
						return ok && dc.Common().IsInvoke() && dc.Common().Method.Name() == "Describe"
					})
				})
			}
			badRet, staleRet := "", ""
			if hc, idx, ok := extractOf(argForSigParam(setCur, 0)); ok {
				if h := hc.Common().StaticCallee(); h != nil && h.Blocks != nil && errorResultIndex(h.Signature) >= 0 {
					ei := errorResultIndex(h.Signature)
					for _, b := range h.Blocks {
						ret, isRet := b.Instrs[len(b.Instrs)-1].(*ssa.Return)
						if !isRet || idx >= len(ret.Results) || !isNilConst(resolve(ret.Results[ei])) {
							continue
						}
						if !parsed(ret.Results[idx]) {
							badRet = p.pos(ret.Pos())
						}
						// .. from the description as it is now: the Describe() call is made in this invocation, before
						// the return (a copy kept from an earlier call - a cache - may predate the node's first look at
						// the lock and carry version 0)
						fresh := false
						for _, c := range callsIn(h) {
							if cc, ok := c.(*ssa.Call); ok && c.Common().IsInvoke() && c.Common().Method.Name() == "Describe" && instrDominates(cc, ret) {
								fresh = true
							}
						}
						if !fresh {
							staleRet = p.pos(ret.Pos())
						}
					}
				}
			}
			if okProv && badRet == "" && staleRet != "" {
				res.bad(rule, construct, staleRet, "the helper that parses the lock's description can answer without having asked the lock in this call (a remembered answer): a node that wins the lock right after an early look at it - before its first poll, when the description still says version 0 - seeds its counters with that stale version and hands out revisions the store already contains")
			} else if okProv && badRet != "" {
				res.bad(rule, construct, badRet, "the helper that parses the lock's description also returns successfully with a version that is not parsed from it (a constant): a node that becomes leader on that path seeds its counters with that value and hands out revisions the store already contains")
			} else if okProv {
				res.ok(rule, construct, p.pos(setCur.Pos()), "strconv.ParseUint of a part of resourcelock.Describe()")
			} else {
				res.bad(rule, construct, p.pos(setCur.Pos()), "the revision the new leader starts from does not derive from the lock's description (engine timestamp)")
			}
		}
	}

}

// checkOracleErrorPreserved (C15-R5, imported as C02-R6): a failed read of the engine timestamp fails the lock operation.
func checkOracleErrorPreserved(p *Prog, r *Roles, res *Result, rule string) {
	ep := p.ssaPkg("pkg/backend/election")
	checkErrorPreservation(p, res, rule,
		func(f *ssa.Function) bool { return f.Pkg == ep },
		func(c ssa.CallInstruction) (string, bool) {
			if c.Common().IsInvoke() && c.Common().Method == r.KVGetTSO {
				return "storage.GetTimestampOracle", true
			}
			if sc := c.Common().StaticCallee(); sc != nil && sc.Pkg == ep && sc.Blocks != nil && errorResultIndex(sc.Signature) >= 0 {
				for _, c2 := range callsIn(sc) {
					if c2.Common().IsInvoke() && c2.Common().Method == r.KVGetTSO {
						return funcName(sc), true
					}
				}
			}
			return "", false
		}, "the new leader would seed its revision counters from a timestamp that was never read (0 or stale) and hand out revisions the old leader already used")
}
