package main

import (
	"fmt"
	"go/token"
	"sort"

	"golang.org/x/tools/go/ssa"
)

// checkAdvertisedBorders: the partition list handed to clients (Backend.GetPartitions) is meant to be streamed one
// [border, next border) at a time, each stream being a scan of its own. The scanner realigns the borders between the
// workers of ONE scan, it cannot realign the outer bounds of a scan; so an engine border that falls between two versions
// of a key must be pulled back to the key's index record before it is advertised, or both neighbouring streams return
// that key. Decided: every border of an engine partition (a load of Partition.Start / Partition.End outside the
// scanner and the adapters) that can reach a list reaches it only
//   - as the start of the first partition / the end of the last one (the client's own bounds), or
//   - on a path where Coder.Decode of it failed or yielded revision 0 (it is no version key), or
//   - re-encoded as an index key.
func checkAdvertisedBorders(p *Prog, r *Roles, res *Result, rule string) {
	startF := p.structField("pkg/storage", "Partition", "Start")
	endF := p.structField("pkg/storage", "Partition", "End")
	bp := p.ssaPkg("pkg/backend")
	// raw border: a load of one of the two fields (by address or from a struct value)
	rawOf := func(v ssa.Value) (rawBorder, bool) {
		v = resolve(v)
		var holder ssa.Value
		var ri rawBorder
		switch x := v.(type) {
		case *ssa.UnOp:
			fa, ok := x.X.(*ssa.FieldAddr)
			if !ok || x.Op != token.MUL || (fieldOf(fa) != startF && fieldOf(fa) != endF) {
				return ri, false
			}
			ri.isEnd = fieldOf(fa) == endF
			holder = fa.X
		case *ssa.Field:
			fv := fieldOfField(x)
			if fv != startF && fv != endF {
				return ri, false
			}
			ri.isEnd = fv == endF
			holder = x.X
		default:
			return ri, false
		}
		// the element the struct comes from
		h := resolve(holder)
		if ld, ok := h.(*ssa.UnOp); ok && ld.Op == token.MUL {
			h = ld.X
		}
		if ia, ok := h.(*ssa.IndexAddr); ok {
			ri.index = ia.Index
		}
		if al, ok := h.(*ssa.Alloc); ok {
			// a range copy: filled from slice[idx]
			for _, ref := range *al.Referrers() {
				if st, ok := ref.(*ssa.Store); ok && st.Addr == ssa.Value(al) {
					if ld, ok := resolve(st.Val).(*ssa.UnOp); ok {
						if ia, ok := ld.X.(*ssa.IndexAddr); ok {
							ri.index = ia.Index
						}
					}
				}
			}
		}
		return ri, true
	}
	isLenMinus1 := func(v ssa.Value) bool {
		bo, ok := resolve(v).(*ssa.BinOp)
		if !ok || bo.Op != token.SUB {
			return false
		}
		k, ok := constInt(bo.Y)
		if !ok || k != 1 {
			return false
		}
		c, ok := resolve(bo.X).(*ssa.Call)
		if !ok {
			return false
		}
		bi, ok := c.Common().Value.(*ssa.Builtin)
		return ok && bi.Name() == "len"
	}
	excused := func(raw ssa.Value, ri rawBorder, facts []condFact) bool {
		if ri.index != nil {
			if k, ok := constInt(ri.index); ok && k == 0 && !ri.isEnd {
				return true
			}
			if ri.isEnd && isLenMinus1(ri.index) {
				return true
			}
		}
		for _, cf := range facts {
			if cf.X == nil {
				continue
			}
			eq := (cf.Op == token.EQL && cf.Want) || (cf.Op == token.NEQ && !cf.Want)
			ne := (cf.Op == token.NEQ && cf.Want) || (cf.Op == token.EQL && !cf.Want)
			// first / last partition
			if ri.index != nil && resolve(cf.X) == resolve(ri.index) {
				if !ri.isEnd && eq && isZeroConst(cf.Y) {
					return true
				}
				if ri.isEnd && eq && isLenMinus1(cf.Y) {
					return true
				}
			}
			// not a version key
			if ex, ok := resolve(cf.X).(*ssa.Extract); ok {
				if c, ok := ex.Tuple.(*ssa.Call); ok && r.is(c, r.Decode) && resolve(argForSigParam(c, 0)) == resolve(raw) {
					if ex.Index == 2 && ne && isNilConst(cf.Y) {
						return true
					}
					if ex.Index == 1 && eq && isZeroConst(cf.Y) {
						return true
					}
				}
			}
		}
		return false
	}
	// does value v, evaluated under facts, advertise a raw border?
	misaligned := map[ssa.Value]bool{}
	var leak func(v ssa.Value, facts []condFact, d int, seen map[ssa.Value]bool) ssa.Value
	leak = func(v ssa.Value, facts []condFact, d int, seen map[ssa.Value]bool) ssa.Value {
		v = resolve(v)
		if d > 6 {
			return nil
		}
		if ri, ok := rawOf(v); ok {
			// judged per path: the same load can arrive over an excused and over an unexcused edge
			if excused(v, ri, facts) {
				return nil
			}
			return v
		}
		// a realigned border is the index key of the very key the border was decoded to - not of a neighbour computed
		// from it (the end of its prefix range lies behind every longer key that begins with it)
		if c, ok := v.(*ssa.Call); ok && r.is(c, r.EncRev) {
			arg := p.resolveDeep(argForSigParam(c, 0))
			okArg := false
			if ex, isEx := arg.(*ssa.Extract); isEx && ex.Index == 0 {
				if dc, isCall := ex.Tuple.(*ssa.Call); isCall && r.is(dc, r.Decode) {
					if _, isRaw := rawOf(argForSigParam(dc, 0)); isRaw {
						okArg = true
					}
				}
			}
			if _, isPrm := arg.(*ssa.Parameter); isPrm {
				okArg = true // a helper that is handed the key
			}
			if !okArg {
				misaligned[v] = true
				return v
			}
			return nil
		}
		if phi, ok := v.(*ssa.Phi); ok && !seen[v] {
			seen[v] = true
			for i, e := range phi.Edges {
				pred := phi.Block().Preds[i]
				fs := append([]condFact{}, dominatingFacts(pred)...)
				if iff := ifOf(pred); iff != nil {
					for s := 0; s < 2; s++ {
						if pred.Succs[s] == phi.Block() && pred.Succs[0] != pred.Succs[1] {
							fs = append(fs, expandFact(edgeFact(edge{pred, s}), 0)...)
						}
					}
				}
				if l := leak(e, fs, d+1, seen); l != nil {
					return l
				}
			}
		}
		return nil
	}
	var mayBeBorder func(v ssa.Value, d int, seen map[ssa.Value]bool) bool
	mayBeBorder = func(v ssa.Value, d int, seen map[ssa.Value]bool) bool {
		v = resolve(v)
		if d > 6 || seen[v] {
			return false
		}
		seen[v] = true
		if _, ok := rawOf(v); ok {
			return true
		}
		if phi, ok := v.(*ssa.Phi); ok {
			for _, e := range phi.Edges {
				if mayBeBorder(e, d+1, seen) {
					return true
				}
			}
		}
		return false
	}
	var fs []*ssa.Function
	for _, f := range p.AllFuncs {
		if f.Pkg == bp && f.Blocks != nil && f.Synthetic == "" {
			fs = append(fs, f)
		}
	}
	sort.Slice(fs, func(i, j int) bool { return funcName(fs[i]) < funcName(fs[j]) })
	n := 0
	for _, f := range fs {
		k := 0
		for _, b := range f.Blocks {
			for _, ins := range b.Instrs {
				c, ok := ins.(*ssa.Call)
				if !ok {
					continue
				}
				bi, ok := c.Common().Value.(*ssa.Builtin)
				if !ok || bi.Name() != "append" || len(c.Common().Args) != 2 {
					continue
				}
				sl, ok := c.Common().Args[1].(*ssa.Slice)
				if !ok {
					continue
				}
				arr, ok := sl.X.(*ssa.Alloc)
				if !ok {
					continue
				}
				for _, ref := range *arr.Referrers() {
					ia, ok := ref.(*ssa.IndexAddr)
					if !ok {
						continue
					}
					for _, r2 := range *ia.Referrers() {
						st, ok := r2.(*ssa.Store)
						if !ok || st.Addr != ssa.Value(ia) {
							continue
						}
						// only elements that can be an engine border at all
						if !mayBeBorder(st.Val, 0, map[ssa.Value]bool{}) {
							continue
						}
						k++
						n++
						construct := fmt.Sprintf("%s: engine border appended to a list #%d is realigned or the client's own bound", funcName(f), k)
						// the end of the last partition, advertised inside the loop over the partitions: no iteration can
						// skip it (a `continue` above it drops the upper bound of the whole list, and everything from
						// the last advertised border on belongs to no partition)
						if ri, isRaw := rawOf(st.Val); isRaw && ri.isEnd {
							if lp := loopOf(c.Block()); lp != nil {
								var header *ssa.BasicBlock
								for hb := range lp {
									for _, pr := range hb.Preds {
										if !lp[pr] {
											header = hb
										}
									}
								}
								// the test that selects the last iteration: the branch the append is control dependent on
								var sel ssa.Instruction
								for _, hb := range f.Blocks {
									if iff := ifOf(hb); iff != nil && lp[hb] && hb != header {
										for s := 0; s < 2; s++ {
											if edgeDominates(edge{hb, s}, c.Block()) {
												sel = iff
											}
										}
									}
								}
								if header != nil && sel != nil && len(header.Instrs) > 1 {
									skip, _ := searchFrom(header, 1, searchOpts{
										stop: func(i ssa.Instruction) bool { return i == sel },
										bad:  func(i ssa.Instruction) bool { return i == header.Instrs[0] },
									})
									k++
									n++
									c2 := fmt.Sprintf("%s: the end of the last partition is advertised by every pass of the loop that reaches the last partition (#%d)", funcName(f), k)
									if skip != nil {
										res.bad(rule, c2, p.pos(c.Pos()), "an iteration of the loop over the partitions can go on to the next one without reaching the test that appends the end of the last partition: when that happens in the last iteration (two borders realigned to the same index record are 'collapsed'), the upper bound of the request is never advertised and every key from the last advertised border on belongs to no partition")
									} else {
										res.ok(rule, c2, p.pos(c.Pos()), "no path through the loop body avoids the last-partition test")
									}
								}
							}
						}
						if l := leak(st.Val, dominatingFacts(c.Block()), 0, map[ssa.Value]bool{}); l != nil && misaligned[l] {
							res.bad(rule, construct, p.pos(c.Pos()), "a border inside the versions of a key is moved to the index record of another key than the one it was decoded to (a successor computed from it): the end of a key's prefix range lies behind every longer key that begins with that key, so the advertised borders are no longer ascending and two partitions overlap - the keys in between are streamed twice")
						} else if l != nil {
							res.bad(rule, construct, p.pos(c.Pos()), "a partition border of the engine is handed on unchanged although it may lie between two versions of one key: a client that streams every advertised [border, next border) on its own receives that key from both streams (the scanner realigns only the borders between the workers of one scan)")
						} else {
							res.ok(rule, construct, p.pos(c.Pos()), "first start / last end, or not a version key (Decode failed or revision 0), or re-encoded as an index key")
						}
					}
				}
			}
		}
	}
	if n == 0 {
		res.und(rule, "pkg/backend: advertised partition borders", "-", "no engine border is appended to a list in pkg/backend")
	}
}

type rawBorder struct {
	isEnd bool
	index ssa.Value // index of the partition in its slice, when visible
}
