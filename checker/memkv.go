package main

import (
	"fmt"
	"go/token"
	"go/types"
	"sort"
	"strings"

	"golang.org/x/tools/go/ssa"
)

// checkStagedOpsShadowStore: the operations of a batch apply in order, so a condition of a later operation is
// evaluated on what the earlier ones staged. Badger and TiKV get that from their transactions; the in-process engine
// stages operations in a map of its batch object and must consult the store only for keys it has nothing staged for:
// every call chain from a method of the batch to a read of the skip list passes the miss edge of a lookup in that map.
func checkStagedOpsShadowStore(p *Prog, r *Roles, res *Result, rule string) {
	mp := p.ssaPkg("pkg/storage/memkv")
	var roots []*ssa.Function
	for _, m := range []*types.Func{r.BWPutIfNotExist, r.BWCAS, r.BWDelCurrent} {
		if m == nil {
			continue
		}
		if f := p.implIn(m, "pkg/storage/memkv"); f != nil {
			roots = append(roots, f)
		}
	}
	if len(roots) == 0 {
		res.und(rule, "memkv batch: conditional operations", "-", "not found")
		return
	}
	sort.Slice(roots, func(i, j int) bool { return funcName(roots[i]) < funcName(roots[j]) })
	inPkg := func(f *ssa.Function) bool { return f.Pkg == mp }
	isStoreRead := func(ins ssa.Instruction) bool {
		c, ok := ins.(ssa.CallInstruction)
		return ok && isEngineCall(c, "Get", "Find", "Seek")
	}
	for _, root := range roots {
		recv := root.Signature.Recv().Type()
		// the staged-operation map: a map-typed field of the batch object
		isStagedMiss := func(cf chainFact) bool {
			if cf.Want {
				return false
			}
			ex, ok := resolve(cf.Raw).(*ssa.Extract)
			if !ok || ex.Index != 1 {
				return false
			}
			lk, ok := ex.Tuple.(*ssa.Lookup)
			if !ok || !lk.CommaOk {
				return false
			}
			ld, ok := resolve(lk.X).(*ssa.UnOp)
			if !ok || ld.Op != token.MUL {
				return false
			}
			fa, ok := ld.X.(*ssa.FieldAddr)
			if !ok {
				return false
			}
			pt, ok := recv.(*types.Pointer)
			return ok && types.Identical(fa.X.Type(), pt)
		}
		chains := enumerateChains(p, root, isStoreRead, inPkg, 4)
		for i, ch := range chains {
			construct := fmt.Sprintf("%s: store read #%d only for keys with no staged operation", funcName(root), i+1)
			shadowed := false
			for _, cf := range ch.facts() {
				if isStagedMiss(cf) {
					shadowed = true
				}
			}
			if shadowed {
				res.ok(rule, construct, p.pos(ch.target.Pos()), "on the miss edge of the lookup in the batch's staged operations: "+ch.String())
			} else {
				res.bad(rule, construct, p.pos(ch.target.Pos()), "the condition reads the store although (or without asking whether) the batch has an operation staged for the key: a delete or write earlier in the same batch is ignored by the condition, so the in-process engine accepts or rejects batches the other engines decide the other way: "+ch.String())
			}
		}
		if len(chains) == 0 {
			res.und(rule, funcName(root)+": store read", p.pos(root.Pos()), "the condition never reads the store")
		}
	}
}

// checkStoredValuesImmutable: the in-process engine keeps the slice it is given and hands out the slice it keeps (Get,
// iterator values), so a value that has been stored must never be written in place: every place that takes a value
// out of a skip-list element uses it for reading only (no copy into it, no element store, no append onto it).
func checkStoredValuesImmutable(p *Prog, res *Result, rule string) {
	mp := p.ssaPkg("pkg/storage/memkv")
	var fs []*ssa.Function
	for _, f := range p.AllFuncs {
		if f.Pkg == mp && f.Blocks != nil {
			fs = append(fs, f)
		}
	}
	sort.Slice(fs, func(i, j int) bool { return funcName(fs[i]) < funcName(fs[j]) })
	for _, f := range fs {
		n := 0
		for _, b := range f.Blocks {
			for _, ins := range b.Instrs {
				ta, ok := ins.(*ssa.TypeAssert)
				if !ok {
					continue
				}
				ld, ok := ta.X.(*ssa.UnOp)
				if !ok || ld.Op != token.MUL {
					continue
				}
				fa, ok := ld.X.(*ssa.FieldAddr)
				if !ok || fieldOf(fa).Name() != "Value" || fieldOf(fa).Pkg() == nil || !strings.Contains(fieldOf(fa).Pkg().Path(), "skiplist") {
					continue
				}
				if _, isBytes := ta.AssertedType.Underlying().(*types.Slice); !isBytes {
					continue
				}
				n++
				construct := fmt.Sprintf("%s: stored value #%d is only read", funcName(f), n)
				var v ssa.Value = ta
				if ta.CommaOk {
					for _, ex := range extractsOfValue(ta) {
						if ex.Index == 0 {
							v = ex
						}
					}
				}
				if w := writtenInPlace(p, v, 0, map[ssa.Value]bool{}); w != nil {
					res.bad(rule, construct, p.pos(w.Pos()), "a value held by the store is overwritten in place: every reader that was handed this slice (a Get result kept as the expected value of a later compare-and-swap, an iterator value) sees it change, so the comparison compares the store with itself")
				} else {
					res.ok(rule, construct, p.pos(ta.Pos()), "returned, compared or copied from; never the destination of copy / append / an element store")
				}
			}
		}
	}
}

func extractsOfValue(v ssa.Value) []*ssa.Extract {
	var out []*ssa.Extract
	if v.Referrers() == nil {
		return nil
	}
	for _, r := range *v.Referrers() {
		if ex, ok := r.(*ssa.Extract); ok {
			out = append(out, ex)
		}
	}
	return out
}

// writtenInPlace: an instruction that writes into the backing array of slice v (followed through re-slices, phis,
// local cells and parameters of the package's functions), or nil.
func writtenInPlace(p *Prog, v ssa.Value, depth int, seen map[ssa.Value]bool) ssa.Instruction {
	if seen[v] || depth > 5 || v.Referrers() == nil {
		return nil
	}
	seen[v] = true
	for _, ref := range *v.Referrers() {
		switch x := ref.(type) {
		case *ssa.IndexAddr:
			if x.X != v {
				continue
			}
			for _, r2 := range *x.Referrers() {
				if st, ok := r2.(*ssa.Store); ok && st.Addr == ssa.Value(x) {
					return st
				}
			}
		case *ssa.Slice:
			if x.X == v {
				if w := writtenInPlace(p, x, depth, seen); w != nil {
					return w
				}
			}
		case *ssa.Phi, *ssa.ChangeType:
			if w := writtenInPlace(p, x.(ssa.Value), depth, seen); w != nil {
				return w
			}
		case *ssa.Store:
			if x.Val != v {
				continue
			}
			if al, ok := x.Addr.(*ssa.Alloc); ok {
				for _, r2 := range *al.Referrers() {
					if ld, ok := r2.(*ssa.UnOp); ok && ld.Op == token.MUL {
						if w := writtenInPlace(p, ld, depth, seen); w != nil {
							return w
						}
					}
				}
			}
		case ssa.CallInstruction:
			cc := x.Common()
			if bi, ok := cc.Value.(*ssa.Builtin); ok {
				if (bi.Name() == "copy" || bi.Name() == "append") && len(cc.Args) > 0 && cc.Args[0] == v {
					return x
				}
				continue
			}
			if sc := cc.StaticCallee(); sc != nil && sc.Blocks != nil && sc.Pkg != nil && strings.HasPrefix(sc.Pkg.Pkg.Path(), modPath) {
				for ai, a := range cc.Args {
					if a == v && ai < len(sc.Params) {
						if w := writtenInPlace(p, sc.Params[ai], depth+1, seen); w != nil {
							return w
						}
					}
				}
			}
		}
	}
	return nil
}

// checkCommitAppliesEveryOp: the in-process engine's Commit walks the operations staged by the batch and applies each
// to the skip list: every iteration of that loop passes a Remove or a Set before the next operation is fetched. An
// iteration that only arms the expiry timer (or does nothing) acknowledges a write that was never stored.
func checkCommitAppliesEveryOp(p *Prog, r *Roles, res *Result, rule string) {
	commit := p.implIn(r.BWCommit, "pkg/storage/memkv")
	if commit == nil {
		res.und(rule, "memkv batch: Commit", "-", "not found")
		return
	}
	n, pure := 0, 0
	// the loop may live in a helper that Commit calls
	var scope []*ssa.Function
	seenFn := map[*ssa.Function]bool{}
	var collect func(f *ssa.Function, d int)
	collect = func(f *ssa.Function, d int) {
		if f == nil || f.Blocks == nil || seenFn[f] || d > 2 || f.Pkg != commit.Pkg {
			return
		}
		seenFn[f] = true
		scope = append(scope, f)
		for _, c := range callsIn(f) {
			if _, isGo := c.(*ssa.Go); !isGo {
				collect(c.Common().StaticCallee(), d+1)
			}
		}
	}
	collect(commit, 0)
	for _, host := range scope {
		for _, b := range host.Blocks {
			for _, ins := range b.Instrs {
				nx, ok := ins.(*ssa.Next)
				if !ok {
					continue
				}
				rg, ok := nx.Iter.(*ssa.Range)
				if !ok {
					continue
				}
				if _, isMap := rg.X.Type().Underlying().(*types.Map); !isMap {
					continue
				}
				pa := posOf(nx)
				// (helpers of the package that the loop body calls are followed)
				region := &fnRegion{root: host, descend: func(g *ssa.Function) bool { return g.Pkg == commit.Pkg && g.Synthetic == "" }}
				inLoop := loopOf(pa.b)
				// a loop that never touches the store (a validation pass before anything is applied) is not the apply loop
				mutates, _, _ := region.search(&frame{fn: host}, pa.b, pa.i+1, superOpts{
					stop: func(i ssa.Instruction, _ *frame) bool { return i == ssa.Instruction(nx) },
					skipEdge: func(from *ssa.BasicBlock, succ int, fr *frame) bool {
						// leaving the loop
						return fr.fn == host && inLoop[from] && !inLoop[from.Succs[succ]]
					},
					bad: func(i ssa.Instruction, _ *frame) bool {
						c, ok := i.(ssa.CallInstruction)
						return ok && isEngineCall(c, "Remove", "Set", "RemoveElement")
					},
				})
				if mutates == nil {
					pure++
					continue
				}
				n++
				construct := fmt.Sprintf("%s: every staged operation is applied to the skip list (loop #%d)", funcName(commit), n)
				skipped, _, _ := region.search(&frame{fn: host}, pa.b, pa.i+1, superOpts{
					stop: func(i ssa.Instruction, _ *frame) bool {
						c, ok := i.(ssa.CallInstruction)
						return ok && isEngineCall(c, "Remove", "Set", "RemoveElement")
					},
					bad: func(i ssa.Instruction, _ *frame) bool { return i == ssa.Instruction(nx) },
				})
				if skipped != nil {
					res.bad(rule, construct, p.pos(nx.Pos()), "an iteration of the apply loop can reach the next staged operation without a Remove or Set on the skip list: the batch is acknowledged although one of its writes (e.g. every write that carries a ttl) was never stored")
				} else {
					res.ok(rule, construct, p.pos(nx.Pos()), "each iteration passes skl.Remove or skl.Set")
				}
			}
		}
	}
	if n == 0 && pure > 0 {
		res.bad(rule, funcName(commit)+": apply loop", p.pos(commit.Pos()), "Commit loops over the staged operations but no loop applies them to the skip list")
	} else if n == 0 {
		res.und(rule, funcName(commit)+": apply loop", p.pos(commit.Pos()), "no loop over the staged operations found")
	}
}

// checkAdaptersReportCancellation: an adapter that looks at its context (ctx.Err()) and finds it done has to say so:
// the function that makes the observation returns an error on that path. Cutting a scan short and ending it like a
// complete one (io.EOF from Next, a nil error from Iter) makes the layers above take a prefix of the interval for all
// of it.
func checkAdaptersReportCancellation(p *Prog, res *Result, rule string) {
	n := 0
	var fs []*ssa.Function
	for _, f := range p.AllFuncs {
		if f.Pkg == nil || f.Blocks == nil || f.Synthetic != "" || !strings.HasPrefix(f.Pkg.Pkg.Path(), modPath+"/pkg/storage/") {
			continue
		}
		fs = append(fs, f)
	}
	sort.Slice(fs, func(i, j int) bool { return funcName(fs[i]) < funcName(fs[j]) })
	for _, f := range fs {
		k := 0
		for _, c := range callsIn(f) {
			if !c.Common().IsInvoke() || c.Common().Method.Name() != "Err" || c.Common().Method.Pkg() == nil || c.Common().Method.Pkg().Path() != "context" {
				continue
			}
			call, ok := c.(*ssa.Call)
			if !ok {
				continue
			}
			k++
			n++
			construct := fmt.Sprintf("%s: a done context (ctx.Err() #%d) is reported as an error", funcName(f), k)
			ei := errorResultIndex(f.Signature)
			if ei < 0 {
				res.bad(rule, construct, p.pos(call.Pos()), "the function looks at ctx.Err() but has no error result to report it with: a cancelled or expired context silently shortens what it does (an iterator buffers a prefix of the interval and then ends like a complete scan)")
				continue
			}
			if losses := errLosses(p, f, call, call); len(losses) > 0 {
				res.bad(rule, construct, p.pos(losses[0].ret.Pos()), "on a path where ctx.Err() is non-nil the function returns without an error derived from it")
			} else {
				res.ok(rule, construct, p.pos(call.Pos()), "returned on every path on which it may be non-nil")
			}
		}
	}
	if n == 0 {
		res.ok(rule, "adapters: no function cuts its work short on ctx.Err()", "-", "no adapter function inspects ctx.Err()")
	}
}

// checkExpiryIsCompareAndDelete: a ttl belongs to the value it was written with. The in-process engine implements it
// with a timer per write; what the timer's callback removes, it removes only after having compared the stored value
// with the value the timer was armed for (every call chain from the callback to a staged delete or a skip-list Remove
// passes the true edge of a byte comparison). A delete by key alone also removes a later write of that key - the index
// record of an Event that has been updated since, while its new version stays.
func checkExpiryIsCompareAndDelete(p *Prog, r *Roles, res *Result, rule string) {
	mp := p.ssaPkg("pkg/storage/memkv")
	n := 0
	var fs []*ssa.Function
	for _, f := range p.AllFuncs {
		if f.Pkg == mp && f.Blocks != nil {
			fs = append(fs, f)
		}
	}
	sort.Slice(fs, func(i, j int) bool { return funcName(fs[i]) < funcName(fs[j]) })
	for _, f := range fs {
		for _, c := range callsIn(f) {
			sc := c.Common().StaticCallee()
			if sc == nil || sc.Pkg == nil || sc.Pkg.Pkg.Path() != "time" || (sc.Name() != "AfterFunc" && sc.Name() != "NewTimer" && sc.Name() != "After") {
				continue
			}
			if sc.Name() != "AfterFunc" || len(c.Common().Args) != 2 {
				continue
			}
			cbs := p.funcValues(c.Common().Args[1], 0)
			for _, cb := range cbs {
				n++
				construct := fmt.Sprintf("%s: expiry callback #%d removes only the value its ttl was set for", funcName(f), n)
				isRemoval := func(ins ssa.Instruction) bool {
					ci, ok := ins.(ssa.CallInstruction)
					if !ok {
						return false
					}
					// (Commit applies what was staged: the decision is taken where the delete is staged)
					if isEngineCall(ci, "Remove", "RemoveElement") {
						return true
					}
					if callee := ci.Common().StaticCallee(); callee != nil && callee == p.implIn(r.BWDel, "pkg/storage/memkv") {
						return true
					}
					return ci.Common().IsInvoke() && ci.Common().Method == r.BWDel
				}
				chains := enumerateChains(p, cb, isRemoval, func(g *ssa.Function) bool { return g.Pkg == mp }, 5)
				if len(chains) == 0 {
					res.und(rule, construct, p.pos(c.Pos()), "the callback reaches no removal")
					continue
				}
				bad := ""
				commitImpl := p.implIn(r.BWCommit, "pkg/storage/memkv")
				for _, ch := range chains {
					// Commit (and what it calls) applies what was staged: the decision is taken where the delete is staged
					viaCommit := false
					for _, fn := range ch.fns {
						if fn == commitImpl {
							viaCommit = true
						}
					}
					if viaCommit {
						continue
					}
					compared := false
					for _, cf := range ch.facts() {
						if cf.Call != nil && cf.Want {
							if s2 := cf.Call.Common().StaticCallee(); s2 != nil && s2.Pkg != nil && s2.Pkg.Pkg.Path() == "bytes" && s2.Name() == "Equal" {
								compared = true
							}
						}
						if cf.X != nil && isZeroConst(cf.Y) && ((cf.Op == token.EQL && cf.Want) || (cf.Op == token.NEQ && !cf.Want)) {
							if c2, ok := resolve(cf.X).(*ssa.Call); ok {
								if s2 := c2.Common().StaticCallee(); s2 != nil && s2.Pkg != nil && s2.Pkg.Pkg.Path() == "bytes" && s2.Name() == "Compare" {
									compared = true
								}
							}
						}
					}
					if !compared {
						bad = ch.String()
					}
				}
				if bad == "" {
					res.ok(rule, construct, p.pos(c.Pos()), fmt.Sprintf("%d removal chain(s), each on the equal edge of a byte comparison", len(chains)))
				} else {
					res.bad(rule, construct, p.pos(c.Pos()), "the expiry timer removes the key by name, whatever it holds by then ("+bad+"): a key rewritten since the ttl was set - the index record of an Event after an update, a lock record after a renewal - is removed although its newest change is younger than the ttl, and the records written with it stay behind")
				}
			}
		}
	}
	if n == 0 {
		res.und(rule, "memkv: expiry timer", "-", "no time.AfterFunc callback found")
	}
}

// checkAbsentIsNil (C11-R18): the in-process engine's lookup answers nil for "no such key" and the stored slice
// otherwise, and a stored value may be empty. Its conditional operations must therefore decide presence by comparing
// the lookup's result with nil; a test of its length files a key that holds an empty value under "absent"
// (put-if-absent overwrites it, a CAS that expects the empty value fails), which the engines that decide by their
// not-found error do not do.
func checkAbsentIsNil(p *Prog, res *Result, rule string) {
	sp := p.ssaPkg("pkg/storage/memkv")
	// lookups: functions of the package whose first result is a []byte and is the constant nil on some path, or the
	// first result of another lookup
	lookups := map[*ssa.Function]bool{}
	firstOf := func(v ssa.Value) ssa.Value {
		v = resolve(v)
		if ex, ok := v.(*ssa.Extract); ok && ex.Index == 0 {
			return ex.Tuple
		}
		return v
	}
	for changed := true; changed; {
		changed = false
		for _, f := range p.AllFuncs {
			if f.Pkg != sp || f.Blocks == nil || f.Signature.Results().Len() == 0 || lookups[f] {
				continue
			}
			sl, ok := f.Signature.Results().At(0).Type().Underlying().(*types.Slice)
			if !ok {
				continue
			}
			if b, ok := sl.Elem().Underlying().(*types.Basic); !ok || b.Kind() != types.Byte {
				continue
			}
			for _, b := range f.Blocks {
				ret, ok := b.Instrs[len(b.Instrs)-1].(*ssa.Return)
				if !ok || len(ret.Results) == 0 {
					continue
				}
				v := firstOf(ret.Results[0])
				if isNilConst(v) {
					lookups[f], changed = true, true
				} else if c, ok := v.(*ssa.Call); ok && lookups[c.Common().StaticCallee()] {
					lookups[f], changed = true, true
				}
			}
		}
	}
	n := 0
	for _, f := range p.AllFuncs {
		if f.Pkg != sp || f.Blocks == nil {
			continue
		}
		for _, c := range callsIn(f) {
			call, ok := c.(*ssa.Call)
			if !ok || !lookups[call.Common().StaticCallee()] || call.Referrers() == nil {
				continue
			}
			n++
			construct := fmt.Sprintf("%s: result of %s #%d", funcName(f), call.Common().StaticCallee().Name(), n)
			var bad ssa.Instruction
			var uses []ssa.Instruction
			for _, ref := range *call.Referrers() {
				if ex, ok := ref.(*ssa.Extract); ok && ex.Index == 0 && ex.Referrers() != nil {
					uses = append(uses, *ex.Referrers()...)
				} else {
					uses = append(uses, ref)
				}
			}
			for _, ref := range uses {
				lc, ok := ref.(*ssa.Call)
				if !ok {
					continue
				}
				if bi, ok := lc.Common().Value.(*ssa.Builtin); !ok || bi.Name() != "len" || lc.Referrers() == nil {
					continue
				}
				for _, r2 := range *lc.Referrers() {
					if bo, ok := r2.(*ssa.BinOp); ok && (isZeroConst(bo.X) || isZeroConst(bo.Y)) {
						switch bo.Op {
						case token.EQL, token.NEQ, token.GTR, token.LSS, token.LEQ, token.GEQ:
							bad = bo
						}
					}
				}
			}
			if bad != nil {
				res.bad(rule, construct, p.pos(bad.Pos()), "the presence of the key is decided by the length of the looked-up value: a key that holds an empty value counts as absent (put-if-absent overwrites it and lets the rest of the batch through, a compare-and-swap that expects the empty value fails), unlike on the engines that decide by their not-found error")
			} else {
				res.ok(rule, construct, p.pos(call.Pos()), "not tested by length")
			}
		}
	}
	if n == 0 {
		res.und(rule, "memkv: lookup", "-", "no call of a nil-for-absent lookup found")
	}
	// .. and the writer's side of the same convention: what is stored under a key is never nil - a copy made with
	// append([]byte(nil), v...) is nil when v is empty, and the key it is stored under then reads as absent
	k := 0
	for _, f := range p.AllFuncs {
		if f.Pkg != sp || f.Blocks == nil {
			continue
		}
		for _, c := range callsIn(f) {
			if !isEngineCall(c, "Set") || len(c.Common().Args) < 2 {
				continue
			}
			k++
			construct := fmt.Sprintf("%s: value stored in the skip list #%d", funcName(f), k)
			v := resolve(c.Common().Args[len(c.Common().Args)-1])
			if mi, ok := v.(*ssa.MakeInterface); ok {
				v = resolve(mi.X)
			}
			nilCopy := false
			if ac, ok := v.(*ssa.Call); ok {
				if bi, ok := ac.Common().Value.(*ssa.Builtin); ok && bi.Name() == "append" && len(ac.Common().Args) == 2 && isNilConst(resolve(ac.Common().Args[0])) {
					nilCopy = true
				}
			}
			if nilCopy {
				res.bad(rule, construct, p.pos(c.Pos()), "the value is stored as append([]byte(nil), v...), which is nil for an empty v: the key then exists for Get and for iterators but counts as absent for put-if-absent and compare-and-swap, whose lookups take nil for 'no such key'")
			} else {
				res.ok(rule, construct, p.pos(c.Pos()), "not a nil-for-empty copy")
			}
		}
	}
}
