package main

import (
	"fmt"
	"go/token"
	"go/types"
	"sort"
	"strings"

	"golang.org/x/tools/go/ssa"
)

func init() { register("C16", checkC16) }

// msgPath names a (sub-)message of the transaction by its access path from the request parameter.
func msgPath(v ssa.Value) string {
	v = resolve(v)
	switch x := v.(type) {
	case *ssa.Parameter:
		return x.Name()
	case *ssa.UnOp:
		if x.Op == token.MUL {
			switch a := x.X.(type) {
			case *ssa.FieldAddr:
				return msgPath(a.X) + "." + fieldOf(a).Name()
			case *ssa.IndexAddr:
				if i, ok := constInt(a.Index); ok {
					return fmt.Sprintf("%s[%d]", msgPath(a.X), i)
				}
			}
		}
	case *ssa.Call:
		if sc := x.Common().StaticCallee(); sc != nil && strings.HasPrefix(sc.Name(), "Get") && len(x.Common().Args) == 1 && sc.Signature.Recv() != nil {
			return msgPath(x.Common().Args[0]) + "." + strings.TrimPrefix(sc.Name(), "Get")
		}
	}
	return "?"
}

// atomFacts turns one branch fact into atomic facts over message paths.
func atomFacts(p *Prog, cf condFact, helpers map[*ssa.Function]bool, depth int) []string {
	var out []string
	if cf.Call != nil {
		sc := cf.Call.Common().StaticCallee()
		if sc != nil && sc.Pkg != nil && sc.Pkg.Pkg.Path() == "bytes" && sc.Name() == "Equal" && cf.Want {
			a, b := msgPath(cf.Call.Common().Args[0]), msgPath(cf.Call.Common().Args[1])
			out = append(out, "eq:"+a+"|"+b)
		}
		if sc != nil && sc.Blocks != nil && cf.Want && depth < 2 && strings.HasPrefix(sc.Pkg.Pkg.Path(), modPath) {
			// local boolean helper: facts implied by a true result, with parameters replaced by argument paths
			sub := map[string]string{}
			for i, prm := range sc.Params {
				sub[prm.Name()] = msgPath(cf.Call.Common().Args[i])
			}
			for _, f := range trueImplies(p, sc, depth+1) {
				f = substPaths(f, sub)
				// a comparison with a parameter of the helper is a comparison with the constant the caller passes
				if j := strings.Index(f, "=$"); j >= 0 {
					for i, prm := range sc.Params {
						if f[j+2:] == prm.Name() {
							if k, ok := constInt(cf.Call.Common().Args[i]); ok {
								f = fmt.Sprintf("%s=%d", f[:j], k)
							}
						}
					}
				}
				out = append(out, f)
			}
		}
		return out
	}
	if cf.X == nil {
		return nil
	}
	x, y, op, want := cf.X, cf.Y, cf.Op, cf.Want
	eq := (op == token.EQL && want) || (op == token.NEQ && !want)
	ne := (op == token.NEQ && want) || (op == token.EQL && !want)
	// <msg> != nil
	if isNilConst(y) && ne {
		out = append(out, "accepted:"+msgPath(x))
	}
	if k, ok := constInt(y); ok && eq {
		if c, ok := resolve(x).(*ssa.Call); ok {
			if bi, ok := c.Common().Value.(*ssa.Builtin); ok && bi.Name() == "len" {
				pth := msgPath(c.Common().Args[0])
				out = append(out, fmt.Sprintf("len:%s=%d", pth, k))
				if k == 0 {
					out = append(out, "empty:"+pth)
				}
				return out
			}
		}
		out = append(out, fmt.Sprintf("cmp:%s=%d", msgPath(x), k))
	}
	if prm, ok := resolve(y).(*ssa.Parameter); ok && eq {
		if bt, ok := prm.Type().Underlying().(*types.Basic); ok && bt.Info()&types.IsInteger != 0 {
			out = append(out, fmt.Sprintf("cmp:%s=$%s", msgPath(x), prm.Name()))
		}
	}
	if s, ok := constString(y); ok && eq {
		out = append(out, "cmpstr:"+msgPath(x)+"="+s)
	}
	return out
}

func substPaths(fact string, sub map[string]string) string {
	i := strings.Index(fact, ":")
	kind, rest := fact[:i+1], fact[i+1:]
	repl := func(pth string) string {
		root := pth
		tail := ""
		if j := strings.IndexAny(pth, ".["); j >= 0 {
			root, tail = pth[:j], pth[j:]
		}
		if s, ok := sub[root]; ok {
			return s + tail
		}
		return pth
	}
	if strings.Contains(rest, "|") {
		ab := strings.SplitN(rest, "|", 2)
		return kind + repl(ab[0]) + "|" + repl(ab[1])
	}
	if j := strings.Index(rest, "="); j >= 0 {
		return kind + repl(rest[:j]) + rest[j:]
	}
	return kind + repl(rest)
}

// trueImplies: atomic facts that hold whenever boolean function h returns true.
func trueImplies(p *Prog, h *ssa.Function, depth int) []string {
	var result []string
	first := true
	for _, b := range h.Blocks {
		ret, ok := b.Instrs[len(b.Instrs)-1].(*ssa.Return)
		if !ok || len(ret.Results) != 1 {
			continue
		}
		sets := valueTrueFacts(p, ret.Results[0], b, depth)
		for _, s := range sets {
			if first {
				result, first = s, false
			} else {
				result = intersect(result, s)
			}
		}
	}
	return result
}

// valueTrueFacts: for a boolean value, the fact sets (one per way of being true) that hold when it is true.
func valueTrueFacts(p *Prog, v ssa.Value, at *ssa.BasicBlock, depth int) [][]string {
	v = resolve(v)
	base := blockFacts(p, at, depth)
	switch x := v.(type) {
	case *ssa.Const:
		if x.Value != nil && x.Value.String() == "true" {
			return [][]string{base}
		}
		return nil
	case *ssa.Phi:
		var out [][]string
		for i, e := range x.Edges {
			pred := x.Block().Preds[i]
			// facts on the edge pred -> phi block
			pf := blockFacts(p, pred, depth)
			if iff := ifOf(pred); iff != nil {
				for s := 0; s < 2; s++ {
					if pred.Succs[s] == x.Block() {
						pf = append(pf, atomFacts(p, edgeFact(edge{pred, s}), nil, depth)...)
					}
				}
			}
			for _, s := range valueTrueFacts(p, e, pred, depth) {
				out = append(out, append(append([]string{}, pf...), s...))
			}
		}
		return out
	case *ssa.BinOp, *ssa.Call:
		cf := condFact{Want: true, Raw: v}
		if bo, ok := v.(*ssa.BinOp); ok {
			cf.X, cf.Y, cf.Op = bo.X, bo.Y, bo.Op
		} else {
			cf.Call = v.(*ssa.Call)
		}
		return [][]string{append(append([]string{}, base...), atomFacts(p, cf, nil, depth)...)}
	}
	return nil
}

func blockFacts(p *Prog, b *ssa.BasicBlock, depth int) []string {
	var out []string
	for _, cf := range dominatingFacts(b) {
		out = append(out, atomFacts(p, cf, nil, depth)...)
	}
	return out
}

func intersect(a, b []string) []string {
	m := map[string]bool{}
	for _, x := range b {
		m[x] = true
	}
	var out []string
	for _, x := range a {
		if m[x] {
			out = append(out, x)
		}
	}
	return out
}

func checkC16(p *Prog, res *Result, tier string) {
	r := p.roles()
	lr := p.leaderRoles()
	ep := p.ssaPkg("pkg/server/etcd")
	res.Explanation = "The classification layer of the etcd endpoint is pure structure. R1 closed dispatch: in the Txn handler every call into the backend shim is dominated by a positive result of a shape recogniser, and the fall-through branch produces a non-nil error and reaches no backend call; recognisers are pure. R2 recogniser completeness: on every positive return of a recogniser that guards a backend call, every accepted sub-message that carries a key (the compare, the put / delete-range in Success, the range in Failure) has its key equated (bytes.Equal, possibly through a local helper) with the operation key, every accepted compare / delete-range / range has its RangeEnd tested empty, and the compare's Target and Result are tested. R3 answer shape: Create / Update / Delete of the shim each build their TxnResponse themselves with exactly one ResponseOp of the prescribed kind (ResponsePut on success of create/update, ResponseRange on failed update and for delete) and copy Succeeded from the backend's response. R4 handlers of unsupported RPCs reach no backend write. R5 on the failed-condition branch the backend answers with the key-value re-read after the failed write."
	res.NotDecided = "agreement of response contents with an etcd reference model for all histories; watch event payloads beyond the mapping checked in R3."
	res.Assumptions = []string{"generated protobuf getters are nil-safe and pure"}
	res.rule("C16-R1", "closed dispatch in the Txn handler; pure recognisers", 5)
	res.rule("C16-R2", "recognisers equate all accepted keys, test RangeEnd empty and test the compare's Target/Result", 4)
	res.rule("C16-R3", "the shim builds one ResponseOp of the prescribed kind per shape", 4)
	res.rule("C16-R4", "unsupported RPC handlers reach no backend write", 5)
	res.rule("C16-R7", "watch and range answers are not corrupted after they were handed over: batches sent over channels are never written again by the sender (C05-R9)", 2)
	res.rule("C16-R8", "the backend conditions behind the transaction shapes hold (C01-R3/R4/R7) and engine faults are not turned into answers by the metrics wrapper (C11-R5)", 10)
	res.rule("C16-R6", "a Range answer is the backend's complete snapshot read: no key missing, duplicated or out of order because of partitioning or a retried scan (C13-R5/R6/R8)", 5)
	res.rule("C16-R9", "a Range answer names the revision its data was read at: header and default read revision derive from one load of the committed revision taken before the scan (C06-R2), and the etcd translation hands the backend's header on", 6)
	res.rule("C16-R10", "a watch starts exactly at the revision it names or is refused (so that the client re-lists): the resume revision derives from the request or the cache snapshot, and the empty-cache start uses the strict comparison (C05-R1/R10)", 4)
	res.rule("C16-R13", "client-supplied range bounds are not built with the record encoder, whose order agrees with the order of user keys only for keys without a byte at or below the split byte (a value clause of C10 that matters for C16: the continuation key of a paginated list ends in a zero byte)", 1)
	res.rule("C16-R12", "the write paths (create conflict, update, delete) read the latest state of the key: every call of the backend's internal get outside the read handlers passes revision 0", 3)
	res.rule("C16-R11", "an etcd event that is rebuilt from another etcd event (the follower's proxy) keeps all of its fields, PrevKv included", 1)
	res.rule("C16-R5", "the failure branch of update/delete answers with the key-value read after the failed write", 2)

	txnM := p.ifaceMethod("go.etcd.io/etcd/api/v3/etcdserverpb", "KVServer", "Txn")
	var txn *ssa.Function
	for _, f := range p.implsOf(txnM) {
		if f.Pkg == ep && f.Synthetic == "" {
			txn = f
		}
	}
	if txn == nil {
		brokenf("etcd Txn handler not found")
	}
	txnReq := p.namedType("go.etcd.io/etcd/api/v3/etcdserverpb", "TxnRequest")
	recognisers := map[*ssa.Function]bool{}
	for _, f := range p.AllFuncs {
		if f.Pkg == ep && f.Synthetic == "" && f.Signature.Recv() == nil && len(f.Params) == 1 && types.Identical(f.Params[0].Type(), types.NewPointer(txnReq)) {
			recognisers[f] = true
		}
	}
	// ---- R1 ----
	guards := map[*ssa.Function][]string{} // recogniser -> sinks it guards
	isSink := func(c ssa.CallInstruction) (string, bool) {
		if c.Common().IsInvoke() {
			if n, ok := lr.writeSinks[c.Common().Method]; ok {
				return n, true
			}
		}
		return "", false
	}
	inEP := func(f *ssa.Function) bool { return f.Pkg == ep && !lr.shimImpl[f] }
	isSinkIns := func(ins ssa.Instruction) bool {
		c, ok := ins.(ssa.CallInstruction)
		if !ok {
			return false
		}
		_, s := isSink(c)
		return s
	}
	// classify one branch fact as a (recogniser call, answered-yes?) pair
	recResult := func(cf condFact) (*ssa.Call, bool, bool) {
		var rc *ssa.Call
		yes := false
		switch {
		case cf.X != nil && isNilConst(cf.Y):
			rc, _ = resolve(cf.X).(*ssa.Call)
			yes = (cf.Op == token.NEQ && cf.Want) || (cf.Op == token.EQL && !cf.Want)
		case cf.X == nil && cf.Call == nil:
			if ex, ok := resolve(cf.Raw).(*ssa.Extract); ok {
				rc, _ = ex.Tuple.(*ssa.Call)
			}
			yes = cf.Want
		case cf.Call != nil:
			rc, yes = cf.Call, cf.Want
		}
		if rc == nil || rc.Common().StaticCallee() == nil || !recognisers[rc.Common().StaticCallee()] {
			return nil, false, false
		}
		return rc, yes, true
	}
	dispatchers := map[*ssa.Function]bool{}
	sinkOrd := map[string]int{}
	for _, ch := range enumerateChains(p, txn, isSinkIns, inEP, 4) {
		c := ch.target.(ssa.CallInstruction)
		name, _ := isSink(c)
		sinkOrd[name]++
		construct := fmt.Sprintf("%s: %s is guarded by one recogniser", funcName(txn), name)
		if sinkOrd[name] > 1 {
			construct += fmt.Sprintf(" (site #%d)", sinkOrd[name])
		}
		var pos []*ssa.Function
		for _, cf := range ch.facts() {
			if rc, yes, ok := recResult(cf.condFact); ok && yes {
				pos = append(pos, rc.Common().StaticCallee())
				dispatchers[rc.Parent()] = true
			}
		}
		if len(pos) == 1 {
			guards[pos[0]] = append(guards[pos[0]], name)
			res.ok("C16-R1", construct, p.pos(c.Pos()), "dominated by a positive result of "+funcName(pos[0])+" on "+ch.String())
		} else {
			res.bad("C16-R1", construct, p.pos(c.Pos()), fmt.Sprintf("the backend call is dominated by %d positive recogniser results (expected exactly one): a transaction can be executed without having been recognised as this shape", len(pos)))
		}
	}
	// fall-through: in the function that dispatches, a block dominated by the negative results of all recognisers it calls
	{
		construct := funcName(txn) + ": unrecognised shapes are rejected with an error"
		var disp *ssa.Function
		for f := range dispatchers {
			if disp == nil || funcName(f) < funcName(disp) {
				disp = f
			}
		}
		found := false
		if disp != nil && len(dispatchers) == 1 {
			var recCalls []*ssa.Call
			for _, c := range callsIn(disp) {
				if cc, ok := c.(*ssa.Call); ok && cc.Common().StaticCallee() != nil && recognisers[cc.Common().StaticCallee()] {
					recCalls = append(recCalls, cc)
				}
			}
			for _, b := range disp.Blocks {
				neg := map[*ssa.Call]bool{}
				for _, cf := range localFacts(b) {
					if rc, yes, ok := recResult(cf); ok && !yes {
						neg[rc] = true
					}
				}
				if len(neg) != len(recCalls) || len(recCalls) == 0 {
					continue
				}
				found = true
				// an error is constructed in the branch and no backend entry is reachable from it
				hasErr, hasSink := false, false
				for _, d := range disp.Blocks {
					if d != b && !b.Dominates(d) {
						continue
					}
					for _, ins := range d.Instrs {
						if c, ok := ins.(*ssa.Call); ok && isErrorConstructor(c) && d == b {
							hasErr = true
						}
						if d == b && isSinkIns(ins) {
							hasSink = true
						}
					}
				}
				if hasErr && !hasSink {
					res.ok("C16-R1", construct, p.pos(b.Instrs[0].Pos()), "the branch of "+funcName(disp)+" on which every recogniser answered no builds an error and calls no backend entry")
				} else {
					res.bad("C16-R1", construct, p.pos(b.Instrs[0].Pos()), "the fall-through branch of the shape dispatch does not reject the transaction with an error")
				}
				break
			}
		}
		if !found {
			res.bad("C16-R1", construct, p.pos(txn.Pos()), "no fall-through branch for unrecognised shapes found")
		}
	}
	// purity
	for f := range recognisers {
		construct := funcName(f) + ": pure"
		bad := ""
		for _, g := range append([]*ssa.Function{f}, localHelpers(f, ep)...) {
			for _, c := range callsIn(g) {
				cc := c.Common()
				if _, ok := cc.Value.(*ssa.Builtin); ok {
					continue
				}
				sc := cc.StaticCallee()
				switch {
				case sc == nil:
					bad = "dynamic call"
				case sc.Pkg == ep && sc.Signature.Recv() == nil:
				case sc.Pkg != nil && sc.Pkg.Pkg.Path() == "bytes" && (sc.Name() == "Equal" || sc.Name() == "Compare"):
				case strings.HasPrefix(sc.Name(), "Get") && sc.Pkg != nil && strings.Contains(sc.Pkg.Pkg.Path(), "etcdserverpb"):
				default:
					bad = "call of " + sc.String()
				}
			}
			for _, b := range g.Blocks {
				for _, ins := range b.Instrs {
					switch ins.(type) {
					case *ssa.Store, *ssa.MapUpdate, *ssa.Send, *ssa.Go:
						bad = "side effect " + ins.String()
					}
				}
			}
		}
		if bad == "" {
			res.ok("C16-R1", construct, p.pos(f.Pos()), "only generated getters, bytes.Equal and local helpers")
		} else {
			res.bad("C16-R1", construct, p.pos(f.Pos()), "a shape recogniser is not a pure predicate: "+bad)
		}
	}

	// ---- R2 ----
	var recNames []*ssa.Function
	for f := range guards {
		recNames = append(recNames, f)
	}
	sort.Slice(recNames, func(i, j int) bool { return funcName(recNames[i]) < funcName(recNames[j]) })
	for _, f := range recNames {
		n := 0
		for _, b := range f.Blocks {
			ret, ok := b.Instrs[len(b.Instrs)-1].(*ssa.Return)
			if !ok {
				continue
			}
			positive := false
			last := resolve(ret.Results[len(ret.Results)-1])
			if k, ok := last.(*ssa.Const); ok && k.Value != nil && k.Value.String() == "true" {
				positive = true
			}
			if len(ret.Results) == 1 {
				if _, isConst := last.(*ssa.Const); !isConst {
					positive = true // returns the accepted message (non-nil)
				}
			}
			if !positive {
				continue
			}
			n++
			construct := fmt.Sprintf("%s: positive return #%d", funcName(f), n)
			facts := blockFacts(p, b, 0)
			fs := map[string]bool{}
			for _, x := range facts {
				fs[x] = true
			}
			// accepted sub-messages
			var accepted []string
			for x := range fs {
				if strings.HasPrefix(x, "accepted:") {
					pth := strings.TrimPrefix(x, "accepted:")
					if strings.HasSuffix(pth, ".RequestPut") || strings.HasSuffix(pth, ".RequestDeleteRange") || strings.HasSuffix(pth, ".RequestRange") {
						accepted = append(accepted, pth)
					}
				}
				if strings.HasPrefix(x, "len:") && strings.HasSuffix(x, ".Compare=1") {
					accepted = append(accepted, strings.TrimSuffix(strings.TrimPrefix(x, "len:"), "=1")+"[0]")
				}
			}
			sort.Strings(accepted)
			// union-find over eq facts
			parent := map[string]string{}
			var find func(x string) string
			find = func(x string) string {
				if parent[x] == "" || parent[x] == x {
					parent[x] = x
					return x
				}
				parent[x] = find(parent[x])
				return parent[x]
			}
			for x := range fs {
				if strings.HasPrefix(x, "eq:") {
					ab := strings.SplitN(strings.TrimPrefix(x, "eq:"), "|", 2)
					parent[find(ab[0])] = find(ab[1])
				}
			}
			var problems []string
			var keys []string
			for _, a := range accepted {
				keys = append(keys, a+".Key")
				if !strings.HasSuffix(a, ".RequestPut") && !fs["empty:"+a+".RangeEnd"] {
					problems = append(problems, a+".RangeEnd is not tested empty")
				}
				if strings.Contains(a, ".Compare[") {
					hasT, hasR := false, false
					for x := range fs {
						if strings.HasPrefix(x, "cmp:"+a+".Target=") {
							hasT = true
						}
						if strings.HasPrefix(x, "cmp:"+a+".Result=") {
							hasR = true
						}
					}
					if !hasT || !hasR {
						problems = append(problems, a+": Target/Result not both tested")
					}
				}
			}
			for i := 1; i < len(keys); i++ {
				if find(keys[i]) != find(keys[0]) {
					problems = append(problems, keys[i]+" is not equated with "+keys[0])
				}
			}
			if len(accepted) == 0 {
				problems = append(problems, "no accepted sub-message identified")
			}
			if len(problems) == 0 {
				res.ok("C16-R2", construct, p.pos(ret.Pos()), fmt.Sprintf("accepted %v: all keys equated, RangeEnds empty, compare tested", accepted))
			} else {
				res.bad("C16-R2", construct, p.pos(ret.Pos()), "a structurally valid but unsupported transaction is accepted as this shape and executed as a single-key operation: "+strings.Join(problems, "; "))
			}
		}
		if n == 0 {
			res.und("C16-R2", funcName(f), p.pos(f.Pos()), "no positive return found")
		}
	}

	// ---- R3 ----
	checkShimShapes(p, r, lr, res)

	// ---- R4 ----
	for _, f := range p.AllFuncs {
		if f.Pkg != ep || f.Synthetic != "" || f.Signature.Recv() == nil || f.Parent() != nil {
			continue
		}
		if !isNamed(f.Signature.Recv().Type(), modPath+"/pkg/server/etcd", "RPCServer") || f == txn || !f.Object().Exported() {
			continue
		}
		construct := funcName(f) + ": reaches no backend write"
		hit := ""
		seen := map[*ssa.Function]bool{}
		var walk func(g *ssa.Function, d int)
		walk = func(g *ssa.Function, d int) {
			if seen[g] || d > 3 || hit != "" || g.Blocks == nil {
				return
			}
			seen[g] = true
			for _, c := range callsIn(g) {
				if c.Common().IsInvoke() {
					if n, ok := lr.writeSinks[c.Common().Method]; ok {
						hit = n + " in " + funcName(g)
						return
					}
				}
				if sc := c.Common().StaticCallee(); sc != nil && sc.Pkg == ep && !lr.shimImpl[sc] {
					walk(sc, d+1)
				}
			}
		}
		walk(f, 0)
		if hit == "" {
			res.ok("C16-R4", construct, p.pos(f.Pos()), "no write entry of the backend reachable")
		} else {
			res.bad("C16-R4", construct, p.pos(f.Pos()), "an RPC other than Txn reaches a backend write ("+hit+"): an unsupported request is executed")
		}
	}

	// ---- R5 ----
	casFailed := p.global("pkg/storage", "ErrCASFailed")
	for _, m := range []*types.Func{r.BUpdate, r.BDelete} {
		for _, f := range p.implsOf(m) {
			if f.Pkg != p.ssaPkg("pkg/backend") {
				continue
			}
			checkFailureBranchKv(p, r, res, f, casFailed)
		}
	}
	// .. and the re-read itself: the failed-condition answer carries no key-value ("there is no such key") only where the
	// re-read said so - a read that failed for another reason is answered with the error (or with the earlier read)
	{
		bp := p.ssaPkg("pkg/backend")
		notFound := p.global("pkg/storage", "ErrKeyNotFound")
		isErrorsIs := func(c *ssa.Call, g *ssa.Global) bool {
			sc := c.Common().StaticCallee()
			if sc == nil || sc.Pkg == nil || sc.Name() != "Is" || len(c.Common().Args) != 2 {
				return false
			}
			if pp := sc.Pkg.Pkg.Path(); pp != "errors" && pp != "github.com/pkg/errors" {
				return false
			}
			ld, ok := resolve(c.Common().Args[1]).(*ssa.UnOp)
			return ok && ld.Op == token.MUL && ld.X == ssa.Value(g)
		}
		classified := func(cf condFact, g *ssa.Global) bool {
			if cf.Call != nil && cf.Want && isErrorsIs(cf.Call, g) {
				return true
			}
			if cf.X != nil && ((cf.Op == token.EQL && cf.Want) || (cf.Op == token.NEQ && !cf.Want)) {
				for _, v := range []ssa.Value{cf.X, cf.Y} {
					if ld, ok := resolve(v).(*ssa.UnOp); ok && ld.Op == token.MUL && ld.X == ssa.Value(g) {
						return true
					}
				}
			}
			return false
		}
		for _, m := range []*types.Func{r.BUpdate, r.BDelete} {
			for _, f := range p.implsOf(m) {
				if f.Pkg != bp || f.Blocks == nil {
					continue
				}
				ei := errorResultIndex(f.Signature)
				n := 0
				for _, b := range f.Blocks {
					iff := ifOf(b)
					if iff == nil {
						continue
					}
					isCas := false
					for _, cf := range expandFact(factOf(iff.Cond, true), 0) {
						if classified(cf, casFailed) {
							isCas = true
						}
					}
					if !isCas {
						continue
					}
					n++
					construct := fmt.Sprintf("%s: failed-condition answer without a key-value #%d", funcName(f), n)
					isKvStore := func(i ssa.Instruction) bool {
						st, ok := i.(*ssa.Store)
						if !ok {
							return false
						}
						fa, ok := st.Addr.(*ssa.FieldAddr)
						return ok && fieldOf(fa).Name() == "Kv" && !isNilConst(resolve(st.Val))
					}
					// a helper of the package that fills in the key-value on every one of its paths
					fillsAlways := func(h *ssa.Function) bool {
						if h == nil || h.Blocks == nil || h.Pkg != bp {
							return false
						}
						miss, _ := searchFrom(h.Blocks[0], 0, searchOpts{
							stop: isKvStore,
							bad:  func(i ssa.Instruction) bool { _, ok := i.(*ssa.Return); return ok },
						})
						return miss == nil
					}
					hit, _ := searchFrom(b.Succs[0], 0, searchOpts{
						stop: func(i ssa.Instruction) bool {
							if isKvStore(i) {
								return true
							}
							if c, ok := i.(*ssa.Call); ok && fillsAlways(c.Common().StaticCallee()) {
								return true
							}
							return false
						},
						bad: func(i ssa.Instruction) bool {
							ret, ok := i.(*ssa.Return)
							if !ok || ei < 0 || ei >= len(ret.Results) || !isNilConst(resolve(ret.Results[ei])) {
								return false
							}
							for _, cf := range dominatingFacts(ret.Block()) {
								if classified(cf, notFound) {
									return false
								}
							}
							return true
						},
					})
					if hit != nil {
						res.bad("C16-R5", construct, p.pos(hit.Pos()), "the failed-condition branch answers without a key-value and without an error on a path where the re-read was not found to report 'no such key': a read that failed for any other reason tells the client that the key does not exist (etcd answers the failure branch with the current key-value, or fails the request)")
					} else {
						res.ok("C16-R5", construct, p.pos(iff.Pos()), "no key-value only where the re-read reported not-found")
					}
				}
			}
		}
	}
	// ---- R9: the revision a Range answer names is the one its data was read at (C06-R2, C02-R4) ----
	for _, o := range p.subResult("C06", tier).Obls {
		if o.Rule == "C06-R2" {
			res.add("C16-R9", o.Rule+" "+o.Construct, o.Status, o.Pos, o.Detail)
		}
	}
	checkShimHeaders(p, lr, res, "C16-R9")
	checkEventCopiesAreComplete(p, res, "C16-R11")
	checkWritePathsReadLatest(p, r, res, "C16-R12")
	checkClientBoundsEncoding(p, r, res, "C16-R13")
	// ---- R10: a watch that cannot be served from its start revision is refused, not started past an event (C05-R10) ----
	for _, o := range p.subResult("C05", tier).Obls {
		// (C05-R18: .. and what is filtered against the start revision is the revision of the change, as in etcd)
		if o.Rule == "C05-R10" || o.Rule == "C05-R1" || o.Rule == "C05-R18" || o.Rule == "C05-R21" {
			res.add("C16-R10", o.Rule+" "+o.Construct, o.Status, o.Pos, o.Detail)
		}
	}
	// ---- R6: the Range answer is the complete snapshot (C13-R5/R6/R8) ----
	sub13 := p.subResult("C13", tier)
	for _, o := range sub13.Obls {
		// (and ordered as etcd orders it: partition results are merged in partition order, C13-R3)
		if o.Rule == "C13-R5" || o.Rule == "C13-R6" || o.Rule == "C13-R8" || o.Rule == "C13-R3" {
			res.add("C16-R6", o.Rule+" "+o.Construct, o.Status, o.Pos, o.Detail)
		}
	}

	// (R6, continued) .. and every reader is configured with the deletion marker (C03-R2): the limited and the unlimited
	// range path must agree on which records are deleted
	{
		sub3 := p.subResult("C03", tier)
		for _, o := range sub3.Obls {
			if o.Rule == "C03-R2" && (strings.Contains(o.Construct, "literal of") || strings.Contains(o.Construct, "is the deletion marker")) {
				res.add("C16-R6", o.Rule+" "+o.Construct, o.Status, o.Pos, o.Detail)
			}
		}
	}
	// ---- R8: what the transaction shapes are translated into keeps etcd's meaning only if the backend's conditions do
	// (create over a deletion record, delete guard, deletion flag: C01-R3/R4/R7), and an engine fault reaches the client
	// as an error, not as an answer (the metrics wrapper in front of every engine is transparent: C11-R5)
	{
		sub1 := p.subResult("C01", tier)
		for _, o := range sub1.Obls {
			if o.Rule == "C01-R3" || o.Rule == "C01-R4" || o.Rule == "C01-R7" {
				res.add("C16-R8", o.Rule+" "+o.Construct, o.Status, o.Pos, o.Detail)
			}
		}
		sub11 := p.subResult("C11", tier)
		for _, o := range sub11.Obls {
			if o.Rule == "C11-R5" {
				res.add("C16-R8", o.Rule+" "+o.Construct, o.Status, o.Pos, o.Detail)
			}
		}
	}

	// ---- R7: hand-off aliasing (C05-R9) ----
	checkHandOffAliasing(p, res, "C16-R7", "pkg/backend", "pkg/backend/scanner")

}

func localHelpers(f *ssa.Function, pkg *ssa.Package) []*ssa.Function {
	var out []*ssa.Function
	for _, c := range callsIn(f) {
		if sc := c.Common().StaticCallee(); sc != nil && sc.Pkg == pkg && sc.Signature.Recv() == nil && sc.Blocks != nil {
			out = append(out, sc)
		}
	}
	return out
}

func checkShimShapes(p *Prog, r *Roles, lr *leaderRoles, res *Result) {
	txnResp := p.namedType("go.etcd.io/etcd/api/v3/etcdserverpb", "TxnResponse")
	want := map[string]struct{ onSucc, onFail string }{
		"Create": {"ResponseOp_ResponsePut", "ResponseOp_ResponsePut"},
		"Update": {"ResponseOp_ResponsePut", "ResponseOp_ResponseRange"},
		"Delete": {"ResponseOp_ResponseRange", "ResponseOp_ResponseRange"},
	}
	var respF, succF *types.Var
	st := txnResp.Underlying().(*types.Struct)
	for i := 0; i < st.NumFields(); i++ {
		switch st.Field(i).Name() {
		case "Responses":
			respF = st.Field(i)
		case "Succeeded":
			succF = st.Field(i)
		}
	}
	for f := range lr.shimImpl {
		w, ok := want[f.Name()]
		if !ok || f.Synthetic != "" {
			continue
		}
		construct := funcName(f) + ": response built here with one ResponseOp of the prescribed kind"
		var problems []string
		nret := 0
		for _, b := range f.Blocks {
			ret, ok := b.Instrs[len(b.Instrs)-1].(*ssa.Return)
			if !ok || b.Comment == "recover" {
				continue
			}
			for _, v := range resolveAllCells(ret.Results[0]) {
				if isNilConst(v) {
					continue
				}
				nret++
				// the response is a literal of this method, or the literal returned by a local builder function that
				// is not itself the handler of another shape; builder parameters are mapped to the call's arguments
				type built struct {
					al     *ssa.Alloc
					facts  []condFact
					mapVal func(ssa.Value) ssa.Value
				}
				var bs []built
				switch x := v.(type) {
				case *ssa.Alloc:
					bs = append(bs, built{x, nil, func(v ssa.Value) ssa.Value { return v }})
				case *ssa.Call:
					sc := x.Common().StaticCallee()
					if sc == nil || sc.Blocks == nil || sc.Pkg != f.Pkg || lr.shimImpl[sc] || sc.Signature.Recv() != nil {
						break
					}
					call := x
					okAll := true
					var tmp []built
					for _, rb := range sc.Blocks {
						r2, ok := rb.Instrs[len(rb.Instrs)-1].(*ssa.Return)
						if !ok || rb.Comment == "recover" {
							continue
						}
						for _, v2 := range resolveAllCells(r2.Results[0]) {
							al2, ok := v2.(*ssa.Alloc)
							if !ok {
								okAll = false
								continue
							}
							tmp = append(tmp, built{al2, dominatingFacts(call.Block()), func(v ssa.Value) ssa.Value {
								if prm, ok := resolve(v).(*ssa.Parameter); ok && prm.Parent() == sc {
									return call.Common().Args[paramIndex(prm)]
								}
								return v
							}})
						}
					}
					if okAll {
						bs = tmp
					}
				}
				if len(bs) == 0 {
					problems = append(problems, "a non-nil response is not built in this method (it is obtained from "+v.String()+"): the answer of another shape is returned")
					continue
				}
				isSucceededLoad := func(v ssa.Value) bool {
					if ld, ok := resolve(v).(*ssa.UnOp); ok {
						if fa, ok := ld.X.(*ssa.FieldAddr); ok && fieldOf(fa).Name() == "Succeeded" {
							return true
						}
					}
					return false
				}
				for _, bl := range bs {
					al := bl.al
					// Succeeded copied from the backend response
					okSucc := false
					for _, s := range p.fields().stores[succF] {
						if s.Addr.(*ssa.FieldAddr).X == ssa.Value(al) && isSucceededLoad(bl.mapVal(s.Val)) {
							okSucc = true
						}
					}
					if !okSucc {
						problems = append(problems, "Succeeded is not copied from the backend's response")
					}
					// Responses: slices of length 1 with the prescribed oneof type
					nResp := 0
					for _, s := range p.fields().stores[respF] {
						if s.Addr.(*ssa.FieldAddr).X != ssa.Value(al) {
							continue
						}
						nResp++
						arr, why := responseOpsLiteral(s.Val, 0)
						if arr == nil {
							problems = append(problems, why)
							continue
						}
						at := arr.Type().(*types.Pointer).Elem().Underlying().(*types.Array)
						if at.Len() != 1 {
							problems = append(problems, fmt.Sprintf("%d response ops", at.Len()))
						}
						kind := responseOpKind(arr)
						// which branch?
						onSucc := false
						onFail := false
						facts := bl.facts
						if facts == nil {
							facts = dominatingFacts(s.Block())
						} else {
							facts = append(append([]condFact{}, facts...), localFacts(s.Block())...)
						}
						for _, cf := range facts {
							if isSucceededLoad(bl.mapVal(cf.Raw)) {
								if cf.Want {
									onSucc = true
								} else {
									onFail = true
								}
							}
						}
						switch {
						case onSucc && kind != w.onSucc:
							problems = append(problems, "success branch answers with "+kind+", expected "+w.onSucc)
						case onFail && kind != w.onFail:
							problems = append(problems, "failure branch answers with "+kind+", expected "+w.onFail)
						case !onSucc && !onFail && w.onSucc != w.onFail:
							problems = append(problems, "the response op does not depend on Succeeded")
						case !onSucc && !onFail && kind != w.onSucc:
							problems = append(problems, "answers with "+kind+", expected "+w.onSucc)
						}
					}
					if nResp == 0 {
						problems = append(problems, "Responses never set")
					}
				}
			}
		}
		if len(problems) == 0 && nret > 0 {
			res.ok("C16-R3", construct, p.pos(f.Pos()), fmt.Sprintf("%d non-nil return value(s)", nret))
		} else {
			res.bad("C16-R3", construct, p.pos(f.Pos()), "the etcd answer for this shape is not what etcd prescribes: "+strings.Join(problems, "; "))
		}
	}
	// watch conversion: DELETE -> PrevKv from the backend event's Kv
	for _, f := range p.AllFuncs {
		if f.Parent() == nil || !lr.shimImpl[f.Parent()] || f.Parent().Name() != "Watch" {
			continue
		}
		construct := funcName(f) + ": DELETE events carry PrevKv"
		found := false
		scope := []*ssa.Function{f}
		for i := 0; i < len(scope) && i < 8; i++ {
			for _, c := range callsIn(scope[i]) {
				if sc := c.Common().StaticCallee(); sc != nil && sc.Pkg == f.Pkg && sc.Blocks != nil && sc.Signature.Recv() == nil {
					scope = append(scope, sc)
				}
			}
		}
		for _, g := range scope {
			for _, b := range g.Blocks {
				for _, ins := range b.Instrs {
					st, ok := ins.(*ssa.Store)
					if !ok {
						continue
					}
					fa, ok := st.Addr.(*ssa.FieldAddr)
					if !ok || fieldOf(fa).Name() != "PrevKv" {
						continue
					}
					if c, ok := resolve(st.Val).(*ssa.Call); ok && c.Common().StaticCallee() != nil {
						if ld, ok := resolve(c.Common().Args[0]).(*ssa.UnOp); ok {
							if fa2, ok := ld.X.(*ssa.FieldAddr); ok && fieldOf(fa2).Name() == "Kv" {
								found = true
							}
						}
					}
				}
			}
		}
		if found {
			res.ok("C16-R3", construct, p.pos(f.Pos()), "PrevKv = convert(event.Kv)")
		} else {
			res.bad("C16-R3", construct, p.pos(f.Pos()), "delete events do not carry the previous key-value")
		}
	}
}

// responseOpsLiteral: the backing array of a []*ResponseOp value that is a composite literal, directly or as the
// single result of a local builder function all of whose returns are the same literal.
func responseOpsLiteral(v ssa.Value, depth int) (*ssa.Alloc, string) {
	v = resolve(v)
	switch x := v.(type) {
	case *ssa.Slice:
		if arr, ok := x.X.(*ssa.Alloc); ok {
			return arr, ""
		}
	case *ssa.Call:
		sc := x.Common().StaticCallee()
		if sc == nil || sc.Blocks == nil || depth > 2 || sc.Signature.Results().Len() != 1 {
			break
		}
		var arr *ssa.Alloc
		for _, b := range sc.Blocks {
			ret, ok := b.Instrs[len(b.Instrs)-1].(*ssa.Return)
			if !ok || b.Comment == "recover" {
				continue
			}
			a, why := responseOpsLiteral(ret.Results[0], depth+1)
			if a == nil {
				return nil, why
			}
			if arr != nil && arr != a {
				return nil, "Responses comes from a builder with several different results"
			}
			arr = a
		}
		if arr != nil {
			return arr, ""
		}
	}
	return nil, "Responses is not a literal"
}

// responseOpKind: the oneof wrapper type stored into the single ResponseOp of the array.
func responseOpKind(arr *ssa.Alloc) string {
	for _, ref := range *arr.Referrers() {
		ia, ok := ref.(*ssa.IndexAddr)
		if !ok {
			continue
		}
		for _, r2 := range *ia.Referrers() {
			st, ok := r2.(*ssa.Store)
			if !ok {
				continue
			}
			op, ok := resolve(st.Val).(*ssa.Alloc)
			if !ok {
				continue
			}
			for _, r3 := range *op.Referrers() {
				fa, ok := r3.(*ssa.FieldAddr)
				if !ok || fieldOf(fa).Name() != "Response" {
					continue
				}
				for _, r4 := range *fa.Referrers() {
					if s2, ok := r4.(*ssa.Store); ok {
						if mi, ok := s2.Val.(*ssa.MakeInterface); ok {
							t := mi.X.Type()
							if pt, ok := t.(*types.Pointer); ok {
								t = pt.Elem()
							}
							if n, ok := t.(*types.Named); ok {
								return n.Obj().Name()
							}
						}
					}
				}
			}
		}
	}
	return "?"
}

// checkFailureBranchKv: in blocks dominated by errors.Is(err, ErrCASFailed), the Kv of the response carries values
// of a point read that the failed write dominates (or, only if that read failed, the value read before).
func checkFailureBranchKv(p *Prog, r *Roles, res *Result, f *ssa.Function, casFailed *ssa.Global) {
	a := &allocInfo{p: p, r: r}
	a.compute()
	var writes []*ssa.Call
	for _, s := range a.sitesIn(f) {
		if c, ok := s.call.(*ssa.Call); ok {
			writes = append(writes, c)
		}
	}
	kvType := p.namedType("github.com/kubewharf/kubebrain-client/api/v2rpc", "KeyValue")
	n := 0
	for _, b := range f.Blocks {
		onFail := false
		for _, cf := range dominatingFacts(b) {
			if _, tgt, ok := errorsIsCall(cf.Raw); ok && cf.Want && globalLoad(tgt) == casFailed {
				onFail = true
			}
		}
		if !onFail {
			continue
		}
		// the failure branch may be carried out by a helper: everything that helper does happens after the failed write
		for _, ins := range b.Instrs {
			hc, ok := ins.(*ssa.Call)
			if !ok {
				continue
			}
			h := hc.Common().StaticCallee()
			if h == nil || h.Blocks == nil || h.Pkg != f.Pkg || h == f {
				continue
			}
			kst := kvType.Underlying().(*types.Struct)
			for _, hb := range h.Blocks {
				for _, hi := range hb.Instrs {
					al, ok := hi.(*ssa.Alloc)
					if !ok || !types.Identical(al.Type(), types.NewPointer(kvType)) {
						continue
					}
					// a pure builder (fields are its own parameters) is judged at its call, below
					pure := false
					for i := 0; i < kst.NumFields(); i++ {
						if fname := kst.Field(i).Name(); fname == "Value" || fname == "Revision" {
							if fv, ok := p.builtFieldValue(al, kst.Field(i)); ok {
								if prm, isPrm := p.resolveDeep(fv).(*ssa.Parameter); isPrm && prm.Parent() == h {
									pure = true
								}
							}
						}
					}
					if pure {
						continue
					}
					n++
					construct := fmt.Sprintf("%s: key-value of the failed-condition answer #%d", funcName(f), n)
					why := ""
					for i := 0; i < kst.NumFields(); i++ {
						fname := kst.Field(i).Name()
						if fname != "Value" && fname != "Revision" {
							continue
						}
						fv, ok := p.builtFieldValue(al, kst.Field(i))
						if !ok {
							continue
						}
						rc, _, isRead := extractOf(p.resolveDeep(fv))
						switch {
						case isRead && rc.Parent() == h:
							// a read made by the helper itself: after the failed write; it must read the latest state
							for _, a := range rc.Common().Args {
								if bt, ok := a.Type().Underlying().(*types.Basic); ok && bt.Kind() == types.Uint64 && !isZeroConst(a) {
									why = "field " + fname + " comes from a re-read that is pinned to a revision instead of reading the latest state"
								}
							}
						default:
							// the earlier value is an acceptable answer only when the helper's own re-read failed
							fallback := false
							for _, cf := range dominatingFacts(hb) {
								if cf.X != nil && isNilConst(cf.Y) && ((cf.Op == token.NEQ && cf.Want) || (cf.Op == token.EQL && !cf.Want)) {
									if rc2, _, ok := extractOf(cf.X); ok && rc2.Parent() == h && rc2.Common().StaticCallee() != nil && errorResultIndex(rc2.Common().Signature()) >= 0 {
										fallback = true
									}
								}
							}
							if !fallback {
								why = "field " + fname + " of the answer built in " + funcName(h) + " is not taken from a read made by that helper after the failed write"
							}
						}
					}
					if why == "" {
						res.ok("C16-R5", construct, p.pos(al.Pos()), "built by "+funcName(h)+", called on the failure branch, from its own read of the latest state")
					} else {
						res.bad("C16-R5", construct, p.pos(al.Pos()), "the failure branch answers with a key-value read before the write was attempted: after a concurrent update it reports a stale value with the caller's own expected revision, which etcd can never answer ("+why+")")
					}
				}
			}
		}
		for _, ins := range b.Instrs {
			// a key-value literal, or the call of a local builder of key-values
			kvVal, isVal := ins.(ssa.Value)
			if !isVal || !types.Identical(kvVal.Type(), types.NewPointer(kvType)) {
				continue
			}
			switch ins.(type) {
			case *ssa.Alloc, *ssa.Call:
			default:
				continue
			}
			var fieldVals []struct {
				name string
				val  ssa.Value
			}
			built := false
			kst := kvType.Underlying().(*types.Struct)
			for i := 0; i < kst.NumFields(); i++ {
				if n := kst.Field(i).Name(); n == "Value" || n == "Revision" {
					if fv, ok := p.builtFieldValue(kvVal, kst.Field(i)); ok {
						built = true
						fieldVals = append(fieldVals, struct {
							name string
							val  ssa.Value
						}{n, fv})
					}
				}
			}
			if !built {
				continue
			}
			n++
			construct := fmt.Sprintf("%s: key-value of the failed-condition answer #%d", funcName(f), n)
			// Value / Revision fields
			good, why := true, ""
			for _, fvv := range fieldVals {
				fname := fvv.name
				st := struct{ Val ssa.Value }{fvv.val}
				{
					c, _, ok := extractOf(p.resolveDeep(st.Val))
					fresh, pinned := false, false
					if ok {
						after, before := false, false
						for _, w := range writes {
							if w == c {
								before = true // the value comes out of the write call itself (its internal pre-read)
							}
							if reaches(w, c) {
								after = true
							}
							if reaches(c, w) {
								before = true
							}
						}
						fresh = after && !before
						if fresh {
							// the re-read must name no revision (0 = latest): a read pinned to the failed write's own
							// revision returns the state before the concurrent writer
							for _, a := range c.Common().Args {
								if bt, ok := a.Type().Underlying().(*types.Basic); ok && bt.Kind() == types.Uint64 && !isZeroConst(a) {
									fresh = false
									pinned = true
								}
							}
						}
					}
					if fresh {
						// .. and the re-read succeeded: what it returns next to an error (for a deleted key: no value, the
						// revision of the deletion) is not the state of a key
						if ei := errorResultIndex(c.Common().Signature()); ei >= 0 {
							okRead := false
							for _, cf := range dominatingFacts(b) {
								if cf.X == nil || !isNilConst(cf.Y) || !((cf.Op == token.EQL && cf.Want) || (cf.Op == token.NEQ && !cf.Want)) {
									continue
								}
								if rc, idx, ok := extractOf(p.resolveDeep(cf.X)); ok && rc == c && idx == ei {
									okRead = true
								}
							}
							if !okRead {
								good, why = false, "field "+fname+" is taken from the re-read without its error having been found nil: for a key that is deleted by now the re-read reports 'not found' together with the revision of the deletion, and the answer must carry no key-value"
							}
						}
						continue
					}
					// fallback allowed only when the re-read failed
					fallback := false
					for _, cf := range dominatingFacts(b) {
						if cf.X != nil && isNilConst(cf.Y) && ((cf.Op == token.NEQ && cf.Want) || (cf.Op == token.EQL && !cf.Want)) {
							if rc, _, ok := extractOf(cf.X); ok {
								for _, w := range writes {
									if reaches(w, rc) && rc != w {
										fallback = true
									}
								}
							}
						}
					}
					if pinned {
						good, why = false, "field "+fname+" comes from a re-read that is pinned to a revision instead of reading the latest state"
					} else if !fallback {
						good, why = false, "field "+fname+" is not taken from a read made after the failed write"
					}
				}
			}
			if good {
				res.ok("C16-R5", construct, p.pos(ins.Pos()), "values come from the point read that follows the failed write (or from the earlier read only if that re-read failed)")
			} else {
				res.bad("C16-R5", construct, p.pos(ins.Pos()), "the failure branch answers with a key-value read before the write was attempted: after a concurrent update it reports a stale value with the caller's own expected revision, which etcd can never answer ("+why+")")
			}
		}
	}
	if n == 0 {
		res.bad("C16-R5", funcName(f)+": key-value of the failed-condition answer", p.pos(f.Pos()), "the failed-condition branch does not return the current key-value")
	}
}

// checkShimHeaders: the etcd translation layer answers with the header the backend answered with. Every
// etcdserverpb.ResponseHeader that a method of the shim builds from a revision gets that revision from the Revision
// field of a kubebrain ResponseHeader (the backend's response, also inside a streamed response) - never from a
// separate look at the committed revision, which may have moved on since the backend read its data (header newer
// than the snapshot) or may lag behind a version that is stored but not sequenced yet (header older than the data).
func checkShimHeaders(p *Prog, lr *leaderRoles, res *Result, rule string) {
	hdr := p.namedType("github.com/kubewharf/kubebrain-client/api/v2rpc", "ResponseHeader")
	var hdrRev *types.Var
	hs := hdr.Underlying().(*types.Struct)
	for i := 0; i < hs.NumFields(); i++ {
		if hs.Field(i).Name() == "Revision" {
			hdrRev = hs.Field(i)
		}
	}
	etcdHdr := p.namedType("go.etcd.io/etcd/api/v3/etcdserverpb", "ResponseHeader")
	// classify the revision operand: 1 = only loads of the backend header's Revision field (through conversions,
	// phis and local variables), 2 = something else is mixed in (returned), 0 = nothing recognised
	classify := func(v ssa.Value) (int, ssa.Value) {
		seen := map[ssa.Value]bool{}
		good, other := false, ssa.Value(nil)
		var walk func(v ssa.Value, d int)
		walk = func(v ssa.Value, d int) {
			if v == nil || seen[v] || d > 20 {
				return
			}
			seen[v] = true
			for _, x := range resolveAll(v) {
				switch y := x.(type) {
				case *ssa.Convert:
					walk(y.X, d+1)
				case *ssa.ChangeType:
					walk(y.X, d+1)
				case *ssa.UnOp:
					if fa, ok := y.X.(*ssa.FieldAddr); ok && y.Op == token.MUL && fieldOf(fa) == hdrRev {
						good = true
					} else if y != v {
						walk(y, d+1)
					} else if other == nil {
						other = y
					}
				case *ssa.Field:
					if fieldOfField(y) == hdrRev {
						good = true
					} else if other == nil {
						other = y
					}
				case *ssa.Phi:
					if y != v {
						walk(y, d+1)
					}
				case *ssa.Parameter:
					// a helper of the shim that is handed the revision
					acts := p.paramActuals(y)
					if len(acts) == 0 && other == nil {
						other = y
					}
					for _, a := range acts {
						walk(a, d+1)
					}
				default:
					if other == nil {
						other = x
					}
				}
			}
		}
		walk(v, 0)
		switch {
		case other != nil:
			return 2, other
		case good:
			return 1, nil
		}
		return 0, nil
	}
	var fs []*ssa.Function
	for f := range lr.shimImpl {
		fs = append(fs, f)
		fs = append(fs, allAnon(f)...)
	}
	sort.Slice(fs, func(i, j int) bool { return funcName(fs[i]) < funcName(fs[j]) })
	n := 0
	for _, f := range fs {
		k := 0
		for _, c := range callsIn(f) {
			sc := c.Common().StaticCallee()
			if sc == nil || sc.Signature.Results().Len() != 1 || !types.Identical(sc.Signature.Results().At(0).Type(), types.NewPointer(etcdHdr)) || len(c.Common().Args) != 1 {
				continue
			}
			k++
			n++
			top := f
			for top.Parent() != nil {
				top = top.Parent()
			}
			construct := fmt.Sprintf("%s: header #%d carries the backend's header revision", funcName(top), k)
			arg := c.Common().Args[0]
			switch cls, o := classify(arg); {
			case cls == 1:
				res.ok(rule, construct, p.pos(c.Pos()), "Revision field of the backend's response header")
			case cls == 2:
				res.bad(rule, construct, p.pos(c.Pos()), "the header revision of an answer is taken from something other than the header of the backend's response ("+o.String()+"): a separate look at the committed revision can name a revision newer than the snapshot the data was read at, or older than the modification revision of the data it carries")
			default:
				res.bad(rule, construct, p.pos(c.Pos()), "the header revision of an answer does not derive from the header of the backend's response")
			}
		}
	}
	if n == 0 {
		res.und(rule, "etcd shim: response headers", "-", "no header construction found in the shim")
	}
	// the revision an etcd event names for its key-value: where the watch translation sets ModRevision itself (the
	// DELETE event, whose key-value is built in place), it is the revision of the event - the watch answer's header is
	// taken from the last event's ModRevision, and the deleted version's own revision is older than the events before it
	evT := p.namedType("github.com/kubewharf/kubebrain-client/api/v2rpc", "Event")
	var evRev *types.Var
	es := evT.Underlying().(*types.Struct)
	for i := 0; i < es.NumFields(); i++ {
		if es.Field(i).Name() == "Revision" {
			evRev = es.Field(i)
		}
	}
	for _, f := range fs {
		usesEvent := false
		for _, b := range f.Blocks {
			for _, ins := range b.Instrs {
				if fa, ok := ins.(*ssa.FieldAddr); ok && fieldOf(fa) == evRev {
					usesEvent = true
				}
			}
		}
		k := 0
		for _, b := range f.Blocks {
			for _, ins := range b.Instrs {
				st, ok := ins.(*ssa.Store)
				if !ok {
					continue
				}
				fa, ok := st.Addr.(*ssa.FieldAddr)
				if !ok || fieldOf(fa).Name() != "ModRevision" || fieldOf(fa).Pkg() == nil || !strings.Contains(fieldOf(fa).Pkg().Path(), "mvccpb") {
					continue
				}
				// only translations of events (functions that look at an event's revision, or literals nested in them)
				top := f
				for top.Parent() != nil {
					top = top.Parent()
				}
				if !usesEvent && top == f {
					continue
				}
				if !usesEvent {
					// a literal of the watch translation that never looks at the event's revision
					isWatch := false
					for _, g := range withAnon(top) {
						for _, b2 := range g.Blocks {
							for _, i2 := range b2.Instrs {
								if fa2, ok := i2.(*ssa.FieldAddr); ok && fieldOf(fa2).Pkg() != nil && fieldOf(fa2).Name() == "PrevKv" && strings.Contains(fieldOf(fa2).Pkg().Path(), "mvccpb") {
									isWatch = true
								}
							}
						}
					}
					if !isWatch {
						continue
					}
				}
				k++
				construct := fmt.Sprintf("%s: ModRevision #%d set by the event translation is the event's revision", funcName(top), k)
				good := derivesFromCallArgs(p, st.Val, func(x ssa.Value) bool {
					if ld, ok := x.(*ssa.UnOp); ok && ld.Op == token.MUL {
						if fa2, ok := ld.X.(*ssa.FieldAddr); ok && fieldOf(fa2) == evRev {
							return true
						}
					}
					return false
				})
				if good {
					res.ok(rule, construct, p.pos(st.Pos()), "Event.Revision")
				} else {
					res.bad(rule, construct, p.pos(st.Pos()), "the key-value of a translated event names a revision other than the event's own (for a DELETE: the revision of the deleted version): the watch answer's header is taken from the last event's ModRevision and then lies below the revisions of the events it carries")
				}
			}
		}
	}
}

func allAnon(f *ssa.Function) []*ssa.Function {
	var out []*ssa.Function
	for _, a := range f.AnonFuncs {
		out = append(out, a)
		out = append(out, allAnon(a)...)
	}
	return out
}

// checkEventCopiesAreComplete (C16-R11): where the server layer builds an etcd event from another etcd event (the
// follower's proxy hands on what it received from the leader), it copies every field: an event rebuilt from Type and
// Kv alone loses PrevKv, and a DELETE reaches the client without the object that was deleted - which the leader's own
// watch does deliver.
func checkEventCopiesAreComplete(p *Prog, res *Result, rule string) {
	n := 0
	for _, f := range p.AllFuncs {
		if f.Pkg == nil || f.Blocks == nil || !strings.HasPrefix(f.Pkg.Pkg.Path(), modPath+"/pkg/server") {
			continue
		}
		k := 0
		for _, b := range f.Blocks {
			for _, ins := range b.Instrs {
				al, ok := ins.(*ssa.Alloc)
				if !ok {
					continue
				}
				pt, ok := al.Type().Underlying().(*types.Pointer)
				if !ok {
					continue
				}
				nm, ok := pt.Elem().(*types.Named)
				if !ok || nm.Obj().Name() != "Event" || nm.Obj().Pkg() == nil || !strings.HasSuffix(nm.Obj().Pkg().Path(), "mvccpb") {
					continue
				}
				st := nm.Underlying().(*types.Struct)
				// fields stored, and whether a stored value is the same-named field of another event
				stored := map[string]bool{}
				fromEvent := false
				for _, ref := range *al.Referrers() {
					fa, ok := ref.(*ssa.FieldAddr)
					if !ok {
						continue
					}
					for _, r2 := range *fa.Referrers() {
						sv, ok := r2.(*ssa.Store)
						if !ok || sv.Addr != ssa.Value(fa) {
							continue
						}
						stored[fieldOf(fa).Name()] = true
						if ld, ok := resolve(sv.Val).(*ssa.UnOp); ok && ld.Op == token.MUL {
							if sfa, ok := ld.X.(*ssa.FieldAddr); ok && fieldOf(sfa).Name() == fieldOf(fa).Name() {
								if spt, ok := sfa.X.Type().Underlying().(*types.Pointer); ok {
									if snm, ok := spt.Elem().(*types.Named); ok && snm.Obj().Name() == "Event" {
										fromEvent = true
									}
								}
							}
						}
					}
				}
				if !fromEvent {
					continue
				}
				n++
				k++
				construct := fmt.Sprintf("%s: event #%d rebuilt from another event", funcName(f), k)
				var missing []string
				for i := 0; i < st.NumFields(); i++ {
					fn := st.Field(i).Name()
					if !st.Field(i).Exported() || strings.HasPrefix(fn, "XXX_") {
						continue
					}
					if !stored[fn] {
						missing = append(missing, fn)
					}
				}
				if len(missing) > 0 {
					res.bad(rule, construct, p.pos(al.Pos()), "an etcd event is rebuilt from another one without its field(s) "+strings.Join(missing, ", ")+": a DELETE handed on this way carries no previous key-value, although the same watch on the leader does")
				} else {
					res.ok(rule, construct, p.pos(al.Pos()), "every field copied")
				}
			}
		}
	}
	if n == 0 {
		res.ok(rule, "events rebuilt from events", "-", "the server layer hands received events on as they are")
	}
}
