package main

import (
	"fmt"
	"go/token"
	"go/types"

	"golang.org/x/tools/go/ssa"
)

// Order on a channel is the order of its sends only while one goroutine at a time sends on it, and what a receiver
// sees is gap-free only while nobody else receives from it. checkWatchChannelPeers decides those two shape conditions
// for the two channels of a watch: the subscriber channel (hub -> forwarder) and the result channel (replay, then
// forwarder -> client).
//
//	(a) no function of the hub receives from a subscriber channel (the hub sends, and closes);
//	(b) on every path of Watch at most one goroutine is started that receives from the subscriber channel, and Watch
//	    itself does not receive from it;
//	(c) on every path of Watch, once a goroutine that sends on the result channel has been started, nothing else that
//	    sends on it runs or is started (the replay of cached events is synchronous and precedes the forwarder).
func checkWatchChannelPeers(p *Prog, w *watchRoles, res *Result, rule string) {
	bp := p.ssaPkg("pkg/backend")
	// ---- (a) ----
	isHubFn := func(f *ssa.Function) bool {
		for f.Parent() != nil {
			f = f.Parent()
		}
		if f.Signature.Recv() == nil {
			return false
		}
		t := f.Signature.Recv().Type()
		if pt, ok := t.(*types.Pointer); ok {
			t = pt.Elem()
		}
		return types.Identical(t, w.hubType)
	}
	var isSub func(v ssa.Value, d int) bool
	isSub = func(v ssa.Value, d int) bool {
		if d > 4 {
			return false
		}
		v = p.resolveDeep(v)
		switch x := v.(type) {
		case *ssa.MakeChan:
			return isHubFn(x.Parent())
		case *ssa.Extract:
			if nx, ok := x.Tuple.(*ssa.Next); ok && x.Index == 1 {
				if rg, ok := nx.Iter.(*ssa.Range); ok && isSubsMap(rg.X, w.subsField) {
					return true
				}
			}
		case *ssa.Phi:
			for _, e := range x.Edges {
				if isSub(e, d+1) {
					return true
				}
			}
		case *ssa.UnOp:
			// an element of a slice of subscriber channels collected by the function (the slow list)
			if ia, ok := x.X.(*ssa.IndexAddr); ok && x.Op == token.MUL {
				_ = ia
				return true
			}
		case *ssa.Parameter:
			for _, a := range p.paramActuals(x) {
				if isSub(a, d+1) {
					return true
				}
			}
			// a go statement or a deferred call passes it
			p.buildCallers()
			for _, cs := range p.callers[x.Parent()] {
				idx := paramIndex(x)
				if idx < len(cs.Common().Args) && isSub(cs.Common().Args[idx], d+1) {
					return true
				}
			}
		}
		return false
	}
	nRecv := 0
	for _, f := range p.AllFuncs {
		if f.Pkg != bp || !isHubFn(f) {
			continue
		}
		for _, b := range f.Blocks {
			for _, ins := range b.Instrs {
				var chans []ssa.Value
				switch x := ins.(type) {
				case *ssa.UnOp:
					if x.Op == token.ARROW && isEventSliceChan(x.X.Type()) {
						chans = append(chans, x.X)
					}
				case *ssa.Select:
					for _, st := range x.States {
						if st.Dir == types.RecvOnly && isEventSliceChan(st.Chan.Type()) {
							chans = append(chans, st.Chan)
						}
					}
				}
				for _, ch := range chans {
					nRecv++
					construct := fmt.Sprintf("%s: receive #%d is not on a subscriber channel", funcName(f), nRecv)
					if isSub(ch, 0) {
						res.bad(rule, construct, p.pos(ins.Pos()), "the hub takes batches out of a subscriber channel: a watcher that is reading at that moment gets a batch that does not follow the one before, and goes on")
					} else {
						res.ok(rule, construct, p.pos(ins.Pos()), "the hub's input channel")
					}
				}
			}
		}
	}

	// ---- (b), (c) ----
	wf := w.watchImpl
	var subCh, resultCh ssa.Value
	for _, c := range callsIn(wf) {
		if c.Common().StaticCallee() == w.register {
			if call, ok := c.(*ssa.Call); ok {
				if ex := extractsOf(call); len(ex) > 0 {
					subCh = ex[0]
				} else {
					subCh = call
				}
			}
		}
	}
	for _, b := range wf.Blocks {
		for _, ins := range b.Instrs {
			if mk, ok := ins.(*ssa.MakeChan); ok && isEventSliceChan(mk.Type()) {
				resultCh = mk
			}
		}
	}
	if subCh == nil || resultCh == nil {
		res.und(rule, funcName(wf)+": subscriber channel / result channel", p.pos(wf.Pos()), "not identified")
		return
	}
	type peer struct {
		ins  ssa.Instruction
		isGo bool
	}
	peersOf := func(ch ssa.Value, send bool) []peer {
		var out []peer
		is := func(v ssa.Value) bool { return p.resolveDeep(v) == ch }
		for _, b := range wf.Blocks {
			for _, ins := range b.Instrs {
				switch k := p.chanUseOf(ins, is, func(bnd ssa.Value) bool { return p.resolveDeep(bnd) == ch || bindingCellHolds(p, bnd, ch) }, send, 0); k {
				case peerSync:
					out = append(out, peer{ins, false})
				case peerGo:
					out = append(out, peer{ins, true})
				}
			}
		}
		return out
	}
	check := func(ch ssa.Value, send bool, what, construct, why string) {
		peers := peersOf(ch, send)
		isPeer := map[ssa.Instruction]bool{}
		for _, pr := range peers {
			isPeer[pr.ins] = true
		}
		nGo := 0
		bad := false
		for _, pr := range peers {
			if !pr.isGo {
				if !send {
					bad = true
					res.bad(rule, construct, p.pos(pr.ins.Pos()), "Watch itself "+what+" the channel: "+why)
				}
				continue
			}
			nGo++
			pa := posOf(pr.ins)
			later, _ := searchFrom(pa.b, pa.i+1, searchOpts{bad: func(i ssa.Instruction) bool { return isPeer[i] }})
			if later != nil {
				bad = true
				res.bad(rule, construct, p.pos(later.Pos()), fmt.Sprintf("after the goroutine started at %s, which %s the channel, a second party that %s it runs on the same path: %s", p.pos(pr.ins.Pos()), what, what, why))
			}
		}
		switch {
		case bad:
		case nGo == 0:
			res.und(rule, construct, p.pos(wf.Pos()), "no goroutine that "+what+" the channel is started by Watch")
		default:
			res.ok(rule, construct, p.pos(wf.Pos()), fmt.Sprintf("%d go statement(s) hand the channel to a goroutine that %s it; none is followed by another party on any path", nGo, what))
		}
	}
	check(subCh, false, "receives from", funcName(wf)+": one consumer of the subscriber channel",
		"two receivers split the batches between them, each sees gaps and goes on")
	check(resultCh, true, "sends on", funcName(wf)+": one sender at a time on the result channel",
		"live events can be delivered before (or between) the replayed ones, out of revision order")
}

// bindingCellHolds: bnd is the cell of a captured local variable whose only value is v.
func bindingCellHolds(p *Prog, bnd ssa.Value, v ssa.Value) bool {
	al, ok := bnd.(*ssa.Alloc)
	if !ok {
		return false
	}
	cv, ok := uniqueCellValue(p, al)
	return ok && p.resolveDeep(cv) == v
}

type peerKind int

const (
	peerNone peerKind = iota
	peerSync          // uses the channel in the calling goroutine
	peerGo            // hands the channel to a goroutine that uses it
)

// chanUseOf: what one instruction does with the channel recognised by is (an operand) / isBinding (a closure binding):
// sends on it (send) or receives from it (!send) right here, calls something that does, or starts a goroutine that does.
func (p *Prog) chanUseOf(ins ssa.Instruction, is func(ssa.Value) bool, isBinding func(ssa.Value) bool, send bool, depth int) peerKind {
	if depth > 4 {
		return peerNone
	}
	switch x := ins.(type) {
	case *ssa.Send:
		if send && is(x.Chan) {
			return peerSync
		}
	case *ssa.UnOp:
		if !send && x.Op == token.ARROW && is(x.X) {
			return peerSync
		}
	case *ssa.Select:
		for _, st := range x.States {
			if is(st.Chan) && (st.Dir == types.SendOnly) == send {
				return peerSync
			}
		}
	case ssa.CallInstruction:
		if _, isDefer := x.(*ssa.Defer); isDefer {
			return peerNone
		}
		_, isGo := x.(*ssa.Go)
		k := peerNone
		for ai, a := range x.Common().Args {
			if !is(a) {
				continue
			}
			for _, callee := range p.calleesOf(x) {
				if callee.Blocks == nil || ai >= len(callee.Params) {
					continue
				}
				prm := callee.Params[ai]
				if kk := p.chanUseIn(callee, func(v ssa.Value) bool { return p.resolveDeep(v) == ssa.Value(prm) }, send, depth+1); kk > k {
					k = kk
				}
			}
		}
		// a function literal that captured the channel
		if mc, ok := resolve(x.Common().Value).(*ssa.MakeClosure); ok {
			fn := mc.Fn.(*ssa.Function)
			for bi, bnd := range mc.Bindings {
				if !is(bnd) && !(isBinding != nil && isBinding(bnd)) {
					continue
				}
				fv := fn.FreeVars[bi]
				isFV := func(v ssa.Value) bool {
					v = resolve(v)
					if v == ssa.Value(fv) {
						return true
					}
					ld, ok := v.(*ssa.UnOp)
					return ok && ld.Op == token.MUL && ld.X == ssa.Value(fv)
				}
				if kk := p.chanUseIn(fn, isFV, send, depth+1); kk > k {
					k = kk
				}
			}
		}
		if isGo && k != peerNone {
			return peerGo
		}
		return k
	}
	return peerNone
}

// chanUseIn: the strongest use of the channel by the instructions of f.
func (p *Prog) chanUseIn(f *ssa.Function, is func(ssa.Value) bool, send bool, depth int) peerKind {
	k := peerNone
	for _, b := range f.Blocks {
		for _, ins := range b.Instrs {
			if kk := p.chanUseOf(ins, is, is, send, depth); kk > k {
				k = kk
			}
		}
	}
	return k
}

// checkForwarderFiltersEveryBatch: the per-watch forwarder is started with the revision the live stream resumes at;
// batches that were already in flight when the watcher registered can carry older events, and not only the first
// batch. Every batch the forwarder receives is filtered with that parameter: (a) wherever the forwarder uses the
// revision it was started with, it uses the parameter itself - never a variable that some path has overwritten;
// (b) no path from a receive on the input channel to a send on the output channel avoids such a use.
func checkForwarderFiltersEveryBatch(p *Prog, w *watchRoles, res *Result, rule string) {
	f := w.forwarder
	var revPrm *ssa.Parameter
	for _, prm := range f.Params {
		if isUint64(prm.Type()) {
			revPrm = prm
		}
	}
	construct := funcName(f) + ": every received batch is filtered with the start revision"
	if revPrm == nil {
		res.und(rule, construct, p.pos(f.Pos()), "the forwarder has no revision parameter")
		return
	}
	usesPrm := func(ins ssa.Instruction) (uses bool, pure bool) {
		var ops []ssa.Value
		switch x := ins.(type) {
		case ssa.CallInstruction:
			ops = x.Common().Args
		case *ssa.BinOp:
			ops = []ssa.Value{x.X, x.Y}
		default:
			return false, false
		}
		pure = true
		for _, o := range ops {
			if !isUint64(o.Type()) {
				continue
			}
			alts := resolveAll(o)
			has := false
			for _, a := range alts {
				if a == ssa.Value(revPrm) {
					has = true
				}
			}
			if has {
				uses = true
				if len(alts) != 1 {
					pure = false
				}
			}
		}
		return uses, pure
	}
	var impure ssa.Instruction
	nUses := 0
	for _, b := range f.Blocks {
		for _, ins := range b.Instrs {
			if u, pure := usesPrm(ins); u {
				if _, isCall := ins.(ssa.CallInstruction); isCall {
					if c := ins.(ssa.CallInstruction); c.Common().StaticCallee() != nil && c.Common().StaticCallee().Pkg != f.Pkg {
						continue // logging
					}
				}
				nUses++
				if !pure {
					impure = ins
				}
			}
		}
	}
	if impure != nil {
		res.bad(rule, construct, p.pos(impure.Pos()), "the revision the forwarder filters with is not the parameter it was started with on every path (the variable is overwritten, e.g. cleared after the first batch): a later batch that was in flight when the watcher registered is forwarded unfiltered - events below the start revision, or events the replay has already delivered")
		return
	}
	if nUses == 0 {
		res.bad(rule, construct, p.pos(f.Pos()), "the forwarder never uses the revision it was started with")
		return
	}
	// (b)
	var unfiltered ssa.Instruction
	for _, b := range f.Blocks {
		for i, ins := range b.Instrs {
			u, ok := ins.(*ssa.UnOp)
			if !ok || u.Op != token.ARROW || !isEventSliceChan(u.X.Type()) {
				continue
			}
			hit, _ := searchFrom(b, i+1, searchOpts{
				stop: func(x ssa.Instruction) bool {
					if c, ok := x.(ssa.CallInstruction); ok && c.Common().StaticCallee() != nil && c.Common().StaticCallee().Pkg != f.Pkg {
						return false
					}
					uu, _ := usesPrm(x)
					return uu
				},
				bad: func(x ssa.Instruction) bool {
					s, ok := x.(*ssa.Send)
					return ok && isEventSliceChan(s.Chan.Type())
				},
			})
			if hit != nil {
				unfiltered = hit
			}
		}
	}
	if unfiltered != nil {
		res.bad(rule, construct, p.pos(unfiltered.Pos()), "a path from receiving a batch to forwarding it does not pass the filter on the start revision")
	} else {
		res.ok(rule, construct, p.pos(f.Pos()), fmt.Sprintf("%d use(s) of the start-revision parameter, always the parameter itself; every receive-to-send path passes one", nUses))
	}
}
