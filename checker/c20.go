package main

import (
	"fmt"
	"go/constant"
	"go/token"
	"go/types"
	"regexp"
	"sort"
	"strings"

	"golang.org/x/tools/go/ssa"
)

func init() { register("C20", checkC20) }

// ---------- constant string sets ----------

// stringValues resolves a string-typed value to the finite set of constants it can take: constants, concatenations,
// phis and parameters expanded over all static call sites (bounded depth). ok=false when some contribution is unknown.
func (p *Prog) stringValues(v ssa.Value, depth int) (vals []string, ok bool) {
	if depth > 4 {
		return nil, false
	}
	v = resolve(v)
	switch x := v.(type) {
	case *ssa.Const:
		if s, isS := constString(x); isS {
			return []string{s}, true
		}
		return nil, false
	case *ssa.BinOp:
		if x.Op != token.ADD {
			return nil, false
		}
		a, ok1 := p.stringValues(x.X, depth)
		b, ok2 := p.stringValues(x.Y, depth)
		if !ok1 || !ok2 {
			return nil, false
		}
		for _, s := range a {
			for _, t := range b {
				vals = append(vals, s+t)
			}
		}
		return vals, true
	case *ssa.Phi:
		for _, e := range x.Edges {
			a, ok := p.stringValues(e, depth+1)
			if !ok {
				return nil, false
			}
			vals = append(vals, a...)
		}
		return uniq(vals), true
	case *ssa.Parameter:
		acts := p.paramActuals(x)
		if len(acts) == 0 {
			return nil, false
		}
		for _, a := range acts {
			s, ok := p.stringValues(a, depth+1)
			if !ok {
				return nil, false
			}
			vals = append(vals, s...)
		}
		return uniq(vals), true
	case *ssa.UnOp, *ssa.Field:
		// a field of a struct value that a constructor of the repository has just built from its parameters
		// (metrics.Tag(name, value).Value), directly or through a local variable the struct was assigned to: the
		// argument of that call
		ctorArg := func(v ssa.Value, fv *types.Var) ssa.Value {
			call, ok := resolve(v).(*ssa.Call)
			if !ok {
				return nil
			}
			sc := call.Common().StaticCallee()
			if sc == nil || sc.Blocks == nil || sc.Pkg == nil || !strings.HasPrefix(sc.Pkg.Pkg.Path(), modPath) || len(sc.Blocks) != 1 {
				return nil
			}
			ret, ok := sc.Blocks[0].Instrs[len(sc.Blocks[0].Instrs)-1].(*ssa.Return)
			if !ok || len(ret.Results) != 1 {
				return nil
			}
			ld, ok := ret.Results[0].(*ssa.UnOp)
			if !ok || ld.Op != token.MUL {
				return nil
			}
			al, ok := ld.X.(*ssa.Alloc)
			if !ok {
				return nil
			}
			for _, ref := range *al.Referrers() {
				fa, ok := ref.(*ssa.FieldAddr)
				if !ok || fieldOf(fa) != fv {
					continue
				}
				for _, r2 := range *fa.Referrers() {
					if st, ok := r2.(*ssa.Store); ok && st.Addr == ssa.Value(fa) {
						if prm, ok := st.Val.(*ssa.Parameter); ok && paramIndex(prm) < len(call.Common().Args) {
							return call.Common().Args[paramIndex(prm)]
						}
					}
				}
			}
			return nil
		}
		if fx, ok := x.(*ssa.Field); ok {
			if a := ctorArg(fx.X, fieldOfField(fx)); a != nil {
				return p.stringValues(a, depth+1)
			}
		}
		if ld, ok := x.(*ssa.UnOp); ok && ld.Op == token.MUL {
			if fa, ok := ld.X.(*ssa.FieldAddr); ok {
				if cell, ok := fa.X.(*ssa.Alloc); ok {
					all, n := true, 0
					for _, ref := range *cell.Referrers() {
						switch y := ref.(type) {
						case *ssa.Store:
							if y.Addr != ssa.Value(cell) {
								all = false
								continue
							}
							a := ctorArg(y.Val, fieldOf(fa))
							if a == nil {
								all = false
								continue
							}
							s, ok := p.stringValues(a, depth+1)
							if !ok {
								all = false
								continue
							}
							n++
							vals = append(vals, s...)
						case *ssa.FieldAddr:
							for _, r2 := range *y.Referrers() {
								if st, ok := r2.(*ssa.Store); ok && st.Addr == ssa.Value(y) && fieldOf(y) == fieldOf(fa) {
									all = false
								}
							}
						}
					}
					if all && n > 0 {
						return uniq(vals), true
					}
					vals = nil
				}
			}
		}
		// a struct field: every value stored into it anywhere (field-based; only if its address is never handed out)
		var fv *types.Var
		switch y := x.(type) {
		case *ssa.UnOp:
			if fa, ok := y.X.(*ssa.FieldAddr); ok && y.Op == token.MUL {
				fv = fieldOf(fa)
			}
		case *ssa.Field:
			fv = fieldOfField(y)
		}
		if fv == nil || fv.Pkg() == nil || !strings.HasPrefix(fv.Pkg().Path(), modPath) {
			return nil, false
		}
		for _, fa := range p.fields().addrs[fv] {
			for _, ref := range *fa.Referrers() {
				switch u := ref.(type) {
				case *ssa.UnOp:
				case *ssa.Store:
					if u.Addr != ssa.Value(fa) {
						return nil, false
					}
				case *ssa.DebugRef:
				default:
					return nil, false
				}
			}
		}
		stores := p.fieldStores(fv)
		if len(stores) == 0 {
			return nil, false
		}
		for _, sv := range stores {
			a, ok := p.stringValues(sv, depth+1)
			if !ok {
				return nil, false
			}
			vals = append(vals, a...)
		}
		return uniq(vals), true
	}
	return nil, false
}

func uniq(in []string) []string {
	m := map[string]bool{}
	var out []string
	for _, s := range in {
		if !m[s] {
			m[s] = true
			out = append(out, s)
		}
	}
	sort.Strings(out)
	return out
}

// ---------- label names ----------

type labelRes struct {
	visiting map[*types.Var]bool
	diverged string // set when two sources of one tag list disagree on the label names (a defect, not an unknown)
	p        *Prog
	tagFn    *ssa.Function // metrics.Tag
	tType    types.Type    // metrics.T
	nameFv   *types.Var    // metrics.T.Name
}

// tagNames resolves a metrics.T value to the set of label NAMES it can carry.
func (lr *labelRes) tagNames(v ssa.Value, depth int) ([]string, bool) {
	if depth > 6 {
		return nil, false
	}
	p := lr.p
	v = resolve(v)
	switch x := v.(type) {
	case *ssa.Const:
		// zero value of metrics.T: label name ""
		return []string{""}, true
	case *ssa.Call:
		sc := x.Common().StaticCallee()
		if sc == nil {
			return nil, false
		}
		if sc == lr.tagFn {
			return p.stringValues(x.Common().Args[0], 0)
		}
		if sc.Signature.Results().Len() != 1 {
			return nil, false
		}
		return lr.helperResult(sc, 0, depth)
	case *ssa.Extract:
		// v, ok := table[key]: the values of the table (the zero value of a miss is only used under !ok)
		if lk, ok := x.Tuple.(*ssa.Lookup); ok && x.Index == 0 {
			return lr.mapValueNames(lk.X, depth+1)
		}
		// one result of a helper with several results: union over the helper's returns at that position
		c, ok := x.Tuple.(*ssa.Call)
		if !ok || c.Common().StaticCallee() == nil {
			return nil, false
		}
		return lr.helperResult(c.Common().StaticCallee(), x.Index, depth)
	case *ssa.Lookup:
		// table[key] without the ok: a miss yields the zero tag
		ns, ok := lr.mapValueNames(x.X, depth+1)
		if !ok {
			return nil, false
		}
		return uniq(append(ns, "")), true
	case *ssa.Phi:
		var out []string
		for _, e := range x.Edges {
			ns, ok := lr.tagNames(e, depth+1)
			if !ok {
				return nil, false
			}
			out = append(out, ns...)
		}
		return uniq(out), true
	case *ssa.UnOp:
		if x.Op != token.MUL {
			return nil, false
		}
		switch a := x.X.(type) {
		case *ssa.Global:
			// package variable: values stored by the package initialiser (and anywhere else)
			var out []string
			n := 0
			for _, f := range p.allFuncsWithInit() {
				for _, b := range f.Blocks {
					for _, ins := range b.Instrs {
						if st, ok := ins.(*ssa.Store); ok && st.Addr == ssa.Value(a) {
							ns, ok := lr.tagNames(st.Val, depth+1)
							if !ok {
								return nil, false
							}
							out = append(out, ns...)
							n++
						}
					}
				}
			}
			return uniq(out), n > 0
		case *ssa.FreeVar:
			// captured variable of the enclosing function: union over every store to the cell
			var out []string
			n := 0
			for _, bnd := range p.freeVarBindings(a) {
				al, ok := bnd.(*ssa.Alloc)
				if !ok {
					return nil, false
				}
				for _, ref := range *al.Referrers() {
					if st, ok := ref.(*ssa.Store); ok && st.Addr == ssa.Value(al) {
						ns, ok := lr.tagNames(st.Val, depth+1)
						if !ok {
							return nil, false
						}
						out = append(out, ns...)
						n++
					}
				}
			}
			return uniq(out), n > 0
		case *ssa.Alloc:
			// variable assigned as a whole on several paths: union over the reaching stores
			if sts, zero, ok := reachingStores(a, x); ok {
				var out []string
				for _, st := range sts {
					ns, ok := lr.tagNames(st.Val, depth+1)
					if !ok {
						return nil, false
					}
					out = append(out, ns...)
				}
				if zero {
					out = append(out, "")
				}
				return uniq(out), true
			}
			// local struct built field by field: metrics.T{Name: ..., Value: ...}
			var out []string
			for _, ref := range *a.Referrers() {
				if fa, ok := ref.(*ssa.FieldAddr); ok && fieldOf(fa) == lr.nameFv {
					for _, r2 := range *fa.Referrers() {
						if st, ok := r2.(*ssa.Store); ok {
							ns, ok := p.stringValues(st.Val, 0)
							if !ok {
								return nil, false
							}
							out = append(out, ns...)
						}
					}
				}
			}
			if len(out) == 0 {
				return []string{""}, true
			}
			return uniq(out), true
		case *ssa.IndexAddr:
			// element of a tag slice: t[i]
			ls, ok := lr.sliceLabels(a.X, depth+1)
			if !ok {
				return nil, false
			}
			var out []string
			for _, l := range ls {
				out = append(out, l...)
			}
			return uniq(out), true
		case *ssa.FieldAddr:
			var out []string
			for _, sv := range p.fieldStores(fieldOf(a)) {
				ns, ok := lr.tagNames(sv, depth+1)
				if !ok {
					return nil, false
				}
				out = append(out, ns...)
			}
			return uniq(out), len(out) > 0
		}
	case *ssa.Parameter:
		acts := p.paramActuals(x)
		if len(acts) == 0 {
			return nil, false
		}
		var out []string
		for _, a := range acts {
			ns, ok := lr.tagNames(a, depth+1)
			if !ok {
				return nil, false
			}
			out = append(out, ns...)
		}
		return uniq(out), true
	}
	return nil, false
}

// helperResult: label names of result #idx of a local helper, as the union over its returns.
func (lr *labelRes) helperResult(sc *ssa.Function, idx int, depth int) ([]string, bool) {
	if sc.Blocks == nil || idx >= sc.Signature.Results().Len() || !types.Identical(sc.Signature.Results().At(idx).Type(), lr.tType) {
		return nil, false
	}
	var out []string
	for _, b := range sc.Blocks {
		if ret, ok := b.Instrs[len(b.Instrs)-1].(*ssa.Return); ok && b.Comment != "recover" {
			ns, ok := lr.tagNames(ret.Results[idx], depth+1)
			if !ok {
				return nil, false
			}
			out = append(out, ns...)
		}
	}
	return uniq(out), len(out) > 0
}

// sliceLabels resolves a []metrics.T value to the list of label-name sets of its elements, in order.
func (lr *labelRes) sliceLabels(v ssa.Value, depth int) ([][]string, bool) {
	if depth > 6 {
		return nil, false
	}
	p := lr.p
	v = resolve(v)
	switch x := v.(type) {
	case *ssa.Const:
		return nil, true // nil slice: no labels
	case *ssa.Slice:
		al, ok := x.X.(*ssa.Alloc)
		if !ok {
			return lr.sliceLabels(x.X, depth+1)
		}
		at, ok := al.Type().Underlying().(*types.Pointer).Elem().Underlying().(*types.Array)
		if !ok {
			return nil, false
		}
		out := make([][]string, at.Len())
		filled := make([]bool, at.Len())
		for _, ref := range *al.Referrers() {
			ia, ok := ref.(*ssa.IndexAddr)
			if !ok {
				continue
			}
			idx, ok := constInt(ia.Index)
			if !ok {
				return nil, false
			}
			for _, r2 := range *ia.Referrers() {
				if st, ok := r2.(*ssa.Store); ok {
					ns, ok := lr.tagNames(st.Val, depth+1)
					if !ok {
						return nil, false
					}
					out[idx] = ns
					filled[idx] = true
				}
			}
		}
		for i := range out {
			if !filled[i] {
				out[i] = []string{""}
			}
		}
		return out, true
	case *ssa.Call:
		if b, ok := x.Common().Value.(*ssa.Builtin); ok && b.Name() == "append" {
			base, ok1 := lr.sliceLabels(x.Common().Args[0], depth+1)
			add, ok2 := lr.sliceLabels(x.Common().Args[1], depth+1)
			if !ok1 || !ok2 {
				return nil, false
			}
			return append(append([][]string{}, base...), add...), true
		}
	case *ssa.UnOp:
		if x.Op == token.MUL {
			if fa, ok := x.X.(*ssa.FieldAddr); ok {
				// a store that extends the field's own value (f = append(f, ..)) re-enters here: the field's own
				// contribution is left out, what it appends makes the lists differ
				if lr.visiting == nil {
					lr.visiting = map[*types.Var]bool{}
				}
				if lr.visiting[fieldOf(fa)] {
					return nil, true
				}
				lr.visiting[fieldOf(fa)] = true
				defer delete(lr.visiting, fieldOf(fa))
				var first [][]string
				n := 0
				for _, sv := range p.fieldStores(fieldOf(fa)) {
					ls, ok := lr.sliceLabels(sv, depth+1)
					if !ok {
						return nil, false
					}
					if n > 0 && fmt.Sprint(ls) != fmt.Sprint(first) {
						lr.diverged = fmt.Sprintf("the tag list kept in field %s is assigned different label-name lists (%v and %v)", fieldOf(fa).Name(), first, ls)
						return nil, false
					}
					first = ls
					n++
				}
				return first, n > 0
			}
		}
	case *ssa.Phi:
		var first [][]string
		for i, e := range x.Edges {
			ls, ok := lr.sliceLabels(e, depth+1)
			if !ok {
				return nil, false
			}
			if i > 0 && fmt.Sprint(ls) != fmt.Sprint(first) {
				// different label lists on different paths
				lr.diverged = fmt.Sprintf("the tag list differs between paths (%v and %v)", first, ls)
				return nil, false
			}
			first = ls
		}
		return first, true
	case *ssa.Parameter:
		acts := p.paramActuals(x)
		var first [][]string
		for i, a := range acts {
			ls, ok := lr.sliceLabels(a, depth+1)
			if !ok {
				return nil, false
			}
			if i > 0 && fmt.Sprint(ls) != fmt.Sprint(first) {
				return nil, false
			}
			first = ls
		}
		return first, len(acts) > 0
	}
	return nil, false
}

func (p *Prog) allFuncsWithInit() []*ssa.Function {
	out := append([]*ssa.Function{}, p.AllFuncs...)
	seen := map[*ssa.Function]bool{}
	for _, f := range out {
		seen[f] = true
	}
	for _, sp := range p.SSAPkgs {
		if f := sp.Func("init"); f != nil && !seen[f] {
			seen[f] = true
			out = append(out, f)
		}
	}
	return out
}

var metricNameRe = regexp.MustCompile(`^[a-zA-Z_:][a-zA-Z0-9_:]*$`)
var labelNameRe = regexp.MustCompile(`^[a-zA-Z_][a-zA-Z0-9_]*$`)

type emitSite struct {
	fn     *ssa.Function
	call   ssa.CallInstruction
	kind   string
	names  []string
	labels []string // sorted label names
	ord    int
}

func checkC20(p *Prog, res *Result, tier string) {
	r := p.roles()
	res.Explanation = "R1 builds the table metric name -> (kind, label-name set) over every call of Metrics.EmitCounter/EmitGauge/EmitHistogram in the program (names and label names resolved to constants through helpers, parameters, package variables and slices) and requires one kind and one label-name set per formatted name, valid Prometheus identifiers, no duplicate / reserved / global label names: exactly the precondition under which the production client's With()/MustRegister cannot panic. R2 lists every explicit abort (panic, klog.Fatal*, os.Exit, *OrDie) in request-reachable repo code against a frozen accepted set. R3 shares C04-R1..R3 (a leaked revision wedges the node). R4 requires constant indexing into request-derived slices in the request layer to be dominated by a length test."
	res.NotDecided = "implicit run-time panics in general (nil dereference, out-of-range index or slice arithmetic such as the event ring), resource exhaustion, behaviour of dependencies."
	res.Assumptions = []string{"prometheus client semantics: a vector is registered with the label names of the first emission and With() panics on any other label-name set; re-registering a name with another kind or label set panics"}
	res.rule("C20-R1", "every metric name is emitted with one kind and one set of label names at all emission sites; names and labels are valid, unique and not reserved", 80)
	res.rule("C20-R2", "explicit aborts reachable in non-test repository code are exactly the accepted set", 3)
	res.rule("C20-R3", "no request can leak an allocated revision (C04-R1..R3)", 10)
	res.rule("C20-R7", "no request can wedge the node by making a goroutine wait for a lock it holds itself (C19-R5)", 1)
	res.rule("C20-R8", "every position used with the backing array of a ring buffer (element index, slice bound) is the result of the ring's wrap function (x % capacity): a watch request cannot make the event cache index out of range", 8)
	res.rule("C20-R9", "a metric collector is registered (MustRegister panics on duplicates) only on the miss edge of a registry lookup made under the registry's write lock", 3)
	res.rule("C20-R10", "no nil element in a repeated message field of an answer: an element produced by a nil-for-nil converter is stored only where its argument was tested non-nil (or is an element of the backend's list)", 3)
	res.rule("C20-R11", "no check-then-use contradiction in the request layers: a pointer that a function compares with nil somewhere is dereferenced only where it is known to be non-nil (or where an error that came with it was found nil)", 3)
	res.rule("C20-R12", "a channel is closed once: a function with several callers that closes a channel it is handed does so only after finding it in its registry (comma-ok lookup), and removes it there on the same path", 1)
	res.rule("C20-R14", "no lock is held across a wait loop: from every Lock / RLock the matching release is passed before a blocking select or channel receive inside a loop (a goroutine that serves a stream must not keep the reset path of its owner locked out for the lifetime of the stream)", 20)
	res.rule("C20-R13", "no counter is emitted with a value that may be negative: the value of an EmitCounter is not derived from a subtraction (through fields and parameters) unless a dominating test makes it non-negative", 1)
	res.rule("C20-R6", "label values reach the prometheus client only through a UTF-8 sanitiser: request bytes used as a label value (a watched prefix) cannot make With() panic", 1)
	res.rule("C20-R5", "no allocation is sized by an integer taken from a request (limit, revision, lease ...) without an upper bound: make() with such a size can exceed memory or panic outright", 3)
	res.rule("C20-R4", "constant-index accesses to request-derived slices in the etcd request layer are dominated by a matching length test", 5)

	lr := &labelRes{p: p, tagFn: p.fn("pkg/metrics", "Tag"), tType: p.namedType("pkg/metrics", "T"), nameFv: p.structField("pkg/metrics", "T", "Name")}

	// global labels from NewMetrics call sites
	globals := map[string]bool{}
	newMetrics := p.fn("pkg/metrics/prometheus", "NewMetrics")
	p.buildCallersLite()
	for _, cs := range p.staticCallers[newMetrics] {
		ls, ok := lr.sliceLabels(cs.Common().Args[0], 0)
		if !ok {
			res.und("C20-R1", "global labels of NewMetrics in "+funcName(cs.Parent()), p.pos(cs.Pos()), "cannot resolve the global label names")
			continue
		}
		for _, l := range ls {
			for _, n := range l {
				globals[n] = true
			}
		}
	}
	var gl []string
	for g := range globals {
		gl = append(gl, g)
	}
	sort.Strings(gl)
	res.Stats["global_labels"] = gl

	var sites []emitSite
	unreachableSites := 0
	perFn := map[*ssa.Function]int{}
	for _, f := range p.AllFuncs {
		if f.Synthetic != "" {
			continue
		}
		for _, c := range callsIn(f) {
			cc := c.Common()
			if !cc.IsInvoke() {
				continue
			}
			kind := ""
			switch cc.Method {
			case r.EmitCounter:
				kind = "counter"
			case r.EmitGauge:
				kind = "gauge"
			case r.EmitHistogram:
				kind = "histogram"
			default:
				continue
			}
			perFn[f]++
			s := emitSite{fn: f, call: c, kind: kind, ord: perFn[f]}
			construct := fmt.Sprintf("%s: Emit %s #%d", funcName(f), kind, s.ord)
			names, ok := p.stringValues(cc.Args[0], 0)
			if !ok {
				if !p.reachableFromMain()[f] {
					res.ok("C20-R1", construct, p.pos(c.Pos()), "dynamic metric name, but the enclosing function is unreachable from main (RTA over the repo): not an emission of the running node")
					unreachableSites++
					continue
				}
				res.und("C20-R1", construct, p.pos(c.Pos()), "metric name is not a resolvable constant")
				continue
			}
			lr.diverged = ""
			ls, ok := lr.sliceLabels(cc.Args[2], 0)
			if !ok && lr.diverged != "" {
				res.bad("C20-R1", construct, p.pos(c.Pos()), lr.diverged+": the metric vector is created with the label names of the first emission, any other set panics in With() (inconsistent label cardinality)")
				continue
			}
			if !ok {
				if !p.reachableFromMain()[f] {
					res.ok("C20-R1", construct, p.pos(c.Pos()), "dynamic labels, but the enclosing function is unreachable from main (RTA over the repo)")
					unreachableSites++
					continue
				}
				res.und("C20-R1", construct, p.pos(c.Pos()), "label names of the emission are not resolvable")
				continue
			}
			bad := ""
			var labels []string
			for i, l := range ls {
				if len(l) != 1 {
					bad = fmt.Sprintf("label #%d can carry different label names on different paths: %v", i, l)
					break
				}
				labels = append(labels, l[0])
			}
			if bad != "" {
				res.bad("C20-R1", construct, p.pos(c.Pos()), bad+" — the metric vector is created with the names of the first emission, any other set panics in With()")
				continue
			}
			sort.Strings(labels)
			s.names, s.labels = names, labels
			sites = append(sites, s)
			// per-site validity
			for i, l := range labels {
				switch {
				case !labelNameRe.MatchString(l) || strings.HasPrefix(l, "__"):
					bad = fmt.Sprintf("invalid label name %q", l)
				case i > 0 && labels[i-1] == l:
					bad = fmt.Sprintf("label name %q repeated in one emission", l)
				case globals[l]:
					bad = fmt.Sprintf("label name %q duplicates a global label", l)
				case kind == "histogram" && l == "le":
					bad = "label name le is reserved for histograms"
				}
			}
			for _, n := range names {
				if !metricNameRe.MatchString(strings.Replace(n, ".", "_", -1)) {
					bad = fmt.Sprintf("invalid metric name %q", n)
				}
			}
			if bad != "" {
				res.bad("C20-R1", construct, p.pos(c.Pos()), bad+" (the production metrics client panics on it)")
			}
		}
	}
	// table
	type entry struct {
		kind   string
		labels string
		site   emitSite
	}
	table := map[string][]entry{}
	for _, s := range sites {
		for _, n := range s.names {
			fn := strings.Replace(n, ".", "_", -1)
			table[fn] = append(table[fn], entry{s.kind, strings.Join(s.labels, ","), s})
		}
	}
	var names []string
	for n := range table {
		names = append(names, n)
	}
	sort.Strings(names)
	var dump []string
	for _, n := range names {
		es := table[n]
		// reference = majority (kind, labels)
		cnt := map[string]int{}
		for _, e := range es {
			cnt[e.kind+"|"+e.labels]++
		}
		ref, refN := "", -1
		var keys []string
		for k := range cnt {
			keys = append(keys, k)
		}
		sort.Strings(keys)
		for _, k := range keys {
			if cnt[k] > refN {
				ref, refN = k, cnt[k]
			}
		}
		dump = append(dump, fmt.Sprintf("%s %s sites=%d", n, ref, len(es)))
		if len(cnt) == 1 {
			res.ok("C20-R1", "metric "+n, p.pos(es[0].site.call.Pos()), fmt.Sprintf("%d site(s), kind|labels = %s", len(es), ref))
			continue
		}
		for _, e := range es {
			if e.kind+"|"+e.labels == ref {
				continue
			}
			res.bad("C20-R1", fmt.Sprintf("metric %s emitted by %s #%d", n, funcName(e.site.fn), e.site.ord), p.pos(e.site.call.Pos()),
				fmt.Sprintf("metric %q is emitted here as %s with label names {%s} but elsewhere as %s: the production client panics (inconsistent label cardinality / kind) on whichever emission comes second", n, e.kind, e.labels, ref))
		}
	}
	res.Stats["metric_table"] = dump
	res.Stats["emission_sites"] = len(sites)
	res.Stats["unresolvable_sites_in_unreachable_functions"] = unreachableSites
	res.Stats["distinct_metric_names"] = len(names)
	// a name of one kind colliding with another kind's derived series is not checked (registry only compares fqNames)

	// ---- R2: explicit aborts ----
	checkAborts(p, res)

	// ---- R3: shared with C04 ----
	sub := p.subResult("C04", tier)
	for _, o := range sub.Obls {
		if o.Rule == "C04-R1" || o.Rule == "C04-R2" || o.Rule == "C04-R3" {
			res.add("C20-R3", o.Rule+" "+o.Construct, o.Status, o.Pos, o.Detail)
		}
	}

	// ---- R4: guarded constant indexing in the etcd request layer ----
	checkGuardedIndexing(p, res)
	checkRequestSizedAllocations(p, res)
	checkLabelValueSanitised(p, res)
	checkRingIndexing(p, res)
	checkRegisterOnce(p, res, "C20-R9")
	checkNoNilMessageElement(p, res, "C20-R10")
	checkNilBeliefContradiction(p, res, "C20-R11")
	checkCloseOnce(p, res, "C20-R12")
	checkCounterValuesNonNegative(p, res, "C20-R13")
	checkNoLockAcrossWaitLoop(p, res, "C20-R14")
	checkStreamResponsesComplete(p, res, "C20-R2")
	// R7: self-deadlock (C19-R5)
	checkSelfDeadlock(p, p.lockContext(), res, "C20-R7")
	checkLockPairing(p, res, "C20-R7")
	// the in-process engine holds its store lock from BeginBatchWrite to Commit: a batch that is begun and not
	// committed on some path wedges every later request (C11-R2, C01-R2 commit discipline)
	{
		sub11 := p.subResult("C11", tier)
		for _, o := range sub11.Obls {
			if o.Rule == "C11-R2" && (strings.Contains(o.Construct, "committed") || strings.Contains(o.Construct, "memkv")) {
				res.add("C20-R7", o.Rule+" "+o.Construct, o.Status, o.Pos, o.Detail)
			}
		}
	}

}

// Explicit aborts (panic, klog.Fatal*, log.Fatal*/Panic*, os.Exit, *OrDie of a dependency) are classified by where they
// can run, not by the name of the enclosing function:
//   - not reachable from a request entry point (gRPC service methods, HTTP handlers; closure over calls, interface
//     implementations, function values, closures, go/defer): start-up, leader-election callbacks, process exit;
//   - reachable, in an accepted role: the event sink's slot-ring capacity assertion; os.Exit in a function that calls
//     recover() (the deferred panic handler: it turns a panic that is already happening into an exit); the
//     nil-response invariant of the shim's streaming list;
//   - anything else reachable from a request is a violation.
func checkAborts(p *Prog, res *Result) {
	r := p.roles()
	lr := p.leaderRoles()
	reach := p.requestReachable()
	if len(p.requestEntries()) < 10 {
		res.und("C20-R2", "request entry points", "-", fmt.Sprintf("only %d request entry points found", len(p.requestEntries())))
	}
	res.Stats["request_entry_points"] = len(p.requestEntries())
	res.Stats["request_reachable_functions"] = len(reach)
	callsRecover := func(f *ssa.Function) bool {
		for _, c := range callsIn(f) {
			if b, ok := c.Common().Value.(*ssa.Builtin); ok && b.Name() == "recover" {
				return true
			}
		}
		return false
	}
	outermost := func(f *ssa.Function) *ssa.Function {
		for f.Parent() != nil {
			f = f.Parent()
		}
		return f
	}
	// the shim's streaming list: its own body, its literals, and functions that run only inside it (called or started
	// with go from it and from nowhere else)
	var runsOnlyFrom func(f, root *ssa.Function, d int) bool
	runsOnlyFrom = func(f, root *ssa.Function, d int) bool {
		if f == root {
			return true
		}
		if d > 3 || f.Synthetic != "" || p.addressTaken(f) {
			return false
		}
		p.buildCallers()
		for _, cs := range p.callers[f] {
			if cs.Common().IsInvoke() {
				return false
			}
		}
		p.buildCallersLite()
		if len(p.staticCallers[f]) == 0 {
			return false
		}
		for _, cs := range p.staticCallers[f] {
			if !runsOnlyFrom(outermost(cs.Parent()), root, d+1) {
				return false
			}
		}
		return true
	}
	inStreamingList := func(f *ssa.Function) bool {
		for root := range lr.shimImpl {
			if root.Name() != "ListByStream" {
				continue
			}
			if outermost(f) == root || runsOnlyFrom(outermost(f), root, 0) {
				return true
			}
		}
		return false
	}
	abortCnt := map[*ssa.Function]map[string]int{}
	for _, f := range p.AllFuncs {
		if f.Synthetic != "" {
			continue
		}
		cnt := abortCnt[outermost(f)]
		if cnt == nil {
			cnt = map[string]int{}
			abortCnt[outermost(f)] = cnt
		}
		for _, b := range f.Blocks {
			for _, ins := range b.Instrs {
				what := ""
				switch x := ins.(type) {
				case *ssa.Panic:
					if !x.Pos().IsValid() {
						continue // synthetic (e.g. "blocking select matched no case")
					}
					what = "panic"
				case ssa.CallInstruction:
					sc := x.Common().StaticCallee()
					if sc == nil || sc.Pkg == nil {
						continue
					}
					pp := sc.Pkg.Pkg.Path()
					switch {
					case pp == "k8s.io/klog/v2" && strings.HasPrefix(sc.Name(), "Fatal"):
						what = "klog." + sc.Name()
					case pp == "os" && sc.Name() == "Exit":
						what = "os.Exit"
					case pp == "log" && (strings.HasPrefix(sc.Name(), "Fatal") || strings.HasPrefix(sc.Name(), "Panic")):
						what = "log." + sc.Name()
					case strings.HasSuffix(sc.Name(), "OrDie") && !strings.HasPrefix(pp, modPath):
						what = sc.Pkg.Pkg.Name() + "." + sc.Name()
					}
				}
				if what == "" {
					continue
				}
				key := what
				if f.Parent() != nil {
					key = "lit " + what
				}
				cnt[key]++
				construct := fmt.Sprintf("%s: %s", funcName(outermost(f)), what)
				if f.Parent() != nil {
					construct = fmt.Sprintf("%s (in a function literal): %s", funcName(outermost(f)), what)
				}
				if cnt[key] > 1 {
					construct = fmt.Sprintf("%s #%d", construct, cnt[key])
				}
				switch {
				case !reach[f]:
					res.ok("C20-R2", construct, p.pos(ins.Pos()), "not reachable from a request entry point (start-up, leader-election callback or process exit)")
				case r.inSinkChain(f) && what == "panic":
					res.ok("C20-R2", construct, p.pos(ins.Pos()), "accepted: slot-ring capacity assertion of the event sink (more unresolved revisions than slots); not driven by request contents")
				case what == "os.Exit" && callsRecover(f):
					res.ok("C20-R2", construct, p.pos(ins.Pos()), "accepted: deferred panic handler (calls recover()): turns a panic that is already happening into an exit, not an abort of its own")
				case inStreamingList(f):
					res.ok("C20-R2", construct, p.pos(ins.Pos()), "accepted: nil stream response from the backend (internal invariant of the streaming list, not request-driven)")
				default:
					res.bad("C20-R2", construct, p.pos(ins.Pos()), "an explicit abort is reachable from a request entry point and is not in an accepted role: a request reaching it crashes the node")
				}
			}
		}
	}
}

func checkGuardedIndexing(p *Prog, res *Result) {
	sp := p.ssaPkg("pkg/server/etcd")
	for _, f := range p.AllFuncs {
		if f.Pkg != sp || f.Synthetic != "" {
			continue
		}
		cnt := 0
		for _, b := range f.Blocks {
			for _, ins := range b.Instrs {
				ia, ok := ins.(*ssa.IndexAddr)
				if !ok {
					continue
				}
				if _, isSlice := ia.X.Type().Underlying().(*types.Slice); !isSlice {
					continue
				}
				base := resolve(ia.X)
				ld, ok := base.(*ssa.UnOp)
				if !ok || ld.Op != token.MUL {
					continue
				}
				fa, ok := ld.X.(*ssa.FieldAddr)
				if !ok {
					continue
				}
				owner := fa.X.Type().Underlying().(*types.Pointer).Elem()
				n, ok := owner.(*types.Named)
				if !ok || n.Obj().Pkg() == nil || !strings.Contains(n.Obj().Pkg().Path(), "etcdserverpb") {
					continue
				}
				idx, isConst := constInt(ia.Index)
				if !isConst {
					// x[len(x)-1] form
					if bo, ok := ia.Index.(*ssa.BinOp); ok && bo.Op == token.SUB {
						if k, ok := constInt(bo.Y); ok && k == 1 && strings.HasPrefix(pureKey(bo.X), "len(") {
							idx, isConst = -1, true
						}
					}
					if !isConst {
						continue
					}
				}
				cnt++
				construct := fmt.Sprintf("%s: %s.%s[%d] #%d", funcName(f), n.Obj().Name(), fieldOf(fa).Name(), idx, cnt)
				lenKey := "len(" + pureKey(ld) + ")"
				// the field may be re-loaded: compare by field identity instead of by load identity
				guarded := false
				type sfact struct {
					condFact
					subst map[ssa.Value]ssa.Value
				}
				var facts []sfact
				for _, cf := range dominatingFacts(b) {
					facts = append(facts, sfact{cf, nil})
					// a boolean helper of the package that answered yes: what holds at its positive return
					if hf, subst := helperTrueFacts(cf, 0); len(hf) > 0 {
						for _, h := range hf {
							facts = append(facts, sfact{h, subst})
						}
					}
				}
				for _, sf := range facts {
					cf, subst := sf.condFact, sf.subst
					if cf.X == nil {
						continue
					}
					up := func(v ssa.Value) ssa.Value {
						v = resolve(v)
						if a, ok := subst[v]; ok {
							return resolve(a)
						}
						return v
					}
					isLenOfField := func(v ssa.Value) bool {
						c, ok := resolve(v).(*ssa.Call)
						if !ok {
							return false
						}
						bi, ok := c.Common().Value.(*ssa.Builtin)
						if !ok || bi.Name() != "len" {
							return false
						}
						l2, ok := resolve(c.Common().Args[0]).(*ssa.UnOp)
						if !ok {
							return false
						}
						fa2, ok := l2.X.(*ssa.FieldAddr)
						return ok && fieldOf(fa2) == fieldOf(fa) && up(fa2.X) == resolve(fa.X)
					}
					_ = lenKey
					x, y, op := cf.X, cf.Y, cf.Op
					if !isLenOfField(x) {
						continue
					}
					k, ok := constInt(y)
					if !ok {
						continue
					}
					need := idx
					if idx < 0 {
						need = 0
					}
					switch {
					case op == token.EQL && cf.Want && k > need:
						guarded = true
					case op == token.GTR && cf.Want && k >= need:
						guarded = true
					case op == token.GEQ && cf.Want && k > need:
						guarded = true
					case op == token.NEQ && cf.Want && k == 0 && need == 0:
						guarded = true
					case op == token.EQL && !cf.Want && k == 0 && need == 0:
						guarded = true
					// the negated forms of an early return: `if len(x) != k { return }`, `if len(x) < k { return }`
					case op == token.NEQ && !cf.Want && k > need:
						guarded = true
					case op == token.LSS && !cf.Want && k > need:
						guarded = true
					case op == token.LEQ && !cf.Want && k >= need:
						guarded = true
					}
				}
				if guarded {
					res.ok("C20-R4", construct, p.pos(ia.Pos()), "dominated by a length test that implies the index is in range")
				} else {
					res.bad("C20-R4", construct, p.pos(ia.Pos()), "a request-derived slice is indexed without a dominating length test: a request with fewer elements panics the handler")
				}
			}
		}
	}
}

// ---------- R5: allocations sized by request integers ----------

// requestTainted: the backward slice of v (arithmetic, conversions, phis, local variables, struct fields followed
// field-based through every store, parameters followed to every caller) reaches an integer field of a request message
// of the etcd or kubebrain API (or its generated getter).
func requestTainted(p *Prog, v ssa.Value) (string, bool) {
	p.buildCallers()
	seen := map[ssa.Value]bool{}
	isReqMsg := func(t types.Type) bool {
		if pt, ok := t.(*types.Pointer); ok {
			t = pt.Elem()
		}
		n, ok := t.(*types.Named)
		if !ok || n.Obj().Pkg() == nil {
			return false
		}
		pp := n.Obj().Pkg().Path()
		return (strings.HasSuffix(pp, "etcdserverpb") || strings.Contains(pp, "kubebrain-client/api")) && strings.HasSuffix(n.Obj().Name(), "Request")
	}
	var rec func(v ssa.Value, d int) (string, bool)
	rec = func(v ssa.Value, d int) (string, bool) {
		if v == nil || d > 14 {
			return "", false
		}
		for _, x := range allCellValuesOpt(p, v, false) {
			if seen[x] {
				continue
			}
			seen[x] = true
			switch y := x.(type) {
			case *ssa.UnOp:
				if y.Op == token.MUL {
					if fa, ok := y.X.(*ssa.FieldAddr); ok {
						if isReqMsg(fa.X.Type()) {
							return fa.X.Type().String() + "." + fieldOf(fa).Name(), true
						}
						fld := fieldOf(fa)
						if fld.Pkg() == nil || !strings.HasPrefix(fld.Pkg().Path(), modPath) {
							continue
						}
						// the objects the field is read from: when they all resolve to allocation sites, only the values
						// stored into those objects count (a receiver created with limit 0 is not the one created with
						// the client's limit); otherwise every store to the field anywhere
						var vals []ssa.Value
						if objs, ok := p.allocSitesOf(fa.X, 0, map[ssa.Value]bool{}); ok {
							for _, st := range p.fields().stores[fld] {
								for _, o := range objs {
									if strip(st.Addr.(*ssa.FieldAddr).X) == o {
										vals = append(vals, st.Val)
									}
								}
							}
						} else {
							for _, st := range p.fields().stores[fld] {
								vals = append(vals, st.Val)
							}
						}
						for _, sv := range vals {
							if w, ok := rec(sv, d+1); ok {
								return w, true
							}
						}
					}
					continue
				}
				if w, ok := rec(y.X, d+1); ok {
					return w, true
				}
			case *ssa.BinOp:
				if w, ok := rec(y.X, d+1); ok {
					return w, true
				}
				if w, ok := rec(y.Y, d+1); ok {
					return w, true
				}
			case *ssa.Convert:
				if w, ok := rec(y.X, d+1); ok {
					return w, true
				}
			case *ssa.ChangeType:
				if w, ok := rec(y.X, d+1); ok {
					return w, true
				}
			case *ssa.Extract:
				if w, ok := rec(y.Tuple, d+1); ok {
					return w, true
				}
			case *ssa.Call:
				sc := y.Common().StaticCallee()
				if sc != nil && sc.Signature.Recv() != nil && strings.HasPrefix(sc.Name(), "Get") && isReqMsg(sc.Signature.Recv().Type()) {
					return sc.Signature.Recv().Type().String() + "." + strings.TrimPrefix(sc.Name(), "Get"), true
				}
				if _, isB := y.Common().Value.(*ssa.Builtin); isB || (sc != nil && (isMinFn(sc) || isMaxFn(sc))) {
					// len/cap of something already in memory is bounded by that memory; min/max pass operands through
					if bi, ok := y.Common().Value.(*ssa.Builtin); ok && (bi.Name() == "len" || bi.Name() == "cap") {
						continue
					}
					for _, a := range y.Common().Args {
						if w, ok := rec(a, d+1); ok {
							return w, true
						}
					}
				}
			case *ssa.Parameter:
				fn := y.Parent()
				idx := sigParamIndex(y)
				for _, cs := range p.callers[fn] {
					if idx < 0 {
						continue
					}
					if a := argForSigParam(cs, idx); a != nil {
						if w, ok := rec(a, d+1); ok {
							return w, true
						}
					}
				}
			}
		}
		return "", false
	}
	return rec(v, 0)
}

func checkRequestSizedAllocations(p *Prog, res *Result) {
	n := 0
	for _, f := range p.AllFuncs {
		if f.Synthetic != "" || f.Pkg == nil || !strings.HasPrefix(f.Pkg.Pkg.Path(), modPath) || strings.HasSuffix(f.Pkg.Pkg.Path(), "/mock") {
			continue
		}
		k := 0
		for _, b := range f.Blocks {
			for _, ins := range b.Instrs {
				var sizes []ssa.Value
				what := ""
				switch x := ins.(type) {
				case *ssa.MakeSlice:
					sizes, what = []ssa.Value{x.Len, x.Cap}, "make([]T, ..)"
				case *ssa.MakeMap:
					if x.Reserve != nil {
						sizes, what = []ssa.Value{x.Reserve}, "make(map, ..)"
					}
				case *ssa.MakeChan:
					sizes, what = []ssa.Value{x.Size}, "make(chan, ..)"
				}
				nonConst := false
				for _, sv := range sizes {
					if _, isC := sv.(*ssa.Const); !isC {
						nonConst = true
					}
				}
				if !nonConst {
					continue
				}
				k++
				n++
				construct := fmt.Sprintf("%s: size of %s #%d", funcName(f), what, k)
				src := ""
				for _, sv := range sizes {
					if _, isC := sv.(*ssa.Const); isC {
						continue
					}
					if w, ok := requestTainted(p, sv); ok {
						// an upper bound established on the way to the allocation discharges it
						bounded := false
						for _, cf := range dominatingFacts(b) {
							if cf.X == nil {
								continue
							}
							if pureKeyCell(cf.X) == pureKeyCell(sv) {
								if _, isC := cf.Y.(*ssa.Const); isC && ((cf.Op == token.LSS || cf.Op == token.LEQ) && cf.Want || (cf.Op == token.GTR || cf.Op == token.GEQ) && !cf.Want) {
									bounded = true
								}
							}
						}
						if !bounded {
							src = w
						}
					}
				}
				if src == "" {
					res.ok("C20-R5", construct, p.pos(ins.Pos()), "the size does not derive from a request integer (constants, lengths of data already held, configuration), or is bounded")
				} else {
					res.bad("C20-R5", construct, p.pos(ins.Pos()), "the allocation is sized by "+src+" with no upper bound: a request naming a huge value makes the node allocate it (out of memory) or panic in makeslice")
				}
			}
		}
	}
	res.Stats["allocations_with_dynamic_size"] = n
}

// allocSitesOf resolves a pointer value to the allocation sites (Alloc instructions) it can denote: through local
// variables, phis, interface conversions, and parameters followed to every caller (for the receiver of a method that
// is called through an interface: the interface values at the invoke sites). ok=false when some source is unknown.
func (p *Prog) allocSitesOf(v ssa.Value, depth int, seen map[ssa.Value]bool) ([]ssa.Value, bool) {
	if depth > 10 {
		return nil, false
	}
	p.buildCallers()
	var out []ssa.Value
	for _, x := range allCellValuesOpt(p, v, false) {
		if seen[x] {
			continue
		}
		seen[x] = true
		switch y := x.(type) {
		case *ssa.Alloc:
			out = append(out, y)
		case *ssa.MakeInterface:
			o, ok := p.allocSitesOf(y.X, depth+1, seen)
			if !ok {
				return nil, false
			}
			out = append(out, o...)
		case *ssa.ChangeInterface:
			o, ok := p.allocSitesOf(y.X, depth+1, seen)
			if !ok {
				return nil, false
			}
			out = append(out, o...)
		case *ssa.TypeAssert:
			o, ok := p.allocSitesOf(y.X, depth+1, seen)
			if !ok {
				return nil, false
			}
			out = append(out, o...)
		case *ssa.Parameter:
			fn := y.Parent()
			idx := paramIndex(y)
			cs := p.callers[fn]
			if len(cs) == 0 || p.addressTaken(fn) {
				return nil, false
			}
			for _, c := range cs {
				var a ssa.Value
				if c.Common().IsInvoke() {
					if idx == 0 {
						a = c.Common().Value
					} else if idx-1 < len(c.Common().Args) {
						a = c.Common().Args[idx-1]
					}
				} else if idx < len(c.Common().Args) {
					a = c.Common().Args[idx]
				}
				if a == nil {
					return nil, false
				}
				o, ok := p.allocSitesOf(a, depth+1, seen)
				if !ok {
					return nil, false
				}
				out = append(out, o...)
			}
		case *ssa.UnOp, *ssa.Field:
			// read from a field of a repo struct (a task descriptor): whatever is stored into that field anywhere
			var fv *types.Var
			if u, ok := y.(*ssa.UnOp); ok && u.Op == token.MUL {
				if fa, ok := u.X.(*ssa.FieldAddr); ok {
					fv = fieldOf(fa)
				}
			}
			if fx, ok := y.(*ssa.Field); ok {
				fv = fieldOfField(fx)
			}
			if fv == nil || fv.Pkg() == nil || !strings.HasPrefix(fv.Pkg().Path(), modPath) || len(p.fields().stores[fv]) == 0 {
				return nil, false
			}
			for _, st := range p.fields().stores[fv] {
				o, ok := p.allocSitesOf(st.Val, depth+1, seen)
				if !ok {
					return nil, false
				}
				out = append(out, o...)
			}
		case *ssa.Call:
			// constructor: a local function returning a fresh object
			sc := y.Common().StaticCallee()
			if sc == nil || sc.Blocks == nil || sc.Pkg == nil || !strings.HasPrefix(sc.Pkg.Pkg.Path(), modPath) || sc.Signature.Results().Len() != 1 {
				return nil, false
			}
			for _, b := range sc.Blocks {
				if ret, ok := b.Instrs[len(b.Instrs)-1].(*ssa.Return); ok {
					o, ok := p.allocSitesOf(ret.Results[0], depth+1, seen)
					if !ok {
						return nil, false
					}
					out = append(out, o...)
				}
			}
		default:
			return nil, false
		}
	}
	return out, true
}

// ---------- R6: label values are sanitised ----------

// checkLabelValueSanitised: every map handed to a prometheus vector's With() is built (in the wrapper, possibly in a
// helper) from values that are constants or results of strings.ToValidUTF8 / ToValidUTF8-like sanitisers.
func checkLabelValueSanitised(p *Prog, res *Result) {
	pp := p.ssaPkg("pkg/metrics/prometheus")
	if pp == nil {
		res.und("C20-R6", "prometheus wrapper", "-", "package not found")
		return
	}
	var isSanitisedD func(v ssa.Value, d int) bool
	isSanitisedD = func(v ssa.Value, d int) bool {
		v = resolve(v)
		if _, isC := v.(*ssa.Const); isC {
			return true
		}
		if c, ok := v.(*ssa.Call); ok {
			if sc := c.Common().StaticCallee(); sc != nil && sc.Pkg != nil {
				full := sc.Pkg.Pkg.Path() + "." + sc.Name()
				if full == "strings.ToValidUTF8" || full == "bytes.ToValidUTF8" {
					return true
				}
				// a sanitising helper of the wrapper: every value it returns is sanitised
				if sc.Pkg == pp && sc.Blocks != nil && d < 3 && sc.Signature.Results().Len() == 1 {
					n := 0
					for _, b := range sc.Blocks {
						if ret, ok := b.Instrs[len(b.Instrs)-1].(*ssa.Return); ok && b.Comment != "recover" {
							for _, rv := range allCellValuesOpt(p, ret.Results[0], false) {
								n++
								if !isSanitisedD(rv, d+1) {
									return false
								}
							}
						}
					}
					return n > 0
				}
			}
		}
		return false
	}
	isSanitised := func(v ssa.Value) bool { return isSanitisedD(v, 0) }
	n := 0
	for _, f := range p.AllFuncs {
		if f.Pkg != pp || f.Synthetic != "" {
			continue
		}
		k := 0
		for _, c := range callsIn(f) {
			sc := c.Common().StaticCallee()
			if sc == nil || sc.Name() != "With" || sc.Pkg == nil || !strings.Contains(sc.Pkg.Pkg.Path(), "client_golang/prometheus") {
				continue
			}
			k++
			n++
			construct := fmt.Sprintf("%s: label values of With() #%d", funcName(f), k)
			// the map argument: built here or returned by a helper of the wrapper
			var maps []*ssa.MakeMap
			var collect func(v ssa.Value, d int) bool
			collect = func(v ssa.Value, d int) bool {
				if d > 4 {
					return false
				}
				okAll := true
				for _, x := range allCellValuesOpt(p, v, false) {
					switch y := x.(type) {
					case *ssa.MakeMap:
						maps = append(maps, y)
					case *ssa.ChangeType:
						okAll = collect(y.X, d+1) && okAll
					case *ssa.Call:
						h := y.Common().StaticCallee()
						if h == nil || h.Blocks == nil || h.Pkg != pp {
							okAll = false
							continue
						}
						for _, b := range h.Blocks {
							if ret, ok := b.Instrs[len(b.Instrs)-1].(*ssa.Return); ok && len(ret.Results) > 0 {
								okAll = collect(ret.Results[0], d+1) && okAll
							}
						}
					case *ssa.Const:
					default:
						okAll = false
					}
				}
				return okAll
			}
			args := c.Common().Args
			if !collect(args[len(args)-1], 0) || len(maps) == 0 {
				res.und("C20-R6", construct, p.pos(c.Pos()), "the label map handed to With() is not built by the wrapper itself")
				continue
			}
			bad := ""
			for _, m := range maps {
				for _, ref := range *m.Referrers() {
					if mu, ok := ref.(*ssa.MapUpdate); ok && mu.Map == ssa.Value(m) && !isSanitised(mu.Value) {
						bad = p.pos(mu.Pos())
					}
				}
				// the map may live in a named result cell: updates go through loads of that cell
				for _, ref := range *m.Referrers() {
					if st, ok := ref.(*ssa.Store); ok {
						if cell, ok := st.Addr.(*ssa.Alloc); ok {
							for _, r2 := range *cell.Referrers() {
								if ld, ok := r2.(*ssa.UnOp); ok {
									for _, r3 := range *ld.Referrers() {
										if mu, ok := r3.(*ssa.MapUpdate); ok && !isSanitised(mu.Value) {
											bad = p.pos(mu.Pos())
										}
									}
								}
							}
						}
					}
				}
			}
			if bad == "" {
				res.ok("C20-R6", construct, p.pos(c.Pos()), "every value stored into the label map is a constant or passes strings.ToValidUTF8")
			} else {
				res.bad("C20-R6", construct, bad, "a label value reaches prometheus without UTF-8 sanitising: label values can be request bytes (the watched prefix); an invalid one makes With() panic and the node crash")
			}
		}
	}
	if n == 0 {
		res.und("C20-R6", "prometheus wrapper", "-", "no With() call found")
	}
}

// ---------- R8: ring buffers are indexed through their wrap function ----------

// checkRingIndexing: a ring type is a struct with a slice field and a method that returns its argument modulo an
// integer field of the receiver (the wrap function). Every index into, and every explicit bound of a slice expression
// over, the slice field must be a result of the wrap function (or that modulo written out, or the constant 0):
// positions computed any other way (wrap(a)+b) leave the array once the ring has wrapped.
type ringInfo struct {
	wrap *ssa.Function
	capF *types.Var
}

// findRings: ring types of the repository - a named struct with a one-line method that reduces its argument modulo a
// field of the receiver (the wrap function).
func findRings(p *Prog) (map[*types.Named]ringInfo, func(v ssa.Value, recv *ssa.Parameter) *types.Var) {
	rings := map[*types.Named]ringInfo{}
	modOfField := func(v ssa.Value, recv *ssa.Parameter) *types.Var {
		v = resolve(v)
		for {
			if cv, ok := v.(*ssa.Convert); ok {
				v = resolve(cv.X)
				continue
			}
			break
		}
		bo, ok := v.(*ssa.BinOp)
		if !ok || bo.Op != token.REM {
			return nil
		}
		y := resolve(bo.Y)
		for {
			if cv, ok := y.(*ssa.Convert); ok {
				y = resolve(cv.X)
				continue
			}
			break
		}
		ld, ok := y.(*ssa.UnOp)
		if !ok || ld.Op != token.MUL {
			return nil
		}
		fa, ok := ld.X.(*ssa.FieldAddr)
		if !ok || (recv != nil && resolve(fa.X) != ssa.Value(recv)) {
			return nil
		}
		return fieldOf(fa)
	}
	for _, f := range p.AllFuncs {
		if f.Synthetic != "" || f.Pkg == nil || !strings.HasPrefix(f.Pkg.Pkg.Path(), modPath) || f.Signature.Recv() == nil || len(f.Params) != 2 || len(f.Blocks) != 1 {
			continue
		}
		ret, ok := f.Blocks[0].Instrs[len(f.Blocks[0].Instrs)-1].(*ssa.Return)
		if !ok || len(ret.Results) != 1 {
			continue
		}
		capF := modOfField(ret.Results[0], f.Params[0])
		if capF == nil {
			continue
		}
		pt, ok := f.Signature.Recv().Type().(*types.Pointer)
		if !ok {
			continue
		}
		if n, ok := pt.Elem().(*types.Named); ok {
			rings[n] = ringInfo{f, capF}
		}
	}
	return rings, modOfField
}

func checkRingIndexing(p *Prog, res *Result) {
	type ring = ringInfo
	rings, modOfField := findRings(p)
	if len(rings) == 0 {
		res.und("C20-R8", "ring buffers", "-", "no ring type (slice field + wrap method) found")
		return
	}
	var okPosD func(v ssa.Value, rg ring, d int) bool
	okPosD = func(v ssa.Value, rg ring, d int) bool {
		v = resolve(v)
		if k, ok := constInt(v); ok && k == 0 {
			return true
		}
		if c, ok := v.(*ssa.Call); ok && c.Common().StaticCallee() == rg.wrap {
			return true
		}
		switch x := v.(type) {
		case *ssa.Parameter:
			// a helper that is handed positions: as good as what every caller hands it
			acts := p.paramActuals(x)
			if d > 3 || len(acts) == 0 || p.addressTaken(x.Parent()) {
				return false
			}
			for _, a := range acts {
				if !okPosD(a, rg, d+1) {
					return false
				}
			}
			return true
		case *ssa.Phi:
			if d > 3 {
				return false
			}
			for _, e := range x.Edges {
				if !okPosD(e, rg, d+1) {
					return false
				}
			}
			return true
		}
		return modOfField(v, nil) == rg.capF
	}
	okPos := func(v ssa.Value, rg ring) bool { return okPosD(v, rg, 0) }
	cnt := map[*ssa.Function]int{}
	for _, f := range p.AllFuncs {
		if f.Synthetic != "" {
			continue
		}
		for _, b := range f.Blocks {
			for _, ins := range b.Instrs {
				var base ssa.Value
				var positions []ssa.Value
				switch x := ins.(type) {
				case *ssa.IndexAddr:
					base, positions = x.X, []ssa.Value{x.Index}
				case *ssa.Slice:
					base = x.X
					for _, q := range []ssa.Value{x.Low, x.High} {
						if q != nil {
							positions = append(positions, q)
						}
					}
				default:
					continue
				}
				ld, ok := resolve(base).(*ssa.UnOp)
				if !ok || ld.Op != token.MUL {
					continue
				}
				fa, ok := ld.X.(*ssa.FieldAddr)
				if !ok {
					continue
				}
				pt, ok := fa.X.Type().Underlying().(*types.Pointer)
				if !ok {
					continue
				}
				n, ok := pt.Elem().(*types.Named)
				rg, isRing := rings[n]
				if !ok || !isRing {
					continue
				}
				if _, isSlice := fieldOf(fa).Type().Underlying().(*types.Slice); !isSlice {
					continue
				}
				top := f
				for top.Parent() != nil {
					top = top.Parent()
				}
				for _, q := range positions {
					cnt[top]++
					construct := fmt.Sprintf("%s: position #%d into %s.%s", funcName(top), cnt[top], n.Obj().Name(), fieldOf(fa).Name())
					if okPos(q, rg) {
						res.ok("C20-R8", construct, p.pos(ins.Pos()), "result of "+funcName(rg.wrap))
					} else {
						res.bad("C20-R8", construct, p.pos(ins.Pos()), "a position into the ring's backing array is not reduced by the wrap function ("+rg.wrap.Name()+"): once the ring has wrapped it can lie beyond the array, and a watch request reaching this code panics (slice bounds / index out of range)")
					}
				}
			}
		}
	}
}

// mapValueNames: the label names of the values of a tag table kept in a package variable that is filled by its
// initialiser only (no other function updates the map).
func (lr *labelRes) mapValueNames(m ssa.Value, depth int) ([]string, bool) {
	p := lr.p
	ld, ok := resolve(m).(*ssa.UnOp)
	if !ok || ld.Op != token.MUL {
		return nil, false
	}
	g, ok := ld.X.(*ssa.Global)
	if !ok {
		return nil, false
	}
	var out []string
	n := 0
	for _, f := range p.allFuncsWithInit() {
		for _, b := range f.Blocks {
			for _, ins := range b.Instrs {
				switch x := ins.(type) {
				case *ssa.Store:
					if x.Addr != ssa.Value(g) {
						continue
					}
					mk, ok := resolve(x.Val).(*ssa.MakeMap)
					if !ok || f.Name() != "init" {
						return nil, false
					}
					for _, ref := range *mk.Referrers() {
						if mu, ok := ref.(*ssa.MapUpdate); ok {
							ns, ok := lr.tagNames(mu.Value, depth+1)
							if !ok {
								return nil, false
							}
							out = append(out, ns...)
							n++
						}
					}
				case *ssa.MapUpdate:
					// an update through a load of the variable, outside the initialiser
					if l2, ok := resolve(x.Map).(*ssa.UnOp); ok && l2.X == ssa.Value(g) {
						return nil, false
					}
				}
			}
		}
	}
	return uniq(out), n > 0
}

// checkStreamResponsesComplete: the one abort on a request path that C20-R2 accepts is the shim's "stream response
// without RangeResponse / Header" assertion. It is an internal invariant only as long as every producer of a
// StreamRangeResponse sets both - which is what this rule checks at every literal of the type.
func checkStreamResponsesComplete(p *Prog, res *Result, rule string) {
	srT := p.namedType("github.com/kubewharf/kubebrain-client/api/v2rpc", "StreamRangeResponse")
	n := 0
	for _, f := range p.AllFuncs {
		if f.Synthetic != "" || f.Pkg == nil || !strings.HasPrefix(f.Pkg.Pkg.Path(), modPath) {
			continue
		}
		k := 0
		for _, b := range f.Blocks {
			for _, ins := range b.Instrs {
				al, ok := ins.(*ssa.Alloc)
				if !ok || !types.Identical(al.Type().(*types.Pointer).Elem(), srT) {
					continue
				}
				n++
				k++
				construct := fmt.Sprintf("%s: stream response #%d carries RangeResponse and Header", funcName(f), k)
				fieldVal := func(a *ssa.Alloc, name string) ssa.Value {
					for _, ref := range *a.Referrers() {
						if fa, ok := ref.(*ssa.FieldAddr); ok && fieldOf(fa).Name() == name {
							for _, r2 := range *fa.Referrers() {
								if st, ok := r2.(*ssa.Store); ok && st.Addr == ssa.Value(fa) {
									return st.Val
								}
							}
						}
					}
					return nil
				}
				rr := fieldVal(al, "RangeResponse")
				good := false
				if rr != nil && !isNilConst(rr) {
					if ra, ok := resolve(rr).(*ssa.Alloc); ok {
						if h := fieldVal(ra, "Header"); h != nil && !isNilConst(h) {
							good = true
						}
					}
				}
				if good {
					res.ok(rule, construct, p.pos(al.Pos()), "both set in the literal")
				} else {
					res.bad(rule, construct, p.pos(al.Pos()), "a stream response is built without RangeResponse or without its Header: the etcd shim's forwarder treats that as a broken internal invariant and aborts the process (klog.Fatalf) - a request whose range stream fails (a revision below the compaction floor is enough) then kills the node")
				}
			}
		}
	}
	if n == 0 {
		res.und(rule, "stream responses", "-", "no literal of StreamRangeResponse found")
	}
}

// checkRegisterOnce: a collector is registered (MustRegister panics on a duplicate) only by the goroutine that, holding
// the registry's write lock, looked the name up in the registry map and found nothing: the lookup follows the Lock, and
// MustRegister sits on the nil edge of that lookup's result. A test on a value read before the lock was taken lets two
// first emitters of one name both register.
func checkRegisterOnce(p *Prog, res *Result, rule string) {
	mp := p.ssaPkg("pkg/metrics/prometheus")
	if mp == nil {
		res.und(rule, "prometheus wrapper", "-", "package not found")
		return
	}
	var fs []*ssa.Function
	for _, f := range p.AllFuncs {
		if f.Pkg == mp && f.Blocks != nil && f.Synthetic == "" {
			fs = append(fs, f)
		}
	}
	sort.Slice(fs, func(i, j int) bool { return funcName(fs[i]) < funcName(fs[j]) })
	for _, f := range fs {
		for _, c := range callsIn(f) {
			cc := c.Common()
			name := ""
			if cc.IsInvoke() {
				name = cc.Method.Name()
			} else if sc := cc.StaticCallee(); sc != nil {
				name = sc.Name()
			}
			if name != "MustRegister" {
				continue
			}
			call, ok := c.(*ssa.Call)
			if !ok {
				continue
			}
			construct := funcName(f) + ": registration follows a miss under the write lock"
			// the write lock taken before
			var lock ssa.Instruction
			for _, c2 := range callsIn(f) {
				sc := c2.Common().StaticCallee()
				if sc == nil || sc.Name() != "Lock" || sc.Signature.Recv() == nil {
					continue
				}
				if !(isNamed(sc.Signature.Recv().Type(), "sync", "RWMutex") || isNamed(sc.Signature.Recv().Type(), "sync", "Mutex")) {
					continue
				}
				if ins, ok := c2.(*ssa.Call); ok && instrDominates(ins, call) {
					lock = ins
				}
			}
			if lock == nil {
				res.bad(rule, construct, p.pos(call.Pos()), "a collector is registered without the registry's write lock held: two first emitters of one metric name both register and the second MustRegister panics")
				continue
			}
			// the guarding miss
			good := false
			for _, cf := range dominatingFacts(call.Block()) {
				if cf.X == nil || !isNilConst(cf.Y) || !((cf.Op == token.EQL && cf.Want) || (cf.Op == token.NEQ && !cf.Want)) {
					continue
				}
				for _, alt := range resolveAll(cf.X) {
					lk, ok := alt.(*ssa.Lookup)
					if !ok {
						if ex, ok2 := alt.(*ssa.Extract); ok2 {
							lk, ok = ex.Tuple.(*ssa.Lookup)
						}
					}
					if !ok || lk == nil {
						continue
					}
					if _, isMap := lk.X.Type().Underlying().(*types.Map); !isMap {
						continue
					}
					if instrDominates(lock, lk) && instrDominates(lk, call) {
						good = true
					}
				}
				// .. and nothing older can reach the test
				for _, alt := range resolveAll(cf.X) {
					if lk, ok := alt.(*ssa.Lookup); ok && !instrDominates(lock, lk) {
						good = false
					}
				}
			}
			if good {
				res.ok(rule, construct, p.pos(call.Pos()), "MustRegister on the nil edge of a registry lookup made after Lock()")
			} else {
				res.bad(rule, construct, p.pos(call.Pos()), "the test that guards MustRegister is not on a registry lookup made under the write lock (a value read before Lock() is stale): two goroutines emitting a metric name for the first time both miss, both register, and the second MustRegister panics - there is no recovery in the request path, the node dies")
			}
		}
	}
}

// checkNoNilMessageElement: the gRPC encoder dereferences every element of a repeated message field; a nil element
// panics inside the server's send, which nothing recovers. Every element that the etcd translation layer puts into a
// slice of message pointers and that comes from a converter of the repository which answers nil for nil is put there
// on a path where the converted value was found non-nil (or is an element of a range over a slice, which the backend
// never fills with nil: those converters are called per element of a response's list).
func checkNoNilMessageElement(p *Prog, res *Result, rule string) {
	ep := p.ssaPkg("pkg/server/etcd")
	mayReturnNil := func(f *ssa.Function) bool {
		if f == nil || f.Blocks == nil || f.Pkg == nil || !strings.HasPrefix(f.Pkg.Pkg.Path(), modPath) {
			return false
		}
		for _, b := range f.Blocks {
			if ret, ok := b.Instrs[len(b.Instrs)-1].(*ssa.Return); ok && len(ret.Results) == 1 && isNilConst(resolve(ret.Results[0])) {
				return true
			}
		}
		return false
	}
	n := 0
	var fs []*ssa.Function
	for _, f := range p.AllFuncs {
		if f.Pkg == ep && f.Blocks != nil && f.Synthetic == "" {
			fs = append(fs, f)
		}
	}
	sort.Slice(fs, func(i, j int) bool { return funcName(fs[i]) < funcName(fs[j]) })
	for _, f := range fs {
		k := 0
		for _, b := range f.Blocks {
			for _, ins := range b.Instrs {
				st, ok := ins.(*ssa.Store)
				if !ok {
					continue
				}
				ia, ok := st.Addr.(*ssa.IndexAddr)
				if !ok {
					continue
				}
				pt, ok := st.Val.Type().Underlying().(*types.Pointer)
				if !ok {
					continue
				}
				if _, isStruct := pt.Elem().Underlying().(*types.Struct); !isStruct {
					continue
				}
				call, ok := resolve(st.Val).(*ssa.Call)
				if !ok || !mayReturnNil(call.Common().StaticCallee()) || len(call.Common().Args) == 0 {
					continue
				}
				_ = ia
				k++
				n++
				construct := fmt.Sprintf("%s: converted element #%d of a repeated message field is not nil", funcName(f), k)
				arg := resolve(call.Common().Args[0])
				guarded := false
				for _, cf := range dominatingFacts(b) {
					if cf.X != nil && isNilConst(cf.Y) && ((cf.Op == token.NEQ && cf.Want) || (cf.Op == token.EQL && !cf.Want)) {
						if (pureKey(resolve(cf.X)) == pureKey(arg) && pureKey(arg) != "") || (accessPath(resolve(cf.X)) == accessPath(arg) && accessPath(arg) != "") {
							guarded = true
						}
					}
				}
				// an element of a list that is being ranged over
				if ld, ok := arg.(*ssa.UnOp); ok && ld.Op == token.MUL {
					if _, ok := ld.X.(*ssa.IndexAddr); ok {
						guarded = true
					}
				}
				if guarded {
					res.ok(rule, construct, p.pos(st.Pos()), "the converted value was tested non-nil, or is an element of the backend's own list")
				} else {
					res.bad(rule, construct, p.pos(st.Pos()), "a converter that answers nil for nil fills an element of a repeated message field without its argument having been tested: for a request that makes the backend answer without a key-value (a guarded update of a key that does not exist) the answer carries a nil element, and the gRPC encoder's nil dereference takes the node down")
				}
			}
		}
	}
	if n == 0 {
		res.und(rule, "etcd translation: converted elements", "-", "none found")
	}
}

// checkNilBeliefContradiction (C20-R11): if a function compares a pointer with nil somewhere, it believes the pointer
// can be nil; a dereference of that same value at a place where neither that comparison nor any other test makes it
// non-nil contradicts the belief (Engler et al.: check-then-use). The value is typically the response variable of a
// handler that is assigned together with an error on several branches: nil whenever the error is not.
func checkNilBeliefContradiction(p *Prog, res *Result, rule string) {
	n := 0
	perFn := map[*ssa.Function]int{}
	for _, f := range p.AllFuncs {
		if f.Pkg == nil || f.Blocks == nil {
			continue
		}
		pp := f.Pkg.Pkg.Path()
		if !strings.HasPrefix(pp, modPath+"/pkg/server") && !strings.HasPrefix(pp, modPath+"/pkg/backend") {
			continue
		}
		// values compared with nil
		believed := map[ssa.Value]bool{}
		for _, b := range f.Blocks {
			iff := ifOf(b)
			if iff == nil {
				continue
			}
			for _, cf := range expandFact(factOf(iff.Cond, true), 0) {
				if cf.X == nil || (cf.Op != token.EQL && cf.Op != token.NEQ) {
					continue
				}
				x, y := cf.X, cf.Y
				if isNilConst(resolve(x)) {
					x, y = y, x
				}
				if !isNilConst(resolve(y)) {
					continue
				}
				if _, ok := x.Type().Underlying().(*types.Pointer); ok {
					believed[x] = true
				}
			}
		}
		if len(believed) == 0 {
			continue
		}
		for _, b := range f.Blocks {
			for _, ins := range b.Instrs {
				var base ssa.Value
				switch x := ins.(type) {
				case *ssa.FieldAddr:
					base = x.X
				case *ssa.UnOp:
					if x.Op == token.MUL {
						base = x.X
					}
				}
				if base == nil || !believed[base] {
					continue
				}
				n++
				perFn[f]++
				construct := fmt.Sprintf("%s: dereference #%d of a pointer that is also compared with nil", funcName(f), perFn[f])
				// every path from the entry to the dereference takes an edge on which the pointer is known non-nil (or an
				// error is known nil), or ends in a call that does not return
				goodFact := func(cf condFact) bool {
					if cf.X == nil {
						return false
					}
					x, y := cf.X, cf.Y
					if isNilConst(resolve(x)) {
						x, y = y, x
					}
					if !isNilConst(resolve(y)) {
						return false
					}
					nonNil := (cf.Op == token.NEQ && cf.Want) || (cf.Op == token.EQL && !cf.Want)
					isNil := (cf.Op == token.EQL && cf.Want) || (cf.Op == token.NEQ && !cf.Want)
					if x == base && nonNil {
						return true
					}
					// an error found nil: the value that came with it is taken to be there
					return isNil && types.Identical(x.Type(), types.Universe.Lookup("error").Type())
				}
				target := ins
				hit, _ := searchFrom(f.Blocks[0], 0, searchOpts{
					bad:  func(i ssa.Instruction) bool { return i == target },
					stop: func(i ssa.Instruction) bool { c, ok := i.(ssa.CallInstruction); return ok && isNoReturnCall(c) },
					skipEdge: func(from *ssa.BasicBlock, si int) bool {
						if ifOf(from) == nil {
							return false
						}
						for _, cf := range expandFact(edgeFact(edge{from, si}), 0) {
							if goodFact(cf) {
								return true
							}
						}
						return false
					},
				})
				safe := hit == nil
				if safe {
					res.ok(rule, construct, p.pos(ins.Pos()), "known non-nil here")
				} else {
					res.bad(rule, construct, p.pos(ins.Pos()), "the function tests this pointer for nil elsewhere, so it can be nil - and it is dereferenced here where nothing has established that it is not (a response variable is nil whenever the call that assigned it returned an error): the handler panics, and nothing recovers a panic in a request goroutine")
				}
			}
		}
	}
	if n == 0 {
		res.ok(rule, "nil-belief contradictions", "-", "no pointer that is compared with nil is dereferenced")
	}
}

// isNoReturnCall: klog.Fatal*, log.Fatal* / Panic*, os.Exit, runtime.Goexit, panic.
func isNoReturnCall(c ssa.CallInstruction) bool {
	if bi, ok := c.Common().Value.(*ssa.Builtin); ok {
		return bi.Name() == "panic"
	}
	sc := c.Common().StaticCallee()
	if sc == nil || sc.Pkg == nil {
		return false
	}
	pp := sc.Pkg.Pkg.Path()
	switch {
	case pp == "k8s.io/klog/v2" && strings.HasPrefix(sc.Name(), "Fatal"):
		return true
	case pp == "log" && (strings.HasPrefix(sc.Name(), "Fatal") || strings.HasPrefix(sc.Name(), "Panic")):
		return true
	case pp == "os" && sc.Name() == "Exit":
		return true
	case pp == "runtime" && sc.Name() == "Goexit":
		return true
	}
	return false
}

// checkRingLogicalPositions: the ring keeps its entries at the logical positions start .. end-1 and maps a logical
// position to a slot with its wrap function. Whatever is handed to the wrap function is therefore a logical position:
// the start or the end counter of the ring, plus or minus an offset. An offset alone (the i of a search over the
// entries) addresses slots as if the ring had never wrapped: the search then runs over a rotated sequence and replay
// from the cache skips events.
func checkRingLogicalPositions(p *Prog, res *Result, rule string) {
	rings, _ := findRings(p)
	n := 0
	perTop := map[*ssa.Function]int{}
	for named, rg := range rings {
		st, ok := named.Underlying().(*types.Struct)
		if !ok {
			continue
		}
		counters := map[*types.Var]bool{}
		for i := 0; i < st.NumFields(); i++ {
			fv := st.Field(i)
			if bt, ok := fv.Type().Underlying().(*types.Basic); ok && bt.Info()&types.IsInteger != 0 && fv != rg.capF {
				counters[fv] = true
			}
		}
		var logical func(v ssa.Value, d int) bool
		logical = func(v ssa.Value, d int) bool {
			v = resolve(v)
			if d > 6 {
				return false
			}
			switch x := v.(type) {
			case *ssa.Convert:
				return logical(x.X, d+1)
			case *ssa.UnOp:
				if x.Op == token.MUL {
					if fa, ok := x.X.(*ssa.FieldAddr); ok && counters[fieldOf(fa)] {
						return true
					}
				}
			case *ssa.BinOp:
				if x.Op == token.ADD {
					return logical(x.X, d+1) || logical(x.Y, d+1)
				}
				if x.Op == token.SUB {
					return logical(x.X, d+1)
				}
			case *ssa.Phi:
				for _, e := range x.Edges {
					if !logical(e, d+1) {
						return false
					}
				}
				return len(x.Edges) > 0
			case *ssa.Parameter:
				acts := p.paramActuals(x)
				if len(acts) == 0 || p.addressTaken(x.Parent()) {
					return false
				}
				for _, a := range acts {
					if !logical(a, d+1) {
						return false
					}
				}
				return true
			}
			return false
		}
		for _, f := range p.AllFuncs {
			if f.Synthetic != "" || f.Blocks == nil {
				continue
			}
			for _, c := range callsIn(f) {
				if c.Common().StaticCallee() != rg.wrap || len(c.Common().Args) < 2 {
					continue
				}
				n++
				top := f
				for top.Parent() != nil {
					top = top.Parent()
				}
				perTop[top]++
				construct := fmt.Sprintf("%s: argument #%d of %s.%s", funcName(top), perTop[top], named.Obj().Name(), rg.wrap.Name())
				if logical(c.Common().Args[1], 0) {
					res.ok(rule, construct, p.pos(c.Pos()), "start / end counter of the ring plus an offset")
				} else {
					res.bad(rule, construct, p.pos(c.Pos()), "the ring's wrap function is handed an offset that is not taken from the ring's start or end counter: it addresses slots as if the ring had never wrapped, so once the start has moved the search (or copy) runs over a rotated sequence - a watch replayed from the cache skips events that are in it")
				}
			}
		}
	}
	if n == 0 {
		res.und(rule, "ring buffers: wrap function", "-", "no call of a ring's wrap function found")
	}
}

// checkRevisionsAreNotPositions (C05-R17): a dimension rule. The ring's positions are counters of events; revisions are
// not dense (a refused write uses up a revision without producing an event), so no position - argument of the wrap
// function, slice bound of the backing array, length of the result - may be computed from a revision (the requested one
// or an event's) by arithmetic. Revisions reach positions only through comparisons (the search).
func checkRevisionsAreNotPositions(p *Prog, res *Result, rule string) {
	rings, _ := findRings(p)
	n := 0
	for named, rg := range rings {
		var tainted func(v ssa.Value, d int) bool
		tainted = func(v ssa.Value, d int) bool {
			v = resolve(v)
			if d > 8 {
				return false
			}
			switch x := v.(type) {
			case *ssa.Parameter:
				bt, ok := x.Type().Underlying().(*types.Basic)
				return ok && bt.Kind() == types.Uint64 && x.Parent().Signature.Recv() != nil
			case *ssa.UnOp:
				if x.Op == token.MUL {
					if fa, ok := x.X.(*ssa.FieldAddr); ok {
						fv := fieldOf(fa)
						if bt, ok := fv.Type().Underlying().(*types.Basic); ok && bt.Kind() == types.Uint64 && fv.Name() == "Revision" {
							return true
						}
					}
				}
			case *ssa.Convert:
				return tainted(x.X, d+1)
			case *ssa.BinOp:
				switch x.Op {
				case token.ADD, token.SUB, token.MUL, token.QUO, token.REM:
					return tainted(x.X, d+1) || tainted(x.Y, d+1)
				}
			case *ssa.Phi:
				for _, e := range x.Edges {
					if tainted(e, d+1) {
						return true
					}
				}
			}
			return false
		}
		for _, f := range p.AllFuncs {
			if f.Blocks == nil || f.Synthetic != "" {
				continue
			}
			top := f
			for top.Parent() != nil {
				top = top.Parent()
			}
			if top.Signature.Recv() == nil {
				continue
			}
			rt := top.Signature.Recv().Type()
			if pt, ok := rt.(*types.Pointer); ok {
				rt = pt.Elem()
			}
			if rt != types.Type(named) {
				continue
			}
			k := 0
			for _, b := range f.Blocks {
				for _, ins := range b.Instrs {
					var sinks []ssa.Value
					switch x := ins.(type) {
					case *ssa.Call:
						if x.Common().StaticCallee() == rg.wrap && len(x.Common().Args) >= 2 {
							sinks = append(sinks, x.Common().Args[1])
						}
					case *ssa.MakeSlice:
						sinks = append(sinks, x.Len, x.Cap)
					case *ssa.Slice:
						if x.Low != nil {
							sinks = append(sinks, x.Low)
						}
						if x.High != nil {
							sinks = append(sinks, x.High)
						}
					case *ssa.IndexAddr:
						sinks = append(sinks, x.Index)
					}
					for _, sv := range sinks {
						n++
						k++
						construct := fmt.Sprintf("%s: position or size #%d", funcName(top), k)
						if tainted(sv, 0) {
							res.bad(rule, construct, p.pos(ins.Pos()), "a position into the event cache (or the size of what is copied out of it) is computed from a revision by arithmetic: revisions are not dense - a refused write uses one up without producing an event - so the replay starts too late (events in the cache are skipped) or the size goes negative")
						} else {
							res.ok(rule, construct, p.pos(ins.Pos()), "counters and offsets only; revisions enter through comparisons")
						}
					}
				}
			}
		}
	}
	if n == 0 {
		res.und(rule, "ring buffers: positions", "-", "no position or size found in the methods of a ring type")
	}
}

// checkCloseOnce (C20-R12): closing a closed channel panics. A function that closes a channel it is handed, and that
// is called from more than one place (the watcher hub's DeleteWatcher: by the hub when it drops a slow watcher, and by
// the goroutine that fires when the watch's context ends), closes it only after finding it in the registry it is kept
// in - a comma-ok lookup with that channel as key that was true - and removes it from the registry on the same path,
// so that the second caller finds nothing.
func checkCloseOnce(p *Prog, res *Result, rule string) {
	p.buildCallers()
	n, guarded := 0, 0
	for _, f := range p.AllFuncs {
		if f.Pkg == nil || f.Blocks == nil || !strings.HasPrefix(f.Pkg.Pkg.Path(), modPath) {
			continue
		}
		for _, c := range callsIn(f) {
			bi, ok := c.Common().Value.(*ssa.Builtin)
			if !ok || bi.Name() != "close" || len(c.Common().Args) != 1 {
				continue
			}
			prm, ok := resolve(c.Common().Args[0]).(*ssa.Parameter)
			if !ok || prm.Parent() != f {
				continue
			}
			n++
			sites := 0
			for _, cs := range p.callers[f] {
				if cs.Parent() != nil && cs.Parent().Pkg != nil && strings.HasPrefix(cs.Parent().Pkg.Pkg.Path(), modPath) {
					sites++
				}
			}
			if sites < 2 {
				continue
			}
			// every caller hands over a channel it has just made (one closer per channel by construction)
			ownEach := true
			pi := paramIndex(prm)
			for _, cs := range p.callers[f] {
				if cs.Common().IsInvoke() || pi >= len(cs.Common().Args) {
					ownEach = false
					continue
				}
				if _, isMake := p.resolveDeep(cs.Common().Args[pi]).(*ssa.MakeChan); !isMake {
					ownEach = false
				}
			}
			if ownEach {
				continue
			}
			guarded++
			construct := fmt.Sprintf("%s: close of the channel it is handed", funcName(f))
			found, deleted := false, false
			var mapV ssa.Value
			for _, cf := range dominatingFacts(c.Block()) {
				ex, ok := resolve(cf.Raw).(*ssa.Extract)
				if !ok || ex.Index != 1 || !cf.Want {
					continue
				}
				lk, ok := ex.Tuple.(*ssa.Lookup)
				if !ok || !lk.CommaOk || resolve(lk.Index) != ssa.Value(prm) {
					continue
				}
				found, mapV = true, lk.X
			}
			if found {
				for _, c2 := range callsIn(f) {
					if b2, ok := c2.Common().Value.(*ssa.Builtin); ok && b2.Name() == "delete" && len(c2.Common().Args) == 2 &&
						resolve(c2.Common().Args[1]) == ssa.Value(prm) && accessPath(c2.Common().Args[0]) == accessPath(mapV) {
						if c2.Block() == c.Block() || c.Block().Dominates(c2.Block()) || c2.Block().Dominates(c.Block()) {
							deleted = true
						}
					}
				}
			}
			switch {
			case !found:
				res.bad(rule, construct, p.pos(c.Pos()), fmt.Sprintf("the function is called from %d places and closes the channel without having found it in the registry first: the second caller (the hub dropped a slow watcher, then the client's context ends) closes a closed channel, and the panic - in a goroutine nothing recovers - takes the node down", sites))
			case !deleted:
				res.bad(rule, construct, p.pos(c.Pos()), "the channel is closed under the registry test but not removed from the registry on that path: the next caller finds it again and closes it a second time")
			default:
				res.ok(rule, construct, p.pos(c.Pos()), "closed only when found in the registry, and removed from it on the same path")
			}
		}
	}
	if guarded == 0 {
		res.ok(rule, "channel closes", "-", fmt.Sprintf("%d close(parameter) site(s), none in a function with several callers", n))
	}
}

// checkCounterValuesNonNegative (C20-R13): the production client panics when a counter is decreased
// ("counter cannot decrease in value"), inside metric emission, in whatever goroutine emits. The value handed to
// EmitCounter is therefore never the result of a subtraction (or a negative constant), directly or through the field or
// variable it is kept in, unless the emission is guarded by a test that the value is positive.
func checkCounterValuesNonNegative(p *Prog, res *Result, rule string) {
	emit := p.ifaceMethod("pkg/metrics", "Metrics", "EmitCounter")
	n, bad := 0, 0
	perFnBad := map[*ssa.Function]int{}
	for _, f := range p.AllFuncs {
		if f.Pkg == nil || f.Blocks == nil || !strings.HasPrefix(f.Pkg.Pkg.Path(), modPath) {
			continue
		}
		for _, c := range callsIn(f) {
			if !c.Common().IsInvoke() || c.Common().Method != emit || len(c.Common().Args) < 2 {
				continue
			}
			n++
			seen := map[ssa.Value]bool{}
			var neg func(v ssa.Value, d int) ssa.Instruction
			neg = func(v ssa.Value, d int) ssa.Instruction {
				v = resolve(v)
				if d > 8 || seen[v] {
					return nil
				}
				seen[v] = true
				switch x := v.(type) {
				case *ssa.MakeInterface:
					return neg(x.X, d+1)
				case *ssa.Convert:
					return neg(x.X, d+1)
				case *ssa.Const:
					if x.Value != nil && x.Value.Kind() == constant.Int && constant.Sign(x.Value) < 0 {
						return c.(ssa.Instruction)
					}
				case *ssa.BinOp:
					if x.Op == token.SUB {
						return x
					}
					if x.Op == token.ADD || x.Op == token.MUL {
						if i := neg(x.X, d+1); i != nil {
							return i
						}
						return neg(x.Y, d+1)
					}
				case *ssa.UnOp:
					if x.Op == token.SUB {
						return x
					}
					if x.Op == token.MUL {
						if fa, ok := x.X.(*ssa.FieldAddr); ok {
							for _, st := range p.fields().stores[fieldOf(fa)] {
								if i := neg(st.Val, d+1); i != nil {
									return i
								}
							}
						}
					}
				case *ssa.Phi:
					for _, e := range x.Edges {
						if i := neg(e, d+1); i != nil {
							return i
						}
					}
				case *ssa.Parameter:
					for _, a := range p.paramActuals(x) {
						if i := neg(a, d+1); i != nil {
							return i
						}
					}
				}
				return nil
			}
			at := neg(c.Common().Args[1], 0)
			if at == nil {
				continue
			}
			// guarded by "value > 0" / ">= 0" / ">= 1"?
			val := resolve(c.Common().Args[1])
			if mi, ok := val.(*ssa.MakeInterface); ok {
				val = resolve(mi.X)
			}
			guardOK := false
			for _, cf := range dominatingFacts(c.Block()) {
				if cf.X == nil {
					continue
				}
				if sameVal(cf.X, val) && ((cf.Op == token.GTR && cf.Want) || (cf.Op == token.GEQ && cf.Want) || (cf.Op == token.LSS && !cf.Want) || (cf.Op == token.LEQ && !cf.Want)) {
					if k, ok := constInt(cf.Y); ok && k >= 0 {
						guardOK = true
					}
				}
			}
			if guardOK {
				continue
			}
			bad++
			perFnBad[f]++
			res.bad(rule, fmt.Sprintf("%s: value of a counter emission #%d", funcName(f), perFnBad[f]), p.pos(at.Pos()), "the value of a counter emission comes out of a subtraction (or is a negative constant) and nothing on the way to the emission establishes that it is not negative: the prometheus client panics on a counter that decreases, in the goroutine that emits - a request whose iterator is closed before its first step is enough")
		}
	}
	if bad == 0 {
		res.ok(rule, "counter emissions", "-", fmt.Sprintf("%d emission(s), no value derived from a subtraction", n))
	}
}

// checkRingSingleSnapshot (C05-R19): what a method of the event cache answers is one snapshot of the cache: the method
// takes the cache's lock at most once per call, directly or through the methods it calls. A method that reads the two
// ends of the window in one critical section and searches in a second one combines the ends of one state with the
// events of another - a watch then resumes after an event it never replayed, or replays one it will also get live.
func checkRingSingleSnapshot(p *Prog, res *Result, rule string) {
	rings, _ := findRings(p)
	n := 0
	for named := range rings {
		isMethod := func(f *ssa.Function) bool {
			if f == nil || f.Signature.Recv() == nil {
				return false
			}
			rt := f.Signature.Recv().Type()
			if pt, ok := rt.(*types.Pointer); ok {
				rt = pt.Elem()
			}
			return rt == types.Type(named)
		}
		acquires := map[*ssa.Function]bool{}
		for changed := true; changed; {
			changed = false
			for _, f := range p.AllFuncs {
				if !isMethod(f) || f.Blocks == nil || acquires[f] {
					continue
				}
				for _, l := range mutexCallsIn(p, f) {
					if l.kind == "Lock" || l.kind == "RLock" {
						acquires[f], changed = true, true
					}
				}
				for _, c := range callsIn(f) {
					if sc := c.Common().StaticCallee(); sc != nil && acquires[sc] && !acquires[f] {
						acquires[f], changed = true, true
					}
				}
			}
		}
		for _, f := range p.AllFuncs {
			if !isMethod(f) || f.Blocks == nil || f.Synthetic != "" {
				continue
			}
			var acqs []ssa.Instruction
			for _, l := range mutexCallsIn(p, f) {
				if (l.kind == "Lock" || l.kind == "RLock") && !l.deferred {
					acqs = append(acqs, l.ins)
				}
			}
			for _, c := range callsIn(f) {
				if sc := c.Common().StaticCallee(); sc != nil && acquires[sc] && isMethod(sc) {
					if _, isDefer := c.(*ssa.Defer); !isDefer {
						acqs = append(acqs, c.(ssa.Instruction))
					}
				}
			}
			if len(acqs) == 0 {
				continue
			}
			n++
			construct := fmt.Sprintf("%s: one critical section per call", funcName(f))
			var second ssa.Instruction
			for _, a1 := range acqs {
				pa := posOf(a1)
				hit, _ := searchFrom(pa.b, pa.i+1, searchOpts{bad: func(i ssa.Instruction) bool {
					for _, a2 := range acqs {
						if i == a2 {
							return true
						}
					}
					return false
				}})
				if hit != nil {
					second = hit
				}
			}
			if second != nil {
				res.bad(rule, construct, p.pos(second.Pos()), "the method takes the cache's lock a second time in one call (directly or through a method it calls): what it read in the first critical section (the ends of the cached window) and what it reads in the second (the events) belong to different states of the cache once an insert falls in between - the watch resumes behind an event it did not replay, or replays one it also receives live")
			} else {
				res.ok(rule, construct, p.pos(acqs[0].Pos()), "at most one acquisition on every path")
			}
		}
	}
	if n == 0 {
		res.und(rule, "event cache: critical sections", "-", "no method of a ring type takes the ring's lock")
	}
}
