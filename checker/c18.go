package main

import (
	"encoding/json"
	"fmt"
	"go/token"
	"go/types"
	"strings"

	"golang.org/x/tools/go/ssa"
)

func init() { register("C18", checkC18) }

type leaderRoles struct {
	isLeader, syncRead                 *types.Func
	writeSinks, streamSinks, readSinks map[*types.Func]string
	shimImpl                           map[*ssa.Function]bool
	guardFns                           map[*ssa.Function]bool
}

func (p *Prog) leaderRoles() *leaderRoles {
	r := p.roles()
	lr := &leaderRoles{writeSinks: map[*types.Func]string{}, streamSinks: map[*types.Func]string{}, readSinks: map[*types.Func]string{},
		shimImpl: map[*ssa.Function]bool{}, guardFns: map[*ssa.Function]bool{}}
	lr.isLeader = p.ifaceMethod("pkg/server/service/leader", "LeaderElection", "IsLeader")
	lr.syncRead = p.ifaceMethod("pkg/server/service/revision", "RevisionSyncer", "SyncReadRevision")
	shim := func(n string) *types.Func { return p.ifaceMethod("pkg/server/etcd", "BackendShim", n) }
	for _, n := range []string{"Create", "Update", "Delete", "Compact"} {
		lr.writeSinks[p.ifaceMethod("pkg/backend", "Backend", n)] = "Backend." + n
		lr.writeSinks[shim(n)] = "BackendShim." + n
	}
	lr.streamSinks[r.BWatch] = "Backend.Watch"
	lr.streamSinks[shim("Watch")] = "BackendShim.Watch"
	for _, n := range []string{"Get", "List", "Count", "GetPartitions", "ListByStream"} {
		lr.readSinks[p.ifaceMethod("pkg/backend", "Backend", n)] = "Backend." + n
		lr.readSinks[shim(n)] = "BackendShim." + n
	}
	// shim implementations are pass-through
	bs := p.namedType("pkg/server/etcd", "BackendShim").Underlying().(*types.Interface)
	for i := 0; i < bs.NumMethods(); i++ {
		for _, impl := range p.implsOf(bs.Method(i)) {
			if impl.Pkg == p.ssaPkg("pkg/server/etcd") {
				lr.shimImpl[impl] = true
			}
		}
	}
	// guard functions: single error result, nil returned only where IsLeader() is known true
	for _, f := range p.AllFuncs {
		if !strings.Contains(funcName(f), "pkg/server") || f.Signature.Results().Len() != 1 || errorResultIndex(f.Signature) != 0 {
			continue
		}
		calls := false
		for _, c := range callsIn(f) {
			if p.isCallToMethod(c, lr.isLeader) {
				calls = true
			}
		}
		if !calls {
			continue
		}
		all, n := true, 0
		for _, b := range f.Blocks {
			ret, ok := b.Instrs[len(b.Instrs)-1].(*ssa.Return)
			if !ok || !isNilConst(resolve(ret.Results[0])) {
				continue
			}
			n++
			if !lr.leaderKnown(p, b, false) {
				all = false
			}
		}
		if all && n > 0 {
			lr.guardFns[f] = true
		}
	}
	// wrappers: a function that returns what a guard function returned (and does something else on the way, such as
	// counting the refusal) is a guard function too
	for changed := true; changed; {
		changed = false
		for _, f := range p.AllFuncs {
			if lr.guardFns[f] || f.Blocks == nil || !strings.Contains(funcName(f), "pkg/server") || f.Signature.Results().Len() != 1 || errorResultIndex(f.Signature) != 0 {
				continue
			}
			okAll, n := true, 0
			for _, b := range f.Blocks {
				ret, ok := b.Instrs[len(b.Instrs)-1].(*ssa.Return)
				if !ok {
					continue
				}
				n++
				c, isCall := resolve(ret.Results[0]).(*ssa.Call)
				if !isCall || c.Common().StaticCallee() == nil || !lr.guardFns[c.Common().StaticCallee()] {
					okAll = false
				}
			}
			if okAll && n > 0 {
				lr.guardFns[f], changed = true, true
			}
		}
	}
	return lr
}

// leaderKnown: block b executes only if IsLeader() returned true (directly or through a guard function).
func (lr *leaderRoles) leaderKnown(p *Prog, b *ssa.BasicBlock, useGuards bool) bool {
	for _, cf := range dominatingFacts(b) {
		if cf.Call != nil && p.isCallToMethod(cf.Call, lr.isLeader) && cf.Want {
			return true
		}
		if useGuards && cf.X != nil {
			x, y := cf.X, cf.Y
			if isNilConst(x) {
				x, y = y, x
			}
			if !isNilConst(y) {
				continue
			}
			if !((cf.Op == token.EQL && cf.Want) || (cf.Op == token.NEQ && !cf.Want)) {
				continue
			}
			if c, ok := resolve(x).(*ssa.Call); ok {
				if sc := c.Common().StaticCallee(); sc != nil && lr.guardFns[sc] {
					return true
				}
			}
		}
	}
	return false
}

// syncedRead: block b executes only after SyncReadRevision() returned nil.
func (lr *leaderRoles) syncedRead(p *Prog, b *ssa.BasicBlock) bool {
	for _, cf := range dominatingFacts(b) {
		if cf.X == nil {
			continue
		}
		x, y := cf.X, cf.Y
		if isNilConst(x) {
			x, y = y, x
		}
		if !isNilConst(y) || !((cf.Op == token.EQL && cf.Want) || (cf.Op == token.NEQ && !cf.Want)) {
			continue
		}
		if c, ok := resolve(x).(*ssa.Call); ok && p.isCallToMethod(c, lr.syncRead) {
			return true
		}
	}
	return false
}

func checkC18(p *Prog, res *Result, tier string) {
	r := p.roles()
	lr := p.leaderRoles()
	res.Explanation = "Guard-dominance rules over the request layer (pkg/server/**): R1 every call of a write entry of the backend (Create/Update/Delete/Compact, natively or through the etcd shim) is dominated by an established IsLeader()==true fact (early return, positive branch or a guard helper whose nil result implies leadership); R2 the same for Backend.Watch; R3 every call of a read entry (Get/List/Count/GetPartitions/ListByStream) is dominated by SyncReadRevision() having returned nil; R4 the follower sync returns nil only as leader or after adopting the revision fetched from the leader, and a fetch error is returned; R5 the leader's revision publisher hands out the committed revision only on the leadership branch and answers non-2xx otherwise, and the fetch accepts only status 200."
	res.NotDecided = "leadership changing between check and use; staleness bounds of the adopted revision; behaviour of the proxy target; the ignored json.Unmarshal result in the fetch."
	res.Assumptions = []string{"LeaderElection.IsLeader reflects leadership (C14/C15)", "net/http: the first WriteHeader/Write call fixes the status code"}
	res.rule("C18-R1", "every call of Backend/BackendShim Create, Update, Delete, Compact in the server layer is dominated by IsLeader()==true", 8)
	res.rule("C18-R2", "every call of Backend/BackendShim Watch in the server layer is dominated by IsLeader()==true", 2)
	res.rule("C18-R3", "every call of Backend/BackendShim Get, List, Count, GetPartitions, ListByStream in the server layer is dominated by SyncReadRevision()==nil", 10)
	res.rule("C18-R4", "SyncReadRevision returns nil only on the leader branch or after SetCurrentRevision(revision fetched from the leader with a nil error)", 2)
	res.rule("C18-R7", "at most one node passes the IsLeader() guards at a time only while the lock is taken by at most one candidate per observed record (C14-R2/R3/R6)", 3)
	res.rule("C18-R8", "the revision a follower adopts from the leader sticks: the committed counter is raised by a guarded, retried compare-and-swap (C02-R1), so of two overlapping syncs the larger one wins", 2)
	res.rule("C18-R9", "a node that loses the lock stops passing its IsLeader() guards at once: the stop callback clears the leader flag by a non-deferred statement on every path before it returns or reaches the call that ends the process", 1)
	res.rule("C18-R6", "no validating step of the leader fetch fails silently: the error of the request and of decoding the answer is returned, or some other non-nil error is (a step whose data is handed to a later checked step, such as reading the body, is validated by that step)", 2)
	res.rule("C18-R5", "the revision publisher returns the backend's committed revision only under IsLeader()==true and otherwise answers with a non-2xx status first (or with a constant body the follower cannot decode); the fetch returns success only for status 200", 3)

	nGuards := 0
	for f := range lr.guardFns {
		nGuards++
		res.Stats["guard_function_"+funcName(f)] = "nil result implies IsLeader()==true"
	}
	res.Stats["guard_functions"] = nGuards

	for _, f := range p.AllFuncs {
		if !strings.HasPrefix(funcName(f), "(*pkg/server") && !strings.HasPrefix(funcName(f), "pkg/server") {
			continue
		}
		if lr.shimImpl[f] || f.Synthetic != "" {
			continue
		}
		cnt := map[string]int{}
		for _, c := range callsIn(f) {
			cc := c.Common()
			if !cc.IsInvoke() {
				continue
			}
			m := cc.Method
			pos := p.pos(c.Pos())
			if name, ok := lr.writeSinks[m]; ok {
				cnt[name]++
				construct := fmt.Sprintf("%s calls %s #%d", funcName(f), name, cnt[name])
				if lr.leaderKnown(p, c.Block(), true) {
					res.ok("C18-R1", construct, pos, "dominated by IsLeader()==true")
				} else {
					res.bad("C18-R1", construct, pos, "a write entry of the backend is reachable without an established IsLeader()==true: a follower could apply the write")
				}
			}
			if name, ok := lr.streamSinks[m]; ok {
				cnt[name]++
				construct := fmt.Sprintf("%s calls %s #%d", funcName(f), name, cnt[name])
				if lr.leaderKnown(p, c.Block(), true) {
					res.ok("C18-R2", construct, pos, "dominated by IsLeader()==true")
				} else {
					res.bad("C18-R2", construct, pos, "Backend.Watch is reachable without an established IsLeader()==true: a follower could serve a watch from its own event history")
				}
			}
			if name, ok := lr.readSinks[m]; ok {
				cnt[name]++
				construct := fmt.Sprintf("%s calls %s #%d", funcName(f), name, cnt[name])
				if lr.syncedRead(p, c.Block()) {
					res.ok("C18-R3", construct, pos, "dominated by SyncReadRevision()==nil")
				} else {
					res.bad("C18-R3", construct, pos, "a read entry of the backend is reachable without SyncReadRevision() having returned nil: a follower could answer from a stale revision")
				}
			}
		}
	}

	// R4: the syncer
	setCur := p.ifaceMethod("pkg/server/service/revision", "Backend", "SetCurrentRevision")
	for _, f := range p.implsOf(lr.syncRead) {
		if f.Synthetic != "" || f.Blocks == nil || !strings.Contains(funcName(f), "pkg/server/service/revision") {
			continue
		}
		n := 0
		for _, b := range f.Blocks {
			ret, ok := b.Instrs[len(b.Instrs)-1].(*ssa.Return)
			if !ok || !isNilConst(resolve(ret.Results[0])) {
				continue
			}
			n++
			construct := fmt.Sprintf("%s: nil return #%d", funcName(f), n)
			if lr.leaderKnown(p, b, false) {
				res.ok("C18-R4", construct, p.pos(ret.Pos()), "leader branch")
				continue
			}
			// need SetCurrentRevision(v) dominating, v = result #0 of a call whose error is known nil here
			good, why := false, "no SetCurrentRevision(fetched revision) dominates this nil return on the follower path"
			for _, c := range callsIn(f) {
				if !(p.isCallToMethod(c, setCur) || p.isCallToMethod(c, r.BSetCur)) || !instrDominates(c.(ssa.Instruction), ret) {
					continue
				}
				fetch, idx, ok := extractOf(argForSigParam(c, 0))
				if !ok || idx != 0 {
					why = "the adopted revision is not the result of the leader fetch"
					continue
				}
				ei := errorResultIndex(fetch.Common().Signature())
				if ei < 0 {
					why = "the fetch has no error result"
					continue
				}
				// the adopted revision reaches the follower unrounded: no floating-point value on its way (a JSON
				// number decoded into interface{} is a float64, exact only up to 2^53 - revisions are far above)
				if derivesFromCallArgs(p, argForSigParam(c, 0), func(v ssa.Value) bool {
					cv, ok := v.(*ssa.Convert)
					if !ok {
						return false
					}
					bt, ok := cv.X.Type().Underlying().(*types.Basic)
					return ok && bt.Info()&types.IsFloat != 0
				}) {
					why = "the revision adopted from the leader passes through a floating-point value: above 2^53 it is rounded, and a follower that rounds down serves a snapshot without the leader's latest committed writes"
					continue
				}
				ferr := extractsOf(fetch)[ei]
				for _, cf := range dominatingFacts(c.Block()) {
					if cf.X == nil {
						continue
					}
					x, y := cf.X, cf.Y
					if isNilConst(x) {
						x, y = y, x
					}
					if isNilConst(y) && resolve(x) == ferr && ((cf.Op == token.EQL && cf.Want) || (cf.Op == token.NEQ && !cf.Want)) {
						good = true
					}
				}
				if !good {
					why = "SetCurrentRevision is reachable when the leader fetch failed"
				}
			}
			if good {
				res.ok("C18-R4", construct, p.pos(ret.Pos()), "follower path adopts the revision fetched from the leader (fetch error nil) before returning nil")
			} else {
				res.bad("C18-R4", construct, p.pos(ret.Pos()), why)
			}
		}
	}

	// R5: publisher and fetch
	checkPublisher(p, r, lr, res)
	// ---- R8: the revision a follower adopts is not lost to a concurrent adoption (C02-R1, committed counter) ----
	{
		sub2 := newResult("C02")
		checkTSOCounters(p, r, sub2, "C02-R1")
		for _, o := range sub2.Obls {
			if strings.Contains(o.Construct, "ommitted") {
				res.add("C18-R8", o.Rule+" "+o.Construct, o.Status, o.Pos, o.Detail)
			}
		}
	}
	checkLeaderStop(p, res, "C18-R9")
	// ---- R7: one holder of the lock (C14) ----
	for _, o := range p.subResult("C14", tier).Obls {
		if o.Rule == "C14-R2" || o.Rule == "C14-R3" || o.Rule == "C14-R6" {
			res.add("C18-R7", o.Rule+" "+o.Construct, o.Status, o.Pos, o.Detail)
		}
	}
}

func checkPublisher(p *Prog, r *Roles, lr *leaderRoles, res *Result) {
	lrType := p.namedType("pkg/server/service/revision", "LeaderRevision")
	// publisher: function in pkg/server that builds a LeaderRevision literal
	var pubs []*ssa.Function
	for _, f := range p.AllFuncs {
		for _, b := range f.Blocks {
			for _, ins := range b.Instrs {
				if al, ok := ins.(*ssa.Alloc); ok && types.Identical(al.Type().(*types.Pointer).Elem(), lrType) && strings.Contains(funcName(f), "pkg/server") && !strings.Contains(funcName(f), "service/revision") {
					pubs = append(pubs, f)
				}
			}
		}
	}
	if len(pubs) != 1 {
		res.und("C18-R5", "revision publisher", "-", fmt.Sprintf("expected one function building a LeaderRevision answer, found %d", len(pubs)))
		return
	}
	pub := pubs[0]
	var pubLeaderFlag ssa.Value // when leadership is tested through a "(revision, ok)" helper: its flag in the publisher
	revField := p.structField("pkg/server/service/revision", "LeaderRevision", "Revision")
	for _, st := range p.fields().stores[revField] {
		if st.Parent() != pub {
			continue
		}
		// the answer may be built by helpers that are handed the revision (body builder, reply function): the publisher
		// is the function in which the revision is no longer a parameter
		val, at := ssa.Value(st.Val), ssa.Instruction(st)
		for d := 0; d < 3; d++ {
			prm, isPrm := resolve(val).(*ssa.Parameter)
			if !isPrm || prm.Parent() != at.Parent() {
				break
			}
			sites, ok := p.liftSites(at.Parent())
			if !ok || len(sites) != 1 {
				break
			}
			cs, isCall := sites[0].(ssa.CallInstruction)
			if !isCall || paramIndex(prm) >= len(cs.Common().Args) {
				break
			}
			val, at = cs.Common().Args[paramIndex(prm)], sites[0]
		}
		pub = at.Parent()
		construct := funcName(pub) + ": published revision"
		c, idx, ok := extractOf(val)
		// .. or comes out of a helper "(revision, ok)" that samples it under leadership and says so: every return of the
		// helper hands back either the committed revision read under IsLeader()==true, or zero together with false,
		// and the publisher has tested the flag
		if ok && !p.isCallToMethod(c, r.BGetCur) {
			if h := c.Common().StaticCallee(); h != nil && h.Blocks != nil && h.Pkg == pub.Pkg {
				flagIdx := -1
				for j := 0; j < h.Signature.Results().Len(); j++ {
					if bt, isB := h.Signature.Results().At(j).Type().Underlying().(*types.Basic); isB && bt.Kind() == types.Bool {
						flagIdx = j
					}
				}
				good := flagIdx >= 0
				var sample *ssa.Call
				for _, b := range h.Blocks {
					ret, isRet := b.Instrs[len(b.Instrs)-1].(*ssa.Return)
					if !isRet || !good {
						continue
					}
					rc, _, isCall := extractOf(ret.Results[idx])
					fl, isConst := resolve(ret.Results[flagIdx]).(*ssa.Const)
					switch {
					case isCall && p.isCallToMethod(rc, r.BGetCur) && isConst && fl.Value.String() == "true" && lr.leaderKnown(p, rc.Block(), false):
						sample = rc
					case isZeroConst(ret.Results[idx]) && isConst && fl.Value.String() == "false":
					default:
						good = false
					}
				}
				flagTested := false
				var fx ssa.Value
				if good && sample != nil {
					fx = extractsOf(c)[flagIdx]
					for _, cf := range dominatingFacts(at.Block()) {
						if fx != nil && cf.Raw == fx && cf.Want {
							flagTested = true
						}
					}
				}
				if good && sample != nil && flagTested {
					res.ok("C18-R5", construct, p.pos(at.Pos()), "committed revision read under IsLeader()==true inside "+funcName(h)+", published only when its flag is true")
					// the non-leader branch of the publisher is the branch on which the flag is false
					pubLeaderFlag = fx
					continue
				}
			}
		}
		if !ok || !(p.isCallToMethod(c, r.BGetCur)) {
			res.bad("C18-R5", construct, p.pos(at.Pos()), "the published revision is not Backend.GetCurrentRevision()")
			continue
		}
		if lr.leaderKnown(p, at.Block(), false) && !lr.leaderKnown(p, c.Block(), false) {
			res.bad("C18-R5", construct, p.pos(c.Pos()), "the committed revision is sampled before leadership is established: a node that has just won the election can sample its follower-era revision, finish its start callback, pass the IsLeader() test and publish the stale revision - the follower adopts it and serves a snapshot that misses committed writes")
			continue
		}
		if lr.leaderKnown(p, at.Block(), false) {
			res.ok("C18-R5", construct, p.pos(st.Pos()), "committed revision published under IsLeader()==true")
		} else {
			res.bad("C18-R5", construct, p.pos(st.Pos()), "the revision is published without an established IsLeader()==true")
		}
	}
	// non-leader branch: first ResponseWriter call is WriteHeader(>=400)
	for _, b := range pub.Blocks {
		iff := ifOf(b)
		if iff == nil {
			continue
		}
		for s := 0; s < 2; s++ {
			cf := edgeFact(edge{b, s})
			viaFlag := pubLeaderFlag != nil && cf.Raw == pubLeaderFlag && !cf.Want
			if !viaFlag && (cf.Call == nil || !p.isCallToMethod(cf.Call, lr.isLeader) || cf.Want) {
				continue
			}
			// follow from the successor: first invoke on http.ResponseWriter
			construct := funcName(pub) + ": non-leader answer"
			// (the write may sit in a small reply helper of the package: the search enters it, and the status is
			// traced back to the frame of the handler)
			var first ssa.CallInstruction
			var firstFr *frame
			rg := &fnRegion{root: pub, descend: func(g *ssa.Function) bool { return g.Pkg == pub.Pkg && g.Synthetic == "" }}
			rg.search(&frame{fn: pub}, b.Succs[s], 0, superOpts{stop: func(ins ssa.Instruction, fr *frame) bool {
				c, ok := ins.(ssa.CallInstruction)
				if !ok || !c.Common().IsInvoke() {
					return false
				}
				if isNamed(c.Common().Value.Type(), "net/http", "ResponseWriter") {
					if first == nil {
						first, firstFr = c, fr
					}
					return true
				}
				return false
			}})
			if first == nil {
				res.bad("C18-R5", construct, p.pos(iff.Pos()), "the non-leader branch writes no status")
				continue
			}
			code, isConst := int64(0), false
			if first.Common().Method.Name() == "WriteHeader" {
				code, isConst = constInt(rg.origin(first.Common().Args[0], firstFr))
			}
			// a body written first fixes status 200; the follower adopts a revision only from an answer it can decode
			// (C18-R6), so a constant body that is no JSON document still makes the follower's read fail
			undecodable := false
			if first.Common().Method.Name() == "Write" && len(first.Common().Args) == 1 {
				v := rg.origin(first.Common().Args[0], firstFr)
				if cv, ok := resolve(v).(*ssa.Convert); ok {
					v = cv.X
				}
				if s, ok := constString(resolve(v)); ok && !json.Valid([]byte(s)) {
					undecodable = true
				}
			}
			if first.Common().Method.Name() == "WriteHeader" && isConst && code >= 400 {
				res.ok("C18-R5", construct, p.pos(first.Pos()), fmt.Sprintf("first write on the non-leader branch is WriteHeader(%d)", code))
			} else if undecodable {
				res.ok("C18-R5", construct, p.pos(first.Pos()), "the non-leader branch answers (with status 200) a constant body that is not a JSON document: the follower's decode fails and its read is refused (C18-R6)")
			} else {
				res.bad("C18-R5", construct, p.pos(first.Pos()), "on the non-leader branch the first call on the ResponseWriter is not WriteHeader(4xx/5xx): net/http then answers 200 and a follower adopts a bogus revision")
			}
		}
	}
	// fetch: function in service/revision that performs the HTTP GET; nil-error returns require StatusCode == 200
	for _, f := range p.AllFuncs {
		if !strings.Contains(funcName(f), "pkg/server/service/revision") || errorResultIndex(f.Signature) < 0 {
			continue
		}
		isStatus := func(v ssa.Value) bool {
			fa, ok := v.(*ssa.FieldAddr)
			return ok && fieldOf(fa).Name() == "StatusCode" && isNamed(fa.X.Type(), "net/http", "Response")
		}
		hasStatus := false
		for _, b := range f.Blocks {
			for _, ins := range b.Instrs {
				if v, ok := ins.(ssa.Value); ok && isStatus(v) {
					hasStatus = true
				}
			}
		}
		if !hasStatus {
			continue
		}
		// R6: no step of the fetch fails silently: the error of the request, of reading the body and of decoding it is
		// returned (or a different non-nil error is); otherwise the zero revision is handed to the follower as the leader's
		{
			fetch := f
			errflowAcceptFailure = true
			checkErrorPreservation(p, res, "C18-R6", func(g *ssa.Function) bool { return g == fetch },
				func(c ssa.CallInstruction) (string, bool) {
					if _, isCall := c.(*ssa.Call); !isCall {
						return "", false
					}
					cc := c.Common()
					var name, pkg string
					if cc.IsInvoke() {
						name = cc.Method.Name()
						if cc.Method.Pkg() != nil {
							pkg = cc.Method.Pkg().Path()
						}
					} else if sc := cc.StaticCallee(); sc != nil && sc.Pkg != nil {
						name, pkg = sc.Name(), sc.Pkg.Pkg.Path()
						if sc.Signature.Recv() != nil {
							name = "(" + types.TypeString(sc.Signature.Recv().Type(), func(q *types.Package) string { return q.Name() }) + ")." + name
						}
					} else {
						return "", false
					}
					if name == "Close" || strings.HasSuffix(name, ".Close") || strings.HasPrefix(pkg, modPath+"/pkg/metrics") {
						return "", false
					}
					// a step whose data goes into a later fallible step of the fetch (the body bytes into the decoder) is
					// validated by that step: a truncated document does not decode, so only the last link must be checked
					if call, ok := c.(*ssa.Call); ok {
						if exs := extractsOf(call); len(exs) > 0 && exs[0] != nil && feedsFallibleCall(exs[0], call) {
							return "", false
						}
					}
					return pkg + "." + name, true
				},
				"the follower takes the zero revision (or whatever was decoded so far) for the leader's committed revision: SyncReadRevision reports success and the follower serves a snapshot that misses committed writes")
			errflowAcceptFailure = false
		}
		ei := errorResultIndex(f.Signature)
		n := 0
		for _, b := range f.Blocks {
			ret, ok := b.Instrs[len(b.Instrs)-1].(*ssa.Return)
			if !ok || !isNilConst(resolve(ret.Results[ei])) {
				continue
			}
			n++
			construct := fmt.Sprintf("%s: success return #%d", funcName(f), n)
			good := false
			for _, cf := range dominatingFacts(b) {
				if cf.X == nil {
					continue
				}
				x, y := cf.X, cf.Y
				if _, isC := constInt(x); isC {
					x, y = y, x
				}
				k, isC := constInt(y)
				u, isLoad := resolve(x).(*ssa.UnOp)
				if !isC || !isLoad || !isStatus(u.X) {
					continue
				}
				if k == 200 && ((cf.Op == token.EQL && cf.Want) || (cf.Op == token.NEQ && !cf.Want)) {
					good = true
				}
			}
			// the revision handed back reaches the follower unrounded: no floating-point value on its way (a JSON number
			// decoded into interface{} is a float64, exact only up to 2^53 - production revisions are far above)
			rounded := false
			for i, rv := range ret.Results {
				if i == ei || !isUint64(rv.Type()) {
					continue
				}
				if derivesFromCallArgs(p, rv, func(v ssa.Value) bool {
					cv, ok := v.(*ssa.Convert)
					if !ok {
						return false
					}
					bt, ok := cv.X.Type().Underlying().(*types.Basic)
					return ok && bt.Info()&types.IsFloat != 0
				}) {
					rounded = true
				}
			}
			if good && rounded {
				res.bad("C18-R5", construct, p.pos(ret.Pos()), "the revision fetched from the leader passes through a floating-point value: above 2^53 it is rounded, and a follower that rounds down serves a snapshot without the leader's latest committed writes")
			} else if good {
				res.ok("C18-R5", construct, p.pos(ret.Pos()), "success is returned only when the leader answered 200")
			} else {
				res.bad("C18-R5", construct, p.pos(ret.Pos()), "the leader fetch reports success without having established StatusCode == 200")
			}
		}
	}
}

// feedsFallibleCall: the value is handed (directly, or through a local variable) to another call of the same function
// that itself returns an error.
func feedsFallibleCall(v ssa.Value, self *ssa.Call) bool {
	seen := map[ssa.Value]bool{}
	var rec func(v ssa.Value, d int) bool
	rec = func(v ssa.Value, d int) bool {
		if seen[v] || d > 4 || v.Referrers() == nil {
			return false
		}
		seen[v] = true
		for _, ref := range *v.Referrers() {
			switch x := ref.(type) {
			case *ssa.Call:
				if x != self && errorResultIndex(x.Common().Signature()) >= 0 {
					return true
				}
			case *ssa.Store:
				if al, ok := x.Addr.(*ssa.Alloc); ok && x.Val == v {
					for _, r2 := range *al.Referrers() {
						if ld, ok := r2.(*ssa.UnOp); ok && rec(ld, d+1) {
							return true
						}
					}
				}
			case *ssa.MakeInterface, *ssa.ChangeType, *ssa.Convert, *ssa.Slice, *ssa.Phi:
				if rec(x.(ssa.Value), d+1) {
					return true
				}
			}
		}
		return false
	}
	return rec(v, 0)
}

// checkLeaderStop (C18-R9): when the lease is lost the node must stop passing its IsLeader() guards before anything
// else happens - in particular before the process-ending call the stop callback finishes with, which runs no deferred
// calls and can take seconds (stack dump, log flush) during which requests are still served. The leader flag (the
// fields the IsLeader implementation reads) is therefore cleared by an ordinary, non-deferred statement that every path
// through the callback passes before it reaches a call that does not return, and before it returns.
func checkLeaderStop(p *Prog, res *Result, rule string) {
	cbs := p.leaderCallbacks()["OnStoppedLeading"]
	if len(cbs) == 0 {
		res.und(rule, "leader-stop callback", "-", "not found")
		return
	}
	for _, cb := range cbs {
		if cb.Blocks == nil {
			continue
		}
		flagFields := map[*types.Var]bool{}
		var reads func(f *ssa.Function, d int)
		reads = func(f *ssa.Function, d int) {
			if f == nil || f.Blocks == nil || d > 2 || f.Pkg != cb.Pkg {
				return
			}
			for _, b := range f.Blocks {
				for _, ins := range b.Instrs {
					if fa, ok := ins.(*ssa.FieldAddr); ok {
						flagFields[fieldOf(fa)] = true
					}
					if c, ok := ins.(*ssa.Call); ok {
						reads(c.Common().StaticCallee(), d+1)
					}
				}
			}
		}
		for _, impl := range p.implsOf(p.ifaceMethod("pkg/server/service/leader", "LeaderElection", "IsLeader")) {
			if impl.Pkg == cb.Pkg {
				reads(impl, 0)
			}
		}
		construct := funcName(cb) + ": the leader flag is cleared first"
		if len(flagFields) == 0 {
			res.und(rule, construct, p.pos(cb.Pos()), "cannot identify the field IsLeader reads")
			continue
		}
		var writesFlag func(f *ssa.Function, d int) bool
		clearsHere := func(ins ssa.Instruction, d int) bool {
			switch x := ins.(type) {
			case *ssa.Store:
				if fa, ok := x.Addr.(*ssa.FieldAddr); ok && flagFields[fieldOf(fa)] {
					return true
				}
			case ssa.CallInstruction:
				if n, ok := isAtomicCall(x); ok && (strings.HasPrefix(n, "Store") || strings.HasPrefix(n, "Swap") || strings.HasPrefix(n, "CompareAndSwap")) {
					if fa, ok := x.Common().Args[0].(*ssa.FieldAddr); ok && flagFields[fieldOf(fa)] {
						return true
					}
				}
				if sc := x.Common().StaticCallee(); sc != nil && writesFlag(sc, d+1) {
					return true
				}
			}
			return false
		}
		writesFlag = func(f *ssa.Function, d int) bool {
			if f == nil || f.Blocks == nil || d > 2 || f.Pkg != cb.Pkg {
				return false
			}
			for _, b := range f.Blocks {
				for _, ins := range b.Instrs {
					if clearsHere(ins, d) {
						return true
					}
				}
			}
			return false
		}
		var clears []ssa.Instruction
		var deferred ssa.Instruction
		for _, b := range cb.Blocks {
			for _, ins := range b.Instrs {
				if !clearsHere(ins, 0) {
					continue
				}
				if _, isDefer := ins.(*ssa.Defer); isDefer {
					deferred = ins
					continue
				}
				if _, isGo := ins.(*ssa.Go); isGo {
					continue
				}
				clears = append(clears, ins)
			}
		}
		if len(clears) == 0 {
			if deferred != nil {
				res.bad(rule, construct, p.pos(deferred.Pos()), "the leader flag is cleared by a deferred call only: the callback ends in a call that terminates the process without running deferred calls, and until the process is gone (stack dump, log flush) the node that has lost the lock still passes its IsLeader() guards - it accepts writes and serves watches while another node may already lead")
			} else {
				res.bad(rule, construct, p.pos(cb.Pos()), "the stop callback does not clear the leader flag: the node that has lost the lock keeps passing its IsLeader() guards")
			}
			continue
		}
		isClear := map[ssa.Instruction]bool{}
		for _, c := range clears {
			isClear[c] = true
		}
		hit, _ := searchFrom(cb.Blocks[0], 0, searchOpts{
			stop: func(i ssa.Instruction) bool { return isClear[i] },
			bad: func(i ssa.Instruction) bool {
				if _, ok := i.(*ssa.Return); ok {
					return true
				}
				c, ok := i.(ssa.CallInstruction)
				return ok && isNoReturnCall(c)
			},
		})
		if hit != nil {
			res.bad(rule, construct, p.pos(hit.Pos()), "a path through the stop callback reaches its end (or the call that terminates the process) without having cleared the leader flag: the node that has lost the lock still passes its IsLeader() guards in the meantime")
		} else {
			res.ok(rule, construct, p.pos(clears[0].Pos()), "non-deferred clear on every path before the callback ends")
		}
	}
}
