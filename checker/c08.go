package main

import (
	"fmt"
	"go/constant"
	"go/token"
	"go/types"
	"strings"

	"golang.org/x/tools/go/ssa"
)

func init() { register("C08", checkC08) }

// compactKeyRole resolves "the compaction record key": the scanner Config field that the floor check reads, and the
// constructor function(s) whose result is stored into that field.
type compactKeyRole struct {
	p        *Prog
	field    *types.Var
	ctors    map[*ssa.Function]bool
	readGets []*ssa.Call // read-only comparisons of the record (the floor check proper)
}

func (p *Prog) compactKey() *compactKeyRole {
	r := p.roles()
	ck := &compactKeyRole{p: p, ctors: map[*ssa.Function]bool{}}
	ck.field = p.structField("pkg/backend/scanner", "Config", "CompactKey")
	for _, v := range p.fieldStores(ck.field) {
		if c, ok := resolve(v).(*ssa.Call); ok {
			if sc := c.Common().StaticCallee(); sc != nil {
				ck.ctors[sc] = true
			}
		}
	}
	if len(ck.ctors) == 0 {
		brokenf("compaction record key: no constructor found for scanner.Config.CompactKey")
	}
	// read-check gets: reads of the record in the scanner package from which no write of the record is reachable
	// (the compaction path reads and then raises the record; the read path only compares)
	for _, f := range p.AllFuncs {
		if f.Pkg == nil || f.Pkg != p.ssaPkg("pkg/backend/scanner") {
			continue
		}
		for _, c := range callsIn(f) {
			cc, ok := c.(*ssa.Call)
			if !ok || !r.is(c, r.KVGet) || !ck.isKey(argForSigParam(c, 1)) {
				continue
			}
			writes := false
			cp0 := posOf(cc)
			searchFrom(cp0.b, cp0.i+1, searchOpts{bad: func(i ssa.Instruction) bool {
				if w, ok := i.(ssa.CallInstruction); ok && w.Common().IsInvoke() {
					m := w.Common().Method
					if (m == r.BWPut || m == r.BWCAS || m == r.BWPutIfNotExist || m == r.BWDel) && ck.isKey(argForSigParam(w, 0)) {
						writes = true
						return true
					}
				}
				return false
			}})
			if !writes {
				ck.readGets = append(ck.readGets, cc)
			}
		}
	}
	if len(ck.readGets) == 0 {
		brokenf("floor check role: no read-only comparison of the compaction record found in the scanner package")
	}
	return ck
}

// floorCheckEntry: calling g with the given constant arguments leads (feasibly) to a read-check get, and g hands that
// check's error back to its caller. Returns the index of g's uint64 (revision) parameter.
func (ck *compactKeyRole) floorCheckEntry(g *ssa.Function, consts map[*ssa.Parameter]constant.Value, depth int) (int, bool) {
	if g == nil || g.Blocks == nil || depth > 3 {
		return -1, false
	}
	revIdx := -1
	for i, prm := range g.Params {
		if b, ok := prm.Type().Underlying().(*types.Basic); ok && b.Kind() == types.Uint64 {
			revIdx = i
		}
	}
	if revIdx < 0 {
		return -1, false
	}
	feasible := feasibleBlocks(g, consts)
	for _, get := range ck.readGets {
		if get.Parent() == g && feasible[get.Block()] {
			return revIdx, true
		}
	}
	// dispatch helper: a feasible return hands back the result of a floor-check entry
	for b := range feasible {
		ret, ok := b.Instrs[len(b.Instrs)-1].(*ssa.Return)
		if !ok || len(ret.Results) == 0 {
			continue
		}
		c, ok := resolve(ret.Results[len(ret.Results)-1]).(*ssa.Call)
		if !ok || c.Common().StaticCallee() == nil {
			continue
		}
		sub := map[*ssa.Parameter]constant.Value{}
		callee := c.Common().StaticCallee()
		for i, prm := range callee.Params {
			if i < len(c.Common().Args) {
				a := resolve(c.Common().Args[i])
				if k, ok := a.(*ssa.Const); ok && k.Value != nil {
					sub[prm] = k.Value
				} else if pp, ok := a.(*ssa.Parameter); ok {
					if v, ok := consts[pp]; ok {
						sub[prm] = v
					}
				}
			}
		}
		if _, ok := ck.floorCheckEntry(callee, sub, depth+1); ok {
			return revIdx, true
		}
	}
	return -1, false
}

// feasibleBlocks: blocks of g reachable when parameters with constant actuals are folded.
func feasibleBlocks(g *ssa.Function, consts map[*ssa.Parameter]constant.Value) map[*ssa.BasicBlock]bool {
	seen := map[*ssa.BasicBlock]bool{}
	work := []*ssa.BasicBlock{g.Blocks[0]}
	for len(work) > 0 {
		b := work[0]
		work = work[1:]
		if seen[b] {
			continue
		}
		seen[b] = true
		if t, ok := b.Instrs[len(b.Instrs)-1].(*ssa.If); ok {
			cond := resolve(t.Cond)
			if prm, ok := cond.(*ssa.Parameter); ok {
				if v, ok := consts[prm]; ok && v.Kind() == constant.Bool {
					if constant.BoolVal(v) {
						work = append(work, b.Succs[0])
					} else {
						work = append(work, b.Succs[1])
					}
					continue
				}
			}
			if bo, ok := cond.(*ssa.BinOp); ok {
				if val, ok := foldCmp(bo, consts); ok {
					if val {
						work = append(work, b.Succs[0])
					} else {
						work = append(work, b.Succs[1])
					}
					continue
				}
			}
		}
		work = append(work, b.Succs...)
	}
	return seen
}

func (ck *compactKeyRole) isKey(v ssa.Value) bool {
	v = ck.p.resolveDeep(v)
	switch x := v.(type) {
	case *ssa.UnOp:
		if x.Op == token.MUL {
			if fa, ok := x.X.(*ssa.FieldAddr); ok && fieldOf(fa) == ck.field {
				return true
			}
		}
	case *ssa.Field:
		return fieldOfField(x) == ck.field
	case *ssa.Call:
		if sc := x.Common().StaticCallee(); sc != nil && ck.ctors[sc] {
			return true
		}
	}
	return false
}

func checkC08(p *Prog, res *Result, tier string) {
	r := p.roles()
	ck := p.compactKey()
	res.Explanation = "Rules on the single record that holds the compaction floor: R1 every write whose key is the compaction-record key is put-if-absent or a compare-and-swap against the value just read that is guarded by 'stored <= new' (monotone writers; no unconditional Put/Del); R2 every call path from the scanner's Range/Count/RangeStream to the creation of an engine iterator passes through the floor check (compact=false) whose non-nil result returns before any iterator is created; R3 the engine snapshot timestamp used for the iterators is taken before the floor check; R4 the floor check refuses exactly on 'stored > requested' and answers nil only when the record is absent or not larger."
	res.NotDecided = "behaviour of the engine's Get/CAS on the record (C11), point reads (outside the statement), concurrency of two compactions beyond the CAS discipline."
	res.Assumptions = []string{"the engines implement CAS / put-if-absent atomically (C11)", "the compaction record is addressed only through scanner.Config.CompactKey and its constructor function"}
	res.rule("C08-R1", "every storage write to the compaction-record key is PutIfNotExist, or a CAS expecting the value just read and dominated by the guard 'stored <= new'", 4)
	res.rule("C08-R2", "every call path from Scanner.Range/Count/RangeStream to an engine iterator passes the floor check with compact=false, and its error returns first", 3)
	res.rule("C08-R3", "the engine timestamp handed to the scan workers is obtained before the floor check", 2)
	res.rule("C08-R5", "the engines evaluate the CAS on the compaction record atomically with the write (C11-R1/R2): otherwise an overlapping older compaction lowers the floor", 6)
	res.rule("C08-R6", "the compaction record is written without an engine TTL (C17-R5): a record that expires lowers the floor to nothing", 4)
	res.rule("C08-R7", "whoever calls a function that writes the compaction record returns its error, whatever its class: a compaction whose record write lost a compare-and-swap is not reported as accepted", 2)
	res.rule("C08-R8", "a compaction request is answered after the compaction record was written: no go statement on any call chain from a request entry point to Backend.Compact", 2)
	res.rule("C08-R9", "the revision a compaction is answered with is the revision its record was raised to (the value handed to the record writer)", 1)
	res.rule("C08-R4", "the floor check returns an error on the true branch of 'stored > requested' and returns nil only if the record is absent or not larger", 2)

	// ---- R1 ----
	type writeOp struct {
		c    ssa.CallInstruction
		kind string
	}
	for _, f := range p.AllFuncs {
		n := 0
		for _, c := range callsIn(f) {
			kind := ""
			var key ssa.Value
			switch {
			case r.is(c, r.BWPut):
				kind, key = "Put", argForSigParam(c, 0)
			case r.is(c, r.BWCAS):
				kind, key = "CAS", argForSigParam(c, 0)
			case r.is(c, r.BWPutIfNotExist):
				kind, key = "PutIfNotExist", argForSigParam(c, 0)
			case r.is(c, r.BWDel):
				kind, key = "Del", argForSigParam(c, 0)
			case r.is(c, r.KVDel):
				kind, key = "KvStorage.Del", argForSigParam(c, 1)
			default:
				continue
			}
			if !c.Common().IsInvoke() || key == nil || !ck.isKey(key) {
				continue
			}
			n++
			construct := fmt.Sprintf("%s: %s on the compaction record #%d", funcName(f), kind, n)
			pos := p.pos(c.Pos())
			switch kind {
			case "PutIfNotExist":
				res.ok("C08-R1", construct, pos, "put-if-absent cannot lower an existing record")
			case "CAS":
				why, ok := casIsMonotone(p, r, ck, c)
				if ok {
					res.ok("C08-R1", construct, pos, why)
				} else {
					res.bad("C08-R1", construct, pos, why)
				}
			default:
				res.bad("C08-R1", construct, pos, "unconditional "+kind+" of the compaction record: an older compaction request can lower (or remove) the floor")
			}
		}
	}

	// ---- R7: a compaction is reported as accepted only if its record write succeeded ----
	// (a lost compare-and-swap means another compaction moved the record - to a revision this rule knows nothing about:
	// answering 'compacted at R' while the floor is below R lets reads below R through)
	{
		writers := map[*ssa.Function]bool{}
		for _, f := range p.AllFuncs {
			for _, c := range callsIn(f) {
				var key ssa.Value
				switch {
				case r.is(c, r.BWCAS), r.is(c, r.BWPutIfNotExist), r.is(c, r.BWPut):
					key = argForSigParam(c, 0)
				}
				if key != nil && c.Common().IsInvoke() && ck.isKey(key) && errorResultIndex(f.Signature) >= 0 {
					writers[f] = true
				}
			}
		}
		errflowAcceptFailure, errflowNoClassification = true, true
		checkErrorPreservation(p, res, "C08-R7",
			func(g *ssa.Function) bool {
				return g.Pkg != nil && strings.HasPrefix(g.Pkg.Pkg.Path(), modPath+"/pkg/backend")
			},
			func(c ssa.CallInstruction) (string, bool) {
				sc := c.Common().StaticCallee()
				if sc == nil || !writers[sc] {
					return "", false
				}
				return funcName(sc), true
			},
			"the compaction is answered as accepted although its record was not written: the floor stays where another compaction put it, and reads below the answered revision are served")
		errflowAcceptFailure, errflowNoClassification = false, false
	}

	checkCompactionAnsweredAfterRecord(p, r, res, "C08-R8")
	checkCompactAnswerNamesRecord(p, r, ck, res, "C08-R9")

	// ---- R4 (floor check shape) ----
	checkFloorCheckShape(p, r, ck, res)

	// ---- R2 / R3 ----
	checkRangeReadsGuarded(p, r, ck, res)
	// ---- R5: engines evaluate conditions atomically (C11-R1/R2) ----
	{
		sub11 := p.subResult("C11", tier)
		for _, o := range sub11.Obls {
			if (o.Rule == "C11-R1" && (strings.Contains(o.Construct, "CAS") || strings.Contains(o.Construct, "PutIfNotExist"))) ||
				(o.Rule == "C11-R2" && (strings.Contains(o.Construct, "Commit:") || strings.Contains(o.Construct, "memkv:"))) {
				res.add("C08-R5", o.Rule+" "+o.Construct, o.Status, o.Pos, o.Detail)
			}
		}
		checkPointReadOnlyForSingleKey(p, res, "C08-R2")
		// ---- R6: the compaction record is written without an engine TTL (C17-R5) ----
		for _, o := range p.subResult("C17", tier).Obls {
			if o.Rule == "C17-R5" && strings.Contains(o.Construct, "TTL operand") && (strings.Contains(o.Construct, "setCompactRecord") || strings.Contains(o.Construct, "checkCompactRace")) {
				res.add("C08-R6", o.Rule+" "+o.Construct, o.Status, o.Pos, o.Detail)
			}
		}
	}

}

// casIsMonotone: oldVal is the value read by a dominating Get of the record in the same function; newVal encodes
// revision `new`; the CAS is dominated by the false edge of stored > new (or an equivalent form).
func casIsMonotone(p *Prog, r *Roles, ck *compactKeyRole, c ssa.CallInstruction) (string, bool) {
	oldVal := resolve(argForSigParam(c, 2))
	newVal := argForSigParam(c, 1)
	rb, ok := p.revisionBytesOf(newVal)
	if !ok {
		return "cannot identify the revision encoded in the new record value", false
	}
	newRev := resolve(rb.Rev)
	// the batch may be built by a helper that is handed the value read and the new revision: judge the write at the
	// (only) call site of the helper, in the frame where the record was read
	site := c.(ssa.Instruction)
	extra := map[string]bool{}
	type guardCond struct {
		c     ssa.Value
		want  bool
		level int
	}
	var conds []guardCond
	var chain []map[ssa.Value]ssa.Value
	for d := 0; d < 3; d++ {
		prm, isPrm := oldVal.(*ssa.Parameter)
		if !isPrm || prm.Parent() != site.Parent() {
			break
		}
		sites, ok := p.liftSites(site.Parent())
		if !ok || len(sites) != 1 {
			break
		}
		cs, isCall := sites[0].(ssa.CallInstruction)
		if !isCall {
			break
		}
		actual := func(v ssa.Value) ssa.Value {
			if q, ok := v.(*ssa.Parameter); ok && q.Parent() == site.Parent() {
				if i := paramIndex(q); i < len(cs.Common().Args) {
					return resolve(cs.Common().Args[i])
				}
			}
			return v
		}
		// what guards the write inside the helper also holds, in terms of the actuals, whenever the call matters
		subst := map[ssa.Value]ssa.Value{}
		for i, q := range site.Parent().Params {
			if i < len(cs.Common().Args) {
				subst[q] = cs.Common().Args[i]
			}
		}
		for _, b := range site.Parent().Blocks {
			if ifOf(b) == nil {
				continue
			}
			for si := 0; si < 2; si++ {
				if edgeDominates(edge{b, si}, site.Block()) {
					iff := ifOf(b)
					want := si == 0
					cnd := iff.Cond
					for {
						if u, ok := cnd.(*ssa.UnOp); ok && u.Op == token.NOT {
							cnd, want = u.X, !want
							continue
						}
						break
					}
					conds = append(conds, guardCond{cnd, want, len(chain)})
				}
			}
		}
		chain = append(chain, subst)
		oldVal, newRev, site = actual(oldVal), actual(newRev), sites[0]
	}
	for _, gc := range conds {
		k, w := canonCondKey(gc.c, gc.want, chain[gc.level:])
		extra[k] = w
	}
	get, idx, ok := extractOf(oldVal)
	if !ok || idx != 0 || !r.is(get, r.KVGet) || !ck.isKey(argForSigParam(get, 1)) {
		return "the expected value of the CAS is not the value just read from the compaction record", false
	}
	if !instrDominates(get, site) {
		return "the read of the record does not dominate the CAS", false
	}
	ok, witness := allPathsPassWith(site.Block(), func(e edge) bool {
		cf := edgeFact(e)
		if cf.X != nil && guardNotGreater(cf, oldVal, newRev, nil) {
			return true
		}
		// the comparison may sit in a boolean helper: what its only return of that value implies, in terms of the actuals
		hf, subst := helperTrueFacts(cf, 0)
		for _, h := range hf {
			if h.X != nil && guardNotGreater(h, oldVal, newRev, subst) {
				return true
			}
		}
		// a helper with several returns of that value: each return that is feasible under what is known at the write
		// (the conditions that guard it inside its own helper, in terms of the actuals) implies the guard
		if sites, subst := helperReturnSiteFacts(cf); len(sites) > 1 {
			feasible, all := 0, true
			for _, fs := range sites {
				contradicts, implies := false, false
				for _, h := range fs {
					if h.Raw != nil {
						k, w := canonCondKey(h.Raw, h.Want, []map[ssa.Value]ssa.Value{subst})
						if ew, ok := extra[k]; ok && ew != w {
							contradicts = true
						}
					}
					if h.X != nil && guardNotGreater(h, oldVal, newRev, subst) {
						implies = true
					}
				}
				if contradicts {
					continue
				}
				feasible++
				if !implies {
					all = false
				}
			}
			if feasible > 0 && all {
				return true
			}
		}
		return false
	}, extra)
	if ok {
		return "CAS expects the value just read and every feasible path to it passes the guard stored <= new", true
	}
	return "the CAS of the compaction record can be reached without passing a comparison stored <= new of the value just read (it can replace a larger record): " + blockPath(p, witness), false
}

// guardNotGreater: the fact implies stored <= new (or stored < new), where stored = BigEndian.Uint64(oldVal).
func guardNotGreater(cf condFact, oldVal, newRev ssa.Value, subst map[ssa.Value]ssa.Value) bool {
	actual := func(v ssa.Value) ssa.Value {
		v = resolve(v)
		if a, ok := subst[v]; ok {
			return resolve(a)
		}
		return v
	}
	isStored := func(v ssa.Value) bool {
		b, ok := decodedUint64(v)
		return ok && actual(b) == oldVal
	}
	isNew := func(v ssa.Value) bool { return actual(v) == newRev }
	op, want := cf.Op, cf.Want
	x, y := cf.X, cf.Y
	switch {
	case isStored(x) && isNew(y):
	case isNew(x) && isStored(y):
		// flip: new op stored  ==  stored op' new
		switch op {
		case token.LSS:
			op = token.GTR
		case token.LEQ:
			op = token.GEQ
		case token.GTR:
			op = token.LSS
		case token.GEQ:
			op = token.LEQ
		}
	default:
		return false
	}
	// now: stored op new is `want`
	switch op {
	case token.GTR:
		return !want // !(stored > new)
	case token.LEQ:
		return want
	case token.LSS:
		return want
	}
	return false
}

func checkFloorCheckShape(p *Prog, r *Roles, ck *compactKeyRole, res *Result) {
	for _, get := range ck.readGets {
		checkFloorCheckShapeAt(p, r, ck, res, get)
	}
}

func checkFloorCheckShapeAt(p *Prog, r *Roles, ck *compactKeyRole, res *Result, get *ssa.Call) {
	f := get.Parent()
	var revParam, compactParam *ssa.Parameter
	for _, prm := range f.Params {
		if b, ok := prm.Type().Underlying().(*types.Basic); ok {
			if b.Kind() == types.Uint64 {
				revParam = prm
			}
			if b.Kind() == types.Bool {
				compactParam = prm
			}
		}
	}
	if revParam == nil {
		res.und("C08-R4", funcName(f), p.pos(f.Pos()), "cannot identify the revision parameter of the floor check")
		return
	}
	val := extractsOf(get)[0]
	gerr := extractsOf(get)[1]
	isStored := func(v ssa.Value) bool { b, ok := decodedUint64(v); return ok && resolve(b) == val }
	// classify returns on the non-compact path
	refuses := false
	for _, b := range f.Blocks {
		ret, ok := b.Instrs[len(b.Instrs)-1].(*ssa.Return)
		if !ok || (compactParam != nil && dominatedByParam(b, compactParam, true)) {
			continue
		}
		if !get.Block().Dominates(b) {
			// a return on the read path that does not come after the read of the stored floor
			if isNilConst(resolve(ret.Results[len(ret.Results)-1])) && (compactParam == nil || dominatedByParam(b, compactParam, false) || !dominatedByParam(get.Block(), compactParam, false)) {
				res.bad("C08-R4", fmt.Sprintf("%s: return #%d on the read path", funcName(f), b.Index), p.pos(ret.Pos()), "the floor check answers 'not compacted' without having read the stored floor (a remembered or derived value instead): a compaction accepted by another node, or an older request that lowered the remembered value, is not seen and reads below the floor are served")
			}
			continue
		}
		facts := dominatingFacts(b)
		greaterTrue, greaterFalse, notFound := false, false, false
		for _, cf := range facts {
			if cf.X == nil {
				continue
			}
			x, y, op, want := cf.X, cf.Y, cf.Op, cf.Want
			if isStored(y) && resolve(x) == ssa.Value(revParam) {
				x, y = y, x
				switch op {
				case token.LSS:
					op = token.GTR
				case token.GEQ:
					op = token.LEQ
				case token.GTR:
					op = token.LSS
				case token.LEQ:
					op = token.GEQ
				}
			}
			if isStored(x) && resolve(y) == ssa.Value(revParam) {
				if (op == token.GTR && want) || (op == token.LEQ && !want) {
					greaterTrue = true
				}
				if (op == token.GTR && !want) || (op == token.LEQ && want) {
					greaterFalse = true
				}
			}
			// err == ErrKeyNotFound
			if gerr != nil && (resolve(x) == gerr || resolve(y) == gerr) {
				other := y
				if resolve(y) == gerr {
					other = x
				}
				if g := globalLoad(other); g != nil && g.Name() == "ErrKeyNotFound" && ((op == token.EQL && want) || (op == token.NEQ && !want)) {
					notFound = true
				}
			}
		}
		isNil := isNilConst(resolve(ret.Results[len(ret.Results)-1]))
		construct := fmt.Sprintf("%s: return #%d on the read path", funcName(f), b.Index)
		switch {
		case greaterTrue && !isNil:
			refuses = true
			res.ok("C08-R4", funcName(f)+": refusal on stored > requested", p.pos(ret.Pos()), "non-nil error returned on the true branch of stored > requested")
		case greaterTrue && isNil:
			res.bad("C08-R4", funcName(f)+": refusal on stored > requested", p.pos(ret.Pos()), "the branch stored > requested returns nil: reads below the floor are served")
		case isNil && !(greaterFalse || notFound):
			res.bad("C08-R4", construct, p.pos(ret.Pos()), "the floor check returns nil on a path that established neither 'record absent' nor 'stored <= requested'")
		case isNil:
			res.ok("C08-R4", funcName(f)+": nil only when absent or not larger", p.pos(ret.Pos()), "nil result is dominated by 'record absent' or 'stored <= requested'")
		}
	}
	if !refuses {
		res.bad("C08-R4", funcName(f)+": refusal on stored > requested", p.pos(f.Pos()), "no return of a non-nil error on the branch stored > requested was found in the floor check")
	}
}

// dominatedByParam: block b executes only when bool parameter prm == val.
func dominatedByParam(b *ssa.BasicBlock, prm *ssa.Parameter, val bool) bool {
	for _, x := range b.Parent().Blocks {
		iff := ifOf(x)
		if iff == nil {
			continue
		}
		for s := 0; s < 2; s++ {
			cf := edgeFact(edge{x, s})
			if cf.Raw == ssa.Value(prm) && cf.Want == val && edgeDominates(edge{x, s}, b) {
				return true
			}
		}
	}
	return false
}

// checkRangeReadsGuarded implements R2 and R3 by a guarded call-graph traversal.
func checkRangeReadsGuarded(p *Prog, r *Roles, ck *compactKeyRole, res *Result) {
	scannerIface := "Scanner"
	entries := []*ssa.Function{}
	for _, m := range []string{"Range", "Count", "RangeStream"} {
		im := p.ifaceMethod("pkg/backend/scanner", scannerIface, m)
		impls := p.implsOf(im)
		if len(impls) == 0 {
			res.und("C08-R2", "Scanner."+m, "-", "no implementation found")
		}
		entries = append(entries, impls...)
	}
	// functions that (transitively) create an engine iterator
	reachIter := map[*ssa.Function]bool{}
	directIter := func(f *ssa.Function) bool {
		for _, c := range callsIn(f) {
			if r.is(c, r.KVIter) && c.Common().IsInvoke() {
				return true
			}
		}
		return false
	}
	succs := func(f *ssa.Function) []*ssa.Function {
		var out []*ssa.Function
		for _, b := range f.Blocks {
			for _, ins := range b.Instrs {
				switch ins := ins.(type) {
				case ssa.CallInstruction:
					if sc := ins.Common().StaticCallee(); sc != nil && sc.Blocks != nil {
						out = append(out, sc)
					}
				case *ssa.MakeClosure:
					out = append(out, ins.Fn.(*ssa.Function))
				}
			}
		}
		return out
	}
	for changed := true; changed; {
		changed = false
		for _, f := range p.AllFuncs {
			if reachIter[f] {
				continue
			}
			if directIter(f) {
				reachIter[f], changed = true, true
				continue
			}
			for _, s := range succs(f) {
				if reachIter[s] {
					reachIter[f], changed = true, true
					break
				}
			}
		}
	}
	revParamIdx := -1
	wcRev := p.structField("pkg/backend/scanner", "workerConfig", "revision")
	wcTso := p.structField("pkg/backend/scanner", "workerConfig", "tso")

	type frame struct {
		f      *ssa.Function
		consts map[*ssa.Parameter]constant.Value
		chain  string
	}
	visited := map[string]bool{}
	var walk func(fr frame, entry *ssa.Function)
	walk = func(fr frame, entry *ssa.Function) {
		key := funcName(fr.f) + fmt.Sprint(len(fr.consts))
		if visited[funcName(entry)+"|"+key] {
			return
		}
		visited[funcName(entry)+"|"+key] = true
		f := fr.f
		// floor-check calls in f with compact=false whose error returns early
		type guard struct {
			call         *ssa.Call
			okEdgeBlocks func(b *ssa.BasicBlock) bool
		}
		var guards []guard
		for _, c := range callsIn(f) {
			cc, ok := c.(*ssa.Call)
			if !ok || cc.Common().StaticCallee() == nil || cc.Common().StaticCallee().Pkg != f.Pkg {
				continue
			}
			callee := cc.Common().StaticCallee()
			sub := map[*ssa.Parameter]constant.Value{}
			for i, prm := range callee.Params {
				if i < len(cc.Common().Args) {
					a := resolve(cc.Common().Args[i])
					if k, ok := a.(*ssa.Const); ok && k.Value != nil {
						sub[prm] = k.Value
					} else if pp, ok := a.(*ssa.Parameter); ok {
						if v, ok := fr.consts[pp]; ok {
							sub[prm] = v
						}
					}
				}
			}
			ri, isCheck := ck.floorCheckEntry(callee, sub, 0)
			if !isCheck {
				continue
			}
			revParamIdx = ri
			call := cc
			guards = append(guards, guard{call: call, okEdgeBlocks: func(b *ssa.BasicBlock) bool {
				// b is dominated by the edge "result == nil" of this call
				for _, cf := range dominatingFacts(b) {
					if cf.X == nil {
						continue
					}
					x, y := cf.X, cf.Y
					if isNilConst(x) {
						x, y = y, x
					}
					if resolve(x) == ssa.Value(call) && isNilConst(y) && ((cf.Op == token.EQL && cf.Want) || (cf.Op == token.NEQ && !cf.Want)) {
						return true
					}
				}
				return false
			}})
		}
		guarded := func(ins ssa.Instruction) *ssa.Call {
			for _, g := range guards {
				if instrDominates(g.call, ins) && g.okEdgeBlocks(ins.Block()) {
					return g.call
				}
			}
			return nil
		}
		for _, b := range f.Blocks {
			for _, ins := range b.Instrs {
				var target *ssa.Function
				var callIns ssa.CallInstruction
				isIter := false
				switch x := ins.(type) {
				case ssa.CallInstruction:
					if r.is(x, r.KVIter) && x.Common().IsInvoke() {
						isIter = true
					} else if sc := x.Common().StaticCallee(); sc != nil && reachIter[sc] {
						target, callIns = sc, x
					}
				case *ssa.MakeClosure:
					if fn := x.Fn.(*ssa.Function); reachIter[fn] {
						target = fn
					}
				}
				if !isIter && target == nil {
					continue
				}
				if g := guarded(ins); g != nil {
					construct := fmt.Sprintf("%s: scan below %s is guarded by the floor check", funcName(entry), funcName(f))
					res.ok("C08-R2", construct, p.pos(g.Pos()), "floor check (compact=false) dominates the scan and its non-nil result returns first; chain: "+fr.chain)
					// R2': the checked revision is the scan revision; R3: snapshot before check
					ri, _ := ck.floorCheckEntry(g.Common().StaticCallee(), nil, 0)
					if ri < 0 {
						ri = revParamIdx
					}
					checkGuardDetails(p, r, ck, res, f, g, ri, wcRev, wcTso)
					continue
				}
				if isIter {
					res.bad("C08-R2", fmt.Sprintf("%s: engine iterator created in %s", funcName(entry), funcName(f)), p.pos(ins.Pos()),
						"an engine iterator is created on a path from "+funcName(entry)+" that does not pass the compaction-floor check: "+fr.chain)
					continue
				}
				// descend
				nc := map[*ssa.Parameter]constant.Value{}
				if callIns != nil {
					for i, prm := range target.Params {
						if i < len(callIns.Common().Args) {
							a := callIns.Common().Args[i]
							if k, ok := a.(*ssa.Const); ok && k.Value != nil {
								nc[prm] = k.Value
							} else if pp, ok := a.(*ssa.Parameter); ok {
								if v, ok := fr.consts[pp]; ok {
									nc[prm] = v
								}
							}
						}
					}
				}
				walk(frame{target, nc, fr.chain + " -> " + funcName(target)}, entry)
			}
		}
	}
	c08TsoScopes = map[*ssa.Function]bool{}
	for _, e := range entries {
		walk(frame{e, nil, funcName(e)}, e)
	}
	// R3: nobody replaces the snapshot timestamp of a worker after the function that checked the floor configured it
	// (a retried attempt must read the snapshot the read was admitted on: the check is not repeated)
	nLate := 0
	for _, st := range p.fields().stores[wcTso] {
		if c08TsoScopes[st.Parent()] {
			continue
		}
		if fa, ok := st.Addr.(*ssa.FieldAddr); ok && isFreshObject(fa.X) {
			continue // a literal under construction (copied field by field by a constructor)
		}
		nLate++
		res.bad("C08-R3", fmt.Sprintf("%s: snapshot timestamp replaced after the floor check #%d", funcName(st.Parent()), nLate), p.pos(st.Pos()),
			"the snapshot timestamp of a scan worker is overwritten outside the function that took it before the floor check: the next attempt reads a snapshot that is newer than the check (zero lets the engine pick a fresh one), so a compaction accepted in between removes versions the read still needs and the read succeeds with keys missing")
	}
	if nLate == 0 && len(p.fields().stores[wcTso]) > 0 {
		res.ok("C08-R3", "workerConfig.tso: assigned only where the floor is checked", "-", fmt.Sprintf("%d store(s), all in the scope of a function that checks the floor", len(p.fields().stores[wcTso])))
	}
}

// c08TsoScopes: the functions (with their closures) in which a floor check guards a scan
var c08TsoScopes map[*ssa.Function]bool

func checkGuardDetails(p *Prog, r *Roles, ck *compactKeyRole, res *Result, f *ssa.Function, g *ssa.Call, revParamIdx int, wcRev, wcTso *types.Var) {
	// revision checked == revision scanned: values stored into workerConfig.revision in f or its closures
	checked := p.resolveDeep(g.Common().Args[revParamIdx])
	var scopes []*ssa.Function
	var collect func(fn *ssa.Function)
	collect = func(fn *ssa.Function) {
		scopes = append(scopes, fn)
		for _, a := range fn.AnonFuncs {
			collect(a)
		}
	}
	collect(f)
	for _, s := range scopes {
		c08TsoScopes[s] = true
	}
	inScope := func(fn *ssa.Function) bool {
		for _, s := range scopes {
			if s == fn {
				return true
			}
		}
		return false
	}
	nrev := 0
	for _, st := range p.fields().stores[wcRev] {
		if !inScope(st.Parent()) {
			continue
		}
		nrev++
		construct := fmt.Sprintf("%s: checked revision is the scanned revision", funcName(f))
		if p.resolveDeep(st.Val) == checked {
			res.ok("C08-R2", construct, p.pos(st.Pos()), "workerConfig.revision and the floor-check argument are the same value")
		} else {
			res.bad("C08-R2", construct, p.pos(st.Pos()), "the revision handed to the scan worker differs from the revision that was checked against the compaction floor")
		}
	}
	// R3: tso store value is result of GetTimestampOracle call that dominates the guard
	for _, st := range p.fields().stores[wcTso] {
		if !inScope(st.Parent()) {
			continue
		}
		construct := fmt.Sprintf("%s: snapshot timestamp before the floor check", funcName(f))
		call, idx, ok := extractOf(p.resolveDeep(st.Val))
		if !ok || idx != 0 || !r.is(call, r.KVGetTSO) {
			res.bad("C08-R3", construct, p.pos(st.Pos()), "the snapshot timestamp of the scan worker is not the result of GetTimestampOracle")
			continue
		}
		if call.Parent() == f && instrDominates(call, g) {
			res.ok("C08-R3", construct, p.pos(call.Pos()), "GetTimestampOracle dominates the floor check; a compaction accepted after the check cannot affect the snapshot")
		} else {
			res.bad("C08-R3", construct, p.pos(call.Pos()), "the engine snapshot timestamp is taken after (or not on every path before) the floor check: a compaction can slip between check and snapshot")
		}
	}
}

// checkPointReadOnlyForSingleKey: the point read (Get) is served without looking at the compaction floor - it reads
// the newest version at or below the revision directly. Only a request that names no range end may be routed to it; a
// request with a range end, however narrow, is a range read and goes through the scanner, which refuses revisions below
// the floor. In the etcd Range handler every call of the shim's Get is dominated by len(RangeEnd) == 0.
func checkPointReadOnlyForSingleKey(p *Prog, res *Result, rule string) {
	ep := p.ssaPkg("pkg/server/etcd")
	getM := p.ifaceMethod("pkg/server/etcd", "BackendShim", "Get")
	n := 0
	for _, f := range p.AllFuncs {
		if f.Pkg != ep || f.Blocks == nil || f.Synthetic != "" {
			continue
		}
		k := 0
		for _, c := range callsIn(f) {
			if !c.Common().IsInvoke() || c.Common().Method != getM {
				continue
			}
			k++
			n++
			construct := fmt.Sprintf("%s: point read #%d only for a request without range end", funcName(f), k)
			good := false
			for _, cf := range dominatingFacts(c.Block()) {
				if cf.X == nil || !isZeroConst(cf.Y) || !((cf.Op == token.EQL && cf.Want) || (cf.Op == token.NEQ && !cf.Want)) {
					continue
				}
				if lc, ok := resolve(cf.X).(*ssa.Call); ok {
					if bi, ok := lc.Common().Value.(*ssa.Builtin); ok && bi.Name() == "len" && strings.HasSuffix(accessPath(lc.Common().Args[0]), ".RangeEnd") {
						good = true
					}
				}
			}
			if good {
				res.ok(rule, construct, p.pos(c.Pos()), "dominated by len(RangeEnd) == 0")
			} else {
				res.bad(rule, construct, p.pos(c.Pos()), "a request that names a range end is answered by the point read, which never consults the compaction floor: a range read at a revision below an accepted compaction is served (with whatever is left of the key) instead of being refused")
			}
		}
	}
	if n == 0 {
		res.und(rule, "etcd Range handler: point read", "-", "no call of the shim's Get found")
	}
}

// checkCompactionAnsweredAfterRecord (C08-R8): a request that asks for a compaction is answered after the compaction
// record was written (or failed to be): on no call chain from a request entry point to Backend.Compact is there a go
// statement. An "accepted, will be done in the background" answer raises the floor some time after the client was
// told it is raised - reads below the answered revision are served in between, and a failure of the record write is
// never reported.
func checkCompactionAnsweredAfterRecord(p *Prog, r *Roles, res *Result, rule string) {
	type key struct {
		f     *ssa.Function
		async bool
	}
	n := 0
	for _, entry := range p.requestEntries() {
		seen := map[key]bool{}
		var asyncAt, syncAt ssa.CallInstruction
		var walk func(f *ssa.Function, async bool, via ssa.CallInstruction, d int)
		walk = func(f *ssa.Function, async bool, via ssa.CallInstruction, d int) {
			if f == nil || f.Blocks == nil || d > 6 || seen[key{f, async}] {
				return
			}
			seen[key{f, async}] = true
			for _, c := range callsIn(f) {
				_, isGo := c.(*ssa.Go)
				a := async || isGo
				v := via
				if isGo && !async {
					v = c
				}
				if c.Common().IsInvoke() && (c.Common().Method == r.BCompact || (c.Common().Method.Name() == "Compact" && c.Common().Method.Pkg() != nil && strings.HasSuffix(c.Common().Method.Pkg().Path(), "pkg/server/etcd"))) {
					if a {
						asyncAt = v
					} else {
						syncAt = c
					}
					continue
				}
				for _, g := range p.calleesOf(c) {
					if g.Pkg != nil && strings.HasPrefix(g.Pkg.Pkg.Path(), modPath+"/pkg/server") {
						walk(g, a, v, d+1)
					}
				}
			}
		}
		walk(entry, false, nil, 0)
		if asyncAt == nil && syncAt == nil {
			continue
		}
		n++
		construct := funcName(entry) + ": the compaction is answered after its record was written"
		if asyncAt != nil {
			res.bad(rule, construct, p.pos(asyncAt.Pos()), "the request handler reaches Backend.Compact through a go statement: the client is told the compaction is accepted before the compaction record is written - until then reads below the answered revision are served, and if the write of the record fails nobody learns of it")
		} else {
			res.ok(rule, construct, p.pos(syncAt.Pos()), "Backend.Compact is called synchronously on every chain from the handler")
		}
	}
	if n == 0 {
		res.und(rule, "compaction request handlers", "-", "no request entry point reaches Backend.Compact")
	}
}

// checkCompactAnswerNamesRecord (C08-R9): "compacted at R" is answered with the revision the compaction record was
// raised to - the value handed to the function that writes the record - not with the revision before it was held
// back behind a queued unknown-outcome write (reads between the two are served although the answer said otherwise).
func checkCompactAnswerNamesRecord(p *Prog, r *Roles, ck *compactKeyRole, res *Result, rule string) {
	bp := p.ssaPkg("pkg/backend")
	// functions that (transitively, within pkg/backend) write the compaction record, with the parameter that carries the revision
	writers := map[*ssa.Function]bool{}
	// the key may be handed to the writing helper by its caller
	isKeyUp := func(key ssa.Value) bool {
		prm, ok := resolve(key).(*ssa.Parameter)
		if !ok {
			return false
		}
		acts := p.paramActuals(prm)
		if len(acts) == 0 {
			return false
		}
		for _, a := range acts {
			if !ck.isKey(a) {
				return false
			}
		}
		return true
	}
	for _, f := range p.AllFuncs {
		if f.Pkg != bp {
			continue
		}
		for _, c := range callsIn(f) {
			var key ssa.Value
			switch {
			case r.is(c, r.BWCAS), r.is(c, r.BWPutIfNotExist), r.is(c, r.BWPut):
				key = argForSigParam(c, 0)
			}
			if key != nil && c.Common().IsInvoke() && (ck.isKey(key) || isKeyUp(key)) {
				writers[f] = true
			}
		}
	}
	for changed := true; changed; {
		changed = false
		for _, f := range p.AllFuncs {
			if f.Pkg != bp || writers[f] || f.Blocks == nil {
				continue
			}
			for _, c := range callsIn(f) {
				if sc := c.Common().StaticCallee(); sc != nil && writers[sc] {
					writers[f], changed = true, true
				}
			}
		}
	}
	hdr := p.namedType("github.com/kubewharf/kubebrain-client/api/v2rpc", "ResponseHeader")
	n := 0
	for _, f := range p.implsOf(r.BCompact) {
		if f.Pkg != bp || f.Blocks == nil {
			continue
		}
		// the revision handed to the record writer
		var recRev ssa.Value
		var wc ssa.CallInstruction
		for _, c := range callsIn(f) {
			sc := c.Common().StaticCallee()
			if sc == nil || !writers[sc] {
				continue
			}
			for i, prm := range sc.Params {
				if bt, ok := prm.Type().Underlying().(*types.Basic); ok && bt.Kind() == types.Uint64 && i < len(c.Common().Args) {
					recRev, wc = c.Common().Args[i], c
				}
			}
		}
		if recRev == nil {
			continue
		}
		// the revision of the header of the answer
		var headerRevs []ssa.Value
		var at []ssa.Instruction
		for _, b := range f.Blocks {
			for _, ins := range b.Instrs {
				switch x := ins.(type) {
				case *ssa.Store:
					if fa, ok := x.Addr.(*ssa.FieldAddr); ok && fieldOf(fa).Name() == "Revision" {
						if pt, ok := fa.X.Type().Underlying().(*types.Pointer); ok && types.Identical(pt.Elem(), hdr) {
							headerRevs, at = append(headerRevs, x.Val), append(at, x)
						}
					}
				case *ssa.Call:
					sc := x.Common().StaticCallee()
					if sc != nil && sc.Pkg == bp && sc.Signature.Results().Len() == 1 && len(x.Common().Args) == 1 {
						if pt, ok := sc.Signature.Results().At(0).Type().Underlying().(*types.Pointer); ok && types.Identical(pt.Elem(), hdr) {
							headerRevs, at = append(headerRevs, x.Common().Args[0]), append(at, x)
						}
					}
				}
			}
		}
		for i, hv := range headerRevs {
			n++
			construct := fmt.Sprintf("%s: header revision #%d of the answer is the revision of the record", funcName(f), i+1)
			if resolve(hv) == resolve(recRev) {
				res.ok(rule, construct, p.pos(at[i].Pos()), "the value handed to "+callNameOf(wc))
			} else {
				res.bad(rule, construct, p.pos(at[i].Pos()), "the answer names another revision than the one the compaction record is raised to (the requested revision instead of the one held back behind a queued unknown-outcome write): the client is told 'compacted at R' while the floor is below R, and reads between the two are still served")
			}
		}
	}
	if n == 0 {
		res.und(rule, "Backend.Compact: header of the answer", "-", "no header built in the implementation of Backend.Compact")
	}
}

func callNameOf(c ssa.CallInstruction) string {
	if sc := c.Common().StaticCallee(); sc != nil {
		return funcName(sc)
	}
	return "the record writer"
}
