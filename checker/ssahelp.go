package main

import (
	"fmt"
	"go/constant"
	"go/token"
	"go/types"
	"sort"
	"strings"

	"golang.org/x/tools/go/ssa"
)

// ---------- field stores / static callers ----------

func fieldOf(fa *ssa.FieldAddr) *types.Var {
	t := fa.X.Type().Underlying().(*types.Pointer).Elem().Underlying().(*types.Struct)
	return t.Field(fa.Field)
}

func fieldOfField(f *ssa.Field) *types.Var {
	t := f.X.Type().Underlying().(*types.Struct)
	return t.Field(f.Field)
}

type fieldIndex struct {
	stores map[*types.Var][]*ssa.Store
	loads  map[*types.Var][]ssa.Instruction // UnOp loads through FieldAddr, and ssa.Field reads
	addrs  map[*types.Var][]*ssa.FieldAddr
}

func (p *Prog) fields() *fieldIndex {
	if p.fidx != nil {
		return p.fidx
	}
	fi := &fieldIndex{stores: map[*types.Var][]*ssa.Store{}, loads: map[*types.Var][]ssa.Instruction{}, addrs: map[*types.Var][]*ssa.FieldAddr{}}
	for _, f := range p.AllFuncs {
		for _, b := range f.Blocks {
			for _, ins := range b.Instrs {
				switch ins := ins.(type) {
				case *ssa.FieldAddr:
					fv := fieldOf(ins)
					fi.addrs[fv] = append(fi.addrs[fv], ins)
					for _, r := range *ins.Referrers() {
						switch r := r.(type) {
						case *ssa.Store:
							if r.Addr == ins {
								fi.stores[fv] = append(fi.stores[fv], r)
							}
						case *ssa.UnOp:
							if r.Op == token.MUL {
								fi.loads[fv] = append(fi.loads[fv], r)
							}
						}
					}
				case *ssa.Field:
					fv := fieldOfField(ins)
					fi.loads[fv] = append(fi.loads[fv], ins)
				}
			}
		}
	}
	p.fidx = fi
	return fi
}

// fieldStores returns all values stored to a struct field anywhere in the repo (composite literals included).
func (p *Prog) fieldStores(f *types.Var) []ssa.Value {
	var out []ssa.Value
	for _, s := range p.fields().stores[f] {
		out = append(out, s.Val)
	}
	return out
}

func (p *Prog) buildCallersLite() {
	if p.staticCallers != nil {
		return
	}
	p.staticCallers = map[*ssa.Function][]ssa.CallInstruction{}
	for _, f := range p.AllFuncs {
		if f.Synthetic != "" {
			continue // promoted-method / bound-method wrappers only forward
		}
		for _, b := range f.Blocks {
			for _, ins := range b.Instrs {
				if c, ok := ins.(ssa.CallInstruction); ok {
					if sc := c.Common().StaticCallee(); sc != nil {
						p.staticCallers[sc] = append(p.staticCallers[sc], c)
					}
				}
			}
		}
	}
}

// structField finds a field object by name in a named struct type of the repo.
func (p *Prog) structField(pkgPath, tname, fname string) *types.Var {
	n := p.namedType(pkgPath, tname)
	st, ok := n.Underlying().(*types.Struct)
	if !ok {
		brokenf("%s.%s is not a struct", pkgPath, tname)
	}
	for i := 0; i < st.NumFields(); i++ {
		if st.Field(i).Name() == fname {
			return st.Field(i)
		}
	}
	brokenf("struct %s.%s has no field %s", pkgPath, tname, fname)
	return nil
}

// ---------- instruction positions ----------

type ipos struct {
	b *ssa.BasicBlock
	i int
}

func posOf(ins ssa.Instruction) ipos {
	b := ins.Block()
	for i, x := range b.Instrs {
		if x == ins {
			return ipos{b, i}
		}
	}
	return ipos{b, -1}
}

// instrDominates: a executes before b on every path to b. Within one function this is block dominance; across
// functions b is lifted to the call sites of its function (all of them must be dominated), and a is lifted to the
// call sites of its own function when a executes on every path through that function.
func instrDominates(a, b ssa.Instruction) bool { return instrDominatesD(a, b, 0) }

func instrDominatesD(a, b ssa.Instruction, depth int) bool {
	if a.Parent() == b.Parent() {
		pa, pb := posOf(a), posOf(b)
		if pa.b == pb.b {
			return pa.i < pb.i
		}
		return pa.b.Dominates(pb.b)
	}
	if depth > 3 || gp == nil {
		return false
	}
	// lift b to its callers
	if sites, ok := gp.liftSites(b.Parent()); ok {
		all := true
		for _, cs := range sites {
			if !instrDominatesD(a, cs, depth+1) {
				all = false
				break
			}
		}
		if all {
			return true
		}
	}
	// lift a: a runs on every path through its function g, and some call of g dominates b
	g := a.Parent()
	if g != nil && alwaysExecutes(a) {
		if sites, ok := gp.liftSites(g); ok {
			for _, cs := range sites {
				if instrDominatesD(cs, b, depth+1) {
					return true
				}
			}
		}
	}
	return false
}

// alwaysExecutes: the instruction's block dominates every return of its function.
func alwaysExecutes(a ssa.Instruction) bool {
	f := a.Parent()
	n := 0
	for _, b := range f.Blocks {
		if _, ok := b.Instrs[len(b.Instrs)-1].(*ssa.Return); ok {
			n++
			if !a.Block().Dominates(b) {
				return false
			}
		}
	}
	return n > 0
}

// valueInstr returns v as an instruction, if it is one.
func valueInstr(v ssa.Value) ssa.Instruction {
	if i, ok := v.(ssa.Instruction); ok {
		return i
	}
	return nil
}

// ---------- branch edges ----------

// An edge is the succ-th successor edge of a block ending in If.
type edge struct {
	from *ssa.BasicBlock
	succ int // 0 = true, 1 = false
}

func ifOf(b *ssa.BasicBlock) *ssa.If {
	if len(b.Instrs) == 0 {
		return nil
	}
	i, _ := b.Instrs[len(b.Instrs)-1].(*ssa.If)
	return i
}

// edgeDominates reports whether every path to block x goes through edge e.
func edgeDominates(e edge, x *ssa.BasicBlock) bool {
	t := e.from.Succs[e.succ]
	if !t.Dominates(x) {
		return false
	}
	// all predecessors of t other than e.from must be dominated by t (back edges) for the edge to be the only entry
	for _, pr := range t.Preds {
		if pr == e.from {
			continue
		}
		if !t.Dominates(pr) {
			return false
		}
	}
	// if both successors of from are t the edge does not discriminate
	if e.from.Succs[0] == e.from.Succs[1] {
		return false
	}
	return true
}

// cond describes an atomic branch condition: (X op Y) is `want` on the edge.
type condFact struct {
	X, Y ssa.Value
	Op   token.Token
	Want bool
	Call *ssa.Call // for boolean calls: Call returned Want
	Raw  ssa.Value
}

// edgeFacts returns the atomic facts known on edge e (handles negation `!x`).
func edgeFact(e edge) condFact {
	return factOf(ifOf(e.from).Cond, e.succ == 0)
}

// factOf: the atomic fact "boolean value c is want".
func factOf(c ssa.Value, want bool) condFact {
	for {
		if u, ok := c.(*ssa.UnOp); ok && u.Op == token.NOT {
			c = u.X
			want = !want
			continue
		}
		break
	}
	cf := condFact{Want: want, Raw: c}
	switch c := c.(type) {
	case *ssa.BinOp:
		cf.X, cf.Y, cf.Op = c.X, c.Y, c.Op
	case *ssa.Call:
		cf.Call = c
	}
	return cf
}

// dominatingFacts lists the branch facts that hold whenever block x executes: the edges dominating x in its own
// function, plus (interprocedurally) the facts that hold at every call site of that function — helper extraction
// must not hide a guard that the caller established.
func dominatingFacts(x *ssa.BasicBlock) []condFact { return dominatingFactsD(x, 0) }

func localFacts(x *ssa.BasicBlock) []condFact {
	var out []condFact
	fn := x.Parent()
	for _, b := range fn.Blocks {
		if ifOf(b) == nil {
			continue
		}
		for s := 0; s < 2; s++ {
			if edgeDominates(edge{b, s}, x) {
				out = append(out, expandFact(edgeFact(edge{b, s}), 0)...)
			}
		}
	}
	return out
}

// expandFact decomposes a fact about a short-circuit phi (go/ssa materialises `a && b` / `a || b` as a phi of
// constants and the last operand when the expression is a switch-case condition or is stored): if only one incoming
// edge can produce the wanted value, control came through that predecessor, so the facts dominating it hold too and
// the incoming value itself has the wanted value.
func expandFact(cf condFact, depth int) []condFact {
	phi, ok := cf.Raw.(*ssa.Phi)
	if !ok || depth > 3 {
		return []condFact{cf}
	}
	var idx []int
	for i, e := range phi.Edges {
		if k, ok := e.(*ssa.Const); ok && k.Value != nil && k.Value.Kind() == constant.Bool {
			if constant.BoolVal(k.Value) != cf.Want {
				continue
			}
		}
		idx = append(idx, i)
	}
	if len(idx) != 1 {
		return []condFact{cf}
	}
	pred := phi.Block().Preds[idx[0]]
	out := []condFact{cf}
	for _, b := range pred.Parent().Blocks {
		if ifOf(b) == nil {
			continue
		}
		for s := 0; s < 2; s++ {
			if edgeDominates(edge{b, s}, pred) {
				out = append(out, expandFact(edgeFact(edge{b, s}), depth+1)...)
			}
		}
	}
	if _, isConst := phi.Edges[idx[0]].(*ssa.Const); !isConst {
		out = append(out, expandFact(factOf(phi.Edges[idx[0]], cf.Want), depth+1)...)
	}
	return out
}

func factKey(cf condFact) string { return fmt.Sprintf("%s|%v", pureKey(cf.Raw), cf.Want) }

func dominatingFactsD(x *ssa.BasicBlock, depth int) []condFact {
	out := localFacts(x)
	if gp == nil || depth > 3 {
		return out
	}
	sites, ok := gp.liftSites(x.Parent())
	if !ok || len(sites) == 0 {
		return out
	}
	var inherited []condFact
	for i, cs := range sites {
		fs := dominatingFactsD(cs.Block(), depth+1)
		if i == 0 {
			inherited = fs
			continue
		}
		keep := map[string]bool{}
		for _, f := range fs {
			keep[factKey(f)] = true
		}
		var nf []condFact
		for _, f := range inherited {
			if keep[factKey(f)] {
				nf = append(nf, f)
			}
		}
		inherited = nf
	}
	return append(out, inherited...)
}

func isNilConst(v ssa.Value) bool {
	c, ok := v.(*ssa.Const)
	return ok && c.Value == nil
}

func isZeroConst(v ssa.Value) bool {
	c, ok := v.(*ssa.Const)
	if !ok || c.Value == nil {
		return false
	}
	if c.Value.Kind() == constant.Int {
		return constant.Sign(c.Value) == 0
	}
	return false
}

func constInt(v ssa.Value) (int64, bool) {
	c, ok := v.(*ssa.Const)
	if !ok || c.Value == nil || c.Value.Kind() != constant.Int {
		return 0, false
	}
	i, ok := constant.Int64Val(c.Value)
	return i, ok
}

func constString(v ssa.Value) (string, bool) {
	c, ok := v.(*ssa.Const)
	if !ok || c.Value == nil || c.Value.Kind() != constant.String {
		return "", false
	}
	return constant.StringVal(c.Value), true
}

// ---------- cells (Alloc) and reaching stores ----------

// strip removes value-preserving wrappers.
func strip(v ssa.Value) ssa.Value {
	for {
		switch x := v.(type) {
		case *ssa.ChangeType:
			v = x.X
		case *ssa.MakeInterface:
			v = x.X
		case *ssa.ChangeInterface:
			v = x.X
		default:
			return v
		}
	}
}

// cellStores returns the stores to local cell a made in its own function, and whether some closure may write it.
func cellStores(a *ssa.Alloc) (stores []*ssa.Store, escapes bool) {
	for _, r := range *a.Referrers() {
		switch r := r.(type) {
		case *ssa.Store:
			if r.Addr == a {
				stores = append(stores, r)
			} else {
				escapes = true // address stored somewhere
			}
		case *ssa.UnOp:
		case *ssa.MakeClosure:
			// closure captures the cell: check whether the closure writes through the free variable
			fn := r.Fn.(*ssa.Function)
			for i, bnd := range r.Bindings {
				if bnd == a && closureWrites(fn, fn.FreeVars[i], 0) {
					escapes = true
				}
			}
		case *ssa.DebugRef:
		case *ssa.FieldAddr:
			for _, r2 := range *r.Referrers() {
				if _, isStore := r2.(*ssa.Store); isStore {
					escapes = true // written field by field
				} else if _, isLoad := r2.(*ssa.UnOp); !isLoad {
					if _, dbg := r2.(*ssa.DebugRef); !dbg {
						escapes = true
					}
				}
			}
		case *ssa.IndexAddr:
			escapes = true
		default:
			escapes = true
		}
	}
	return
}

func closureWrites(fn *ssa.Function, fv *ssa.FreeVar, depth int) bool {
	if depth > 4 {
		return true
	}
	for _, r := range *fv.Referrers() {
		switch r := r.(type) {
		case *ssa.Store:
			if r.Addr == fv {
				return true
			}
		case *ssa.UnOp, *ssa.DebugRef:
		case *ssa.MakeClosure:
			inner := r.Fn.(*ssa.Function)
			for i, b := range r.Bindings {
				if b == fv && closureWrites(inner, inner.FreeVars[i], depth+1) {
					return true
				}
			}
		default:
			return true
		}
	}
	return false
}

// reachingStores computes the set of stores to cell a that may reach instruction at (the load). A nil entry in the
// result means "the initial zero value may reach". ok=false if the cell is opaque (escapes / written by closures).
func reachingStores(a *ssa.Alloc, at ssa.Instruction) (vals []*ssa.Store, zeroReaches bool, ok bool) {
	stores, esc := cellStores(a)
	if esc {
		return nil, false, false
	}
	isStore := map[ssa.Instruction]*ssa.Store{}
	for _, s := range stores {
		isStore[s] = s
	}
	ap := posOf(at)
	// scan backwards inside the block
	for i := ap.i - 1; i >= 0; i-- {
		if s, ok := isStore[ap.b.Instrs[i]]; ok {
			return []*ssa.Store{s}, false, true
		}
		if ap.b.Instrs[i] == ssa.Instruction(a) {
			return nil, true, true
		}
	}
	// last store per block
	lastIn := func(b *ssa.BasicBlock) (*ssa.Store, bool) {
		for i := len(b.Instrs) - 1; i >= 0; i-- {
			if s, ok := isStore[b.Instrs[i]]; ok {
				return s, false
			}
			if b.Instrs[i] == ssa.Instruction(a) {
				return nil, true
			}
		}
		return nil, false
	}
	seen := map[*ssa.BasicBlock]bool{}
	found := map[*ssa.Store]bool{}
	var walk func(b *ssa.BasicBlock)
	walk = func(b *ssa.BasicBlock) {
		if seen[b] {
			return
		}
		seen[b] = true
		if s, allocHere := lastIn(b); s != nil {
			found[s] = true
			return
		} else if allocHere {
			zeroReaches = true
			return
		}
		if len(b.Preds) == 0 {
			zeroReaches = true
			return
		}
		for _, pr := range b.Preds {
			walk(pr)
		}
	}
	for _, pr := range ap.b.Preds {
		walk(pr)
	}
	if len(ap.b.Preds) == 0 {
		zeroReaches = true
	}
	for s := range found {
		vals = append(vals, s)
	}
	sort.Slice(vals, func(i, j int) bool { return vals[i].Pos() < vals[j].Pos() })
	return vals, zeroReaches, true
}

// resolve follows loads of local cells with a unique reaching store, and value-preserving wrappers.
// It returns the underlying value, or the input when it cannot go further.
func resolve(v ssa.Value) ssa.Value {
	for i := 0; i < 32; i++ {
		v = strip(v)
		u, ok := v.(*ssa.UnOp)
		if !ok || u.Op != token.MUL {
			return v
		}
		a, ok := u.X.(*ssa.Alloc)
		if !ok {
			return v
		}
		st, zero, ok := reachingStores(a, u)
		if !ok || zero || len(st) != 1 {
			return v
		}
		v = st[0].Val
	}
	return v
}

// resolveAll returns all values that may flow to v through phis and cells (bounded); opaque values are returned as is.
func resolveAll(v ssa.Value) []ssa.Value {
	var out []ssa.Value
	seen := map[ssa.Value]bool{}
	var rec func(v ssa.Value, d int)
	rec = func(v ssa.Value, d int) {
		v = strip(v)
		if seen[v] || d > 24 {
			return
		}
		seen[v] = true
		switch x := v.(type) {
		case *ssa.Phi:
			for _, e := range x.Edges {
				rec(e, d+1)
			}
			return
		case *ssa.UnOp:
			if x.Op == token.MUL {
				if a, ok := x.X.(*ssa.Alloc); ok {
					st, zero, ok := reachingStores(a, x)
					if ok {
						for _, s := range st {
							rec(s.Val, d+1)
						}
						if zero {
							out = append(out, zeroValueMarker{x.Type()})
						}
						return
					}
				}
			}
		}
		out = append(out, v)
	}
	rec(v, 0)
	return out
}

// zeroValueMarker stands for "the zero value of the cell" in resolveAll results.
type zeroValueMarker struct{ t types.Type }

func (z zeroValueMarker) Name() string                  { return "zero" }
func (z zeroValueMarker) String() string                { return "zero-value" }
func (z zeroValueMarker) Type() types.Type              { return z.t }
func (z zeroValueMarker) Parent() *ssa.Function         { return nil }
func (z zeroValueMarker) Referrers() *[]ssa.Instruction { return nil }
func (z zeroValueMarker) Pos() token.Pos                { return token.NoPos }

// extractOf: if v (after resolve) is Extract #i of a call, return the call and index; if v is the call itself
// (single result), index 0.
func extractOf(v ssa.Value) (*ssa.Call, int, bool) {
	v = resolve(v)
	switch x := v.(type) {
	case *ssa.Extract:
		if c, ok := x.Tuple.(*ssa.Call); ok {
			return c, x.Index, true
		}
	case *ssa.Call:
		return x, 0, true
	}
	return nil, 0, false
}

// ---------- forward path search ----------

type searchOpts struct {
	// stop: path is discharged at this instruction (do not continue)
	stop func(ssa.Instruction) bool
	// bad: reaching this instruction is a violation
	bad func(ssa.Instruction) bool
	// skipEdge: do not follow this successor edge (exempt)
	skipEdge func(from *ssa.BasicBlock, succIdx int) bool
}

// searchFrom explores all CFG paths starting right after instruction `after` (or at block start if after==nil and
// startBlock given). It returns the first bad instruction reached together with the block path.
func searchFrom(startBlock *ssa.BasicBlock, startIdx int, o searchOpts) (ssa.Instruction, []*ssa.BasicBlock) {
	type item struct {
		b    *ssa.BasicBlock
		i    int
		from *ssa.BasicBlock
		path []*ssa.BasicBlock
	}
	type visit struct{ b, from *ssa.BasicBlock }
	seen := map[visit]bool{}
	work := []item{{startBlock, startIdx, nil, []*ssa.BasicBlock{startBlock}}}
	first := true
	for len(work) > 0 {
		it := work[0]
		work = work[1:]
		// a block that branches on a short-circuit phi of its own is visited once per predecessor: which way it
		// goes depends on where control came from
		key := visit{it.b, nil}
		if phiCondOf(it.b) != nil {
			key.from = it.from
		}
		if !first || it.i == 0 {
			if seen[key] {
				continue
			}
			seen[key] = true
		}
		first = false
		stopped := false
		for i := it.i; i < len(it.b.Instrs); i++ {
			ins := it.b.Instrs[i]
			if o.stop != nil && o.stop(ins) {
				stopped = true
				break
			}
			if o.bad != nil && o.bad(ins) {
				return ins, it.path
			}
		}
		if stopped {
			continue
		}
		for si, s := range it.b.Succs {
			if o.skipEdge != nil && o.skipEdge(it.b, si) {
				continue
			}
			if !feasibleAfter(it.b, it.from, si) {
				continue
			}
			np := append(append([]*ssa.BasicBlock{}, it.path...), s)
			work = append(work, item{s, 0, it.b, np})
		}
	}
	return nil, nil
}

// phiCondOf: the block ends in an If whose condition is a phi defined in this very block (go/ssa's form of a
// short-circuit expression used as a switch-case condition).
func phiCondOf(b *ssa.BasicBlock) *ssa.Phi {
	iff := ifOf(b)
	if iff == nil {
		return nil
	}
	c := iff.Cond
	neg := false
	for {
		if u, ok := c.(*ssa.UnOp); ok && u.Op == token.NOT {
			c, neg = u.X, !neg
			continue
		}
		break
	}
	_ = neg
	if ph, ok := c.(*ssa.Phi); ok && ph.Block() == b {
		return ph
	}
	return nil
}

// feasibleAfter: entering b from predecessor `from`, can the branch leave through successor si? Only decided when
// b branches on its own phi and the value coming in over that edge is a boolean constant.
func feasibleAfter(b, from *ssa.BasicBlock, si int) bool {
	ph := phiCondOf(b)
	if ph == nil || from == nil {
		return true
	}
	for i, p := range b.Preds {
		if p != from {
			continue
		}
		k, ok := ph.Edges[i].(*ssa.Const)
		if !ok || k.Value == nil || k.Value.Kind() != constant.Bool {
			return true
		}
		val := constant.BoolVal(k.Value)
		// polarity of the If condition relative to the phi
		c := ifOf(b).Cond
		for {
			if u, ok := c.(*ssa.UnOp); ok && u.Op == token.NOT {
				c, val = u.X, !val
				continue
			}
			break
		}
		return (si == 0) == val
	}
	return true
}

func blockPath(p *Prog, path []*ssa.BasicBlock) string {
	s := ""
	for i, b := range path {
		if i > 0 {
			s += " -> "
		}
		pos := token.NoPos
		for _, ins := range b.Instrs {
			if ins.Pos().IsValid() {
				pos = ins.Pos()
				break
			}
		}
		s += b.Comment + "@" + p.pos(pos)
	}
	return s
}

// ---------- misc ----------

func callsIn(f *ssa.Function) []ssa.CallInstruction {
	var out []ssa.CallInstruction
	for _, b := range f.Blocks {
		for _, ins := range b.Instrs {
			if c, ok := ins.(ssa.CallInstruction); ok {
				out = append(out, c)
			}
		}
	}
	return out
}

// argOfParam returns the actual argument of call c corresponding to formal parameter index pi of the callee
// signature (not counting the receiver).
func argForSigParam(c ssa.CallInstruction, pi int) ssa.Value {
	cc := c.Common()
	if cc.IsInvoke() {
		if pi < len(cc.Args) {
			return cc.Args[pi]
		}
		return nil
	}
	off := 0
	if sc := cc.StaticCallee(); sc != nil && sc.Signature.Recv() != nil {
		off = 1
	} else if sc == nil {
		// dynamic call through func value: no receiver in args
		off = 0
	}
	if pi+off < len(cc.Args) {
		return cc.Args[pi+off]
	}
	return nil
}

// sigParamIndex returns the index in the signature (receiver excluded) of an ssa.Parameter, or -1 for the receiver.
func sigParamIndex(prm *ssa.Parameter) int {
	fn := prm.Parent()
	idx := paramIndex(prm)
	if fn.Signature.Recv() != nil {
		return idx - 1
	}
	return idx
}

// unwrapSynthetic follows bound-method wrappers / thunks to the real method.
func unwrapSynthetic(f *ssa.Function) *ssa.Function {
	for i := 0; i < 4 && f != nil && f.Synthetic != "" && f.Blocks != nil; i++ {
		var only *ssa.Function
		n := 0
		for _, c := range callsIn(f) {
			if sc := c.Common().StaticCallee(); sc != nil {
				only = sc
				n++
			}
		}
		if n != 1 {
			return f
		}
		f = only
	}
	return f
}

// ---------- pure-expression keys and path feasibility ----------

// pureKey gives a canonical string for side-effect-free expressions over immutable SSA values, so that two
// syntactically separate evaluations of e.g. `len(val) > 0` are recognised as the same condition.
func pureKey(v ssa.Value) string { return pureKeyS(v, nil) }

// pureKeyS is pureKey with leaves replaced according to subst (parameters of a helper by the actuals of a call).
func pureKeyS(v ssa.Value, subst map[ssa.Value]ssa.Value) string {
	if subst == nil {
		return pureKeyC(v, nil)
	}
	return pureKeyC(v, []map[ssa.Value]ssa.Value{subst})
}

// pureKeyC applies a chain of substitutions, one per call level going outwards: a leaf found in chain[0] is replaced
// by its actual, which is then keyed with the rest of the chain.
func pureKeyC(v ssa.Value, chain []map[ssa.Value]ssa.Value) string {
	v = resolve(v)
	if len(chain) > 0 {
		if a, ok := chain[0][v]; ok {
			return pureKeyC(a, chain[1:])
		}
	}
	switch x := v.(type) {
	case *ssa.Const:
		return "const:" + x.String()
	case *ssa.BinOp:
		return "(" + pureKeyC(x.X, chain) + " " + x.Op.String() + " " + pureKeyC(x.Y, chain) + ")"
	case *ssa.UnOp:
		if x.Op == token.NOT {
			return "!" + pureKeyC(x.X, chain)
		}
	case *ssa.Call:
		if b, ok := x.Common().Value.(*ssa.Builtin); ok && (b.Name() == "len" || b.Name() == "cap") {
			return b.Name() + "(" + pureKeyC(x.Common().Args[0], chain) + ")"
		}
	case *ssa.Convert:
		return "conv(" + pureKeyC(x.X, chain) + ")"
	}
	return fmt.Sprintf("%p", v)
}

// accessPath names the memory location or value a read denotes by its path from a root value (fields, constant or
// pure indices), so that two separate reads of x.a.b are recognised as the same operand. It does not prove that the
// location is unchanged between the reads; callers use it only to match a guard with the value it guards inside one
// function.
func accessPath(v ssa.Value) string {
	v = strip(v)
	switch x := v.(type) {
	case *ssa.UnOp:
		if x.Op == token.MUL {
			switch a := x.X.(type) {
			case *ssa.FieldAddr:
				return accessPath(a.X) + "." + fieldOf(a).Name()
			case *ssa.IndexAddr:
				return accessPath(a.X) + "[" + pureKey(a.Index) + "]"
			case *ssa.Alloc:
				return fmt.Sprintf("cell:%p", a)
			}
		}
	case *ssa.Field:
		return accessPath(x.X) + "." + fieldOfField(x).Name()
	case *ssa.FieldAddr:
		return accessPath(x.X) + ".&" + fieldOf(x).Name()
	}
	return pureKey(v)
}

// condKey returns the canonical key and polarity of the condition on an If edge.
func condKey(e edge) (string, bool) {
	iff := ifOf(e.from)
	want := e.succ == 0
	c := iff.Cond
	for {
		if u, ok := c.(*ssa.UnOp); ok && u.Op == token.NOT {
			c = u.X
			want = !want
			continue
		}
		break
	}
	return canonCondKey(c, want, nil)
}

// canonCondKey: the key and polarity of a pure condition, with the equivalent spellings of "the slice is not empty"
// (len(x) > 0, len(x) != 0, 0 < len(x), !(len(x) == 0)) brought to one form, so that a guard written one way in a
// helper is recognised in the spelling its caller uses.
func canonCondKey(c ssa.Value, want bool, chain []map[ssa.Value]ssa.Value) (string, bool) {
	c = resolve(c)
	for {
		if u, ok := c.(*ssa.UnOp); ok && u.Op == token.NOT {
			c, want = resolve(u.X), !want
			continue
		}
		break
	}
	if bo, ok := c.(*ssa.BinOp); ok {
		isLen := func(v ssa.Value) bool {
			call, ok := resolve(v).(*ssa.Call)
			if !ok {
				return false
			}
			b, ok := call.Common().Value.(*ssa.Builtin)
			return ok && b.Name() == "len"
		}
		isZero := func(v ssa.Value) bool {
			k, ok := resolve(v).(*ssa.Const)
			return ok && k.Value != nil && k.Value.Kind() == constant.Int && constant.Sign(k.Value) == 0
		}
		x, y, op := bo.X, bo.Y, bo.Op
		if isZero(x) && isLen(y) {
			x, y = y, x
			switch op {
			case token.LSS:
				op = token.GTR
			case token.GEQ:
				op = token.LEQ
			case token.GTR:
				op = token.LSS
			case token.LEQ:
				op = token.GEQ
			}
		}
		if isLen(x) && isZero(y) {
			key := "(" + pureKeyC(x, chain) + " != const:0)"
			switch op {
			case token.NEQ, token.GTR:
				return key, want
			case token.EQL, token.LEQ:
				return key, !want
			}
		}
	}
	return pureKeyC(c, chain), want
}

// allPathsPass reports whether every feasible path from the function entry to block x takes one of the edges
// accepted by good. A path is infeasible if it takes an edge whose pure condition contradicts a condition on an
// edge that dominates x. When false, a witness path is returned.
func allPathsPass(x *ssa.BasicBlock, good func(e edge) bool) (bool, []*ssa.BasicBlock) {
	return allPathsPassWith(x, good, nil)
}

// allPathsPassWith: extra holds further pure conditions (key -> polarity) known to hold whenever x matters - the
// conditions that guard the instruction of interest inside a helper called at x, translated into x's frame.
func allPathsPassWith(x *ssa.BasicBlock, good func(e edge) bool, extra map[string]bool) (bool, []*ssa.BasicBlock) {
	fn := x.Parent()
	need := map[string]bool{}
	for k, w := range extra {
		need[k] = w
	}
	for _, b := range fn.Blocks {
		if ifOf(b) == nil {
			continue
		}
		for s := 0; s < 2; s++ {
			if edgeDominates(edge{b, s}, x) {
				k, w := condKey(edge{b, s})
				need[k] = w
			}
		}
	}
	found := false
	var witness []*ssa.BasicBlock
	ins, path := searchFrom(fn.Blocks[0], 0, searchOpts{
		bad: func(ins ssa.Instruction) bool { return ins.Block() == x },
		skipEdge: func(from *ssa.BasicBlock, si int) bool {
			if ifOf(from) == nil {
				return false
			}
			e := edge{from, si}
			if good(e) {
				return true
			}
			k, w := condKey(e)
			if nw, ok := need[k]; ok && nw != w {
				return true // contradicts a condition that must hold at x
			}
			return false
		},
	})
	if ins != nil {
		found, witness = true, path
	}
	return !found, witness
}

// ---------- interprocedural lifting ----------

// gp is the program under analysis (one per process; scratch copies are analysed by child processes).
var gp *Prog

// syncHigherOrder: external functions that call their function argument synchronously before returning.
var syncHigherOrder = map[string]bool{
	"sort.Search": true, "sort.Slice": true, "sort.SliceStable": true, "(*sync.Once).Do": true,
	"k8s.io/apimachinery/pkg/util/wait.ExponentialBackoff": true,
	"(*golang.org/x/sync/singleflight.Group).Do":           true,
	"(*github.com/dgraph-io/badger.Item).Value":            true,
}

// liftSites returns the instructions at which function f is entered, if they are all known and synchronous:
// static call sites (not go / defer) of a function that is not invoked through an interface; for a function literal
// the direct calls of the closure value, the dynamic calls of the parameter it is passed as (inside repo callees),
// or the call of a known synchronous higher-order function it is passed to.
func (p *Prog) liftSites(f *ssa.Function) ([]ssa.Instruction, bool) {
	if f == nil {
		return nil, false
	}
	if v, ok := p.liftCache[f]; ok {
		return v.sites, v.ok
	}
	if p.liftCache == nil {
		p.liftCache = map[*ssa.Function]liftEntry{}
	}
	p.liftCache[f] = liftEntry{nil, false} // recursion guard
	sites, ok := p.liftSitesCompute(f)
	p.liftCache[f] = liftEntry{sites, ok}
	return sites, ok
}

type liftEntry struct {
	sites []ssa.Instruction
	ok    bool
}

// closureCallSites: the instructions at which the closure value mc is called, if all its uses are synchronous calls:
// called directly, handed to a repo function that only calls that parameter, or handed to a known synchronous
// higher-order function (through a func-type conversion if need be).
func closureCallSites(mc ssa.Value) ([]ssa.Instruction, bool) {
	var out []ssa.Instruction
	for _, ref := range *mc.Referrers() {
		switch u := ref.(type) {
		case *ssa.ChangeType:
			sub, ok := closureCallSites(u)
			if !ok {
				return nil, false
			}
			out = append(out, sub...)
		case *ssa.Call:
			if u.Common().Value == mc {
				out = append(out, u)
				continue
			}
			// passed as an argument
			sc := u.Common().StaticCallee()
			if sc == nil {
				return nil, false
			}
			if sc.Blocks != nil && sc.Pkg != nil && strings.HasPrefix(sc.Pkg.Pkg.Path(), modPath) {
				// dynamic calls of the corresponding parameter inside the callee
				found := false
				for ai, a := range u.Common().Args {
					if a != mc || ai >= len(sc.Params) {
						continue
					}
					prm := sc.Params[ai]
					for _, r2 := range *prm.Referrers() {
						switch c2 := r2.(type) {
						case *ssa.Call:
							if c2.Common().Value == ssa.Value(prm) {
								out = append(out, c2)
								found = true
							} else {
								return nil, false
							}
						case *ssa.DebugRef:
						default:
							return nil, false
						}
					}
				}
				if !found {
					return nil, false
				}
				continue
			}
			if syncHigherOrder[sc.String()] {
				out = append(out, u)
				continue
			}
			return nil, false
		case *ssa.DebugRef:
		default:
			return nil, false // go, defer, stored: may run at another time
		}
	}
	return out, true
}

func (p *Prog) liftSitesCompute(f *ssa.Function) ([]ssa.Instruction, bool) {
	var out []ssa.Instruction
	if par := f.Parent(); par != nil {
		for _, b := range par.Blocks {
			for _, ins := range b.Instrs {
				mc, ok := ins.(*ssa.MakeClosure)
				if !ok || mc.Fn != ssa.Value(f) {
					continue
				}
				sites, ok := closureCallSites(mc)
				if !ok {
					return nil, false
				}
				out = append(out, sites...)
			}
		}
		return out, len(out) > 0
	}
	if f.Synthetic != "" {
		return nil, false
	}
	p.buildCallers()
	for _, cs := range p.callers[f] {
		if cs.Common().IsInvoke() {
			return nil, false
		}
	}
	p.buildCallersLite()
	for _, cs := range p.staticCallers[f] {
		switch cs.(type) {
		case *ssa.Go, *ssa.Defer:
			return nil, false
		}
		out = append(out, cs.(ssa.Instruction))
	}
	// address taken (method value / function value): the uses of the value must all be synchronous calls, too
	if p.addressTaken(f) {
		sites, ok := p.methodValueSites(f)
		if !ok {
			return nil, false
		}
		out = append(out, sites...)
	}
	return out, len(out) > 0
}

// methodValueSites: f is used as a method value x.f (a closure over the synthetic bound-method wrapper): the call
// sites of those closures. ok=false if f's address is taken in any other way.
func (p *Prog) methodValueSites(f *ssa.Function) ([]ssa.Instruction, bool) {
	var out []ssa.Instruction
	n := 0
	for _, g := range p.AllFuncs {
		for _, b := range g.Blocks {
			for _, ins := range b.Instrs {
				for _, op := range ins.Operands(nil) {
					if op == nil || *op == nil {
						continue
					}
					fn, ok := (*op).(*ssa.Function)
					if !ok {
						continue
					}
					if fn == f {
						// f itself used as a value (not as the static callee of this instruction)?
						if ci, isCall := ins.(ssa.CallInstruction); isCall && ci.Common().Value == ssa.Value(fn) {
							continue
						}
						return nil, false
					}
					if fn.Synthetic == "" || unwrapSynthetic(fn) != f {
						continue
					}
					mc, isMC := ins.(*ssa.MakeClosure)
					if !isMC || mc.Fn != ssa.Value(fn) {
						if ci, isCall := ins.(ssa.CallInstruction); isCall && ci.Common().Value == ssa.Value(fn) {
							continue // a direct call of a wrapper (promoted method): counted with the static callers
						}
						return nil, false
					}
					sites, ok := closureCallSites(mc)
					if !ok {
						return nil, false
					}
					out = append(out, sites...)
					n++
				}
			}
		}
	}
	return out, n > 0
}

// onlyWithin: every execution of f happens inside an execution of root (f is root, or all of f's lift sites are in
// functions for which this holds).
func (p *Prog) onlyWithin(f, root *ssa.Function, depth int) bool {
	if f == root {
		return true
	}
	if depth > 4 {
		return false
	}
	sites, ok := p.liftSites(f)
	if !ok || len(sites) == 0 {
		return false
	}
	for _, s := range sites {
		if !p.onlyWithin(s.Parent(), root, depth+1) {
			return false
		}
	}
	return true
}

// addressTaken: f is used as a value (not only as a static callee) somewhere in the repo.
func (p *Prog) addressTaken(f *ssa.Function) bool {
	if p.addrTaken == nil {
		p.addrTaken = map[*ssa.Function]bool{}
		for _, g := range p.AllFuncs {
			for _, b := range g.Blocks {
				for _, ins := range b.Instrs {
					var callee ssa.Value
					if c, ok := ins.(ssa.CallInstruction); ok {
						callee = c.Common().Value
					}
					for _, op := range ins.Operands(nil) {
						if op == nil || *op == nil {
							continue
						}
						if fn, ok := (*op).(*ssa.Function); ok && ssa.Value(fn) != callee {
							p.addrTaken[fn] = true
						}
						if mc, ok := (*op).(*ssa.MakeClosure); ok {
							_ = mc
						}
					}
					if mc, ok := ins.(*ssa.MakeClosure); ok {
						if fn, ok := mc.Fn.(*ssa.Function); ok && fn.Synthetic != "" {
							// bound method wrapper: the wrapped method's address is taken
							if w := unwrapSynthetic(fn); w != fn {
								p.addrTaken[w] = true
							}
						}
					}
				}
			}
		}
	}
	return p.addrTaken[f]
}

// paramThrough: a parameter resolves to the value passed for it when every (liftable) call site passes the same
// resolved value.
func paramThrough(prm *ssa.Parameter, depth int) (ssa.Value, bool) {
	if gp == nil || depth > 3 {
		return nil, false
	}
	f := prm.Parent()
	if f.Parent() != nil {
		return nil, false // parameters of function literals are supplied by their (often external) invoker
	}
	sites, ok := gp.liftSites(f)
	if !ok {
		return nil, false
	}
	idx := paramIndex(prm)
	var val ssa.Value
	for i, cs := range sites {
		c, isCall := cs.(ssa.CallInstruction)
		if !isCall || idx >= len(c.Common().Args) {
			return nil, false
		}
		a := c.Common().Args[idx]
		if a == ssa.Value(prm) {
			return nil, false
		}
		ra := resolveUpD(a, depth+1)
		if i == 0 {
			val = ra
		} else if ra != val {
			return nil, false
		}
	}
	return val, val != nil
}

func resolveUpD(v ssa.Value, depth int) ssa.Value {
	v = resolve(v)
	if depth > 3 {
		return v
	}
	if prm, ok := v.(*ssa.Parameter); ok {
		if nv, ok := paramThrough(prm, depth); ok {
			return nv
		}
	}
	return v
}

// resolveUp is resolve() that additionally follows a parameter to the argument passed for it when every call site
// of the function passes the same value (helper extraction): the result lives in the frame of the outermost caller.
func resolveUp(v ssa.Value) ssa.Value {
	for i := 0; i < 8; i++ {
		v = resolve(v)
		prm, ok := v.(*ssa.Parameter)
		if !ok {
			return v
		}
		nv, ok := paramThrough(prm, 0)
		if !ok {
			return v
		}
		v = nv
	}
	return v
}

// sameVal: two values denote the same run-time value, possibly seen from different frames of one call chain.
func sameVal(a, b ssa.Value) bool {
	if a == nil || b == nil {
		return false
	}
	ra, rb := resolve(a), resolve(b)
	if ra == rb {
		return true
	}
	return resolveUp(ra) == resolveUp(rb)
}

func isUint64(t types.Type) bool {
	b, ok := t.Underlying().(*types.Basic)
	return ok && b.Kind() == types.Uint64
}

// helperTrueFacts: cf says that a boolean function of the repository returned cf.Want. When exactly one return of that
// function can produce that value, the facts that hold at it (the branch facts dominating the return, and for a
// short-circuit result the facts of its operands) hold in the caller too; they are returned in the callee's frame
// together with the substitution parameter -> argument.
func helperTrueFacts(cf condFact, depth int) ([]condFact, map[ssa.Value]ssa.Value) {
	if cf.Call == nil || depth > 2 {
		return nil, nil
	}
	sc := cf.Call.Common().StaticCallee()
	if sc == nil || sc.Blocks == nil || sc.Pkg == nil || !strings.HasPrefix(sc.Pkg.Pkg.Path(), modPath) || sc.Signature.Results().Len() != 1 {
		return nil, nil
	}
	if bt, ok := sc.Signature.Results().At(0).Type().Underlying().(*types.Basic); !ok || bt.Kind() != types.Bool {
		return nil, nil
	}
	var rets []*ssa.Return
	for _, b := range sc.Blocks {
		ret, ok := b.Instrs[len(b.Instrs)-1].(*ssa.Return)
		if !ok || b.Comment == "recover" {
			continue
		}
		if k, ok := resolve(ret.Results[0]).(*ssa.Const); ok && k.Value != nil && k.Value.Kind() == constant.Bool && constant.BoolVal(k.Value) != cf.Want {
			continue // this return yields the other value
		}
		rets = append(rets, ret)
	}
	if len(rets) != 1 {
		return nil, nil
	}
	ret := rets[0]
	var out []condFact
	for _, b := range sc.Blocks {
		if ifOf(b) == nil {
			continue
		}
		for s := 0; s < 2; s++ {
			if edgeDominates(edge{b, s}, ret.Block()) {
				out = append(out, expandFact(edgeFact(edge{b, s}), 0)...)
			}
		}
	}
	if _, isConst := resolve(ret.Results[0]).(*ssa.Const); !isConst {
		out = append(out, expandFact(factOf(resolve(ret.Results[0]), cf.Want), 0)...)
	}
	subst := map[ssa.Value]ssa.Value{}
	for i, prm := range sc.Params {
		if i < len(cf.Call.Common().Args) {
			subst[prm] = cf.Call.Common().Args[i]
		}
	}
	return out, subst
}

// helperReturnSiteFacts: for a fact "boolean helper h(args) answered Want", the facts that dominate each return of h
// that can yield that value (one list per return), and the parameter -> actual substitution.
func helperReturnSiteFacts(cf condFact) ([][]condFact, map[ssa.Value]ssa.Value) {
	if cf.Call == nil {
		return nil, nil
	}
	sc := cf.Call.Common().StaticCallee()
	if sc == nil || sc.Blocks == nil || sc.Pkg == nil || !strings.HasPrefix(sc.Pkg.Pkg.Path(), modPath) || sc.Signature.Results().Len() != 1 {
		return nil, nil
	}
	if bt, ok := sc.Signature.Results().At(0).Type().Underlying().(*types.Basic); !ok || bt.Kind() != types.Bool {
		return nil, nil
	}
	var out [][]condFact
	for _, b := range sc.Blocks {
		ret, ok := b.Instrs[len(b.Instrs)-1].(*ssa.Return)
		if !ok || b.Comment == "recover" {
			continue
		}
		k, isConst := resolve(ret.Results[0]).(*ssa.Const)
		if isConst && k.Value != nil && k.Value.Kind() == constant.Bool && constant.BoolVal(k.Value) != cf.Want {
			continue
		}
		var fs []condFact
		for _, b2 := range sc.Blocks {
			if ifOf(b2) == nil {
				continue
			}
			for s := 0; s < 2; s++ {
				if edgeDominates(edge{b2, s}, ret.Block()) {
					fs = append(fs, expandFact(edgeFact(edge{b2, s}), 0)...)
				}
			}
		}
		if !isConst {
			fs = append(fs, expandFact(factOf(resolve(ret.Results[0]), cf.Want), 0)...)
		}
		out = append(out, fs)
	}
	subst := map[ssa.Value]ssa.Value{}
	for i, prm := range sc.Params {
		if i < len(cf.Call.Common().Args) {
			subst[prm] = cf.Call.Common().Args[i]
		}
	}
	return out, subst
}
