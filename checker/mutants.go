package main

import (
	"encoding/json"
	"fmt"
	"os"
	"os/exec"
	"path/filepath"
	"sort"
	"strings"
)

// seedMeta is /verif/seeded/<id>/meta.json (the part the replay needs).
type seedMeta struct {
	ID         string `json:"id"`
	Property   string `json:"property"`
	DetectedBy []struct {
		Property string `json:"property"`
		Rule     string `json:"rule"`
	} `json:"detected_by"`
}

// mutantReplay (thorough tier): every seeded change recorded as detected by this property is applied to a scratch
// copy of the CURRENT /repo working tree (outside /repo and /verif, removed right afterwards, one at a time, each
// analysed by a child process) and the named rule must report a violation there. A change that no longer applies is
// reported as skipped; a surviving change makes the run BROKEN. Only source is analysed, nothing is executed.
func mutantReplay(prop, repo, verif string, r *Result, extra map[string]interface{}) {
	dirs, _ := filepath.Glob(filepath.Join(verif, "seeded", "*", "meta.json"))
	sort.Strings(dirs)
	type outcome struct {
		Seed   string `json:"seed"`
		Rule   string `json:"expected_rule"`
		Result string `json:"result"`
		Detail string `json:"detail,omitempty"`
	}
	var outs []outcome
	self, err := os.Executable()
	if err != nil {
		self = os.Args[0]
	}
	for _, mf := range dirs {
		var m seedMeta
		b, err := os.ReadFile(mf)
		if err != nil || json.Unmarshal(b, &m) != nil {
			continue
		}
		var rules []string
		for _, d := range m.DetectedBy {
			if d.Property == prop {
				rules = append(rules, d.Rule)
			}
		}
		if len(rules) == 0 {
			continue
		}
		seedDir := filepath.Dir(mf)
		o := outcome{Seed: filepath.Base(seedDir), Rule: strings.Join(rules, ",")}
		func() {
			scratch, err := os.MkdirTemp("", "kbverif.")
			if err != nil {
				o.Result, o.Detail = "error", err.Error()
				return
			}
			defer os.RemoveAll(scratch)
			if out, err := exec.Command("rsync", "-a", "--exclude", ".git", repo+"/", filepath.Join(scratch, "repo")+"/").CombinedOutput(); err != nil {
				o.Result, o.Detail = "error", "copy: "+string(out)
				return
			}
			os.MkdirAll(filepath.Join(scratch, "verif"), 0o755)
			if kf, err := os.ReadFile(filepath.Join(verif, "known_findings.json")); err == nil {
				os.WriteFile(filepath.Join(scratch, "verif", "known_findings.json"), kf, 0o644)
			}
			pc := exec.Command("patch", "-p1", "--no-backup-if-mismatch", "-s", "-i", filepath.Join(seedDir, "patch.diff"))
			pc.Dir = filepath.Join(scratch, "repo")
			if out, err := pc.CombinedOutput(); err != nil {
				o.Result, o.Detail = "skipped", "patch no longer applies to the current tree: "+firstLine(string(out))
				return
			}
			cc := exec.Command(self, "-prop", prop, "-tier", "quick", "-repo", filepath.Join(scratch, "repo"), "-verif", filepath.Join(scratch, "verif"), "-no-mutants")
			cc.Env = os.Environ()
			out, _ := cc.CombinedOutput()
			code := cc.ProcessState.ExitCode()
			hit := ""
			for _, ln := range strings.Split(string(out), "\n") {
				if !strings.HasPrefix(ln, "violated: ") {
					continue
				}
				for _, ru := range rules {
					if strings.Contains(ln, "rule="+ru+" ") {
						hit = ln
					}
				}
			}
			switch {
			case code == 1 && hit != "":
				o.Result = "detected"
				if len(hit) > 220 {
					hit = hit[:220]
				}
				o.Detail = hit
			case code == 1:
				o.Result, o.Detail = "detected-by-other-rule", "a violation was reported, but not by "+o.Rule
			default:
				o.Result, o.Detail = "survived", fmt.Sprintf("child exit %d without a violation of %s", code, o.Rule)
			}
		}()
		outs = append(outs, o)
		fmt.Printf("  mutant replay %s (expects %s): %s\n", o.Seed, o.Rule, o.Result)
		if o.Result == "survived" || o.Result == "error" {
			r.und(prop+"-replay", "seeded change "+o.Seed, "-", "the seeded change recorded as detected by "+o.Rule+" is no longer reported: "+o.Detail)
		}
	}
	extra["mutant_replay"] = outs
	n := 0
	for _, o := range outs {
		if o.Result == "detected" || o.Result == "detected-by-other-rule" {
			n++
		}
	}
	extra["mutants_replayed"] = len(outs)
	extra["mutants_detected"] = n
	if len(outs) > 0 {
		r.Controls = append(r.Controls, fmt.Sprintf("seeded-change replay on scratch copies of the current tree: %d replayed, %d detected", len(outs), n))
	}
}

func firstLine(s string) string {
	if i := strings.Index(s, "\n"); i >= 0 {
		return s[:i]
	}
	return s
}
