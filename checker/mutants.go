package main

// mutantReplay is filled in later (thorough tier): applies each seeded patch to a scratch copy and re-runs the rules.
func mutantReplay(id, repo, verif string, r *Result, extra map[string]interface{}) {}
