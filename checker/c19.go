package main

import (
	"fmt"
	"go/token"
	"go/types"
	"sort"
	"strings"

	"golang.org/x/tools/go/ssa"
)

func init() { register("C19", checkC19) }

// ---------- lock states ----------

const (
	lkNone = 0
	lkRead = 1
	lkExcl = 2
)

func lkName(s int) string { return []string{"no lock", "read lock", "exclusive lock"}[s] }

// objKey gives a structural name to the object an address expression denotes inside one function:
// parameters / free variables are roots, field selections extend the path.
func objKey(p *Prog, v ssa.Value) string {
	v = strip(v)
	switch x := v.(type) {
	case *ssa.Parameter:
		return "P:" + x.Name()
	case *ssa.FreeVar:
		if bs := p.freeVarBindings(x); len(bs) == 1 {
			if v, ok := uniqueCellValue(p, bs[0]); ok {
				return objKey(p, v)
			}
			if _, isCell := bs[0].(*ssa.Alloc); !isCell {
				return objKey(p, bs[0])
			}
		}
		return "F:" + x.Name()
	case *ssa.FieldAddr:
		return objKey(p, x.X) + "." + fieldOf(x).Name()
	case *ssa.UnOp:
		if x.Op == token.MUL {
			// load of a cell holding the receiver (params captured by closures are spilled): look through
			if al, ok := x.X.(*ssa.Alloc); ok {
				st, zero, ok := reachingStores(al, x)
				if ok && !zero && len(st) == 1 {
					return objKey(p, st[0].Val)
				}
			}
			return objKey(p, x.X)
		}
	case *ssa.Alloc:
		return fmt.Sprintf("A:%p", x)
	}
	return fmt.Sprintf("V:%p", v)
}

type lockCall struct {
	ins      ssa.Instruction
	call     ssa.CallInstruction
	kind     string // Lock RLock Unlock RUnlock
	obj      string // objKey of the struct that owns the mutex field
	mutex    *types.Var
	deferred bool
}

func mutexCallsIn(p *Prog, f *ssa.Function) []lockCall {
	var out []lockCall
	for _, b := range f.Blocks {
		for _, ins := range b.Instrs {
			c, ok := ins.(ssa.CallInstruction)
			if !ok {
				continue
			}
			sc := c.Common().StaticCallee()
			if sc == nil || sc.Signature.Recv() == nil {
				continue
			}
			rt := sc.Signature.Recv().Type()
			if !(isNamed(rt, "sync", "Mutex") || isNamed(rt, "sync", "RWMutex")) {
				continue
			}
			switch sc.Name() {
			case "Lock", "RLock", "Unlock", "RUnlock":
			default:
				continue
			}
			fa, ok := strip(c.Common().Args[0]).(*ssa.FieldAddr)
			if !ok {
				continue
			}
			// promoted method through an embedded mutex: args[0] = &x.RWMutex
			_, isDefer := ins.(*ssa.Defer)
			out = append(out, lockCall{ins: ins, call: c, kind: sc.Name(), obj: objKey(p, fa.X), mutex: fieldOf(fa), deferred: isDefer})
		}
	}
	return out
}

type lockCtx struct {
	p        *Prog
	memo     map[string]int
	visiting map[string]bool
	// token types: methods of these types are entered with the lock of field `via` held exclusively
	tokens map[*types.Named]*types.Var
}

// stateAt computes the lock state of mutex m of object obj at instruction site in function f.
func (lc *lockCtx) stateAt(f *ssa.Function, site ssa.Instruction, obj string, m *types.Var, depth int) int {
	best := lkNone
	calls := mutexCallsIn(lc.p, f)
	for _, l := range calls {
		if l.mutex != m || l.obj != obj || l.deferred || (l.kind != "Lock" && l.kind != "RLock") {
			continue
		}
		if !instrDominates(l.ins, site) {
			continue
		}
		released := false
		for _, u := range calls {
			if u.mutex != m || u.obj != obj || u.deferred || (u.kind != "Unlock" && u.kind != "RUnlock") {
				continue
			}
			if instrDominates(l.ins, u.ins) && instrDominates(u.ins, site) {
				released = true
			}
		}
		if released {
			continue
		}
		s := lkExcl
		if l.kind == "RLock" {
			s = lkRead
		}
		if s > best {
			best = s
		}
	}
	if best != lkNone {
		return best
	}
	// conditional locking on a bool parameter: Lock in a block dominated by param==true, site after the merge
	for _, l := range calls {
		if l.mutex != m || l.obj != obj || l.deferred || (l.kind != "Lock" && l.kind != "RLock") {
			continue
		}
		for _, prm := range f.Params {
			if bt, ok := prm.Type().Underlying().(*types.Basic); !ok || bt.Kind() != types.Bool {
				continue
			}
			if !dominatedByParam(l.ins.Block(), prm, true) || !reaches(l.ins, site) {
				continue
			}
			// held when prm is true; when false the caller must hold it
			s := lc.entryState(f, obj, m, depth, map[*ssa.Parameter]bool{prm: false})
			lk := lkExcl
			if l.kind == "RLock" {
				lk = lkRead
			}
			if s < lk {
				return s
			}
			return lk
		}
	}
	// a site that runs only for one value of a bool parameter is judged against the callers that pass that value
	var only map[*ssa.Parameter]bool
	for _, cf := range localFacts(site.Block()) {
		if prm, ok := cf.Raw.(*ssa.Parameter); ok && prm.Parent() == f {
			if bt, ok := prm.Type().Underlying().(*types.Basic); ok && bt.Kind() == types.Bool {
				if only == nil {
					only = map[*ssa.Parameter]bool{}
				}
				only[prm] = cf.Want
			}
		}
	}
	return lc.entryState(f, obj, m, depth, only)
}

// entryState: lock state guaranteed on entry to f by all its callers (only call sites whose constant bool
// arguments match `only`, when given).
func (lc *lockCtx) entryState(f *ssa.Function, obj string, m *types.Var, depth int, only map[*ssa.Parameter]bool) int {
	if depth > 4 {
		return lkNone
	}
	// token type methods
	if f.Signature.Recv() != nil {
		rt := f.Signature.Recv().Type()
		if pt, ok := rt.(*types.Pointer); ok {
			rt = pt.Elem()
		}
		if n, ok := rt.(*types.Named); ok {
			if via, ok := lc.tokens[n]; ok && len(f.Params) > 0 && obj == "P:"+f.Params[0].Name()+"."+via.Name() {
				return lkExcl
			}
		}
	}
	// closures: a function literal that is only passed as an argument of an ordinary call (e.g. sort.Search) or
	// called directly runs synchronously inside its parent; a deferred literal runs at the parent's exits.
	if par := f.Parent(); par != nil {
		state, known := lkExcl, false
		for _, b := range par.Blocks {
			for _, ins := range b.Instrs {
				mc, ok := ins.(*ssa.MakeClosure)
				if !ok || mc.Fn != ssa.Value(f) {
					continue
				}
				for _, ref := range *mc.Referrers() {
					switch u := ref.(type) {
					case *ssa.Go:
						return lkNone
					case *ssa.Defer:
						known = true
						for _, b2 := range par.Blocks {
							for _, i2 := range b2.Instrs {
								if _, isRD := i2.(*ssa.RunDefers); isRD {
									if s := lc.stateAt(par, i2, obj, m, depth+1); s < state {
										state = s
									}
								}
							}
						}
					case *ssa.Call:
						// handed to a library function that is not known to call it before it returns (time.AfterFunc,
						// a callback registration): it runs later, on another goroutine, with nothing held
						if u.Common().Value != ssa.Value(mc) {
							sc := u.Common().StaticCallee()
							if sc == nil || ((sc.Pkg == nil || !strings.HasPrefix(sc.Pkg.Pkg.Path(), modPath)) && !syncHigherOrder[sc.String()]) {
								return lkNone
							}
						}
						known = true
						s := lc.stateAt(par, u, obj, m, depth+1)
						// passed to a repo function that calls it: the lock may be taken by that function around the call
						if s2, ok := lc.stateInCallee(u, mc, obj, m, depth+1); ok && s2 > s {
							s = s2
						}
						if s < state {
							state = s
						}
					case *ssa.DebugRef:
					default:
						return lkNone // stored / escapes: may run any time
					}
				}
			}
		}
		if known {
			return state
		}
		return lkNone
	}
	// the object must be reachable from a parameter of f for callers to matter
	if !strings.HasPrefix(obj, "P:") {
		return lkNone
	}
	root := obj[2:]
	path := ""
	if i := strings.Index(root, "."); i >= 0 {
		root, path = root[:i], root[i:]
	}
	pi := -1
	for i, prm := range f.Params {
		if prm.Name() == root {
			pi = i
		}
	}
	if pi < 0 {
		return lkNone
	}
	lc.p.buildCallersLite()
	sites := lc.p.staticCallers[f]
	if (len(sites) == 0 && !lc.p.addressTaken(f)) || lc.calledThroughInterface(f) {
		return lkNone
	}
	key := fmt.Sprintf("%p|%s|%p|%v", f, obj, m, only)
	if v, ok := lc.memo[key]; ok {
		return v
	}
	if lc.visiting[key] {
		return lkExcl // optimistic on recursion; the other callers decide
	}
	lc.visiting[key] = true
	defer delete(lc.visiting, key)
	state := lkExcl
	n := 0
	for _, cs := range sites {
		if _, isGo := cs.(*ssa.Go); isGo {
			state = lkNone
			n++
			continue
		}
		if _, isDefer := cs.(*ssa.Defer); isDefer {
			state = lkNone
			n++
			continue
		}
		skip := false
		for prm, want := range only {
			idx := paramIndex(prm)
			if idx < len(cs.Common().Args) {
				if k, ok := resolve(cs.Common().Args[idx]).(*ssa.Const); ok && k.Value != nil {
					if (k.Value.String() == "true") != want {
						skip = true
					}
				}
			}
		}
		if skip {
			continue
		}
		n++
		callerObj := objKey(lc.p, cs.Common().Args[pi]) + path
		s := lc.stateAt(cs.Parent(), cs.(ssa.Instruction), callerObj, m, depth+1)
		if s < state {
			state = s
		}
	}
	// uses as a method value (x.f handed to a helper that calls it, e.g. withLock(x.f)): the closure over the bound
	// wrapper is judged like a function literal, with the receiver it was bound to
	if pi == 0 && lc.p.addressTaken(f) {
		for _, g := range lc.p.AllFuncs {
			for _, b := range g.Blocks {
				for _, ins := range b.Instrs {
					mc, ok := ins.(*ssa.MakeClosure)
					if !ok || len(mc.Bindings) == 0 {
						continue
					}
					wf, ok := mc.Fn.(*ssa.Function)
					if !ok || wf.Synthetic == "" || unwrapSynthetic(wf) != f {
						continue
					}
					callerObj := objKey(lc.p, mc.Bindings[0]) + path
					for _, ref := range *mc.Referrers() {
						u, ok := ref.(*ssa.Call)
						if !ok {
							if _, dbg := ref.(*ssa.DebugRef); dbg {
								continue
							}
							state = lkNone
							n++
							continue
						}
						n++
						s1 := lc.stateAt(g, u, callerObj, m, depth+1)
						if s2, ok := lc.stateInCalleeV(u, mc, callerObj, m, depth+1); ok && s2 > s1 {
							s1 = s2
						}
						if s1 < state {
							state = s1
						}
					}
				}
			}
		}
	}
	if n == 0 {
		state = lkExcl // no call site with these constants: vacuous
	}
	lc.memo[key] = state
	return state
}

// stateInCallee: closure mc is passed as an argument of call u to a repo function that only calls it (synchronously):
// the lock state at those calls inside the callee, with obj translated to the callee's parameter it is rooted in.
func (lc *lockCtx) stateInCallee(u *ssa.Call, mc *ssa.MakeClosure, obj string, m *types.Var, depth int) (int, bool) {
	return lc.stateInCalleeV(u, mc, obj, m, depth)
}

func (lc *lockCtx) stateInCalleeV(u *ssa.Call, mc ssa.Value, obj string, m *types.Var, depth int) (int, bool) {
	sc := u.Common().StaticCallee()
	if sc == nil || sc.Blocks == nil || sc.Pkg == nil || !strings.HasPrefix(sc.Pkg.Pkg.Path(), modPath) || depth > 4 {
		return lkNone, false
	}
	calleeObj := ""
	for j, a := range u.Common().Args {
		if j >= len(sc.Params) {
			break
		}
		k := objKey(lc.p, a)
		if obj == k || strings.HasPrefix(obj, k+".") {
			calleeObj = "P:" + sc.Params[j].Name() + obj[len(k):]
		}
	}
	if calleeObj == "" {
		return lkNone, false
	}
	state, n := lkExcl, 0
	for ai, a := range u.Common().Args {
		if a != mc || ai >= len(sc.Params) {
			continue
		}
		for _, ref := range *sc.Params[ai].Referrers() {
			switch c := ref.(type) {
			case *ssa.Call:
				if c.Common().Value != ssa.Value(sc.Params[ai]) {
					return lkNone, false
				}
				n++
				if s := lc.stateAt(sc, c, calleeObj, m, depth+1); s < state {
					state = s
				}
			case *ssa.DebugRef:
			default:
				return lkNone, false // stored, deferred, started as a goroutine
			}
		}
	}
	return state, n > 0
}

// ---------- accesses ----------

type access struct {
	fn    *ssa.Function
	ins   ssa.Instruction
	field *types.Var
	obj   string
	write bool
	what  string
}

var mutatingLibMethods = map[string]bool{
	"Set": true, "Remove": true, "RemoveElement": true, "RemoveFront": true, "RemoveBack": true, "Init": true,
	"SetRandSource": true, "SetMaxLevel": true, "PushBack": true, "PushFront": true, "InsertBefore": true, "InsertAfter": true,
	"MoveToFront": true, "MoveToBack": true, "MoveBefore": true, "MoveAfter": true, "PushBackList": true, "PushFrontList": true,
}

func isLibContainer(t types.Type) bool {
	if pt, ok := t.(*types.Pointer); ok {
		t = pt.Elem()
	}
	n, ok := t.(*types.Named)
	if !ok || n.Obj().Pkg() == nil {
		return false
	}
	pp := n.Obj().Pkg().Path()
	return pp == "github.com/huandu/skiplist" || pp == "container/list"
}

// usesOfLoaded classifies what is done with the value loaded from a field (map / slice / library container).
func classifyLoadedUses(ld ssa.Value) (reads, writes []ssa.Instruction, escapes []ssa.Instruction) {
	refs := ld.Referrers()
	if refs == nil {
		return
	}
	for _, r := range *refs {
		switch x := r.(type) {
		case *ssa.MapUpdate:
			if x.Map == ld {
				writes = append(writes, x)
			}
		case *ssa.Lookup, *ssa.Range:
			reads = append(reads, r)
		case *ssa.IndexAddr:
			for _, r2 := range *x.Referrers() {
				if st, ok := r2.(*ssa.Store); ok && st.Addr == ssa.Value(x) {
					writes = append(writes, st)
				} else {
					reads = append(reads, r2)
				}
			}
		case *ssa.Slice:
			// a window into the guarded backing array: allowed only as argument of copy/len/append source
			for _, r2 := range *x.Referrers() {
				ok := false
				if c, isCall := r2.(*ssa.Call); isCall {
					if bi, isB := c.Common().Value.(*ssa.Builtin); isB && (bi.Name() == "copy" || bi.Name() == "len" || bi.Name() == "cap") {
						ok = true
					}
				}
				if _, isDbg := r2.(*ssa.DebugRef); isDbg {
					ok = true
				}
				if ok {
					reads = append(reads, r2)
				} else {
					escapes = append(escapes, r2)
				}
			}
		case ssa.CallInstruction:
			cc := x.Common()
			if bi, ok := cc.Value.(*ssa.Builtin); ok {
				switch bi.Name() {
				case "delete":
					writes = append(writes, r)
				case "len", "cap":
					reads = append(reads, r)
				case "append":
					if len(cc.Args) > 0 && cc.Args[0] == ld {
						reads = append(reads, r)
					}
				}
				continue
			}
			if sc := cc.StaticCallee(); sc != nil && sc.Signature.Recv() != nil && len(cc.Args) > 0 && cc.Args[0] == ld && isLibContainer(sc.Signature.Recv().Type()) {
				if mutatingLibMethods[sc.Name()] {
					writes = append(writes, r)
				} else {
					reads = append(reads, r)
				}
			}
		}
	}
	return
}

func isMutexType(t types.Type) bool {
	return isNamed(t, "sync", "Mutex") || isNamed(t, "sync", "RWMutex")
}

// isFreshObject: base denotes an object allocated in this function that has not been published yet
// (constructor initialisation).
func isFreshObject(v ssa.Value) bool {
	v = strip(v)
	switch x := v.(type) {
	case *ssa.Alloc:
		return true
	case *ssa.FieldAddr:
		return isFreshObject(x.X)
	case *ssa.UnOp:
		if x.Op == token.MUL {
			if al, ok := x.X.(*ssa.Alloc); ok {
				st, zero, ok := reachingStores(al, x)
				if ok && !zero && len(st) == 1 {
					return isFreshObject(st[0].Val)
				}
			}
		}
	}
	return false
}

// allocOf: the allocation a fresh base value denotes.
func allocOf(v ssa.Value) *ssa.Alloc {
	v = strip(v)
	switch x := v.(type) {
	case *ssa.Alloc:
		return x
	case *ssa.FieldAddr:
		return allocOf(x.X)
	case *ssa.UnOp:
		if x.Op == token.MUL {
			if al, ok := x.X.(*ssa.Alloc); ok {
				st, zero, ok := reachingStores(al, x)
				if ok && !zero && len(st) == 1 {
					return allocOf(st[0].Val)
				}
			}
		}
	}
	return nil
}

// publicationsOf: the instructions by which the function that allocated the object hands it to another goroutine: a go
// statement whose receiver, argument or captured variable it is (directly, or through the local variable that holds it).
func publicationsOf(base ssa.Value) []ssa.Instruction {
	al := allocOf(base)
	if al == nil {
		return nil
	}
	var out []ssa.Instruction
	holders := map[ssa.Value]bool{al: true}
	// local variables that hold the pointer
	for _, ref := range *al.Referrers() {
		if st, ok := ref.(*ssa.Store); ok && st.Val == ssa.Value(al) {
			if cell, ok := st.Addr.(*ssa.Alloc); ok {
				holders[cell] = true
				for _, r2 := range *cell.Referrers() {
					if ld, ok := r2.(*ssa.UnOp); ok && ld.Op == token.MUL {
						holders[ld] = true
					}
				}
			}
		}
	}
	for _, b := range al.Parent().Blocks {
		for _, ins := range b.Instrs {
			// sent on a channel
			if sd, ok := ins.(*ssa.Send); ok && (holders[sd.X] || holders[strip(sd.X)]) {
				out = append(out, ins)
				continue
			}
			ci, ok := ins.(ssa.CallInstruction)
			if !ok {
				continue
			}
			if _, isDefer := ins.(*ssa.Defer); isDefer {
				continue
			}
			hit := false
			for _, a := range ci.Common().Args {
				if holders[a] || holders[strip(a)] {
					hit = true
				}
			}
			if mc, ok := ci.Common().Value.(*ssa.MakeClosure); ok {
				for _, bnd := range mc.Bindings {
					if holders[bnd] {
						hit = true
					}
				}
			}
			if !hit {
				continue
			}
			if _, isGo := ins.(*ssa.Go); isGo {
				out = append(out, ins)
				continue
			}
			// handed to other goroutines through an atomic.Value (the sequencer's slot ring)
			if sc := ci.Common().StaticCallee(); sc != nil && sc.Name() == "Store" && sc.Signature.Recv() != nil && isNamed(sc.Signature.Recv().Type(), "sync/atomic", "Value") {
				out = append(out, ins)
				continue
			}
			// a synchronous call of a function of the repository that starts goroutines itself (w.Start(..))
			if sc := ci.Common().StaticCallee(); sc != nil && startsGoroutine(sc, 0, map[*ssa.Function]bool{}) {
				out = append(out, ins)
			}
		}
	}
	return out
}

// startsGoroutine: the function (or a function of the repository it calls, or one of its literals) contains a go statement.
func startsGoroutine(f *ssa.Function, d int, seen map[*ssa.Function]bool) bool {
	if f == nil || f.Blocks == nil || seen[f] || d > 3 || f.Pkg == nil || !strings.HasPrefix(f.Pkg.Pkg.Path(), modPath) {
		return false
	}
	seen[f] = true
	for _, g := range withAnon(f) {
		for _, c := range callsIn(g) {
			if _, isGo := c.(*ssa.Go); isGo {
				return true
			}
			if sc := c.Common().StaticCallee(); sc != nil && startsGoroutine(sc, d+1, seen) {
				return true
			}
		}
	}
	return false
}

// publishedBefore: some publication of the object can precede instruction at.
func publishedBefore(base ssa.Value, at ssa.Instruction) bool {
	for _, pub := range publicationsOf(base) {
		if pub.Parent() != at.Parent() {
			continue
		}
		pa := posOf(pub)
		hit, _ := searchFrom(pa.b, pa.i+1, searchOpts{bad: func(i ssa.Instruction) bool { return i == at }})
		if hit != nil {
			return true
		}
	}
	return false
}

func checkC19(p *Prog, res *Result, tier string) {
	res.Explanation = "A static lockset (guarded-by) analysis over the repository's shared state. R1 for every struct type that owns a mutex, each field that is written (or whose map / slice / container value is mutated) after construction must be accessed with one and the same mutex of the owning object held — exclusively for writes, at least shared for reads; lock contexts are computed per function with dominance, deferred unlocks, conditional locking on a constant bool argument specialised per call site, held-on-entry as the intersection over all resolved call sites, and the lock hand-over from BeginBatchWrite to the batch's methods until Commit. R2 a slice window into a guarded backing array must not leave its critical section. R3 elements of the in-process engine's skip list (and container/list elements) are dereferenced only under the store's lock. R4 fields of types without a mutex that are written after construction must be accessed through sync/atomic or appear in the frozen confinement table."
	res.NotDecided = "races inside dependencies and inside byte slices handed to callers; object identity beyond the structural access path (two objects of one type are not distinguished); happens-before through channels is not modelled (accesses are judged by locks and atomics only)."
	res.Assumptions = []string{"huandu/skiplist and container/list are not safe for concurrent use", "objects of one type reached through the same access path are the same object"}
	res.rule("C19-R1", "guarded fields are accessed with their guard held (exclusive for writes)", 40)
	res.rule("C19-R2", "no slice window of a guarded array escapes the critical section", 1)
	res.rule("C19-R3", "skip-list / list elements are dereferenced only under the owning lock", 4)
	res.rule("C19-R6", "event batches shared between subscriber goroutines are not written by any of them (C05-R8)", 2)
	res.rule("C19-R5", "no self-deadlock: a mutex is never (re)acquired exclusively on a path on which the same goroutine already holds it, directly or through a called repo function", 1)
	res.rule("C19-R7", "no append onto a slice that belongs to a shared object (a field of a long-lived struct, a package variable) unless the result is stored back into that same place: with spare capacity the append writes into the shared array from whichever goroutine runs it", 10)
	res.rule("C19-R8", "a goroutine that announces its end with a deferred WaitGroup.Done is counted (Add) by whoever starts it, before the go statement - never by itself", 2)
	res.rule("C19-R11", "no struct that contains a lock is received or passed by value: a value receiver locks its own copy", 1)
	res.rule("C19-R10", "no function literal that runs later (go, defer in a loop, time.AfterFunc, stored) captures a variable of the enclosing for/range statement: below Go 1.22 there is one such variable per loop", 1)
	res.rule("C19-R9", "a package-level variable that is written after package initialisation is accessed only through sync/atomic or under a package-level lock (a lock of a stream- or request-scoped object does not order accesses from two such objects)", 1)
	res.rule("C19-R4", "post-construction writes to fields of mutex-less types are atomic or confined (frozen table)", 5)

	lc := p.lockContext()

	// ---- owner types ----
	type owner struct {
		named   *types.Named
		st      *types.Struct
		mutexes []*types.Var
	}
	var owners []owner
	ownerOf := map[*types.Var]*owner{}
	for _, pk := range p.Pkgs {
		sp := p.SSAPkgs[pk.PkgPath]
		var names []string
		for n := range sp.Members {
			names = append(names, n)
		}
		sort.Strings(names)
		for _, nme := range names {
			t, ok := sp.Members[nme].(*ssa.Type)
			if !ok {
				continue
			}
			n, _ := t.Type().(*types.Named)
			st, ok := t.Type().Underlying().(*types.Struct)
			if !ok || n == nil {
				continue
			}
			o := owner{named: n, st: st}
			for i := 0; i < st.NumFields(); i++ {
				if isMutexType(st.Field(i).Type()) {
					o.mutexes = append(o.mutexes, st.Field(i))
				}
			}
			if len(o.mutexes) > 0 {
				owners = append(owners, o)
			}
		}
	}
	for i := range owners {
		o := &owners[i]
		for j := 0; j < o.st.NumFields(); j++ {
			ownerOf[o.st.Field(j)] = o
		}
	}

	for n, via := range lc.tokens {
		res.Stats["lock_token_type_"+n.Obj().Name()] = fmt.Sprintf("methods of %s are entered with the lock of field %s held (acquired by the function that returns it)", n.Obj().Name(), via.Name())
	}

	// ---- collect accesses to fields of owner types ----
	var accs []access
	for _, f := range p.AllFuncs {
		if f.Synthetic != "" {
			continue
		}
		for _, b := range f.Blocks {
			for _, ins := range b.Instrs {
				fa, ok := ins.(*ssa.FieldAddr)
				if !ok {
					continue
				}
				fv := fieldOf(fa)
				o := ownerOf[fv]
				if o == nil || isMutexType(fv.Type()) {
					continue
				}
				// constructor initialisation: the object was allocated here and no goroutine has been handed it yet
				fresh := isFreshObject(fa.X)
				unpublished := func(at ssa.Instruction) bool { return fresh && !publishedBefore(fa.X, at) }
				if fresh && unpublished(fa) && len(publicationsOf(fa.X)) == 0 {
					continue
				}
				obj := objKey(p, fa.X)
				for _, ref := range *fa.Referrers() {
					switch x := ref.(type) {
					case *ssa.Store:
						if x.Addr == ssa.Value(fa) && !unpublished(x) {
							accs = append(accs, access{f, x, fv, obj, true, "store"})
						}
					case *ssa.UnOp:
						if x.Op != token.MUL {
							continue
						}
						if unpublished(x) {
							// the field is read before the object is shared; what is done with the loaded map / slice
							// later is judged where it is done
							rd, wr, _ := classifyLoadedUses(x)
							for _, i := range rd {
								if !unpublished(i) {
									accs = append(accs, access{f, i, fv, obj, false, "read of the loaded map/slice/container"})
								}
							}
							for _, i := range wr {
								if !unpublished(i) {
									accs = append(accs, access{f, i, fv, obj, true, "mutation of the loaded map/slice/container"})
								}
							}
							continue
						}
						accs = append(accs, access{f, x, fv, obj, false, "load"})
						rd, wr, esc := classifyLoadedUses(x)
						for _, i := range rd {
							accs = append(accs, access{f, i, fv, obj, false, "read of the loaded map/slice/container"})
						}
						for _, i := range wr {
							accs = append(accs, access{f, i, fv, obj, true, "mutation of the loaded map/slice/container"})
						}
						for _, i := range esc {
							accs = append(accs, access{f, i, fv, obj, false, "ESCAPE"})
						}
					}
				}
			}
		}
	}
	// guarded fields: written after construction
	written := map[*types.Var]bool{}
	for _, a := range accs {
		if a.write {
			written[a.field] = true
		}
	}
	// per field: guard = mutex held most often
	type fstat struct {
		held map[*types.Var]int
	}
	states := map[int]map[*types.Var]int{} // access index -> mutex -> state
	guardOf := map[*types.Var]*types.Var{}
	for fv := range written {
		o := ownerOf[fv]
		cnt := map[*types.Var]int{}
		for i, a := range accs {
			if a.field != fv || a.what == "ESCAPE" {
				continue
			}
			states[i] = map[*types.Var]int{}
			for _, m := range o.mutexes {
				s := lc.stateAt(a.fn, a.ins, a.obj, m, 0)
				states[i][m] = s
				if s > lkNone {
					cnt[m]++
				}
			}
		}
		var best *types.Var
		for _, m := range o.mutexes {
			if best == nil || cnt[m] > cnt[best] {
				best = m
			}
		}
		guardOf[fv] = best
	}
	var gt []string
	for fv, m := range guardOf {
		gt = append(gt, fmt.Sprintf("%s.%s guarded by %s", ownerOf[fv].named.Obj().Name(), fv.Name(), m.Name()))
	}
	sort.Strings(gt)
	res.Stats["guard_table"] = gt

	perKey := map[string]int{}
	for i, a := range accs {
		if !written[a.field] {
			continue
		}
		o := ownerOf[a.field]
		tn := o.named.Obj().Name()
		if a.what == "ESCAPE" {
			res.bad("C19-R2", fmt.Sprintf("%s.%s: slice window escapes in %s", tn, a.field.Name(), funcName(a.fn)), p.pos(a.ins.Pos()),
				"a sub-slice of the guarded backing array is handed out of the critical section instead of a copy: its elements are read later without the lock while writers overwrite them")
			continue
		}
		m := guardOf[a.field]
		s := states[i][m]
		kind := "read"
		need := lkRead
		if a.write {
			kind, need = "write", lkExcl
		}
		k := fmt.Sprintf("%s.%s %s in %s", tn, a.field.Name(), kind, funcName(a.fn))
		perKey[k]++
		construct := fmt.Sprintf("%s #%d", k, perKey[k])
		if s >= need {
			res.ok("C19-R1", construct, p.pos(a.ins.Pos()), fmt.Sprintf("%s of %s held (%s)", lkName(s), m.Name(), a.what))
		} else if why, ok := lockExceptions[k]; ok {
			res.ok("C19-R1", construct, p.pos(a.ins.Pos()), "accepted: "+why)
		} else {
			res.bad("C19-R1", construct, p.pos(a.ins.Pos()), fmt.Sprintf("%s of field %s.%s with %s of %s held (needs %s): unsynchronised with the accesses that hold it (%s)", kind, tn, a.field.Name(), lkName(s), m.Name(), lkName(need), a.what))
		}
	}
	if _, ok := func() (int, bool) {
		for _, a := range accs {
			if a.what == "ESCAPE" {
				return 0, true
			}
		}
		return 0, false
	}(); !ok {
		res.ok("C19-R2", "no slice window of a guarded array escapes", "-", "all sub-slices of guarded slice fields are used only as copy/len operands")
	}

	// ---- R3: library elements ----
	checkElementAccess(p, lc, res)

	// ---- R4: mutex-less types ----
	inOwner := map[*types.Var]bool{}
	for fv := range ownerOf {
		inOwner[fv] = true
	}
	checkUnguardedTypes(p, res, inOwner)
	// ---- R5: self-deadlock ----
	checkSelfDeadlock(p, p.lockContext(), res, "C19-R5")
	checkLockPairing(p, res, "C19-R5")
	checkAddBeforeGo(p, res, "C19-R8")
	checkPackageVariables(p, res, "C19-R9")
	checkLoopVarCapture(p, res, "C19-R10")
	checkNoLockCopies(p, res, "C19-R11")
	checkSharedAppend(p, res, "C19-R7")

	// ---- R6: shared batches are read-only (C05-R8) ----
	{
		sub5 := p.subResult("C05", tier)
		for _, o := range sub5.Obls {
			if o.Rule == "C05-R8" {
				res.add("C19-R6", o.Rule+" "+o.Construct, o.Status, o.Pos, o.Detail)
			}
		}
	}

}

// checkElementAccess: in packages that own a skip list / list behind a mutex, every call into the container
// library and every field access of its element types happens with an exclusive lock of some owner held.
func checkElementAccess(p *Prog, lc *lockCtx, res *Result) {
	for _, f := range p.AllFuncs {
		if f.Synthetic != "" || f.Pkg == nil || !strings.HasPrefix(f.Pkg.Pkg.Path(), modPath) {
			continue
		}
		n := 0
		for _, b := range f.Blocks {
			for _, ins := range b.Instrs {
				isElem := false
				what := ""
				switch x := ins.(type) {
				case ssa.CallInstruction:
					sc := x.Common().StaticCallee()
					if sc != nil && sc.Signature.Recv() != nil && isLibContainer(sc.Signature.Recv().Type()) {
						// calls on the container itself are covered by R1 when the receiver is a guarded field load;
						// here: calls on elements (Next/Prev/Key) and on containers reached otherwise
						rt := sc.Signature.Recv().Type()
						if pt, ok := rt.(*types.Pointer); ok {
							rt = pt.Elem()
						}
						if nt, ok := rt.(*types.Named); ok && strings.Contains(nt.Obj().Name(), "lement") {
							isElem, what = true, "call of "+nt.Obj().Name()+"."+sc.Name()
						}
					}
				case *ssa.FieldAddr:
					if isLibContainer(x.X.Type()) {
						isElem, what = true, "field "+fieldOf(x).Name()+" of a container element"
					}
				}
				if !isElem {
					continue
				}
				n++
				construct := fmt.Sprintf("%s: container element access #%d", funcName(f), n)
				// some exclusive lock of an owner type in this package held at this point
				held := lkNone
				for _, l := range allMutexObjs(p, f) {
					s := lc.stateAt(f, ins, l.obj, l.mutex, 0)
					if s > held {
						held = s
					}
				}
				if held == lkNone {
					held = lc.anyEntryLock(f, 0)
				}
				if held >= lkExcl {
					res.ok("C19-R3", construct, p.pos(ins.Pos()), what+" under an exclusive lock")
				} else {
					res.bad("C19-R3", construct, p.pos(ins.Pos()), what+" with "+lkName(held)+" held: the element belongs to a container that writers mutate under the lock (a live element, not a snapshot copy, is read)")
				}
			}
		}
	}
}

// calledThroughInterface: f implements an interface method that is invoked somewhere in the repo: its callers are
// not all known statically, so nothing can be assumed about locks held on entry.
func (lc *lockCtx) calledThroughInterface(f *ssa.Function) bool {
	lc.p.buildCallers()
	for _, cs := range lc.p.callers[f] {
		if cs.Common().IsInvoke() {
			return true
		}
	}
	return false
}

type mutexObj struct {
	obj   string
	mutex *types.Var
}

// allMutexObjs: the (object, mutex) pairs locked anywhere in f.
func allMutexObjs(p *Prog, f *ssa.Function) []mutexObj {
	seen := map[string]bool{}
	var out []mutexObj
	for _, l := range mutexCallsIn(p, f) {
		k := l.obj + "|" + l.mutex.Name()
		if !seen[k] {
			seen[k] = true
			out = append(out, mutexObj{l.obj, l.mutex})
		}
	}
	return out
}

// anyEntryLock: weakest lock state over all static callers, where a caller counts as locked if it holds an exclusive
// lock on any object at the call site (used for helpers that receive an element as parameter).
func (lc *lockCtx) anyEntryLock(f *ssa.Function, depth int) int {
	if depth > 3 {
		return lkNone
	}
	if f.Signature.Recv() != nil {
		rt := f.Signature.Recv().Type()
		if pt, ok := rt.(*types.Pointer); ok {
			rt = pt.Elem()
		}
		if n, ok := rt.(*types.Named); ok {
			if _, ok := lc.tokens[n]; ok {
				return lkExcl
			}
		}
	}
	// every place the function is entered: static calls, and for function literals / method values the calls of the
	// closure (directly, or by the repo function / synchronous library function it is handed to)
	sites, ok := lc.p.liftSites(f)
	if !ok || len(sites) == 0 {
		return lkNone
	}
	state := lkExcl
	for _, cs := range sites {
		if _, isGo := cs.(*ssa.Go); isGo {
			return lkNone
		}
		g := cs.Parent()
		best := lkNone
		for _, l := range allMutexObjs(lc.p, g) {
			if s := lc.stateAt(g, cs, l.obj, l.mutex, depth+1); s > best {
				best = s
			}
		}
		if best == lkNone {
			best = lc.anyEntryLock(g, depth+1)
		}
		if best < state {
			state = best
		}
	}
	return state
}

// lockExceptions: accesses that are safe without the guard, one named (field, kind, function) each with its reason.
var lockExceptions = map[string]string{
	"etcdProxy.curLeader read in (*pkg/server/service/etcdproxy.etcdProxy).updateClient":  "curLeader is touched only by the leader-check goroutine (and by the constructor before that goroutine starts)",
	"etcdProxy.curLeader write in (*pkg/server/service/etcdproxy.etcdProxy).updateClient": "same: single goroutine owns curLeader",
	"etcdProxy.client read in (*pkg/server/service/etcdproxy.etcdProxy).checkConn":        "read by the only goroutine that writes the field (writes happen under the exclusive lock of that same goroutine)",
	"etcdProxy.err read in (*pkg/server/service/etcdproxy.etcdProxy).checkConn":           "same: read by the single writer goroutine",
}

// confinement table for fields of mutex-less types that are written after construction: field -> reason.
// Entries marked FINDING are genuine unsynchronised accesses recorded in known_findings.json.
var confinedFields = map[string]string{
	"pkg/backend/scanner.worker.lastCompactFailedRawKey": "per-scan worker object, used by the one goroutine that runs the worker",
	"pkg/backend/scanner.commonResultReceiver.result":    "per-request receiver; forked receivers are written by their own worker goroutine and merged after WaitGroup.Wait",
	"pkg/backend/scanner.streamResultReceiver.batch":     "per-request receiver; each fork is used by one worker goroutine",
	"pkg/storage/memkv.batch.err":                        "per-batch object, owned by the goroutine that began the batch (holds the store lock)",
	"pkg/storage/memkv.batch.cache":                      "per-batch object (map mutated by its owner only)",
	"pkg/storage/memkv.batch.opCount":                    "per-batch object",
	"pkg/storage/memkv.iter.idx":                         "per-iterator object",
	"pkg/storage/memkv.iter.buf":                         "per-iterator object, filled in the constructor under the store lock",
	"pkg/storage/memkv.iter.backward":                    "per-iterator object",
	"pkg/storage/badger.batch.list":                      "per-batch object",
	"pkg/storage/badger.batch.txn":                       "per-batch object",
	"pkg/storage/badger.iter.err":                        "per-iterator object",
	"pkg/storage/badger.iter.seeked":                     "per-iterator object",
	"pkg/storage/badger.iter.counter":                    "per-iterator object",
	"pkg/storage/badger.iter.start":                      "per-iterator object (constructor)",
	"pkg/storage/badger.iter.end":                        "per-iterator object (constructor)",
	"pkg/storage/badger.iter.txn":                        "per-iterator object (constructor)",
	"pkg/storage/badger.iter.reverse":                    "per-iterator object (constructor)",
	"pkg/storage/badger.iter.limit":                      "per-iterator object (constructor)",
	"pkg/storage/badger.iter.iIter":                      "per-iterator object (constructor)",
	"pkg/storage/tikv.batch.list":                        "per-batch object",
	"pkg/storage/tikv.batch.txn":                         "per-batch object",
	"pkg/storage/tikv.iter.moved":                        "per-iterator object",
	"pkg/storage/tikv.iter.count":                        "per-iterator object",
	"pkg/storage/metrics.iterWrapper.counter":            "per-iterator object",
	"pkg/storage/metrics.batchWriteWrapper.counter":      "per-batch object",
	"pkg/backend/retry.eventNode.next":                   "written by push and read by pop under eventQueue.mu (node reached only through the locked queue)",
	"pkg/server/service/revision.revisionSyncer.schema":  "written and read only inside the singleflight.Do callback, which admits one execution at a time",
	"pkg/server/etcd.watch.cancel":                       "set once before the watch is published in the locked map",
	"cmd/option.KubeBrainOption":                         "start-up configuration",
	"pkg/backend.Config":                                 "start-up configuration value, completed on the local copy before the backend is built",
	"pkg/endpoint.Endpoint":                              "start-up wiring, before any server goroutine is started",
	"pkg/endpoint.SecurityConfig":                        "start-up configuration (TLS material loaded once by Complete before serving)",
	"pkg/metrics.T":                                      "elements of a local tag slice in the (unreachable) emitMetrics",
	"pkg/storage.Partition":                              "elements of the per-request partition slice, adjusted by the request goroutine before the workers start",
}

func checkUnguardedTypes(p *Prog, res *Result, inOwner map[*types.Var]bool) {
	type finfo struct {
		owner     *types.Named
		writes    []ssa.Instruction
		nonAtomic int
		atomic    int
	}
	info := map[*types.Var]*finfo{}
	// map struct field -> owning named type
	fieldOwner := map[*types.Var]*types.Named{}
	for _, pk := range p.Pkgs {
		sp := p.SSAPkgs[pk.PkgPath]
		for _, m := range sp.Members {
			t, ok := m.(*ssa.Type)
			if !ok {
				continue
			}
			n, _ := t.Type().(*types.Named)
			st, ok := t.Type().Underlying().(*types.Struct)
			if !ok || n == nil {
				continue
			}
			for i := 0; i < st.NumFields(); i++ {
				fieldOwner[st.Field(i)] = n
			}
		}
	}
	for _, f := range p.AllFuncs {
		if f.Synthetic != "" {
			continue
		}
		for _, b := range f.Blocks {
			for _, ins := range b.Instrs {
				fa, ok := ins.(*ssa.FieldAddr)
				if !ok {
					continue
				}
				fv := fieldOf(fa)
				own := fieldOwner[fv]
				if own == nil || inOwner[fv] || isMutexType(fv.Type()) {
					continue
				}
				fresh := isFreshObject(fa.X)
				fi := info[fv]
				if fi == nil {
					fi = &finfo{owner: own}
					info[fv] = fi
				}
				for _, ref := range *fa.Referrers() {
					switch x := ref.(type) {
					case *ssa.Store:
						// a write to an object made in this function is construction - until the object has been handed to
						// another goroutine (go, a channel, an atomic.Value)
						if x.Addr == ssa.Value(fa) && (!fresh || publishedBefore(fa.X, x)) {
							fi.writes = append(fi.writes, x)
							fi.nonAtomic++
						}
					case *ssa.UnOp:
						if x.Op == token.MUL {
							if !fresh {
								_, wr, _ := classifyLoadedUses(x)
								for _, w := range wr {
									fi.writes = append(fi.writes, w)
								}
							}
							fi.nonAtomic++
						}
					case ssa.CallInstruction:
						if _, ok := isAtomicCall(x); ok {
							fi.atomic++
							if !fresh {
								fi.writes = append(fi.writes, x)
								fi.nonAtomic += 0
							}
						} else if sc := x.Common().StaticCallee(); sc != nil && sc.Signature.Recv() != nil && isNamed(sc.Signature.Recv().Type(), "sync/atomic", "Value") {
							fi.atomic++
						}
					case *ssa.IndexAddr:
						// element of an array/slice-of-atomics field etc.: judged by its own uses
						for _, r2 := range *x.Referrers() {
							if c, ok := r2.(ssa.CallInstruction); ok {
								if sc := c.Common().StaticCallee(); sc != nil && sc.Signature.Recv() != nil && isNamed(sc.Signature.Recv().Type(), "sync/atomic", "Value") {
									fi.atomic++
								}
							}
						}
					}
				}
			}
		}
	}
	var keys []string
	byKey := map[string]*types.Var{}
	for fv, fi := range info {
		if len(fi.writes) == 0 {
			continue
		}
		pkgRel := strings.TrimPrefix(fi.owner.Obj().Pkg().Path(), modPath+"/")
		k := pkgRel + "." + fi.owner.Obj().Name() + "." + fv.Name()
		keys = append(keys, k)
		byKey[k] = fv
	}
	sort.Strings(keys)
	for _, k := range keys {
		fv := byKey[k]
		fi := info[fv]
		construct := "field " + k + ": written after construction"
		pos := p.pos(fi.writes[0].Pos())
		// all accesses atomic?
		onlyAtomic := true
		for _, w := range fi.writes {
			c, ok := w.(ssa.CallInstruction)
			if !ok {
				onlyAtomic = false
				continue
			}
			if _, isA := isAtomicCall(c); !isA {
				onlyAtomic = false
			}
		}
		if onlyAtomic && fi.nonAtomic == 0 {
			res.ok("C19-R4", construct, pos, fmt.Sprintf("accessed through sync/atomic only (%d sites)", fi.atomic))
			continue
		}
		// objects of this type that never leave the goroutine that allocated them need no synchronisation at all
		if p.typeNeverEscapes(fi.owner) {
			res.ok("C19-R4", construct, pos, "every object of this type is allocated locally and never escapes its goroutine (not stored, sent, returned or handed to a go statement)")
			continue
		}
		if why, ok := p.forkJoinConfined(fi.owner, fv); ok {
			res.ok("C19-R4", construct, pos, why)
			continue
		}
		reason, listed := confinedFields[k]
		if !listed {
			// whole-type entries
			reason, listed = confinedFields[strings.TrimSuffix(k, "."+fv.Name())]
		}
		// entries whose confinement has a checkable shape are verified, not just trusted
		if listed && strings.Contains(reason, "singleflight.Do") {
			if site, ok := p.outsideSingleflight(fv); !ok {
				if _, isDo := site.(ssa.CallInstruction); isDo {
					res.bad("C19-R4", construct, p.pos(site.Pos()), "the field is listed as confined to the singleflight.Do callback, but the key of that Do call is not a constant: calls with different keys run their callbacks at the same time, and both read and write the field")
					continue
				}
				res.bad("C19-R4", construct, p.pos(site.Pos()), "the field is listed as confined to the singleflight.Do callback, but it is accessed in "+funcName(site.Parent())+", which also runs outside that callback: concurrent requests read it while the callback writes it")
				continue
			}
		}
		switch {
		case listed && reason != "FINDING":
			res.ok("C19-R4", construct, pos, "confined: "+reason)
		case listed:
			res.bad("C19-R4", construct, pos, "the field is written by one goroutine and read by request handlers of other goroutines with neither a lock nor sync/atomic")
		default:
			res.bad("C19-R4", construct, pos, fmt.Sprintf("a field of a type without a mutex is written after construction (%d write site(s)) and is neither accessed atomically nor listed as confined to one goroutine: potential unsynchronised shared state", len(fi.writes)))
		}
	}
}

// typeNeverEscapes: every allocation of the named struct type T in the repo is a local object that stays within the
// allocating goroutine. An object stays local if its address is only used for field accesses, as receiver/argument of
// repo functions that keep it local in turn, in a method value or function literal that is called, deferred or passed
// to a known synchronous higher-order function, and in local variables. Being stored into another object, sent,
// returned, converted to an interface or captured by a go statement makes it escape.
func (p *Prog) typeNeverEscapes(T *types.Named) bool {
	if p.escCache == nil {
		p.escCache = map[*types.Named]bool{}
	}
	if v, ok := p.escCache[T]; ok {
		return v
	}
	p.escCache[T] = false
	n := 0
	ok := true
	// a type whose values also live inside slices, maps, channels or other structs is not judged by its Allocs alone
	holds := func(t types.Type) bool {
		switch u := t.Underlying().(type) {
		case *types.Slice:
			return types.Identical(u.Elem(), T) || types.Identical(u.Elem(), types.NewPointer(T))
		case *types.Array:
			return types.Identical(u.Elem(), T) || types.Identical(u.Elem(), types.NewPointer(T))
		case *types.Map:
			return types.Identical(u.Elem(), T) || types.Identical(u.Elem(), types.NewPointer(T))
		case *types.Chan:
			return types.Identical(u.Elem(), T) || types.Identical(u.Elem(), types.NewPointer(T))
		}
		return false
	}
	for _, sp := range p.SSAPkgs {
		sc := sp.Pkg.Scope()
		for _, name := range sc.Names() {
			tn, isT := sc.Lookup(name).(*types.TypeName)
			if !isT {
				continue
			}
			if st, isS := tn.Type().Underlying().(*types.Struct); isS {
				for i := 0; i < st.NumFields(); i++ {
					ft := st.Field(i).Type()
					if types.Identical(ft, T) || types.Identical(ft, types.NewPointer(T)) || holds(ft) {
						return false
					}
				}
			}
		}
	}
	for _, f := range p.AllFuncs {
		for _, b := range f.Blocks {
			for _, ins := range b.Instrs {
				if v, isV := ins.(ssa.Value); isV && holds(v.Type()) {
					return false
				}
			}
		}
	}
	for _, f := range p.AllFuncs {
		for _, b := range f.Blocks {
			for _, ins := range b.Instrs {
				al, isAl := ins.(*ssa.Alloc)
				if !isAl {
					continue
				}
				if pt, isP := al.Type().(*types.Pointer); !isP || !types.Identical(pt.Elem(), T) {
					continue
				}
				n++
				if !p.staysLocal(al, 0, map[ssa.Value]bool{}) {
					ok = false
				}
			}
		}
	}
	// values of T embedded in other objects or created by composite literals of other types are not covered
	res := ok && n > 0
	p.escCache[T] = res
	return res
}

func (p *Prog) staysLocal(v ssa.Value, depth int, seen map[ssa.Value]bool) bool {
	if depth > 6 {
		return false
	}
	if seen[v] {
		return true
	}
	seen[v] = true
	refs := v.Referrers()
	if refs == nil {
		return true
	}
	var closureLocal func(mc ssa.Value) bool
	closureLocal = func(mc ssa.Value) bool {
		// what the function literal / bound method does with the captured object
		if m, ok := mc.(*ssa.MakeClosure); ok {
			fn := m.Fn.(*ssa.Function)
			for i, bnd := range m.Bindings {
				if bnd == v && i < len(fn.FreeVars) {
					if !p.staysLocal(fn.FreeVars[i], depth+1, seen) {
						return false
					}
				}
			}
		}
		for _, r2 := range *mc.Referrers() {
			switch u := r2.(type) {
			case *ssa.ChangeType:
				if !closureLocal(u) {
					return false
				}
				continue
			}
			switch u := r2.(type) {
			case *ssa.Call:
				if u.Common().Value == mc {
					continue // called directly
				}
				sc := u.Common().StaticCallee()
				if sc == nil {
					return false
				}
				if syncHigherOrder[sc.String()] {
					continue
				}
				if sc.Blocks != nil && sc.Pkg != nil && strings.HasPrefix(sc.Pkg.Pkg.Path(), modPath) {
					// a repo function that only calls the function value it is given
					okUse := true
					for ai, a := range u.Common().Args {
						if a != mc || ai >= len(sc.Params) {
							continue
						}
						for _, r3 := range *sc.Params[ai].Referrers() {
							switch c3 := r3.(type) {
							case *ssa.Call:
								if c3.Common().Value != ssa.Value(sc.Params[ai]) {
									okUse = false
								}
							case *ssa.DebugRef:
							default:
								okUse = false
							}
						}
					}
					if okUse {
						continue
					}
				}
				return false
			case *ssa.Defer:
				continue
			case *ssa.DebugRef:
				continue
			default:
				return false
			}
		}
		return true
	}
	for _, ref := range *refs {
		switch x := ref.(type) {
		case *ssa.FieldAddr, *ssa.DebugRef:
		case *ssa.UnOp:
			// load of the struct value (copy) - the copy is a value, not the object
		case *ssa.Store:
			if x.Val == v {
				// stored into a local variable cell that is only loaded / stored locally
				cell, ok := x.Addr.(*ssa.Alloc)
				if !ok {
					return false
				}
				for _, cr := range *cell.Referrers() {
					switch y := cr.(type) {
					case *ssa.Store:
					case *ssa.UnOp:
						if !p.staysLocal(y, depth+1, seen) {
							return false
						}
					case *ssa.DebugRef:
					case *ssa.MakeClosure:
						if !closureLocal(y) {
							return false
						}
					default:
						return false
					}
				}
			}
		case *ssa.MakeClosure:
			if !closureLocal(x) {
				return false
			}
		case ssa.CallInstruction:
			if _, isGo := ref.(*ssa.Go); isGo {
				return false
			}
			sc := x.Common().StaticCallee()
			if sc == nil || sc.Blocks == nil || sc.Pkg == nil || !strings.HasPrefix(sc.Pkg.Pkg.Path(), modPath) {
				return false
			}
			for ai, a := range x.Common().Args {
				if a == v && ai < len(sc.Params) {
					if !p.staysLocal(sc.Params[ai], depth+1, seen) {
						return false
					}
				}
			}
		case *ssa.Phi:
			if !p.staysLocal(x, depth+1, seen) {
				return false
			}
		default:
			return false // returned, sent, converted to an interface, stored in a map ...
		}
	}
	return true
}

// outsideSingleflight: every post-construction access of field fv happens inside a function literal passed to
// (*singleflight.Group).Do, or in a function that runs only inside such a literal. Returns the first access that does not.
func (p *Prog) outsideSingleflight(fv *types.Var) (ssa.Instruction, bool) {
	inFlight := map[*ssa.Function]bool{}
	for _, f := range p.AllFuncs {
		for _, c := range callsIn(f) {
			sc := c.Common().StaticCallee()
			if sc == nil || sc.Name() != "Do" || sc.Signature.Recv() == nil || !isNamed(sc.Signature.Recv().Type(), "golang.org/x/sync/singleflight", "Group") {
				continue
			}
			// one execution at a time holds per key: the key has to be one constant
			if len(c.Common().Args) >= 2 {
				if _, isConst := constString(resolve(c.Common().Args[1])); !isConst {
					return c.(ssa.Instruction), false
				}
			}
			for _, a := range c.Common().Args {
				for _, g := range p.funcValues(a, 0) {
					inFlight[g] = true
				}
			}
		}
	}
	var confined func(g *ssa.Function, d int) bool
	confined = func(g *ssa.Function, d int) bool {
		if inFlight[g] {
			return true
		}
		if d > 4 {
			return false
		}
		sites, ok := p.liftSites(g)
		if !ok || len(sites) == 0 {
			return false
		}
		for _, s := range sites {
			if !confined(s.Parent(), d+1) {
				return false
			}
		}
		return true
	}
	for _, f := range p.AllFuncs {
		for _, b := range f.Blocks {
			for _, ins := range b.Instrs {
				fa, ok := ins.(*ssa.FieldAddr)
				if !ok || fieldOf(fa) != fv || isFreshObject(fa.X) {
					continue
				}
				if !confined(f, 0) {
					return ins, false
				}
			}
		}
	}
	return nil, true
}

// lockContext builds the lock context with the lock-token types (BeginBatchWrite idiom) resolved.
func (p *Prog) lockContext() *lockCtx {
	if p.lockCache != nil {
		return p.lockCache
	}
	lc := &lockCtx{p: p, memo: map[string]int{}, visiting: map[string]bool{}, tokens: map[*types.Named]*types.Var{}}
	// ---- lock token types (BeginBatchWrite idiom) ----
	for _, f := range p.AllFuncs {
		calls := mutexCallsIn(p, f)
		for _, l := range calls {
			if l.kind != "Lock" || l.deferred {
				continue
			}
			unl := false
			for _, u := range calls {
				if u.obj == l.obj && u.mutex == l.mutex && (u.kind == "Unlock") {
					unl = true
				}
			}
			if unl {
				continue
			}
			// every return is dominated by the Lock: the function hands the lock to its result
			all, n := true, 0
			var tokType *types.Named
			var via *types.Var
			for _, b := range f.Blocks {
				ret, ok := b.Instrs[len(b.Instrs)-1].(*ssa.Return)
				if !ok {
					continue
				}
				n++
				if !instrDominates(l.ins, ret) {
					all = false
				}
				for _, rv := range ret.Results {
					al, ok := resolve(rv).(*ssa.Alloc)
					if !ok {
						continue
					}
					nt, ok := al.Type().(*types.Pointer).Elem().(*types.Named)
					if !ok {
						continue
					}
					// field initialised with the locked object
					for _, ref := range *al.Referrers() {
						if fa, ok := ref.(*ssa.FieldAddr); ok {
							for _, r2 := range *fa.Referrers() {
								if st, ok := r2.(*ssa.Store); ok && objKey(p, st.Val) == l.obj {
									tokType, via = nt, fieldOf(fa)
								}
							}
						}
					}
				}
			}
			if all && n > 0 && tokType != nil {
				lc.tokens[tokType] = via
			}
		}
	}

	p.lockCache = lc
	return lc
}

// checkSelfDeadlock: sync.Mutex / RWMutex are not reentrant. A Lock() reached while the same mutex of the same object
// is already held (exclusively or shared) by the goroutine blocks forever; an RLock() reached under the exclusive lock
// does, too. Looked for inside one function and across one static call (the callee's lock calls, with the callee's
// object translated from the argument it is rooted in; a lock call of the callee that is switched off by a constant
// bool argument of this call is skipped).
func checkSelfDeadlock(p *Prog, lc *lockCtx, res *Result, rule string) {
	n := 0
	violations := 0
	for _, f := range p.AllFuncs {
		if f.Synthetic != "" || f.Pkg == nil || !strings.HasPrefix(f.Pkg.Pkg.Path(), modPath) {
			continue
		}
		own := mutexCallsIn(p, f)
		// (a) inside f
		for _, l := range own {
			if l.deferred || (l.kind != "Lock" && l.kind != "RLock") {
				continue
			}
			n++
			held := lkNone
			for _, e := range own {
				if e.ins == l.ins || e.mutex != l.mutex || e.obj != l.obj || e.deferred || (e.kind != "Lock" && e.kind != "RLock") {
					continue
				}
				if !instrDominates(e.ins, l.ins) {
					continue
				}
				released := false
				for _, u := range own {
					if u.mutex == l.mutex && u.obj == l.obj && !u.deferred && (u.kind == "Unlock" || u.kind == "RUnlock") && instrDominates(e.ins, u.ins) && instrDominates(u.ins, l.ins) {
						released = true
					}
				}
				if !released {
					if e.kind == "Lock" {
						held = lkExcl
					} else if held < lkRead {
						held = lkRead
					}
				}
			}
			if held != lkNone && (l.kind == "Lock" || held == lkExcl) {
				violations++
				res.bad(rule, fmt.Sprintf("%s: %s of %s while it is already held", funcName(f), l.kind, l.mutex.Name()), p.pos(l.ins.Pos()), "the mutex is acquired again on a path on which this goroutine already holds it ("+lkName(held)+"): sync mutexes are not reentrant, the goroutine blocks forever")
			} else if held == lkRead && l.kind == "RLock" {
				violations++
				res.bad(rule, fmt.Sprintf("%s: %s of %s while it is already held", funcName(f), l.kind, l.mutex.Name()), p.pos(l.ins.Pos()), "the read lock is taken a second time by a goroutine that already holds it: a writer that asks for the lock in between blocks new readers (sync.RWMutex), so this goroutine waits for the writer and the writer for this goroutine - for ever")
			}
		}
		// (b) across one static call
		for _, c := range callsIn(f) {
			if _, isGo := c.(*ssa.Go); isGo {
				continue
			}
			g := c.Common().StaticCallee()
			if g == nil || g.Blocks == nil || g.Pkg == nil || !strings.HasPrefix(g.Pkg.Pkg.Path(), modPath) || g == f {
				continue
			}
			for _, l := range mutexCallsIn(p, g) {
				if l.deferred || (l.kind != "Lock" && l.kind != "RLock") || !strings.HasPrefix(l.obj, "P:") {
					continue
				}
				root := l.obj[2:]
				path := ""
				if i := strings.Index(root, "."); i >= 0 {
					root, path = root[:i], root[i:]
				}
				pi := -1
				for i, prm := range g.Params {
					if prm.Name() == root {
						pi = i
					}
				}
				if pi < 0 || pi >= len(c.Common().Args) {
					continue
				}
				// switched off by a constant bool argument?
				off := false
				for i, prm := range g.Params {
					if bt, ok := prm.Type().Underlying().(*types.Basic); !ok || bt.Kind() != types.Bool || i >= len(c.Common().Args) {
						continue
					}
					k, ok := resolve(c.Common().Args[i]).(*ssa.Const)
					if !ok || k.Value == nil {
						continue
					}
					argTrue := k.Value.String() == "true"
					if dominatedByParam(l.ins.Block(), prm, !argTrue) {
						off = true
					}
				}
				if off {
					continue
				}
				callerObj := objKey(p, c.Common().Args[pi]) + path
				held := lc.stateAt(f, c.(ssa.Instruction), callerObj, l.mutex, 0)
				n++
				if held != lkNone && (l.kind == "Lock" || held == lkExcl) {
					violations++
					res.bad(rule, fmt.Sprintf("%s calls %s: %s of %s while the caller holds it", funcName(f), funcName(g), l.kind, l.mutex.Name()), p.pos(c.Pos()), "the callee acquires a mutex that the caller holds at this call ("+lkName(held)+"): the goroutine blocks forever (and everything waiting for that lock with it)")
				} else if held == lkRead && l.kind == "RLock" {
					violations++
					res.bad(rule, fmt.Sprintf("%s calls %s: %s of %s while the caller holds it", funcName(f), funcName(g), l.kind, l.mutex.Name()), p.pos(c.Pos()), "the callee takes the read lock that the caller already holds: a writer that asks for the lock between the two acquisitions blocks new readers (sync.RWMutex), so this goroutine waits for the writer and the writer for this goroutine - every later request that needs the lock hangs")
				}
			}
		}
	}
	if violations == 0 {
		res.ok(rule, "no lock acquired while held", "-", fmt.Sprintf("%d lock acquisitions examined (in place and across one call)", n))
	}
}

// checkSharedAppend (C19-R7): x := append(obj.f, v) where obj is not a local object and x does not go back into obj.f.
func checkSharedAppend(p *Prog, res *Result, rule string) {
	n := 0
	for _, f := range p.AllFuncs {
		if f.Synthetic != "" || f.Pkg == nil || !strings.HasPrefix(f.Pkg.Pkg.Path(), modPath) {
			continue
		}
		k := 0
		for _, c := range callsIn(f) {
			call, ok := c.(*ssa.Call)
			if !ok {
				continue
			}
			bi, ok := call.Common().Value.(*ssa.Builtin)
			if !ok || bi.Name() != "append" || len(call.Common().Args) == 0 {
				continue
			}
			base := resolve(call.Common().Args[0])
			ld, ok := base.(*ssa.UnOp)
			if !ok || ld.Op != token.MUL {
				continue
			}
			var place string
			switch a := ld.X.(type) {
			case *ssa.FieldAddr:
				if isFreshObject(a.X) {
					continue
				}
				place = "field " + fieldOf(a).Name()
			case *ssa.Global:
				place = "package variable " + a.Name()
			default:
				continue
			}
			n++
			k++
			top := f
			for top.Parent() != nil {
				top = top.Parent()
			}
			construct := fmt.Sprintf("%s: append onto shared %s #%d", funcName(top), place, k)
			// stored back into the very place it was loaded from?
			back := false
			var follow func(v ssa.Value, d int)
			follow = func(v ssa.Value, d int) {
				if d > 3 || v.Referrers() == nil {
					return
				}
				for _, ref := range *v.Referrers() {
					switch x := ref.(type) {
					case *ssa.Store:
						if x.Val == v && samePlace(x.Addr, ld.X) {
							back = true
						}
					case *ssa.Phi:
						follow(x, d+1)
					}
				}
			}
			follow(call, 0)
			if back {
				res.ok(rule, construct, p.pos(call.Pos()), "the result is stored back into the same place (judged by the lock rules of that field)")
			} else {
				res.bad(rule, construct, p.pos(call.Pos()), "the result of the append is used elsewhere while the base slice stays in the shared object: when that slice has spare capacity every call writes the appended element into the shared backing array, concurrently with other requests doing the same (and with readers of the array)")
			}
		}
	}
	if n == 0 {
		res.und(rule, "appends onto shared slices", "-", "no append with a field or package variable as base found")
	}
}

// samePlace: two addresses denote the same field of the same object value / the same package variable.
func samePlace(a, b ssa.Value) bool {
	if a == b {
		return true
	}
	fa, ok1 := a.(*ssa.FieldAddr)
	fb, ok2 := b.(*ssa.FieldAddr)
	if ok1 && ok2 {
		return fieldOf(fa) == fieldOf(fb) && (resolve(fa.X) == resolve(fb.X) || accessPath(fa.X) == accessPath(fb.X))
	}
	return false
}

// checkLockPairing: a lock taken by a function is released on every return of that function - by a deferred unlock, or
// by an explicit one on every path from the acquisition to a return (branches on the same condition as the acquisition
// are followed consistently: `if lock { mu.Lock() } .. if lock { mu.Unlock() }`). A path that returns with the lock
// still held blocks the next writer of that lock forever; when the lock belongs to the event cache or the hub, that
// writer is the sequencer, and no later write becomes readable. The one accepted exception is the in-process engine's
// batch, whose BeginBatchWrite hands the store lock to Commit (C11-R2 decides that pairing).
func checkLockPairing(p *Prog, res *Result, rule string) {
	n, violations := 0, 0
	var fs []*ssa.Function
	for _, f := range p.AllFuncs {
		if f.Synthetic != "" || f.Pkg == nil || f.Blocks == nil || !strings.HasPrefix(f.Pkg.Pkg.Path(), modPath) || strings.Contains(f.Pkg.Pkg.Path(), "/mock") {
			continue
		}
		fs = append(fs, f)
	}
	sort.Slice(fs, func(i, j int) bool { return funcName(fs[i]) < funcName(fs[j]) })
	for _, f := range fs {
		own := mutexCallsIn(p, f)
		for _, l := range own {
			if l.deferred || (l.kind != "Lock" && l.kind != "RLock") {
				continue
			}
			want := "Unlock"
			if l.kind == "RLock" {
				want = "RUnlock"
			}
			// the batch lock of the in-process engine is released by Commit
			if strings.HasSuffix(f.Pkg.Pkg.Path(), "/pkg/storage/memkv") && f.Name() == "BeginBatchWrite" {
				continue
			}
			n++
			// a deferred release counts from the defer statement on: the statement itself must be reached
			isRelease := map[ssa.Instruction]bool{}
			deferred := false
			for _, u := range own {
				if u.deferred && u.kind == want && u.mutex == l.mutex && u.obj == l.obj {
					isRelease[u.ins] = true
					if instrDominates(u.ins, l.ins) {
						deferred = true
					}
				}
			}
			// .. or a deferred function literal that releases it
			for _, c := range callsIn(f) {
				d, ok := c.(*ssa.Defer)
				if !ok {
					continue
				}
				if mc, ok := d.Common().Value.(*ssa.MakeClosure); ok {
					for _, u := range mutexCallsIn(p, mc.Fn.(*ssa.Function)) {
						if u.kind == want && u.mutex == l.mutex {
							isRelease[d] = true
							if instrDominates(d, l.ins) {
								deferred = true
							}
						}
					}
				}
			}
			if deferred {
				continue
			}
			for _, u := range own {
				if !u.deferred && u.kind == want && u.mutex == l.mutex && u.obj == l.obj {
					isRelease[u.ins] = true
				}
			}
			// conditions known at the acquisition
			known := map[string]bool{}
			for _, cf := range localFacts(l.ins.Block()) {
				if k := pureKey(cf.Raw); k != "" {
					known[k] = cf.Want
				}
			}
			pa := posOf(l.ins)
			leak, _ := searchFrom(pa.b, pa.i+1, searchOpts{
				stop: func(i ssa.Instruction) bool { return isRelease[i] },
				bad:  func(i ssa.Instruction) bool { _, ok := i.(*ssa.Return); return ok },
				skipEdge: func(from *ssa.BasicBlock, succ int) bool {
					iff := ifOf(from)
					if iff == nil {
						return false
					}
					cf := factOf(iff.Cond, succ == 0)
					if k := pureKey(cf.Raw); k != "" {
						if w, ok := known[k]; ok && w != cf.Want {
							return true
						}
					}
					return false
				},
			})
			if leak != nil {
				violations++
				res.bad(rule, fmt.Sprintf("%s: %s of %s is released on every return", funcName(f), l.kind, l.mutex.Name()), p.pos(leak.Pos()), "the function can return with the lock still held (no deferred "+want+", and this return is reached without an explicit one): the next goroutine that needs the lock exclusively waits forever - for the event cache or the hub that is the sequencer, and from then on no write becomes readable or watchable")
			}
		}
	}
	if violations == 0 {
		res.ok(rule, "every lock taken is released on every return", "-", fmt.Sprintf("%d non-deferred acquisitions examined", n))
	}
}

// checkAddBeforeGo: a WaitGroup counts a goroutine from before it is started: a function that announces its own end
// with a deferred Done on a WaitGroup must not be the one that calls Add on it when it is started with `go` - the Add
// then races with the Wait of whoever joins (the joiner can pass Wait before the goroutine has counted itself, and goes
// on - closing streams, returning from the handler - while the goroutine still runs).
func checkAddBeforeGo(p *Prog, res *Result, rule string) {
	p.buildCallers()
	n := 0
	var fs []*ssa.Function
	for _, f := range p.AllFuncs {
		if f.Synthetic != "" || f.Pkg == nil || f.Blocks == nil || !strings.HasPrefix(f.Pkg.Pkg.Path(), modPath) || strings.Contains(f.Pkg.Pkg.Path(), "/mock") {
			continue
		}
		fs = append(fs, f)
	}
	sort.Slice(fs, func(i, j int) bool { return funcName(fs[i]) < funcName(fs[j]) })
	wgOp := func(c ssa.CallInstruction) (string, string) {
		sc := c.Common().StaticCallee()
		if sc == nil || sc.Signature.Recv() == nil || !isNamed(sc.Signature.Recv().Type(), "sync", "WaitGroup") || len(c.Common().Args) == 0 {
			return "", ""
		}
		return sc.Name(), accessPath(c.Common().Args[0])
	}
	for _, f := range fs {
		done := map[string]bool{}
		for _, c := range callsIn(f) {
			if d, ok := c.(*ssa.Defer); ok {
				if op, key := wgOp(d); op == "Done" {
					done[key] = true
				}
			}
		}
		if len(done) == 0 {
			continue
		}
		startedByGo := false
		for _, cs := range p.callers[f] {
			if _, isGo := cs.(*ssa.Go); isGo {
				startedByGo = true
			}
		}
		if !startedByGo {
			continue
		}
		n++
		construct := funcName(f) + ": counted on its WaitGroup before it is started"
		var inside ssa.Instruction
		for _, c := range callsIn(f) {
			if _, isDefer := c.(*ssa.Defer); isDefer {
				continue
			}
			if op, key := wgOp(c); op == "Add" && done[key] {
				inside = c.(ssa.Instruction)
			}
		}
		if inside != nil {
			res.bad(rule, construct, p.pos(inside.Pos()), "the goroutine calls Add on the WaitGroup it later calls Done on: the Add is unordered with the Wait of the goroutine that joins (sync.WaitGroup: Add must happen before Wait), so the join can return - and the stream or handler be torn down - while this goroutine is still running and using it")
		} else {
			res.ok(rule, construct, p.pos(f.Pos()), "deferred Done, no Add of its own: whoever starts it counts it first")
		}
	}
	if n == 0 {
		res.ok(rule, "goroutines with a deferred WaitGroup.Done", "-", "none is started with go")
	}
}

// checkPackageVariables (C19-R9): a package-level variable of the repository that is written after package
// initialisation is shared by every goroutine of the process - every stream, every request. Such a variable is touched
// only through sync/atomic, or with a lock held that is itself package-level (a mutex variable, or a field of a
// package-level object). A lock that belongs to a request- or stream-scoped object orders nothing between two such
// objects.
func checkPackageVariables(p *Prog, res *Result, rule string) {
	type access struct {
		ins    ssa.Instruction
		fn     *ssa.Function
		write  bool
		atomic bool
	}
	inInit := func(f *ssa.Function) bool {
		for g := f; g != nil; g = g.Parent() {
			if g.Name() == "init" || strings.HasPrefix(g.Name(), "init#") {
				return true
			}
		}
		return false
	}
	byGlobal := map[*ssa.Global][]access{}
	var order []*ssa.Global
	for _, f := range p.AllFuncs {
		if f.Pkg == nil || !strings.HasPrefix(f.Pkg.Pkg.Path(), modPath) || f.Blocks == nil {
			continue
		}
		for _, b := range f.Blocks {
			for _, ins := range b.Instrs {
				var ops [8]*ssa.Value
				for _, op := range ins.Operands(ops[:0]) {
					g, ok := (*op).(*ssa.Global)
					if !ok || g.Pkg == nil || !strings.HasPrefix(g.Pkg.Pkg.Path(), modPath) {
						continue
					}
					a := access{ins: ins, fn: f}
					switch x := ins.(type) {
					case *ssa.Store:
						if x.Addr != ssa.Value(g) {
							continue // the address stored somewhere: not followed
						}
						a.write = true
					case *ssa.UnOp:
						if x.Op != token.MUL {
							continue
						}
					case ssa.CallInstruction:
						n, isA := isAtomicCall(x)
						if !isA {
							continue
						}
						a.atomic = true
						a.write = !strings.HasPrefix(n, "Load")
					default:
						continue
					}
					if _, seen := byGlobal[g]; !seen {
						order = append(order, g)
					}
					byGlobal[g] = append(byGlobal[g], a)
				}
			}
		}
	}
	sort.Slice(order, func(i, j int) bool { return order[i].Pos() < order[j].Pos() })
	// is a package-level lock held at ins? (Lock/RLock on a mutex that is a package variable or a field path of one,
	// dominating, not released in between)
	type glock struct {
		ins      ssa.Instruction
		kind     string
		key      string
		deferred bool
	}
	rootedInGlobal := func(v ssa.Value) (string, bool) {
		path := ""
		for d := 0; d < 6; d++ {
			switch x := strip(v).(type) {
			case *ssa.Global:
				return x.Pkg.Pkg.Path() + "." + x.Name() + path, true
			case *ssa.FieldAddr:
				path = "." + fieldOf(x).Name() + path
				v = x.X
			case *ssa.UnOp:
				if x.Op != token.MUL {
					return "", false
				}
				v = x.X
			default:
				return "", false
			}
		}
		return "", false
	}
	glocksIn := func(f *ssa.Function) []glock {
		var out []glock
		for _, c := range callsIn(f) {
			sc := c.Common().StaticCallee()
			if sc == nil || sc.Signature.Recv() == nil || len(c.Common().Args) == 0 {
				continue
			}
			rt := sc.Signature.Recv().Type()
			if !(isNamed(rt, "sync", "Mutex") || isNamed(rt, "sync", "RWMutex")) {
				continue
			}
			switch sc.Name() {
			case "Lock", "RLock", "Unlock", "RUnlock":
			default:
				continue
			}
			if k, ok := rootedInGlobal(c.Common().Args[0]); ok {
				_, isDefer := c.(*ssa.Defer)
				out = append(out, glock{c.(ssa.Instruction), sc.Name(), k, isDefer})
			}
		}
		return out
	}
	globalLockHeld := func(f *ssa.Function, ins ssa.Instruction, excl bool) bool {
		ls := glocksIn(f)
		for _, l := range ls {
			if l.deferred || (l.kind != "Lock" && (excl || l.kind != "RLock")) || !instrDominates(l.ins, ins) {
				continue
			}
			released := false
			for _, u := range ls {
				if u.key == l.key && !u.deferred && (u.kind == "Unlock" || u.kind == "RUnlock") && instrDominates(l.ins, u.ins) && instrDominates(u.ins, ins) {
					released = true
				}
			}
			if !released {
				return true
			}
		}
		return false
	}
	// sync.Once: the function handed to Once.Do runs once, before any Do returns; an access after a Do (directly, or
	// through a function all of whose paths call Do) is ordered after it.
	isOnceDo := func(c ssa.CallInstruction) bool {
		sc := c.Common().StaticCallee()
		return sc != nil && sc.Signature.Recv() != nil && sc.Name() == "Do" && isNamed(sc.Signature.Recv().Type(), "sync", "Once")
	}
	insideOnce := func(f *ssa.Function) bool {
		for g := f; g != nil; g = g.Parent() {
			if g.Parent() == nil {
				break
			}
			for _, c := range callsIn(g.Parent()) {
				if isOnceDo(c) && len(c.Common().Args) == 2 {
					if mc, ok := resolve(c.Common().Args[1]).(*ssa.MakeClosure); ok && mc.Fn == ssa.Value(g) {
						return true
					}
					if fn, ok := resolve(c.Common().Args[1]).(*ssa.Function); ok && fn == g {
						return true
					}
				}
			}
		}
		return false
	}
	var alwaysOnce func(f *ssa.Function, d int) bool
	alwaysOnce = func(f *ssa.Function, d int) bool {
		if f == nil || f.Blocks == nil || d > 2 {
			return false
		}
		for _, c := range callsIn(f) {
			if _, isGo := c.(*ssa.Go); isGo {
				continue
			}
			if _, isDefer := c.(*ssa.Defer); isDefer {
				continue
			}
			if !(isOnceDo(c) || alwaysOnce(c.Common().StaticCallee(), d+1)) {
				continue
			}
			all := true
			for _, b := range f.Blocks {
				if ret, ok := b.Instrs[len(b.Instrs)-1].(*ssa.Return); ok && !instrDominates(c.(ssa.Instruction), ret) {
					all = false
				}
			}
			if all {
				return true
			}
		}
		return false
	}
	afterOnce := func(f *ssa.Function, ins ssa.Instruction) bool {
		for _, c := range callsIn(f) {
			if _, isGo := c.(*ssa.Go); isGo {
				continue
			}
			if _, isDefer := c.(*ssa.Defer); isDefer {
				continue
			}
			if (isOnceDo(c) || alwaysOnce(c.Common().StaticCallee(), 0)) && instrDominates(c.(ssa.Instruction), ins) {
				return true
			}
		}
		return false
	}
	for _, g := range order {
		accs := byGlobal[g]
		lateWrite := false
		for _, a := range accs {
			if a.write && !inInit(a.fn) {
				lateWrite = true
			}
		}
		if !lateWrite {
			continue // written during package initialisation only: read-only afterwards
		}
		n := 0
		for _, a := range accs {
			if inInit(a.fn) {
				continue
			}
			n++
			kind := "read"
			if a.write {
				kind = "write"
			}
			construct := fmt.Sprintf("package variable %s.%s: %s in %s #%d", g.Pkg.Pkg.Name(), g.Name(), kind, funcName(a.fn), n)
			switch {
			case a.atomic:
				res.ok(rule, construct, p.pos(a.ins.Pos()), "sync/atomic")
			case globalLockHeld(a.fn, a.ins, a.write):
				res.ok(rule, construct, p.pos(a.ins.Pos()), "under a package-level lock")
			case insideOnce(a.fn):
				res.ok(rule, construct, p.pos(a.ins.Pos()), "inside the function of a sync.Once")
			case !a.write && afterOnce(a.fn, a.ins):
				res.ok(rule, construct, p.pos(a.ins.Pos()), "read after the sync.Once that initialises it")
			default:
				res.bad(rule, construct, p.pos(a.ins.Pos()), "a package-level variable that is written after initialisation is accessed without sync/atomic and without a package-level lock: it is shared by all requests and streams of the process, and a lock of one stream or one request object orders nothing between two of them (lost updates, repeated values)")
			}
		}
	}
}

// checkLoopVarCapture (C19-R10): the module declares a Go version below 1.22, so the variables of a for / range
// statement are one variable per loop, not per iteration. A function literal made in the loop body that refers to such
// a variable and runs later - started with go, deferred, handed to time.AfterFunc, stored - sees whatever the loop
// wrote last (and races with the loop if it is still running). In SSA the captured variable is an Alloc that lies
// outside the loop and is stored to inside it.
func checkLoopVarCapture(p *Prog, res *Result, rule string) {
	n, bad := 0, 0
	for _, f := range p.AllFuncs {
		if f.Pkg == nil || f.Blocks == nil || !strings.HasPrefix(f.Pkg.Pkg.Path(), modPath) {
			continue
		}
		for _, b := range f.Blocks {
			for _, ins := range b.Instrs {
				mc, ok := ins.(*ssa.MakeClosure)
				if !ok {
					continue
				}
				loop := loopOf(b)
				if loop == nil {
					continue
				}
				// does the literal run later?
				later := ""
				var uses func(v ssa.Value, d int)
				uses = func(v ssa.Value, d int) {
					if v.Referrers() == nil || d > 2 {
						return
					}
					for _, ref := range *v.Referrers() {
						switch u := ref.(type) {
						case *ssa.Go:
							later = "started with go"
						case *ssa.Defer:
							if u.Common().Value == v && loopOf(u.Block()) != nil {
								later = "deferred inside the loop"
							}
						case *ssa.Call:
							if u.Common().Value == v {
								continue // called here
							}
							sc := u.Common().StaticCallee()
							if sc != nil && sc.Pkg != nil && sc.Pkg.Pkg.Path() == "time" && sc.Name() == "AfterFunc" {
								later = "handed to time.AfterFunc"
							} else if sc != nil && syncHigherOrder[funcName(sc)] {
								continue
							} else if sc != nil && sc.Blocks != nil && strings.HasPrefix(sc.Pkg.Pkg.Path(), modPath) {
								// a repository function that is handed the literal: does it start it?
								for i, a := range u.Common().Args {
									if a == v && i < len(sc.Params) {
										uses(sc.Params[i], d+1)
									}
								}
							}
						case *ssa.Store:
							if u.Val == v {
								later = "stored"
							}
						case *ssa.MakeInterface, *ssa.ChangeType:
							uses(u.(ssa.Value), d+1)
						}
					}
				}
				uses(mc, 0)
				if later == "" {
					continue
				}
				n++
				for _, bnd := range mc.Bindings {
					al, ok := bnd.(*ssa.Alloc)
					if !ok || loop[al.Block()] {
						continue // a variable declared inside the body: one per iteration
					}
					written := false
					for _, ref := range *al.Referrers() {
						if st, ok := ref.(*ssa.Store); ok && st.Addr == ssa.Value(al) && loop[st.Block()] {
							written = true
						}
					}
					if !written {
						continue
					}
					bad++
					res.bad(rule, fmt.Sprintf("%s: function literal #%d captures loop variable %s", funcName(f), n, al.Comment), p.pos(mc.Fn.Pos()), "a function literal that runs later ("+later+") refers to a variable of the enclosing loop; the module's Go version is below 1.22, so there is one such variable for the whole loop: every literal sees the value of the last iteration (and reads it while the loop may still be writing it)")
				}
			}
		}
	}
	if bad == 0 {
		res.ok(rule, "function literals made in loops", "-", fmt.Sprintf("%d literal(s) that run later, none refers to a per-loop variable", n))
	}
}

// checkNoLockCopies (C19-R11): a struct that contains a sync.Mutex / RWMutex (directly, embedded, or in a nested struct
// field) is never passed or received by value in repository code: a method with a value receiver locks the mutex of its
// own copy, which excludes nobody. (go vet's copylocks check says the same; the suite runs with -vet=off.)
func checkNoLockCopies(p *Prog, res *Result, rule string) {
	var holdsLock func(t types.Type, d int) bool
	holdsLock = func(t types.Type, d int) bool {
		if d > 4 {
			return false
		}
		if isNamed(t, "sync", "Mutex") || isNamed(t, "sync", "RWMutex") || isNamed(t, "sync", "WaitGroup") || isNamed(t, "sync", "Once") {
			return true
		}
		st, ok := t.Underlying().(*types.Struct)
		if !ok {
			return false
		}
		for i := 0; i < st.NumFields(); i++ {
			if holdsLock(st.Field(i).Type(), d+1) {
				return true
			}
		}
		return false
	}
	n, bad := 0, 0
	for _, f := range p.AllFuncs {
		if f.Pkg == nil || f.Synthetic != "" || !strings.HasPrefix(f.Pkg.Pkg.Path(), modPath) {
			continue
		}
		sig := f.Signature
		var vars []*types.Var
		if sig.Recv() != nil {
			vars = append(vars, sig.Recv())
		}
		for i := 0; i < sig.Params().Len(); i++ {
			vars = append(vars, sig.Params().At(i))
		}
		for _, v := range vars {
			if _, isPtr := v.Type().Underlying().(*types.Pointer); isPtr {
				continue
			}
			if _, isStruct := v.Type().Underlying().(*types.Struct); !isStruct {
				continue
			}
			n++
			if holdsLock(v.Type(), 0) {
				bad++
				what := "parameter " + v.Name()
				if v == sig.Recv() {
					what = "receiver"
				}
				res.bad(rule, fmt.Sprintf("%s: %s is a struct with a lock, by value", funcName(f), what), p.pos(f.Pos()), "the function works on a copy of a struct that contains a sync.Mutex (RWMutex, WaitGroup, Once): the lock it takes is the copy's own and excludes nobody, while pointers inside the copy (a list, a map) still refer to the shared data - concurrent callers corrupt it")
			}
		}
	}
	if bad == 0 {
		res.ok(rule, "by-value struct receivers and parameters", "-", fmt.Sprintf("%d examined, none contains a lock", n))
	}
}
