package main

import (
	"encoding/json"
	"fmt"
	"os"
	"path/filepath"
	"sort"
	"strings"
	"time"
)

type Status string

const (
	Discharged Status = "discharged"
	Violated   Status = "violated"
	Undecided  Status = "undecided"
)

// Obligation is one evaluated rule instance, keyed by Rule + Construct (never by line).
type Obligation struct {
	Rule      string `json:"rule"`
	Construct string `json:"construct"`
	Status    Status `json:"status"`
	Pos       string `json:"pos,omitempty"`
	Detail    string `json:"detail,omitempty"`
}

func (o Obligation) key() string { return o.Rule + " | " + o.Construct }

// Result accumulates the outcome of the rules of one property.
type Result struct {
	Prop        string
	Obls        []Obligation
	Rules       map[string]string // rule id -> one-line statement
	MinCount    map[string]int    // rule id -> vacuity floor: half the number of instances confirmed by hand (at least 1)
	Confirmed   map[string]int    // rule id -> number of instances confirmed by hand on the pinned tree
	Controls    []string          // positive/negative control outcomes
	Assumptions []string
	Explanation string
	NotDecided  string
	Stats       map[string]interface{}
}

func newResult(prop string) *Result {
	return &Result{Prop: prop, Rules: map[string]string{}, MinCount: map[string]int{}, Confirmed: map[string]int{}, Stats: map[string]interface{}{}}
}

func (r *Result) rule(id, text string, min int) {
	r.Rules[id] = text
	// The floor is half the hand-confirmed count: a rule that loses most of its instances has lost its role
	// resolution (vacuous pass), while a legitimate change that merges a few sites into a helper must not be
	// reported as breakage.
	r.Confirmed[id] = min
	if min > 1 {
		min = (min + 1) / 2
	}
	r.MinCount[id] = min
}

func (r *Result) add(rule, construct string, st Status, pos, detail string) {
	r.Obls = append(r.Obls, Obligation{Rule: rule, Construct: construct, Status: st, Pos: pos, Detail: detail})
}

func (r *Result) ok(rule, construct, pos, detail string) {
	r.add(rule, construct, Discharged, pos, detail)
}
func (r *Result) bad(rule, construct, pos, detail string) {
	r.add(rule, construct, Violated, pos, detail)
}
func (r *Result) und(rule, construct, pos, detail string) {
	r.add(rule, construct, Undecided, pos, detail)
}

// ---- known findings ----

type KnownFinding struct {
	Property  string `json:"property"`
	Rule      string `json:"rule"`
	Construct string `json:"construct"`
	What      string `json:"what"`
}

type KnownFile struct {
	Findings []KnownFinding `json:"findings"`
	Fixed    []string       `json:"fixed"`
}

func loadKnown(path string) KnownFile {
	var k KnownFile
	b, err := os.ReadFile(path)
	if err != nil {
		return k
	}
	if err := json.Unmarshal(b, &k); err != nil {
		brokenf("known findings file %s: %v", path, err)
	}
	return k
}

// ---- evidence ----

type evidence struct {
	PropertyID  string                 `json:"property_id"`
	Tier        string                 `json:"tier"`
	Seed        int                    `json:"seed"`
	Level       string                 `json:"level"`
	Coverage    map[string]interface{} `json:"coverage"`
	Assumptions []string               `json:"assumptions"`
	WallS       float64                `json:"wall_s"`
	Violations  int                    `json:"violations"`
}

// finish prints the verdict, writes evidence and returns the exit code.
func finish(r *Result, tier string, seed int, p *Prog, verifDir string, start time.Time, extra map[string]interface{}) int {
	known := loadKnown(filepath.Join(verifDir, "known_findings.json"))
	sort.SliceStable(r.Obls, func(i, j int) bool { return r.Obls[i].key() < r.Obls[j].key() })
	// de-duplicate by key (same construct reported from two configurations)
	var obls []Obligation
	seen := map[string]int{}
	for _, o := range r.Obls {
		if idx, ok := seen[o.key()]; ok {
			// keep the worst status
			if rank(o.Status) > rank(obls[idx].Status) {
				obls[idx] = o
			}
			continue
		}
		seen[o.key()] = len(obls)
		obls = append(obls, o)
	}
	r.Obls = obls

	perRule := map[string]int{}
	var viol, und, knownHit []Obligation
	for _, o := range r.Obls {
		perRule[o.Rule]++
		switch o.Status {
		case Violated:
			isKnown := false
			for _, k := range known.Findings {
				if k.Property == r.Prop && k.Rule == o.Rule && k.Construct == o.Construct {
					isKnown = true
				}
			}
			if isKnown {
				knownHit = append(knownHit, o)
			} else {
				viol = append(viol, o)
			}
		case Undecided:
			und = append(und, o)
		}
	}
	var broken []string
	var ruleIDs []string
	for id := range r.Rules {
		ruleIDs = append(ruleIDs, id)
	}
	sort.Strings(ruleIDs)
	for _, id := range ruleIDs {
		if perRule[id] < r.MinCount[id] {
			broken = append(broken, fmt.Sprintf("rule %s matched %d instances, below the vacuity floor %d (%d confirmed by hand on the pinned tree)", id, perRule[id], r.MinCount[id], r.Confirmed[id]))
		}
	}
	for _, o := range und {
		broken = append(broken, fmt.Sprintf("undecided: %s at %s: %s", o.key(), o.Pos, o.Detail))
	}

	// report
	fmt.Printf("property %s tier=%s: %d obligations over %d rules; %d violated, %d known findings, %d undecided\n",
		r.Prop, tier, len(r.Obls), len(r.Rules), len(viol), len(knownHit), len(und))
	for _, id := range ruleIDs {
		fmt.Printf("  rule %s (%d instances, min %d): %s\n", id, perRule[id], r.MinCount[id], r.Rules[id])
	}
	for _, c := range r.Controls {
		fmt.Printf("  control: %s\n", c)
	}
	for _, o := range knownHit {
		fmt.Printf("KNOWN-FINDING: property=%s rule=%s construct=%q at %s: %s\n", r.Prop, o.Rule, o.Construct, o.Pos, o.Detail)
	}
	exit := 0
	replay := filepath.Join(verifDir, "evidence", r.Prop+".violation.txt")
	os.MkdirAll(filepath.Join(verifDir, "evidence"), 0o755)
	os.Remove(replay)
	if len(viol) > 0 {
		var sb strings.Builder
		for _, o := range viol {
			fmt.Fprintf(&sb, "property=%s rule=%s\n  rule text: %s\n  construct: %s\n  at: %s\n  detail: %s\n\n", r.Prop, o.Rule, r.Rules[o.Rule], o.Construct, o.Pos, o.Detail)
			fmt.Printf("violated: rule=%s construct=%q at %s: %s\n", o.Rule, o.Construct, o.Pos, o.Detail)
		}
		os.WriteFile(replay, []byte(sb.String()), 0o644)
		fmt.Printf("VIOLATION property=%s replay=%s\n", r.Prop, replay)
		exit = 1
	}
	if len(broken) > 0 {
		for _, b := range broken {
			fmt.Printf("BROKEN property=%s %s\n", r.Prop, b)
		}
		if exit == 0 {
			exit = 2
		}
	}

	// evidence
	distinct := map[string]bool{}
	var samples []interface{}
	for _, o := range r.Obls {
		distinct[o.Rule+"|"+o.Construct] = true
	}
	perRuleSample := map[string]int{}
	for _, o := range r.Obls {
		if perRuleSample[o.Rule] < 2 {
			perRuleSample[o.Rule]++
			samples = append(samples, o)
		}
	}
	ruleList := []map[string]interface{}{}
	for _, id := range ruleIDs {
		ruleList = append(ruleList, map[string]interface{}{"id": id, "text": r.Rules[id], "instances": perRule[id], "min_instances": r.MinCount[id], "confirmed_by_hand": r.Confirmed[id]})
	}
	discharged := 0
	for _, o := range r.Obls {
		if o.Status == Discharged {
			discharged++
		}
	}
	cov := map[string]interface{}{
		"explanation":         r.Explanation + " NOT DECIDED by this check: " + r.NotDecided,
		"evaluations":         len(r.Obls),
		"distinct_nontrivial": len(distinct),
		"rule":                "one obligation per (rule, construct) found by resolving the rule's role slots on the type-checked SSA of /repo's working tree; an obligation is non-trivial when the construct was positively identified and the rule's premise applies to it; distinct = distinct (rule, construct) keys",
		"samples":             samples,
		"obligations":         len(r.Obls),
		"discharged":          discharged,
		"violated_unlisted":   len(viol),
		"known_findings_hit":  len(knownHit),
		"undecided":           len(und),
		"rules":               ruleList,
		"controls":            r.Controls,
		"all_obligations":     r.Obls,
		"exhaustive":          true,
	}
	if p != nil {
		cov["packages_analysed"] = len(p.Pkgs)
		cov["functions_analysed"] = len(p.AllFuncs)
		cov["whole_program"] = p.Whole
		cov["load_seconds"] = p.LoadSecs
	}
	for k, v := range r.Stats {
		cov[k] = v
	}
	for k, v := range extra {
		cov[k] = v
	}
	ev := evidence{PropertyID: r.Prop, Tier: tier, Seed: seed, Level: "other", Coverage: cov,
		Assumptions: r.Assumptions, WallS: time.Since(start).Seconds(), Violations: len(viol)}
	if ev.Assumptions == nil {
		ev.Assumptions = []string{}
	}
	b, _ := json.MarshalIndent(ev, "", " ")
	if err := os.WriteFile(filepath.Join(verifDir, "evidence", r.Prop+".json"), b, 0o644); err != nil {
		fmt.Printf("BROKEN property=%s cannot write evidence: %v\n", r.Prop, err)
		if exit == 0 {
			exit = 2
		}
	}
	return exit
}

func rank(s Status) int {
	switch s {
	case Violated:
		return 2
	case Undecided:
		return 1
	}
	return 0
}
