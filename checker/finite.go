package main

import (
	"fmt"
	"go/constant"
	"go/token"
	"go/types"
	"sort"
	"strings"

	"golang.org/x/tools/go/ssa"
)

// Finite evaluation of a bound test. The function that compares the key under an adapter's iterator with the end of
// the range touches the two keys only through bytes.Compare, whose result is one of three values, and otherwise
// depends on boolean fields of the iterator (the direction). Its answer is therefore a function of a handful of
// symbols, and that function can be tabulated from the SSA without running anything: every path through the function
// is walked with the comparison's result and the flags fixed to one combination, conditions that evaluate under the
// combination are followed, conditions that do not are followed both ways.

type fv struct {
	known  bool
	isBool bool
	b      bool
	n      int64
}

type boundOutcome int

const (
	outUnknown boundOutcome = iota
	outIn
	outOut
)

type finiteEnv struct {
	sign  int64               // value of the comparison key ? end
	cmps  map[*ssa.Call]int64 // comparison calls of the function -> +1 (key, end) / -1 (end, key)
	flags map[*types.Var]bool // boolean receiver fields
	pred  map[*ssa.BasicBlock]*ssa.BasicBlock
	depth int
}

func (e *finiteEnv) eval(v ssa.Value) fv {
	e.depth++
	defer func() { e.depth-- }()
	if e.depth > 40 {
		return fv{}
	}
	switch x := v.(type) {
	case *ssa.Const:
		if x.Value == nil {
			return fv{}
		}
		switch x.Value.Kind() {
		case constant.Bool:
			return fv{known: true, isBool: true, b: constant.BoolVal(x.Value)}
		case constant.Int:
			if n, ok := constant.Int64Val(x.Value); ok {
				return fv{known: true, n: n}
			}
		}
	case *ssa.Call:
		if o, ok := e.cmps[x]; ok {
			return fv{known: true, n: e.sign * o}
		}
	case *ssa.UnOp:
		switch x.Op {
		case token.NOT:
			if a := e.eval(x.X); a.known && a.isBool {
				return fv{known: true, isBool: true, b: !a.b}
			}
		case token.MUL:
			if fa, ok := x.X.(*ssa.FieldAddr); ok {
				if b, ok := e.flags[fieldOf(fa)]; ok {
					return fv{known: true, isBool: true, b: b}
				}
			}
		case token.SUB:
			if a := e.eval(x.X); a.known && !a.isBool {
				return fv{known: true, n: -a.n}
			}
		}
	case *ssa.BinOp:
		a, b := e.eval(x.X), e.eval(x.Y)
		if !a.known || !b.known || a.isBool != b.isBool {
			return fv{}
		}
		if a.isBool {
			switch x.Op {
			case token.EQL:
				return fv{known: true, isBool: true, b: a.b == b.b}
			case token.NEQ:
				return fv{known: true, isBool: true, b: a.b != b.b}
			case token.AND:
				return fv{known: true, isBool: true, b: a.b && b.b}
			case token.OR:
				return fv{known: true, isBool: true, b: a.b || b.b}
			}
			return fv{}
		}
		r := false
		switch x.Op {
		case token.EQL:
			r = a.n == b.n
		case token.NEQ:
			r = a.n != b.n
		case token.LSS:
			r = a.n < b.n
		case token.LEQ:
			r = a.n <= b.n
		case token.GTR:
			r = a.n > b.n
		case token.GEQ:
			r = a.n >= b.n
		case token.MUL:
			return fv{known: true, n: a.n * b.n}
		default:
			return fv{}
		}
		return fv{known: true, isBool: true, b: r}
	case *ssa.Phi:
		if pr, ok := e.pred[x.Block()]; ok {
			for i, q := range x.Block().Preds {
				if q == pr {
					return e.eval(x.Edges[i])
				}
			}
		}
	}
	return fv{}
}

type boundReturn struct {
	ret *ssa.Return
	out boundOutcome
}

// tabulate: the returns of f reachable after a comparison was made, under one combination of the symbols.
func tabulateBound(f *ssa.Function, cmps map[*ssa.Call]int64, flags map[*types.Var]bool, sign int64) []boundReturn {
	var out []boundReturn
	env := &finiteEnv{sign: sign, cmps: cmps, flags: flags, pred: map[*ssa.BasicBlock]*ssa.BasicBlock{}}
	onPath := map[*ssa.BasicBlock]bool{}
	var walk func(b *ssa.BasicBlock, compared bool)
	walk = func(b *ssa.BasicBlock, compared bool) {
		if onPath[b] || len(out) > 64 {
			return
		}
		onPath[b] = true
		defer func() { onPath[b] = false }()
		for _, ins := range b.Instrs {
			if c, ok := ins.(*ssa.Call); ok {
				if _, is := cmps[c]; is {
					compared = true
				}
			}
		}
		switch t := b.Instrs[len(b.Instrs)-1].(type) {
		case *ssa.Return:
			if !compared || len(t.Results) == 0 {
				return
			}
			last := t.Results[len(t.Results)-1]
			o := outUnknown
			if types.Identical(last.Type(), types.Universe.Lookup("error").Type()) {
				rv := resolve(last)
				if isNilConst(rv) {
					o = outIn
				} else if definitelyNonNilError(rv) {
					o = outOut
				} else if ld, ok := rv.(*ssa.UnOp); ok && ld.Op == token.MUL {
					if _, isG := ld.X.(*ssa.Global); isG {
						o = outOut // a package-level error value (io.EOF)
					}
				}
			} else if v := env.eval(last); v.known && v.isBool {
				if v.b {
					o = outIn
				} else {
					o = outOut
				}
			}
			out = append(out, boundReturn{t, o})
		case *ssa.If:
			c := env.eval(t.Cond)
			for si, s := range b.Succs {
				if c.known && c.isBool && c.b != (si == 0) {
					continue
				}
				old, had := env.pred[s]
				env.pred[s] = b
				walk(s, compared)
				if had {
					env.pred[s] = old
				} else {
					delete(env.pred, s)
				}
			}
		default:
			for _, s := range b.Succs {
				old, had := env.pred[s]
				env.pred[s] = b
				walk(s, compared)
				if had {
					env.pred[s] = old
				} else {
					delete(env.pred, s)
				}
			}
		}
	}
	if len(f.Blocks) > 0 {
		walk(f.Blocks[0], false)
	}
	return out
}

// checkIteratorBoundTest (C11-R16)
func checkIteratorBoundTest(p *Prog, res *Result, rule string) {
	for _, ap := range adapterPkgs {
		short := ap[strings.LastIndex(ap, "/")+1:]
		sp := p.ssaPkg(ap)
		var fns []*ssa.Function
		for _, f := range p.AllFuncs {
			if f.Pkg == sp && f.Signature.Recv() != nil && f.Blocks != nil {
				fns = append(fns, f)
			}
		}
		sort.Slice(fns, func(i, j int) bool { return fns[i].Pos() < fns[j].Pos() })
		found := 0
		for _, f := range fns {
			recv := f.Params[0]
			if !isIteratorType(recv.Type()) {
				continue
			}
			isRecvField := func(v ssa.Value) *types.Var {
				if ld, ok := resolve(v).(*ssa.UnOp); ok && ld.Op == token.MUL {
					if fa, ok := ld.X.(*ssa.FieldAddr); ok && resolve(fa.X) == ssa.Value(recv) {
						return fieldOf(fa)
					}
				}
				return nil
			}
			cmps := map[*ssa.Call]int64{}
			var endField *types.Var
			otherKey := ""
			consistent := true
			for _, c := range callsIn(f) {
				call, ok := c.(*ssa.Call)
				if !ok {
					continue
				}
				sc := call.Common().StaticCallee()
				if sc == nil || sc.Pkg == nil || sc.Pkg.Pkg.Path() != "bytes" || sc.Name() != "Compare" {
					continue
				}
				a0, a1 := call.Common().Args[0], call.Common().Args[1]
				f0, f1 := isRecvField(a0), isRecvField(a1)
				var fld *types.Var
				var other ssa.Value
				orient := int64(1)
				switch {
				case f0 == nil && f1 != nil:
					fld, other = f1, a0
				case f0 != nil && f1 == nil:
					fld, other, orient = f0, a1, -1
				default:
					continue // both or neither are fields of the iterator: not a test of the key under the iterator
				}
				k := accessPath(other)
				if endField == nil {
					endField, otherKey = fld, k
				} else if endField != fld || otherKey != k {
					consistent = false
				}
				cmps[call] = orient
			}
			if len(cmps) == 0 {
				continue
			}
			found++
			construct := fmt.Sprintf("%s: %s", short, funcName(f))
			if !consistent {
				res.und(rule, construct, p.pos(f.Pos()), "the function compares several different pairs of keys: its bound test is not tabulated")
				continue
			}
			// the boolean fields of the iterator the function reads
			var flagVars []*types.Var
			seen := map[*types.Var]bool{}
			for _, b := range f.Blocks {
				for _, ins := range b.Instrs {
					if fa, ok := ins.(*ssa.FieldAddr); ok && resolve(fa.X) == ssa.Value(recv) {
						fv := fieldOf(fa)
						if bt, ok := fv.Type().Underlying().(*types.Basic); ok && bt.Kind() == types.Bool && !seen[fv] {
							seen[fv] = true
							flagVars = append(flagVars, fv)
						}
					}
				}
			}
			if len(flagVars) > 4 {
				res.und(rule, construct, p.pos(f.Pos()), "too many flags")
				continue
			}
			// polarity of a boolean test: does true mean "in range" (the default) or "beyond the end"? Decided where the
			// result is used: a caller that returns a non-nil error (io.EOF) under result == true takes true for "beyond"
			trueMeansOut := false
			if bt, ok := f.Signature.Results().At(f.Signature.Results().Len() - 1).Type().Underlying().(*types.Basic); ok && bt.Kind() == types.Bool {
				p.buildCallersLite()
				for _, cs := range p.staticCallers[f] {
					call, ok := cs.(*ssa.Call)
					if !ok {
						continue
					}
					g := call.Parent()
					for _, gb := range g.Blocks {
						ret, ok := gb.Instrs[len(gb.Instrs)-1].(*ssa.Return)
						if !ok || len(ret.Results) == 0 {
							continue
						}
						last := resolve(ret.Results[len(ret.Results)-1])
						isErr := false
						if ld, ok := last.(*ssa.UnOp); ok && ld.Op == token.MUL {
							if _, isG := ld.X.(*ssa.Global); isG {
								isErr = true
							}
						}
						if definitelyNonNilError(last) {
							isErr = true
						}
						if !isErr {
							continue
						}
						for _, cf := range dominatingFacts(gb) {
							if cf.Call == call && cf.Want {
								trueMeansOut = true
							}
						}
					}
				}
			}
			flip := func(o boundOutcome) boundOutcome {
				if !trueMeansOut {
					return o
				}
				switch o {
				case outIn:
					return outOut
				case outOut:
					return outIn
				}
				return o
			}
			for m := 0; m < 1<<len(flagVars); m++ {
				flags := map[*types.Var]bool{}
				var desc []string
				for i, fv := range flagVars {
					flags[fv] = m&(1<<i) != 0
					desc = append(desc, fmt.Sprintf("%s=%v", fv.Name(), flags[fv]))
				}
				sub := construct + " [" + strings.Join(desc, ",") + "]"
				classify := func(sign int64) (boundOutcome, *ssa.Return, bool) {
					rs := tabulateBound(f, cmps, flags, sign)
					o := outUnknown
					var at *ssa.Return
					for _, r := range rs {
						r.out = flip(r.out)
						if r.out == outUnknown {
							return outUnknown, r.ret, false
						}
						if o != outUnknown && o != r.out {
							return outUnknown, r.ret, false
						}
						o, at = r.out, r.ret
					}
					return o, at, len(rs) > 0
				}
				eq, eqAt, okE := classify(0)
				lt, ltAt, okL := classify(-1)
				gt, _, okG := classify(1)
				switch {
				case !okE && eqAt != nil && (func() bool {
					// a return that admits the key although it equals the bound is a violation even if other returns differ
					for _, r := range tabulateBound(f, cmps, flags, 0) {
						if flip(r.out) == outIn {
							eqAt = r.ret
							return true
						}
					}
					return false
				})():
					res.bad(rule, sub, p.pos(eqAt.Pos()), "the iterator admits a key that equals the end of the range: the end bound is exclusive in the engine contract, so a scan (backwards: the seek for the newest version at or below a key) returns one record too many")
				case !okE || !okL || !okG:
					at := f.Pos()
					if eqAt != nil {
						at = eqAt.Pos()
					} else if ltAt != nil {
						at = ltAt.Pos()
					}
					res.und(rule, sub, p.pos(at), "the answer of the bound test is not a function of the comparison and the iterator's flags alone")
				case eq == outIn:
					res.bad(rule, sub, p.pos(eqAt.Pos()), "the iterator admits a key that equals the end of the range: the end bound is exclusive in the engine contract, so a scan (backwards: the seek for the newest version at or below a key) returns one record too many")
				case lt == gt:
					res.bad(rule, sub, p.pos(ltAt.Pos()), "the bound test gives the same answer on both sides of the end key: the iteration never stops at the bound (or never starts)")
				default:
					res.ok(rule, sub, p.pos(f.Pos()), "key == end is out of range, exactly one side of the end is in range")
				}
			}
		}
		if found == 0 {
			res.und(rule, short+": bound test", "-", "no method of an iterator type compares a key with a bound held by the iterator")
		}
	}
}

// isIteratorType: a (pointer to a) named type with methods Next and Key.
func isIteratorType(t types.Type) bool {
	ms := types.NewMethodSet(t)
	has := func(n string) bool {
		for i := 0; i < ms.Len(); i++ {
			if ms.At(i).Obj().Name() == n {
				return true
			}
		}
		return false
	}
	return has("Next") && has("Key") && has("Val")
}

// checkBackwardSeekKey (C11-R17): TiKV's IterReverse(k) yields the keys below k, so the record AT the start of a
// backward iteration is only seen if k is the immediate successor of start - start followed by one zero byte. Any
// other successor (the prefix-next key, start with its last byte incremented) also admits every key that has start as
// a prefix: a backward seek for the newest version of a key would begin in the versions of longer keys.
func checkBackwardSeekKey(p *Prog, r *Roles, res *Result, rule string) {
	f := p.implIn(r.KVIter, "pkg/storage/tikv")
	if f == nil {
		res.und(rule, "tikv.Iter", "-", "not found")
		return
	}
	var startP *ssa.Parameter
	for _, prm := range f.Params {
		if prm.Name() == "start" {
			startP = prm
		}
	}
	if startP == nil && len(f.Params) >= 3 {
		startP = f.Params[2]
	}
	var isStartD func(v ssa.Value, d int) bool
	isStartD = func(v ssa.Value, d int) bool {
		if startP == nil || d > 3 {
			return false
		}
		rv := p.resolveDeep(v)
		if rv == ssa.Value(startP) {
			return true
		}
		// the parameter of a helper of the adapter that is handed start by every caller
		if q, ok := rv.(*ssa.Parameter); ok && q.Parent() != f {
			acts := p.paramActuals(q)
			if len(acts) == 0 {
				return false
			}
			for _, a := range acts {
				if !isStartD(a, d+1) {
					return false
				}
			}
			return true
		}
		return false
	}
	isStart := func(v ssa.Value) bool { return isStartD(v, 0) }
	isLenStart := func(v ssa.Value) bool {
		c, ok := resolve(v).(*ssa.Call)
		if !ok {
			return false
		}
		b, ok := c.Common().Value.(*ssa.Builtin)
		return ok && b.Name() == "len" && isStart(c.Common().Args[0])
	}
	// a slice of one constant zero byte (the variadic operand of append(x, 0), or []byte{0})
	isOneZero := func(v ssa.Value) bool {
		sl, ok := resolve(v).(*ssa.Slice)
		if !ok {
			if k, ok := resolve(v).(*ssa.Const); ok && k.Value != nil && k.Value.Kind() == constant.String {
				return constant.StringVal(k.Value) == "\x00"
			}
			return false
		}
		al, ok := sl.X.(*ssa.Alloc)
		if !ok {
			return false
		}
		at, ok := al.Type().Underlying().(*types.Pointer).Elem().Underlying().(*types.Array)
		if !ok || at.Len() != 1 {
			return false
		}
		stores := 0
		for _, ref := range *al.Referrers() {
			ia, ok := ref.(*ssa.IndexAddr)
			if !ok {
				continue
			}
			for _, r2 := range *ia.Referrers() {
				if st, ok := r2.(*ssa.Store); ok {
					stores++
					if !isZeroConst(st.Val) {
						return false
					}
				}
			}
		}
		return stores <= 1 // no store at all: the zero value
	}
	// a copy of start: start itself, append(empty, start...), or a slice conversion of it
	var isStartCopy func(v ssa.Value, d int) bool
	isStartCopy = func(v ssa.Value, d int) bool {
		if isStart(v) {
			return true
		}
		if d > 3 {
			return false
		}
		if c, ok := resolve(v).(*ssa.Call); ok {
			if b, ok := c.Common().Value.(*ssa.Builtin); ok && b.Name() == "append" && len(c.Common().Args) == 2 {
				base := resolve(c.Common().Args[0])
				empty := false
				switch x := base.(type) {
				case *ssa.Const:
					empty = x.Value == nil
				case *ssa.MakeSlice:
					n, ok := constInt(x.Len)
					empty = ok && n == 0
				case *ssa.Slice:
					// []byte{}[:0] and friends are not followed
				}
				return empty && isStartCopy(c.Common().Args[1], d+1)
			}
		}
		return false
	}
	isSuccessor := func(v ssa.Value) (string, bool) {
		v = p.resolveDeep(v)
		if c, ok := v.(*ssa.Call); ok {
			if b, ok := c.Common().Value.(*ssa.Builtin); ok && b.Name() == "append" && len(c.Common().Args) == 2 {
				if isStartCopy(c.Common().Args[0], 0) && isOneZero(c.Common().Args[1]) {
					return "start followed by one zero byte", true
				}
				return "the seek key of the backward iteration is appended from something else than start and one zero byte", false
			}
			return "the seek key of the backward iteration is computed by " + callName(c) + ", not start followed by one zero byte: any other successor of start (the prefix-next key) also lies above every longer key that begins with start, and the backward iteration starts inside those", false
		}
		if mk, ok := v.(*ssa.MakeSlice); ok {
			// make([]byte, len(start)+1) filled by copy(next, start): the last byte keeps its zero value
			if bo, ok := resolve(mk.Len).(*ssa.BinOp); ok && bo.Op == token.ADD {
				k, isK := constInt(bo.Y)
				x := bo.X
				if !isK {
					k, isK = constInt(bo.X)
					x = bo.Y
				}
				if isK && k == 1 && isLenStart(x) {
					copied, other := false, false
					for _, ref := range *mk.Referrers() {
						switch u := ref.(type) {
						case *ssa.Call:
							if b, ok := u.Common().Value.(*ssa.Builtin); ok && b.Name() == "copy" && resolve(u.Common().Args[0]) == ssa.Value(mk) && isStart(u.Common().Args[1]) {
								copied = true
								continue
							}
							if u.Common().IsInvoke() || u.Common().StaticCallee() != nil {
								continue // handed on (to IterReverse)
							}
							other = true
						case *ssa.IndexAddr, *ssa.Slice:
							other = true
						}
					}
					if copied && !other {
						return "a buffer one byte longer than start, filled with start", true
					}
				}
			}
		}
		return "the seek key of the backward iteration is not recognised as start followed by one zero byte", false
	}
	n := 0
	var scope []ssa.CallInstruction
	for _, g := range p.AllFuncs {
		if g.Pkg == f.Pkg && g.Blocks != nil {
			scope = append(scope, callsIn(g)...)
		}
	}
	for _, c := range scope {
		if !c.Common().IsInvoke() && c.Common().StaticCallee() == nil {
			continue
		}
		name := ""
		if c.Common().IsInvoke() {
			name = c.Common().Method.Name()
		} else {
			name = c.Common().StaticCallee().Name()
		}
		if name != "IterReverse" {
			continue
		}
		args := c.Common().Args
		if len(args) == 0 {
			continue
		}
		n++
		construct := fmt.Sprintf("tikv: seek key of IterReverse #%d", n)
		if why, ok := isSuccessor(args[len(args)-1]); ok {
			res.ok(rule, construct, p.pos(c.Pos()), why)
		} else {
			res.bad(rule, construct, p.pos(c.Pos()), why)
		}
	}
	if n == 0 {
		res.und(rule, "tikv: IterReverse", p.pos(f.Pos()), "no call of IterReverse found in the adapter")
	}
}

func callName(c *ssa.Call) string {
	if sc := c.Common().StaticCallee(); sc != nil {
		return funcName(sc)
	}
	if c.Common().IsInvoke() {
		return c.Common().Method.Name()
	}
	return "a call"
}
