package main

import (
	"fmt"
	"go/token"
	"go/types"
	"strings"

	"golang.org/x/tools/go/ssa"
)

// reusableBufferOf: the byte slice v may share its backing array with a buffer that outlives the call and is
// overwritten later: the Bytes() of a bytes.Buffer that is a field of a long-lived object (or a package variable),
// reached through re-slicing, through helpers of the repository (their results), and through library functions that
// return a window of their argument (bytes.TrimSpace and friends - any call from []byte to []byte that is not a known
// copier). Copies (append onto nil or a fresh slice, bytes.Clone, string conversions, marshalers) end the walk.
func (p *Prog) reusableBufferOf(v ssa.Value) (ssa.Instruction, bool) {
	isBytes := func(t types.Type) bool {
		s, ok := t.Underlying().(*types.Slice)
		if !ok {
			return false
		}
		b, ok := s.Elem().Underlying().(*types.Basic)
		return ok && b.Kind() == types.Uint8
	}
	seen := map[ssa.Value]bool{}
	var rec func(v ssa.Value, d int) (ssa.Instruction, bool)
	rec = func(v ssa.Value, d int) (ssa.Instruction, bool) {
		if v == nil || d > 12 {
			return nil, false
		}
		for _, x := range allCellValuesOpt(p, v, false) {
			x = p.resolveDeep(x)
			if seen[x] {
				continue
			}
			seen[x] = true
			switch y := x.(type) {
			case *ssa.Slice:
				if ins, ok := rec(y.X, d+1); ok {
					return ins, true
				}
			case *ssa.Extract:
				if c, ok := y.Tuple.(*ssa.Call); ok {
					if sc := c.Common().StaticCallee(); sc != nil && sc.Blocks != nil && sc.Pkg != nil && strings.HasPrefix(sc.Pkg.Pkg.Path(), modPath) {
						for _, b := range sc.Blocks {
							if ret, ok := b.Instrs[len(b.Instrs)-1].(*ssa.Return); ok && y.Index < len(ret.Results) {
								if ins, ok := rec(ret.Results[y.Index], d+1); ok {
									return ins, true
								}
							}
						}
					}
				}
			case *ssa.Call:
				cc := y.Common()
				if bi, ok := cc.Value.(*ssa.Builtin); ok {
					// append(base, ..) keeps base's array when it has room
					if bi.Name() == "append" && len(cc.Args) > 0 {
						if ins, ok := rec(cc.Args[0], d+1); ok {
							return ins, true
						}
					}
					continue
				}
				sc := cc.StaticCallee()
				if sc == nil {
					continue
				}
				// bytes.Buffer.Bytes() of a buffer that is not a local of the calling function
				if sc.Name() == "Bytes" && sc.Signature.Recv() != nil && isNamed(sc.Signature.Recv().Type(), "bytes", "Buffer") {
					if !isFreshObject(cc.Args[0]) {
						return y, true
					}
					continue
				}
				if sc.Blocks != nil && sc.Pkg != nil && strings.HasPrefix(sc.Pkg.Pkg.Path(), modPath) {
					// the result of a repo helper: whatever it returns
					if sc.Signature.Results().Len() == 1 {
						for _, b := range sc.Blocks {
							if ret, ok := b.Instrs[len(b.Instrs)-1].(*ssa.Return); ok {
								if ins, ok := rec(ret.Results[0], d+1); ok {
									return ins, true
								}
							}
						}
					}
					continue
				}
				// a library function from bytes to bytes may return a window of its argument
				if sc.Pkg != nil && sc.Pkg.Pkg.Path() == "bytes" && sc.Name() != "Clone" && sc.Name() != "Join" && sc.Name() != "Repeat" && isBytes(y.Type()) {
					for _, a := range cc.Args {
						if isBytes(a.Type()) {
							if ins, ok := rec(a, d+1); ok {
								return ins, true
							}
						}
					}
				}
			case *ssa.Parameter:
				acts := p.paramActuals(y)
				if len(acts) == 0 || len(acts) > 8 {
					continue
				}
				for _, a := range acts {
					if ins, ok := rec(a, d+1); ok {
						return ins, true
					}
				}
			case *ssa.UnOp:
				// a slice kept in a field that is emptied by re-slicing (f = f[:0]) is a reusable buffer, too
				if y.Op != token.MUL {
					continue
				}
				fa, ok := y.X.(*ssa.FieldAddr)
				if !ok || !isBytes(y.Type()) {
					continue
				}
				for _, st := range p.fields().stores[fieldOf(fa)] {
					if sl, ok := resolve(st.Val).(*ssa.Slice); ok {
						if ld, ok := resolve(sl.X).(*ssa.UnOp); ok && ld.Op == token.MUL {
							if fa2, ok := ld.X.(*ssa.FieldAddr); ok && fieldOf(fa2) == fieldOf(fa) {
								return st, true
							}
						}
					}
				}
			}
		}
		return nil, false
	}
	return rec(v, 0)
}

// checkValueOwnership: the bytes handed to an engine write (Put / PutIfNotExist / CAS: key, value and expected
// value) become the engine's - the in-process engine stores the slice itself and hands the same slice back from Get.
// They must therefore not be a window into a buffer that the writer overwrites later.
func checkValueOwnership(p *Prog, r *Roles, res *Result, rule string, inScope func(*ssa.Function) bool) {
	n := 0
	cnt := map[*ssa.Function]int{}
	for _, f := range p.AllFuncs {
		if f.Synthetic != "" || f.Pkg == nil || !strings.HasPrefix(f.Pkg.Pkg.Path(), modPath) || !inScope(f) {
			continue
		}
		pp := f.Pkg.Pkg.Path()
		if strings.HasPrefix(pp, modPath+"/pkg/storage") {
			continue
		}
		for _, c := range callsIn(f) {
			if !c.Common().IsInvoke() {
				continue
			}
			m := c.Common().Method
			if m != r.BWPut && m != r.BWPutIfNotExist && m != r.BWCAS {
				continue
			}
			top := f
			for top.Parent() != nil {
				top = top.Parent()
			}
			cnt[top]++
			n++
			construct := fmt.Sprintf("%s: bytes handed to %s #%d are not a reusable buffer", funcName(top), m.Name(), cnt[top])
			var where ssa.Instruction
			for _, a := range c.Common().Args {
				if ins, ok := p.reusableBufferOf(a); ok {
					where = ins
				}
			}
			if where != nil {
				res.bad(rule, construct, p.pos(c.Pos()), "a key or value handed to the engine is a window into a buffer that is reused for the next write (filled at "+p.pos(where.Pos())+"): the in-process engine keeps the slice it is given and returns it from Get, so the next write changes the stored record, and every reader's remembered copy of it, in place - a compare with those remembered bytes then compares memory with itself")
			} else {
				res.ok(rule, construct, p.pos(c.Pos()), "no path back to a long-lived bytes.Buffer or a re-sliced field buffer")
			}
		}
	}
	if n == 0 {
		res.und(rule, "engine writes", "-", "no engine write found in scope")
	}
}
