package main

import (
	"go/token"
	"go/types"
	"strings"

	"golang.org/x/tools/go/ssa"
)

// ---------- deep resolution (through closures' free variables) ----------

// resolveDeep is resolve() extended through captured variables: a load of a free variable whose binding is a cell
// of the enclosing function with exactly one store resolves to the stored value.
func (p *Prog) resolveDeep(v ssa.Value) ssa.Value {
	for i := 0; i < 32; i++ {
		v = resolve(v)
		switch x := v.(type) {
		case *ssa.UnOp:
			if x.Op != token.MUL {
				return v
			}
			fv, ok := x.X.(*ssa.FreeVar)
			if !ok {
				return v
			}
			bs := p.freeVarBindings(fv)
			if len(bs) != 1 {
				return v
			}
			nv, ok := uniqueCellValue(p, bs[0])
			if !ok {
				return v
			}
			v = nv
		case *ssa.FreeVar:
			bs := p.freeVarBindings(x)
			if len(bs) != 1 {
				return v
			}
			v = bs[0]
		default:
			return v
		}
	}
	return v
}

// uniqueCellValue: binding is an Alloc (or a free var of an outer closure) with exactly one store overall.
func uniqueCellValue(p *Prog, b ssa.Value) (ssa.Value, bool) {
	switch c := b.(type) {
	case *ssa.Alloc:
		var stores []*ssa.Store
		for _, r := range *c.Referrers() {
			if st, ok := r.(*ssa.Store); ok && st.Addr == c {
				stores = append(stores, st)
			}
		}
		// closures writing the cell make it ambiguous
		for _, r := range *c.Referrers() {
			if mc, ok := r.(*ssa.MakeClosure); ok {
				fn := mc.Fn.(*ssa.Function)
				for i, bnd := range mc.Bindings {
					if bnd == c && closureWrites(fn, fn.FreeVars[i], 0) {
						return nil, false
					}
				}
			}
		}
		if len(stores) == 1 {
			return stores[0].Val, true
		}
	case *ssa.FreeVar:
		bs := p.freeVarBindings(c)
		if len(bs) == 1 {
			return uniqueCellValue(p, bs[0])
		}
	}
	return nil, false
}

// ---------- encoding/binary helpers ----------

func isBigEndianCall(c ssa.CallInstruction, name string) bool {
	sc := c.Common().StaticCallee()
	if sc == nil || sc.Name() != name || sc.Signature.Recv() == nil {
		return false
	}
	return isNamed(sc.Signature.Recv().Type(), "encoding/binary", "bigEndian")
}

func isLittleEndianCall(c ssa.CallInstruction) bool {
	sc := c.Common().StaticCallee()
	if sc == nil || sc.Signature.Recv() == nil {
		return false
	}
	return isNamed(sc.Signature.Recv().Type(), "encoding/binary", "littleEndian")
}

// decodedUint64: if v is binary.BigEndian.Uint64(x) (x possibly sliced), return x's base value.
func decodedUint64(v ssa.Value) (ssa.Value, bool) {
	c, ok := resolve(v).(*ssa.Call)
	if !ok || !isBigEndianCall(c, "Uint64") {
		return nil, false
	}
	return sliceBase(c.Common().Args[1]), true
}

// sliceBase strips re-slicing (x[a:b]) from a byte slice value.
func sliceBase(v ssa.Value) ssa.Value {
	for i := 0; i < 8; i++ {
		v = resolve(v)
		s, ok := v.(*ssa.Slice)
		if !ok {
			return v
		}
		// a slice of a fresh array alloc is the identity of that buffer
		if _, isAlloc := s.X.(*ssa.Alloc); isAlloc {
			return v
		}
		v = s.X
	}
	return v
}

// revBytes describes a byte slice that encodes a revision: Rev is the encoded uint64 value, Flag whether a
// deletion flag byte was appended; Len is the static length (8 or 9) when known, else 0.
type revBytes struct {
	Rev  ssa.Value
	Flag bool
	Len  int
}

// revisionBytesOf recognises the repo's idioms for "8 big-endian bytes of a revision [+ flag byte]":
//
//	buf := make([]byte, 8[, 9]); binary.BigEndian.PutUint64(buf, r)
//	helper(r) where helper's body is the idiom above applied to its parameter
//	append(<revision bytes>, 0)
//	phi of the above (all edges must agree on Rev)
func (p *Prog) revisionBytesOf(v ssa.Value) (revBytes, bool) {
	return p.revisionBytesRec(v, 0)
}

func (p *Prog) revisionBytesRec(v ssa.Value, depth int) (revBytes, bool) {
	if depth > 6 {
		return revBytes{}, false
	}
	v = resolveUp(v)
	switch x := v.(type) {
	case *ssa.Slice:
		if al, ok := x.X.(*ssa.Alloc); ok {
			// find PutUint64(<slice of al>, r) in the same function
			for _, c := range callsIn(x.Parent()) {
				if !isBigEndianCall(c, "PutUint64") {
					continue
				}
				if s2, ok := resolve(c.Common().Args[1]).(*ssa.Slice); ok && s2.X == ssa.Value(al) {
					n := 0
					if at, ok := al.Type().Underlying().(*types.Pointer).Elem().Underlying().(*types.Array); ok {
						n = int(at.Len())
						if hi, ok := constInt(x.High); ok {
							n = int(hi)
						}
					}
					return revBytes{Rev: c.Common().Args[2], Len: n}, true
				}
			}
			return revBytes{}, false
		}
		return p.revisionBytesRec(x.X, depth+1)
	case *ssa.Call:
		if b, ok := x.Common().Value.(*ssa.Builtin); ok && b.Name() == "append" {
			base, ok := p.revisionBytesRec(x.Common().Args[0], depth+1)
			if !ok {
				return revBytes{}, false
			}
			base.Flag = true
			if base.Len > 0 {
				base.Len++
			}
			return base, true
		}
		if rb, ok := p.revisionBytesOfHelper(x, 0, depth); ok {
			return rb, true
		}
	case *ssa.Extract:
		if c, ok := x.Tuple.(*ssa.Call); ok {
			if rb, ok := p.revisionBytesOfHelper(c, x.Index, depth); ok {
				return rb, true
			}
		}
	case *ssa.Phi:
		var out revBytes
		for i, e := range x.Edges {
			rb, ok := p.revisionBytesRec(e, depth+1)
			if !ok {
				return revBytes{}, false
			}
			if i == 0 {
				out = rb
			} else if resolve(rb.Rev) != resolve(out.Rev) {
				return revBytes{}, false
			} else if rb.Flag != out.Flag {
				out.Len = 0
				out.Flag = out.Flag || rb.Flag
			}
		}
		return out, len(x.Edges) > 0
	}
	return revBytes{}, false
}

// revisionBytesOfHelper: result #ridx of a call of a repository helper every return of which is the encoding of one and
// the same parameter (the flag byte may depend on another parameter, e.g. encode(rev, deleted)).
func (p *Prog) revisionBytesOfHelper(x *ssa.Call, ridx int, depth int) (revBytes, bool) {
	{
		if sc := x.Common().StaticCallee(); sc != nil && sc.Blocks != nil && len(sc.Params) >= 1 && sc.Signature.Results().Len() > ridx {
			okAll := len(sc.Blocks) > 0
			n, flag, pidx, nret := 0, false, -1, 0
			for _, b := range sc.Blocks {
				if ret, ok := b.Instrs[len(b.Instrs)-1].(*ssa.Return); ok {
					if ridx >= len(ret.Results) {
						okAll = false
						continue
					}
					rb, ok := p.revisionBytesRec(ret.Results[ridx], depth+1)
					if !ok {
						okAll = false
						continue
					}
					prm, isPrm := resolve(rb.Rev).(*ssa.Parameter)
					if !isPrm || prm.Parent() != sc || (pidx >= 0 && paramIndex(prm) != pidx) {
						okAll = false
						continue
					}
					pidx = paramIndex(prm)
					if nret > 0 && (rb.Len != n || rb.Flag != flag) {
						n = 0
						flag = flag || rb.Flag
					} else {
						n, flag = rb.Len, rb.Flag
					}
					nret++
				}
			}
			if okAll && pidx >= 0 && pidx < len(x.Common().Args) {
				return revBytes{Rev: x.Common().Args[pidx], Len: n, Flag: flag}, true
			}
		}
	}
	return revBytes{}, false
}

// ---------- key provenance ----------

type keyKind int

const (
	keyUnknown keyKind = iota
	keyIndex           // Coder.EncodeRevisionKey(k) or EncodeObjectKey(k, 0)
	keyVersion         // Coder.EncodeObjectKey(k, r), r not constant 0
	keyIter            // key of an engine iterator
)

type keyProv struct {
	Kind   keyKind
	RawKey ssa.Value // user key operand (for encoder kinds)
	Rev    ssa.Value // revision operand (for keyVersion)
	Call   *ssa.Call
}

// keyProvenance classifies a storage key operand by the coder call that produced it. Parameters are followed to
// the (unique) static call site's actual when the function has exactly one caller, otherwise left unknown.
func (p *Prog) keyProvenance(v ssa.Value) keyProv {
	r := p.roles()
	v = resolveUp(p.resolveDeep(v))
	switch x := v.(type) {
	case *ssa.Call:
		if r.is(x, r.EncRev) {
			return keyProv{Kind: keyIndex, RawKey: argForSigParam(x, 0), Call: x}
		}
		if r.is(x, r.EncObj) {
			rev := argForSigParam(x, 1)
			if isZeroConst(rev) {
				return keyProv{Kind: keyIndex, RawKey: argForSigParam(x, 0), Call: x}
			}
			return keyProv{Kind: keyVersion, RawKey: argForSigParam(x, 0), Rev: rev, Call: x}
		}
		if r.is(x, r.ItKey) {
			return keyProv{Kind: keyIter, Call: x}
		}
	}
	return keyProv{}
}

// paramActuals returns, for a parameter, the actual arguments at all static call sites of its function.
func (p *Prog) paramActuals(prm *ssa.Parameter) []ssa.Value {
	p.buildCallersLite()
	fn := prm.Parent()
	idx := paramIndex(prm)
	var out []ssa.Value
	for _, cs := range p.staticCallers[fn] {
		args := cs.Common().Args
		if idx < len(args) {
			out = append(out, args[idx])
		}
	}
	return out
}

// builtFieldValue: v is a freshly built struct (pointer): a literal of the current function, or the result of a local
// builder function all of whose returns are literals. It returns the value stored into `field`, expressed in the frame
// of v (builder parameters are replaced by the arguments of the call). ok=false when the field is not set or v is not
// such a value.
func (p *Prog) builtFieldValue(v ssa.Value, field *types.Var) (ssa.Value, bool) {
	v = p.resolveDeep(v)
	switch x := v.(type) {
	case *ssa.Alloc:
		var out ssa.Value
		n := 0
		for _, st := range p.fields().stores[field] {
			if fa := st.Addr.(*ssa.FieldAddr); fa.X == ssa.Value(x) {
				out = st.Val
				n++
			}
		}
		return out, n == 1
	case *ssa.Call:
		sc := x.Common().StaticCallee()
		if sc == nil || sc.Blocks == nil || sc.Signature.Results().Len() != 1 || sc.Pkg == nil || !strings.HasPrefix(sc.Pkg.Pkg.Path(), modPath) {
			return nil, false
		}
		var out ssa.Value
		for _, b := range sc.Blocks {
			ret, ok := b.Instrs[len(b.Instrs)-1].(*ssa.Return)
			if !ok || b.Comment == "recover" {
				continue
			}
			al, ok := p.resolveDeep(ret.Results[0]).(*ssa.Alloc)
			if !ok {
				return nil, false
			}
			fv, ok := p.builtFieldValue(al, field)
			if !ok {
				return nil, false
			}
			prm, ok := p.resolveDeep(fv).(*ssa.Parameter)
			if !ok || prm.Parent() != sc || paramIndex(prm) >= len(x.Common().Args) {
				return nil, false
			}
			a := x.Common().Args[paramIndex(prm)]
			if out != nil && out != a {
				return nil, false
			}
			out = a
		}
		return out, out != nil
	}
	return nil, false
}
