package main

import (
	"fmt"
	"go/token"
	"go/types"
	"strings"

	"golang.org/x/tools/go/ssa"
)

func init() { register("C09", checkC09) }

// sentinelUse lists comparisons of an error value with a storage sentinel by == / != (not errors.Is).
func sentinelEqComparisons(p *Prog, sentinel *ssa.Global) []*ssa.BinOp {
	var out []*ssa.BinOp
	for _, f := range p.AllFuncs {
		for _, b := range f.Blocks {
			for _, ins := range b.Instrs {
				bo, ok := ins.(*ssa.BinOp)
				if !ok || (bo.Op != token.EQL && bo.Op != token.NEQ) {
					continue
				}
				if globalLoad(bo.X) == sentinel || globalLoad(bo.Y) == sentinel {
					out = append(out, bo)
				}
			}
		}
	}
	return out
}

func isMinFn(f *ssa.Function) bool {
	if f == nil || f.Blocks == nil || len(f.Params) != 2 || f.Signature.Results().Len() != 1 {
		return false
	}
	a, b := f.Params[0], f.Params[1]
	n := 0
	for _, blk := range f.Blocks {
		ret, ok := blk.Instrs[len(blk.Instrs)-1].(*ssa.Return)
		if !ok {
			continue
		}
		n++
		rv := resolve(ret.Results[0])
		good := false
		for _, cf := range dominatingFacts(blk) {
			if cf.X == nil {
				continue
			}
			x, y := resolve(cf.X), resolve(cf.Y)
			ltAB := (x == ssa.Value(a) && y == ssa.Value(b) && ((cf.Op == token.LSS && cf.Want) || (cf.Op == token.GEQ && !cf.Want) || (cf.Op == token.LEQ && cf.Want) || (cf.Op == token.GTR && !cf.Want))) ||
				(x == ssa.Value(b) && y == ssa.Value(a) && ((cf.Op == token.GTR && cf.Want) || (cf.Op == token.LEQ && !cf.Want) || (cf.Op == token.GEQ && cf.Want) || (cf.Op == token.LSS && !cf.Want)))
			geAB := (x == ssa.Value(a) && y == ssa.Value(b) && ((cf.Op == token.LSS && !cf.Want) || (cf.Op == token.GEQ && cf.Want) || (cf.Op == token.GTR && cf.Want) || (cf.Op == token.LEQ && !cf.Want))) ||
				(x == ssa.Value(b) && y == ssa.Value(a) && ((cf.Op == token.GTR && !cf.Want) || (cf.Op == token.LEQ && cf.Want) || (cf.Op == token.LSS && cf.Want) || (cf.Op == token.GEQ && !cf.Want)))
			if rv == ssa.Value(a) && ltAB {
				good = true
			}
			if rv == ssa.Value(b) && geAB {
				good = true
			}
		}
		if !good {
			return false
		}
	}
	return n == 2
}

// consumedEvent returns the event value the sequencer took out of the slot array and the slot Load call.
func consumedEvent(seq *ssa.Function) (ssa.Value, ssa.CallInstruction) {
	var loadCall ssa.CallInstruction
	for _, c := range callsIn(seq) {
		sc := c.Common().StaticCallee()
		if sc != nil && sc.Name() == "Load" && sc.Signature.Recv() != nil && isNamed(sc.Signature.Recv().Type(), "sync/atomic", "Value") {
			loadCall = c
		}
	}
	if loadCall == nil {
		return nil, nil
	}
	var ev ssa.Value
	for _, ref := range *loadCall.Value().Referrers() {
		if ta, ok := ref.(*ssa.TypeAssert); ok {
			if ta.CommaOk {
				for _, rr := range *ta.Referrers() {
					if ex, ok := rr.(*ssa.Extract); ok && ex.Index == 0 {
						ev = ex
					}
				}
			} else {
				ev = ta
			}
		}
	}
	return ev, loadCall
}

func checkC09(p *Prog, res *Result, tier string) {
	r := p.roles()
	res.Explanation = "R1 in the sequencer an invalid slot whose error matches ErrUncertainResult (tested with errors.Is, because adapters return it wrapped) is appended to the repair queue before the revision is committed, and every comparison with the wrapped sentinels uses errors.Is; R2 the compaction revision handed to the scanner is clamped to the committed revision and below the oldest queued revision; R3 the repair write is a C01-shaped batch expecting the queued revision at a freshly allocated revision that is reported (C01-R2/R3, C02-R2, C04-R1), and the queue head is not popped when the repair could not even read the key; R4 the TiKV adapter classifies the error of the engine's commit call: write conflict -> ErrCASFailed, members of its uncertain list -> NewErrUncertainResult, and never wraps errors produced before the engine commit; R5 Create/Update/Delete return a response (nil error) only when the write succeeded or the error matched a definite class (ErrCASFailed, ErrKeyNotFound)."
	res.NotDecided = "convergence of store and event stream over fault sequences (in particular a second unknown outcome on the repair write itself); completeness of the adapter's list of uncertain engine errors; timing."
	res.Assumptions = []string{"errors.Is semantics; storage.errUncertainResult.Is matches ErrUncertainResult"}
	res.rule("C09-R1", "unknown-outcome slots are queued (errors.Is test) before their revision is committed; wrapped sentinels are never compared with ==", 3)
	res.rule("C09-R2", "the compaction revision is clamped to the committed revision and to MinRevision()-1 of the repair queue", 1)
	res.rule("C09-R3", "repair write shape and queue discipline", 5)
	res.rule("C09-R4", "engine-commit error classification of the TiKV adapter", 3)
	res.rule("C09-R8", "in pkg/backend the error of an engine read (Iter, Next, Get) is returned unless it was found nil or classified (io.EOF, ErrKeyNotFound): 'not found' is answered only for end-of-data", 3)
	res.rule("C09-R7", "the repair queue is a FIFO that loses nothing: push links the new entry behind the old tail and makes it the tail on every path", 2)
	res.rule("C09-R9", "no classification test (errors.Is / == storage sentinel) looks at an error value that an enclosing branch has already classified as a different, disjoint class: such a test is dead and betrays a stale error variable", 8)
	res.rule("C09-R10", "the repair queue has one consumer: the function that removes its head is reached from a single go statement that is not inside a loop (the removal does not look at what it removes)", 1)
	res.rule("C09-R11", "the repair decides that there is nothing to repair from the getter's not-found error and the revision comparison, never from the length of the value it re-read (an empty value is a value)", 1)
	res.rule("C09-R12", "the request handlers do not crash on the error path of a write (C20-R11): the repair queue is in memory and dies with the process", 2)
	res.rule("C09-R13", "every field of the configuration structs of the backend packages is read: in particular both durations of the repair queue (check interval, minimum age of an entry) are consulted", 10)
	res.rule("C09-R6", "on the write path the error of a committing call is returned as is (or wrapped) unless it was found nil or classified (errors.Is / == sentinel / conflict assertion)", 6)
	res.rule("C09-R5", "a nil error is returned to the client only after success or a definite failure class", 6)

	seq := r.Sequencer
	se, _ := sequencerEvent(p, r)
	appendM := p.ifaceMethod("pkg/backend/retry", "AsyncFifoRetry", "Append")
	uncertain := p.global("pkg/storage", "ErrUncertainResult")
	casFailed := p.global("pkg/storage", "ErrCASFailed")
	errField := p.structField("pkg/backend/common", "WatchEvent", "Err")
	revField := p.structField("pkg/backend/common", "WatchEvent", "Revision")

	// ---- R1 ----
	// the append of the consumed event to the repair queue, anywhere in the sequencer goroutine's region
	var app ssa.CallInstruction
	var appChain callChain
	if se != nil {
		for _, ch := range se.rg.chainsIn(p, func(ins ssa.Instruction) bool {
			c, ok := ins.(ssa.CallInstruction)
			return ok && p.isCallToMethod(c, appendM) && c.Common().IsInvoke()
		}) {
			c := ch.target.(ssa.CallInstruction)
			if se.isEv(argForSigParam(c, 0), frameOfChain(ch)) {
				app, appChain = c, ch
			}
		}
	}
	construct := funcName(seq) + ": enqueue unknown-outcome slot before commit"
	if se == nil || app == nil {
		res.bad("C09-R1", construct, p.pos(seq.Pos()), "the sequencer never appends the consumed event to the repair queue: an unknown-outcome write is never repaired")
	} else {
		// (b) guarded by errors.Is(ev.Err, ErrUncertainResult)
		guarded, eqForm := false, false
		for _, cf := range appChain.facts() {
			fr := frameOfChain(callChain{calls: appChain.calls[:cf.level], fns: appChain.fns[:cf.level+1]})
			if x, tgt, ok := errorsIsCall(cf.Raw); ok && cf.Want {
				if globalLoad(tgt) == uncertain && se.fieldOfEv(x, errField, fr) {
					guarded = true
				}
			}
			if cf.X != nil && (globalLoad(cf.X) == uncertain || globalLoad(cf.Y) == uncertain) {
				eqForm = true
			}
		}
		switch {
		case guarded:
			res.ok("C09-R1", funcName(seq)+": queueing condition uses errors.Is(ev.Err, ErrUncertainResult)", p.pos(app.Pos()), "matches the wrapped error returned by the adapters")
		case eqForm:
			res.bad("C09-R1", funcName(seq)+": queueing condition uses errors.Is(ev.Err, ErrUncertainResult)", p.pos(app.Pos()), "the unknown-outcome test compares with == : adapters return the sentinel wrapped (NewErrUncertainResult), so a timed-out commit is never queued for repair")
		default:
			res.bad("C09-R1", funcName(seq)+": queueing condition uses errors.Is(ev.Err, ErrUncertainResult)", p.pos(app.Pos()), "the append to the repair queue is not guarded by errors.Is(event.Err, ErrUncertainResult)")
		}
		// (c) no commit of this event's revision can precede the append in the same iteration
		bad := false
		for _, ch := range se.rg.chainsIn(p, func(ins ssa.Instruction) bool {
			c, ok := ins.(ssa.CallInstruction)
			if !ok {
				return false
			}
			_, isC := r.commitArg(c)
			return isC
		}) {
			c := ch.target.(ssa.CallInstruction)
			fr := frameOfChain(ch)
			arg, _ := r.commitArg(c)
			if !se.fieldOfEv(arg, revField, fr) {
				continue
			}
			cp := posOf(c.(ssa.Instruction))
			ins, _, _ := se.rg.search(fr, cp.b, cp.i+1, superOpts{
				stop: func(i ssa.Instruction, _ *frame) bool { return i == se.load.(ssa.Instruction) },
				bad:  func(i ssa.Instruction, _ *frame) bool { return i == app.(ssa.Instruction) },
			})
			if ins != nil {
				bad = true
				res.bad("C09-R1", construct, p.pos(c.Pos()), "the revision of an unknown-outcome write can be committed before the write is appended to the repair queue: a compaction in between is not held below it and can remove what the repair needs")
			}
		}
		if !bad {
			res.ok("C09-R1", construct, p.pos(app.Pos()), "no commit of the slot's revision can execute before the append within one iteration")
		}
	}
	checkContradictoryClassification(p, res, "C09-R9")
	checkSentinelIdentity(p, res, "C09-R9")
	checkSingleRepairConsumer(p, res, "C09-R10")
	checkRepairPresenceByError(p, res, "C09-R11")
	checkConfigFieldsRead(p, res, "C09-R13")
	// R12: the repair queue lives in memory. The error path of a write handler is where an unknown outcome is reported:
	// a handler that panics there (a response that is nil whenever the error is not, dereferenced) takes the process
	// and the queue with it, and the write is never repaired (C20-R11, server layer)
	{
		sub := newResult("C20")
		checkNilBeliefContradiction(p, sub, "C20-R11")
		for _, o := range sub.Obls {
			if strings.Contains(o.Construct, "pkg/server") || o.Construct == "nil-belief contradictions" {
				res.add("C09-R12", o.Rule+" "+o.Construct, o.Status, o.Pos, o.Detail)
			}
		}
	}
	// sentinel discipline: wrapped sentinels compared with ==
	for _, g := range []*ssa.Global{uncertain, casFailed} {
		cmps := sentinelEqComparisons(p, g)
		n := 0
		for _, bo := range cmps {
			f := bo.Parent()
			// the Is methods of the wrapper types legitimately compare with ==
			if f.Name() == "Is" && f.Signature.Recv() != nil && strings.Contains(funcName(f), "pkg/storage") {
				continue
			}
			n++
			res.bad("C09-R1", fmt.Sprintf("%s: == comparison with %s #%d", funcName(f), g.Name(), n), p.pos(bo.Pos()),
				g.Name()+" reaches callers wrapped (Conflict / errUncertainResult implement Is): comparing with == / != misses the wrapped form")
		}
		if n == 0 {
			res.ok("C09-R1", "no == comparison with "+g.Name(), "-", fmt.Sprintf("%d comparisons found, all inside the wrapper types' Is methods", len(cmps)))
		}
	}

	// ---- R2 ----
	checkCompactionClamp(p, r, res, "C09-R2")

	// ---- R3 ----
	sub := p.subResult("C01", tier)
	for _, o := range sub.Obls {
		if strings.Contains(o.Construct, "pkg/backend/retry.") && (o.Rule == "C01-R2" || o.Rule == "C01-R3") {
			res.add("C09-R3", o.Rule+" "+o.Construct, o.Status, o.Pos, o.Detail)
		}
	}
	sub4 := p.subResult("C04", tier)
	for _, o := range sub4.Obls {
		if strings.Contains(o.Construct, "pkg/backend/retry.") && (o.Rule == "C04-R1" || o.Rule == "C04-R4") {
			res.add("C09-R3", o.Rule+" "+o.Construct, o.Status, o.Pos, o.Detail)
		}
	}
	checkRetryPop(p, r, res)

	// ---- R4 ----
	checkCommitClassification(p, r, res)

	// ---- R7: queue discipline ----
	checkQueueDiscipline(p, res)
	// R8: the reads the write path and the repair rely on do not turn an engine failure into "key absent"
	{
		bp := p.ssaPkg("pkg/backend")
		checkErrorPreservation(p, res, "C09-R8",
			func(f *ssa.Function) bool { return f.Pkg == bp },
			func(c ssa.CallInstruction) (string, bool) {
				if !c.Common().IsInvoke() {
					return "", false
				}
				switch c.Common().Method {
				case r.KVIter, r.ItNext, r.KVGet:
					return "storage." + c.Common().Method.Name(), true
				}
				return "", false
			}, "an engine read failure would be answered as 'key not found': the repair of an unknown-outcome write takes the key for absent, drops the queued entry, and the write - if it landed - is never surfaced; a client's delete or update is answered with a definite 'not found'")
	}

	// ---- R6: the error of a committing call is never replaced on the write path ----
	{
		committing := map[*ssa.Function]bool{}
		for iter := 0; iter < 6; iter++ {
			for _, f := range p.AllFuncs {
				if committing[f] || f.Pkg == nil || !strings.HasPrefix(f.Pkg.Pkg.Path(), modPath+"/pkg/backend") || strings.HasPrefix(f.Pkg.Pkg.Path(), modPath+"/pkg/backend/scanner") {
					continue
				}
				for _, c := range callsIn(f) {
					if (r.is(c, r.BWCommit) && c.Common().IsInvoke()) || (c.Common().StaticCallee() != nil && committing[c.Common().StaticCallee()]) {
						committing[f] = true
					}
					for _, g := range p.calleesOf(c) {
						if c.Common().IsInvoke() && committing[g] && strings.Contains(funcName(g), "creator") {
							committing[f] = true
						}
					}
				}
			}
		}
		inScope := func(f *ssa.Function) bool { return committing[f] }
		fallible := func(c ssa.CallInstruction) (string, bool) {
			if r.is(c, r.BWCommit) && c.Common().IsInvoke() {
				return "BatchWrite.Commit", true
			}
			if sc := c.Common().StaticCallee(); sc != nil && committing[sc] {
				return funcName(sc), true
			}
			if c.Common().IsInvoke() {
				for _, g := range p.calleesOf(c) {
					if committing[g] {
						return c.Common().Method.Name(), true
					}
				}
			}
			return "", false
		}
		checkErrorPreservation(p, res, "C09-R6", inScope, fallible, "an unknown-outcome (or any unclassified) commit error would reach the client as success or as a definite failure, and the write would never be queued for repair")
	}

	// ---- R5 ----
	for _, m := range []*types.Func{r.BCreate, r.BUpdate, r.BDelete} {
		for _, impl := range p.implsOf(m) {
			if impl.Pkg != p.ssaPkg("pkg/backend") {
				continue
			}
			checkClientMapping(p, r, res, impl)
		}
	}
}

func isFieldOf(v ssa.Value, fld *types.Var, base ssa.Value) bool {
	u, ok := resolve(v).(*ssa.UnOp)
	if !ok || u.Op != token.MUL {
		return false
	}
	fa, ok := u.X.(*ssa.FieldAddr)
	return ok && fieldOf(fa) == fld && resolve(fa.X) == base
}

// checkCompactionClamp (C07-R5 / C09-R2)
func checkCompactionClamp(p *Prog, r *Roles, res *Result, rule string) {
	minRev := p.ifaceMethod("pkg/backend/retry", "AsyncFifoRetry", "MinRevision")
	scanCompact := p.ifaceMethod("pkg/backend/scanner", "Scanner", "Compact")
	for _, impl := range p.implsOf(r.BCompact) {
		if impl.Pkg != p.ssaPkg("pkg/backend") {
			continue
		}
		// revision parameter
		var revParam *ssa.Parameter
		for _, prm := range impl.Params {
			if b, ok := prm.Type().Underlying().(*types.Basic); ok && b.Kind() == types.Uint64 {
				revParam = prm
			}
		}
		// the value handed on: argument of the call that reaches Scanner.Compact
		var handed ssa.Value
		var site ssa.CallInstruction
		for _, c := range callsIn(impl) {
			if p.isCallToMethod(c, scanCompact) {
				handed, site = argForSigParam(c, 3), c
				continue
			}
			if sc := c.Common().StaticCallee(); sc != nil && sc.Blocks != nil && sc.Pkg == impl.Pkg {
				reach := false
				for _, c2 := range callsIn(sc) {
					if p.isCallToMethod(c2, scanCompact) {
						reach = true
					}
				}
				if reach {
					for i, prm := range sc.Params {
						if b, ok := prm.Type().Underlying().(*types.Basic); ok && b.Kind() == types.Uint64 {
							handed, site = c.Common().Args[i], c
						}
					}
				}
			}
		}
		construct := funcName(impl) + ": compaction revision clamp"
		if handed == nil || revParam == nil {
			res.und(rule, construct, p.pos(impl.Pos()), "cannot find the revision handed to the scanner")
			continue
		}
		// the clamp may live in a helper (target := clampRevision(requested)): judge the helper's returns in terms of its
		// own parameter
		type handedAt struct {
			v  ssa.Value
			at *ssa.BasicBlock
		}
		cases := []handedAt{{handed, site.Block()}}
		if hc, ok := resolve(handed).(*ssa.Call); ok {
			if h := hc.Common().StaticCallee(); h != nil && h.Blocks != nil && h.Pkg == impl.Pkg && h.Signature.Results().Len() == 1 {
				for j, a := range hc.Common().Args {
					if j < len(h.Params) && resolve(a) == ssa.Value(revParam) && isUint64(h.Params[j].Type()) {
						revParam = h.Params[j]
						cases = nil
						for _, b := range h.Blocks {
							if ret, ok := b.Instrs[len(b.Instrs)-1].(*ssa.Return); ok {
								cases = append(cases, handedAt{ret.Results[0], b})
							}
						}
						break
					}
				}
			}
		}
		judge := func(handed ssa.Value, at *ssa.BasicBlock) string {
			fromMin := derivesFrom(p, handed, func(v ssa.Value) bool {
				c, ok := v.(*ssa.Call)
				return ok && p.isCallToMethod(c, minRev)
			})
			fromCommitted := derivesFrom(p, handed, func(v ssa.Value) bool {
				c, ok := v.(*ssa.Call)
				return ok && (p.isCallToMethod(c, r.TSOGetRevision) || p.isCallToMethod(c, r.BGetCur))
			})
			usesMin := derivesFrom(p, handed, func(v ssa.Value) bool {
				c, ok := v.(*ssa.Call)
				if !ok {
					return false
				}
				sc := c.Common().StaticCallee()
				if sc == nil || !isMinFn(sc) {
					return false
				}
				// one operand is MinRevision()-1
				for _, a := range c.Common().Args {
					if bo, ok := resolve(a).(*ssa.BinOp); ok && bo.Op == token.SUB {
						if k, ok := constInt(bo.Y); ok && k == 1 {
							if mc, ok := resolve(bo.X).(*ssa.Call); ok && p.isCallToMethod(mc, minRev) {
								return true
							}
						}
					}
				}
				return false
			})
			raw := p.resolveDeep(handed) == ssa.Value(revParam)
			// the client's revision may flow on only where it is known not to exceed the committed revision
			isCommitted := func(v ssa.Value) bool {
				c, ok := resolve(v).(*ssa.Call)
				return ok && (p.isCallToMethod(c, r.TSOGetRevision) || p.isCallToMethod(c, r.BGetCur))
			}
			boundedAt := func(facts []condFact) bool {
				for _, cf := range facts {
					if cf.X == nil {
						continue
					}
					if resolve(cf.X) == ssa.Value(revParam) && isCommitted(cf.Y) && ((cf.Op == token.GTR && !cf.Want) || (cf.Op == token.LEQ && cf.Want) || (cf.Op == token.LSS && cf.Want)) {
						return true
					}
					if resolve(cf.Y) == ssa.Value(revParam) && isCommitted(cf.X) && ((cf.Op == token.LSS && !cf.Want) || (cf.Op == token.GEQ && cf.Want) || (cf.Op == token.GTR && cf.Want)) {
						return true
					}
				}
				return false
			}
			var unclamped func(v ssa.Value, facts []condFact, d int, seen map[ssa.Value]bool) bool
			unclamped = func(v ssa.Value, facts []condFact, d int, seen map[ssa.Value]bool) bool {
				v = resolve(v)
				if d > 10 || seen[v] {
					return false
				}
				seen[v] = true
				switch x := v.(type) {
				case *ssa.Parameter:
					return x == revParam && !boundedAt(facts)
				case *ssa.Phi:
					for i, e := range x.Edges {
						pred := x.Block().Preds[i]
						fs := append(append([]condFact{}, facts...), localFacts(pred)...)
						if iff := ifOf(pred); iff != nil {
							for s := 0; s < 2; s++ {
								if pred.Succs[s] == x.Block() {
									fs = append(fs, expandFact(edgeFact(edge{pred, s}), 0)...)
								}
							}
						}
						if unclamped(e, fs, d+1, seen) {
							return true
						}
					}
				case *ssa.Call:
					if sc := x.Common().StaticCallee(); sc != nil && (isMinFn(sc) || isMaxFn(sc)) {
						for _, a := range x.Common().Args {
							if unclamped(a, facts, d+1, seen) {
								return true
							}
						}
					}
				case *ssa.BinOp:
					return unclamped(x.X, facts, d+1, seen) || unclamped(x.Y, facts, d+1, seen)
				case *ssa.Convert:
					return unclamped(x.X, facts, d+1, seen)
				}
				return false
			}
			free := unclamped(handed, localFacts(at), 0, map[ssa.Value]bool{})
			switch {
			case raw:
				return "raw"
			case !fromCommitted:
				return "nocommitted"
			case free:
				return "free"
			case !fromMin || !usesMin:
				return "nomin"
			}
			return ""
		}
		// a return that hands on the bound by the committed revision alone is fine when another return adds the queue
		// bound (early return when the queue is empty): the queue bound must be present on some return, the committed
		// bound on all
		worst, anyMin := "", false
		for _, cs := range cases {
			k := judge(cs.v, cs.at)
			if k == "" {
				anyMin = true
				continue
			}
			if k == "nomin" && len(cases) > 1 && guardedByEmptyQueue(p, cs.at, minRev) {
				continue
			}
			if worst == "" || k != "nomin" {
				worst = k
			}
		}
		if worst == "" && !anyMin {
			worst = "nomin"
		}
		switch worst {
		case "raw":
			res.bad(rule, construct, p.pos(site.Pos()), "the raw requested revision is handed to the scanner: compaction can run past the committed revision and past an unresolved unknown-outcome write")
		case "nocommitted":
			res.bad(rule, construct, p.pos(site.Pos()), "the compaction revision is not clamped against the committed revision")
		case "free":
			res.bad(rule, construct, p.pos(site.Pos()), "the client's revision reaches the scanner on a path where it is not known to be <= the committed revision: a compaction above the committed revision removes deletion records that an in-flight create still relies on")
		case "nomin":
			res.bad(rule, construct, p.pos(site.Pos()), "the compaction revision is not capped by min(MinRevision()-1, .) of the repair queue: the versions an unknown-outcome repair needs can be compacted away")
		default:
			res.ok(rule, construct, p.pos(site.Pos()), "derives from the committed revision and from min(MinRevision()-1, .)")
		}
		// order of the two reads: the sequencer queues an unknown-outcome write BEFORE it commits its revision
		// (C09-R1), so the reader has to look at the committed revision first and at the queue second; the other way
		// round it can see the queue still empty and the revision already committed, and compacts the write away
		{
			rg := &fnRegion{root: impl, descend: func(g *ssa.Function) bool { return g.Pkg == impl.Pkg && g.Synthetic == "" }}
			isCommittedRead := func(i ssa.Instruction) bool {
				c, ok := i.(*ssa.Call)
				if !ok || !(p.isCallToMethod(c, r.TSOGetRevision) || p.isCallToMethod(c, r.BGetCur)) {
					return false
				}
				// only the read(s) the compaction revision is bounded by
				for _, cs := range cases {
					if derivesFrom(p, cs.v, func(v ssa.Value) bool { return v == ssa.Value(c) }) {
						return true
					}
				}
				return usedInFactsOn(c, revParam)
			}
			isMinRead := func(i ssa.Instruction) bool {
				c, ok := i.(*ssa.Call)
				return ok && p.isCallToMethod(c, minRev)
			}
			construct2 := funcName(impl) + ": committed revision read before the repair queue's minimum"
			early, _, _ := rg.search(&frame{fn: impl}, impl.Blocks[0], 0, superOpts{
				stop: func(i ssa.Instruction, _ *frame) bool { return isCommittedRead(i) },
				bad:  func(i ssa.Instruction, _ *frame) bool { return isMinRead(i) },
			})
			nMin := len(rg.chainsIn(p, isMinRead))
			switch {
			case nMin == 0:
				// reported by the clamp obligation above
			case early != nil:
				res.bad(rule, construct2, p.pos(early.Pos()), "the repair queue is examined before the committed revision is read: a write that is queued and committed in between is seen by neither bound (queue still empty, revision already committed) and the compaction removes the versions its repair needs")
			default:
				res.ok(rule, construct2, p.pos(site.Pos()), "on every path the committed revision is read before MinRevision()")
			}
		}
	}
}

// usedInFactsOn: the result of call c is compared with v somewhere in c's function.
func usedInFactsOn(c *ssa.Call, v ssa.Value) bool {
	if v == nil {
		return false
	}
	for _, b := range c.Parent().Blocks {
		iff := ifOf(b)
		if iff == nil {
			continue
		}
		for _, cf := range expandFact(factOf(iff.Cond, true), 0) {
			if cf.X == nil || cf.Y == nil {
				continue
			}
			if (resolve(cf.X) == ssa.Value(c) && resolve(cf.Y) == v) || (resolve(cf.Y) == ssa.Value(c) && resolve(cf.X) == v) {
				return true
			}
		}
	}
	return false
}

// checkRetryPop: the queue head is not popped on the path where the repair could not read the key (rev == 0 && err != nil).
func checkRetryPop(p *Prog, r *Roles, res *Result) {
	rp := p.ssaPkg("pkg/backend/retry")
	for _, f := range p.AllFuncs {
		if f.Pkg != rp || f.Synthetic != "" {
			continue
		}
		// functions that call an allocator (overwrite) and a pop
		var ow *ssa.Call
		for _, c := range callsIn(f) {
			if cc, ok := c.(*ssa.Call); ok {
				if sc := cc.Common().StaticCallee(); sc != nil && sc.Pkg == rp && sc.Signature.Results().Len() == 2 && errorResultIndex(sc.Signature) == 1 {
					for _, c2 := range callsIn(sc) {
						if r.is(c2, r.TSODeal) {
							ow = cc
						}
					}
				}
			}
		}
		if ow == nil {
			continue
		}
		var pops []ssa.CallInstruction
		for _, c := range callsIn(f) {
			if sc := c.Common().StaticCallee(); sc != nil && sc.Pkg == rp && wrapsQueuePop(sc, 0) {
				pops = append(pops, c)
			}
		}
		construct := funcName(f) + ": head not popped after a failed read"
		if len(pops) == 0 {
			res.und("C09-R3", construct, p.pos(f.Pos()), "queue pop not found")
			continue
		}
		ex := extractsOf(ow)
		construct2 := funcName(f) + ": head not popped after a failed repair write"
		bad2, nErrEdges := false, 0
		// edge: rev == 0 true, then err != nil true
		bad := false
		for _, b := range f.Blocks {
			if ifOf(b) == nil {
				continue
			}
			for s := 0; s < 2; s++ {
				cf := edgeFact(edge{b, s})
				if cf.X == nil {
					continue
				}
				x, y := cf.X, cf.Y
				if isNilConst(x) {
					x, y = y, x
				}
				isErrNonNil := resolve(x) == ex[1] && isNilConst(y) && ((cf.Op == token.NEQ && cf.Want) || (cf.Op == token.EQL && !cf.Want))
				if !isErrNonNil {
					continue
				}
				// under rev == 0 the key could not be read; otherwise the repair write itself failed
				under := false
				for _, df := range dominatingFacts(b) {
					if df.X != nil && resolve(df.X) == ex[0] && isZeroConst(df.Y) && ((df.Op == token.EQL && df.Want) || (df.Op == token.NEQ && !df.Want)) {
						under = true
					}
				}
				if !under {
					nErrEdges++
					ins, path := searchFrom(b.Succs[s], 0, searchOpts{bad: func(i ssa.Instruction) bool {
						for _, pc := range pops {
							if i == pc.(ssa.Instruction) {
								return true
							}
						}
						return false
					}})
					if ins != nil {
						bad2 = true
						res.bad("C09-R3", construct2, p.pos(ins.Pos()), "the queued unknown-outcome write is dropped although its repair write failed (possibly without landing): if the original write was applied it is never surfaced as an event: "+blockPath(p, path))
					}
					continue
				}
				ins, path := searchFrom(b.Succs[s], 0, searchOpts{bad: func(i ssa.Instruction) bool {
					for _, pc := range pops {
						if i == pc.(ssa.Instruction) {
							return true
						}
					}
					return false
				}})
				if ins != nil {
					bad = true
					res.bad("C09-R3", construct, p.pos(ins.Pos()), "the queued unknown-outcome write is dropped although the repair could not read the key (nothing is known about it yet): "+blockPath(p, path))
				}
			}
		}
		if !bad {
			res.ok("C09-R3", construct, p.pos(pops[0].Pos()), "on the path rev == 0 && err != nil the pop is not reachable (the entry stays queued)")
		}
		switch {
		case bad2:
		case nErrEdges == 0:
			res.bad("C09-R3", construct2, p.pos(pops[0].Pos()), "the error of the repair write is never tested before the head entry is popped: a repair write that failed or has an unknown outcome makes the original write be forgotten")
		default:
			res.ok("C09-R3", construct2, p.pos(pops[0].Pos()), "on every path where the repair write's error is non-nil the pop is not reachable (the entry stays queued and is examined again)")
		}
	}
}

// wrapsQueuePop: f is the pop, or a wrapper that does nothing with the queue but run the pop (directly, in a function
// literal, or by handing the pop as a method value to a run-under-lock helper).
func wrapsQueuePop(f *ssa.Function, depth int) bool {
	if f == nil || f.Blocks == nil || depth > 2 {
		return false
	}
	if isQueuePop(f) {
		return true
	}
	if len(f.Params) != 1 {
		return false
	}
	for _, g := range withAnon(f) {
		for _, b := range g.Blocks {
			for _, ins := range b.Instrs {
				if c, ok := ins.(ssa.CallInstruction); ok {
					if sc := c.Common().StaticCallee(); sc != nil && sc != f && sc.Pkg == f.Pkg && sc.Signature.Recv() != nil && wrapsQueuePop(sc, depth+1) {
						return true
					}
				}
				if mc, ok := ins.(*ssa.MakeClosure); ok {
					if fn, ok := mc.Fn.(*ssa.Function); ok && fn.Synthetic != "" {
						if t := unwrapSynthetic(fn); t != nil && t != f && isQueuePop(t) {
							return true
						}
					}
				}
			}
		}
	}
	return false
}

func isQueuePop(f *ssa.Function) bool {
	// decrements a size field or advances head: heuristic by effect: stores to a field named like the list head
	if f.Blocks == nil || len(f.Params) != 1 {
		return false
	}
	writesHeadFromNext := false
	for _, b := range f.Blocks {
		for _, ins := range b.Instrs {
			st, ok := ins.(*ssa.Store)
			if !ok {
				continue
			}
			fa, ok := st.Addr.(*ssa.FieldAddr)
			if !ok || resolve(fa.X) != ssa.Value(f.Params[0]) {
				continue
			}
			// value = load of <something>.next-like field of the same node type
			if ld, ok := resolve(st.Val).(*ssa.UnOp); ok {
				if fa2, ok := ld.X.(*ssa.FieldAddr); ok && types.Identical(fieldOf(fa2).Type(), fieldOf(fa).Type()) && fieldOf(fa2) != fieldOf(fa) {
					writesHeadFromNext = true
				}
			}
		}
	}
	return writesHeadFromNext
}

// checkCommitClassification: adapters whose Commit calls an engine commit that can time out (tikv).
func checkCommitClassification(p *Prog, r *Roles, res *Result) {
	newUnc := p.fn("pkg/storage", "NewErrUncertainResult")
	casFailed := p.global("pkg/storage", "ErrCASFailed")
	tp := p.ssaPkg("pkg/storage/tikv")
	var commit *ssa.Function
	for _, impl := range p.implsOf(r.BWCommit) {
		if impl.Pkg == tp {
			commit = impl
		}
	}
	if commit == nil {
		res.und("C09-R4", "tikv BatchWrite.Commit", "-", "implementation not found")
		return
	}
	// engine commit: static call to a method named Commit of a type outside the repo
	var eng *ssa.Call
	for _, f := range p.AllFuncs {
		// Commit itself, or a helper of the adapter that runs only inside it (applyAndCommit)
		if f.Pkg != tp || f.Synthetic != "" || !(f == commit || p.onlyWithin(f, commit, 0)) {
			continue
		}
		for _, c := range callsIn(f) {
			cc, ok := c.(*ssa.Call)
			if !ok {
				continue
			}
			sc := cc.Common().StaticCallee()
			if sc != nil && sc.Name() == "Commit" && sc.Pkg != nil && !strings.HasPrefix(sc.Pkg.Pkg.Path(), modPath) {
				eng = cc
			}
		}
	}
	if eng == nil {
		res.und("C09-R4", funcName(commit), p.pos(commit.Pos()), "engine commit call not found")
		return
	}
	var isEngErrRec func(v ssa.Value, d int) bool
	visiting := map[ssa.Value]bool{}
	isEngErrRec = func(v ssa.Value, d int) bool {
		if visiting[v] {
			return true // cycle through the classification loop: decided by the other members
		}
		visiting[v] = true
		defer delete(visiting, v)
		vals := resolveAllCells(v)
		if len(vals) == 0 || d > 8 {
			return false
		}
		for _, x := range vals {
			if x == ssa.Value(eng) {
				continue
			}
			// parameter of a classification helper that runs only inside Commit: decided by its actuals
			if prm, ok := x.(*ssa.Parameter); ok && prm.Parent() != commit && p.onlyWithin(prm.Parent(), commit, 0) {
				sites, _ := p.liftSites(prm.Parent())
				okAll := len(sites) > 0
				for _, s := range sites {
					cs, isCall := s.(ssa.CallInstruction)
					if !isCall || cs.Common().StaticCallee() != prm.Parent() || !isEngErrRec(cs.Common().Args[paramIndex(prm)], d+1) {
						okAll = false
					}
				}
				if okAll {
					continue
				}
			}
			// an already wrapped engine error (the classification loop has no break)
			if wc, ok := x.(*ssa.Call); ok && wc.Common().StaticCallee() == newUnc && isEngErrRec(wc.Common().Args[0], d+1) {
				continue
			}
			return false
		}
		return true
	}
	isEngErr := func(v ssa.Value) bool { return isEngErrRec(v, 0) }
	// wraps
	nw := 0
	for _, f := range p.AllFuncs {
		if f.Pkg == nil || !strings.HasPrefix(f.Pkg.Pkg.Path(), modPath+"/pkg/storage/") {
			continue
		}
		for _, c := range callsIn(f) {
			cc, ok := c.(*ssa.Call)
			if !ok || cc.Common().StaticCallee() != newUnc {
				continue
			}
			nw++
			construct := fmt.Sprintf("%s: NewErrUncertainResult #%d", funcName(f), nw)
			if !p.onlyWithin(f, commit, 0) {
				res.bad("C09-R4", construct, p.pos(cc.Pos()), "an unknown-outcome error is produced outside the adapter's Commit")
				continue
			}
			if !instrDominates(eng, cc) || !isEngErr(cc.Common().Args[0]) {
				res.bad("C09-R4", construct, p.pos(cc.Pos()), "the wrapped error is not (only) the error returned by the engine's commit call: an error produced before anything was sent would be reported as unknown outcome and trigger a rewrite")
				continue
			}
			// guarded by errors.Is(err, member of a package-level list) and not by the conflict predicate
			inList, conflict := false, false
			for _, cf := range dominatingFacts(cc.Block()) {
				if x, tgt, ok := errorsIsCall(cf.Raw); ok && cf.Want && isEngErr(x) {
					if ld, ok := resolve(tgt).(*ssa.UnOp); ok {
						if ia, ok := ld.X.(*ssa.IndexAddr); ok && globalLoad(ia.X) != nil {
							inList = true
						}
					}
				}
				if cf.Call != nil && cf.Want {
					if sc := cf.Call.Common().StaticCallee(); sc != nil && strings.Contains(sc.Name(), "WriteConflict") {
						conflict = true
					}
				}
			}
			switch {
			case conflict:
				res.bad("C09-R4", construct, p.pos(cc.Pos()), "a write conflict (definite failure) is reported as unknown outcome")
			case !inList:
				res.bad("C09-R4", construct, p.pos(cc.Pos()), "the wrap is not restricted to the members of the adapter's list of uncertain engine errors")
			default:
				res.ok("C09-R4", construct, p.pos(cc.Pos()), "wraps the engine commit's error, only for members of the uncertain list, not on the conflict branch")
			}
		}
	}
	if nw == 0 {
		res.bad("C09-R4", funcName(commit)+": unknown outcome is reported", p.pos(eng.Pos()), "the TiKV adapter never returns ErrUncertainResult: a commit whose reply was lost is reported as a definite failure and never repaired")
	} else {
		res.ok("C09-R4", funcName(commit)+": unknown outcome is reported", p.pos(eng.Pos()), fmt.Sprintf("%d wrap site(s)", nw))
	}
	// conflict -> ErrCASFailed
	okConf := false
	// Commit itself and the helpers whose result Commit returns
	region := []*ssa.Function{commit}
	inReg := map[*ssa.Function]bool{commit: true}
	for i := 0; i < len(region) && i < 6; i++ {
		for _, b := range region[i].Blocks {
			if ret, isRet := b.Instrs[len(b.Instrs)-1].(*ssa.Return); isRet && len(ret.Results) > 0 {
				for _, v := range resolveAllCells(ret.Results[0]) {
					if hc, ok := v.(*ssa.Call); ok {
						if sc := hc.Common().StaticCallee(); sc != nil && sc.Blocks != nil && sc.Pkg == tp && !inReg[sc] && p.onlyWithin(sc, commit, 0) {
							inReg[sc] = true
							region = append(region, sc)
						}
					}
				}
			}
		}
	}
	var retBlocks []*ssa.BasicBlock
	for _, g := range region {
		retBlocks = append(retBlocks, g.Blocks...)
	}
	for _, b := range retBlocks {
		ret, isRet := b.Instrs[len(b.Instrs)-1].(*ssa.Return)
		if !isRet || len(ret.Results) == 0 {
			continue
		}
		for _, cf := range dominatingFacts(b) {
			if cf.Call != nil && cf.Want {
				if sc := cf.Call.Common().StaticCallee(); sc != nil && strings.Contains(sc.Name(), "WriteConflict") {
					vals := resolveAllCells(ret.Results[0])
					if len(vals) == 1 && globalLoad(vals[0]) == casFailed {
						okConf = true
					} else {
						res.bad("C09-R4", funcName(commit)+": write conflict -> ErrCASFailed", p.pos(ret.Pos()), "the engine's write conflict is not reported as a failed condition")
					}
				}
			}
		}
	}
	if okConf {
		res.ok("C09-R4", funcName(commit)+": write conflict -> ErrCASFailed", p.pos(eng.Pos()), "the conflict branch returns ErrCASFailed")
	} else {
		res.bad("C09-R4", funcName(commit)+": write conflict -> ErrCASFailed", p.pos(eng.Pos()), "no branch maps the engine's write-conflict predicate to ErrCASFailed")
	}
}

// resolveAllCells: resolveAll that drops the zero marker.
func resolveAllCells(v ssa.Value) []ssa.Value {
	var out []ssa.Value
	for _, x := range resolveAll(v) {
		if _, z := x.(zeroValueMarker); z {
			continue
		}
		out = append(out, x)
	}
	return out
}

// checkClientMapping (R5): every return with a nil error is dominated by success or a definite failure class.
func checkClientMapping(p *Prog, r *Roles, res *Result, f *ssa.Function) {
	casFailed := p.global("pkg/storage", "ErrCASFailed")
	notFound := p.global("pkg/storage", "ErrKeyNotFound")
	// the write call: an allocator call in f
	a := &allocInfo{p: p, r: r}
	a.compute()
	var werrs []ssa.Value
	for _, s := range a.sitesIn(f) {
		if s.errV != nil {
			werrs = append(werrs, s.errV)
		}
	}
	isWErr := func(v ssa.Value) bool {
		vals := resolveAllCells(v)
		if len(vals) == 0 {
			return false
		}
		for _, x := range vals {
			found := false
			for _, w := range werrs {
				if x == w {
					found = true
				}
			}
			if !found {
				return false
			}
		}
		return true
	}
	ei := errorResultIndex(f.Signature)
	n := 0
	for _, b := range f.Blocks {
		ret, ok := b.Instrs[len(b.Instrs)-1].(*ssa.Return)
		if !ok || b.Comment == "recover" {
			continue
		}
		vals := resolveAllCells(ret.Results[ei])
		allNil := len(vals) > 0
		for _, v := range vals {
			if !isNilConst(v) {
				allNil = false
			}
		}
		if !allNil {
			continue
		}
		n++
		construct := fmt.Sprintf("%s: nil-error return #%d", funcName(f), n)
		why := ""
		for _, cf := range dominatingFacts(b) {
			if x, tgt, ok := errorsIsCall(cf.Raw); ok && cf.Want && isWErr(x) && globalLoad(tgt) == casFailed {
				why = "definite failure: errors.Is(err, ErrCASFailed)"
			}
			if cf.X != nil {
				x, y := cf.X, cf.Y
				if isNilConst(x) || globalLoad(x) != nil {
					x, y = y, x
				}
				if isWErr(x) {
					if isNilConst(y) && ((cf.Op == token.EQL && cf.Want) || (cf.Op == token.NEQ && !cf.Want)) {
						why = "success: err == nil"
					}
					if globalLoad(y) == notFound && ((cf.Op == token.EQL && cf.Want) || (cf.Op == token.NEQ && !cf.Want)) {
						why = "definite failure: err == ErrKeyNotFound"
					}
				}
			}
		}
		if why != "" {
			res.ok("C09-R5", construct, p.pos(ret.Pos()), why)
		} else {
			res.bad("C09-R5", construct, p.pos(ret.Pos()), "a response with a nil error is returned on a path where the write's error was neither nil nor a definite failure class: an unknown or storage error would be reported to the client as an answer")
		}
	}
}

// checkQueueDiscipline: in the repair queue's push, every path to a return makes the new node the tail, and on the
// paths where an old tail exists links it to the new node first.
func checkQueueDiscipline(p *Prog, res *Result) {
	rp := p.ssaPkg("pkg/backend/retry")
	var pop *ssa.Function
	for _, f := range p.AllFuncs {
		if f.Pkg == rp && isQueuePop(f) {
			pop = f
		}
	}
	if pop == nil {
		res.und("C09-R7", "repair queue", "-", "pop not found")
		return
	}
	qT := pop.Params[0].Type()
	// head: the field pop assigns from <node>.next; next: the node field it reads
	var headF, nextF *types.Var
	for _, b := range pop.Blocks {
		for _, ins := range b.Instrs {
			st, ok := ins.(*ssa.Store)
			if !ok {
				continue
			}
			fa, ok := st.Addr.(*ssa.FieldAddr)
			if !ok || resolve(fa.X) != ssa.Value(pop.Params[0]) {
				continue
			}
			if ld, ok := resolve(st.Val).(*ssa.UnOp); ok {
				if fa2, ok := ld.X.(*ssa.FieldAddr); ok && types.Identical(fieldOf(fa2).Type(), fieldOf(fa).Type()) && fieldOf(fa2) != fieldOf(fa) {
					headF, nextF = fieldOf(fa), fieldOf(fa2)
				}
			}
		}
	}
	if headF == nil {
		res.und("C09-R7", "repair queue", "-", "head / next fields not identified")
		return
	}
	// tail: the other field of the queue with the node pointer type
	var tailF *types.Var
	qs := qT.(*types.Pointer).Elem().Underlying().(*types.Struct)
	for i := 0; i < qs.NumFields(); i++ {
		if fv := qs.Field(i); fv != headF && types.Identical(fv.Type(), headF.Type()) {
			tailF = fv
		}
	}
	if tailF == nil {
		res.und("C09-R7", "repair queue", "-", "tail field not identified")
		return
	}
	// push: the method of the queue that stores into the tail field
	for _, f := range p.AllFuncs {
		if f.Pkg != rp || f.Signature.Recv() == nil || !types.Identical(f.Signature.Recv().Type(), qT) || f == pop {
			continue
		}
		storesHeadOrTail := false
		for _, st := range append(append([]*ssa.Store{}, p.fields().stores[tailF]...), p.fields().stores[headF]...) {
			if st.Parent() == f {
				storesHeadOrTail = true
			}
		}
		if !storesHeadOrTail {
			continue
		}
		isTailStore := func(i ssa.Instruction) bool {
			st, ok := i.(*ssa.Store)
			if !ok {
				return false
			}
			fa, ok := st.Addr.(*ssa.FieldAddr)
			return ok && fieldOf(fa) == tailF && resolve(fa.X) == ssa.Value(f.Params[0])
		}
		construct := funcName(f) + ": the pushed entry becomes the tail on every path"
		ins, path := searchFrom(f.Blocks[0], 0, searchOpts{
			stop: isTailStore,
			bad:  func(i ssa.Instruction) bool { _, ok := i.(*ssa.Return); return ok },
		})
		if ins != nil {
			res.bad("C09-R7", construct, p.pos(ins.Pos()), "a path through push returns without making the new entry the tail: the next push links behind a stale tail and the entries in between are unreachable (never repaired, and MinRevision() no longer covers them): "+blockPath(p, path))
		} else {
			res.ok("C09-R7", construct, p.pos(f.Pos()), "every return is preceded by tail = node")
		}
		// old tail linked: on the edge tail != nil, a store to <tail>.next is reached before return
		construct = funcName(f) + ": an existing tail is linked to the pushed entry"
		found, bad := false, false
		for _, b := range f.Blocks {
			if ifOf(b) == nil {
				continue
			}
			for sidx := 0; sidx < 2; sidx++ {
				cf := edgeFact(edge{b, sidx})
				if cf.X == nil || !isNilConst(cf.Y) {
					continue
				}
				ld, ok := resolve(cf.X).(*ssa.UnOp)
				if !ok {
					continue
				}
				fa, ok := ld.X.(*ssa.FieldAddr)
				if !ok || fieldOf(fa) != tailF {
					continue
				}
				nonNil := (cf.Op == token.NEQ && cf.Want) || (cf.Op == token.EQL && !cf.Want)
				if !nonNil {
					continue
				}
				found = true
				ins, _ := searchFrom(b.Succs[sidx], 0, searchOpts{
					stop: func(i ssa.Instruction) bool {
						st, ok := i.(*ssa.Store)
						if !ok {
							return false
						}
						fa, ok := st.Addr.(*ssa.FieldAddr)
						return ok && fieldOf(fa) == nextF
					},
					bad: func(i ssa.Instruction) bool { _, ok := i.(*ssa.Return); return ok },
				})
				if ins != nil {
					bad = true
				}
			}
		}
		switch {
		case !found:
			res.ok("C09-R7", construct, p.pos(f.Pos()), "push does not branch on the tail being present (nothing to check on that branch)")
		case bad:
			res.bad("C09-R7", construct, p.pos(f.Pos()), "with a non-empty queue push can return without linking the old tail to the new entry")
		default:
			res.ok("C09-R7", construct, p.pos(f.Pos()), "on the non-empty branch <tail>.next = node is reached before return")
		}
	}
}

// guardedByEmptyQueue: block b is reached only when MinRevision() returned 0 (no unknown-outcome write is queued).
func guardedByEmptyQueue(p *Prog, b *ssa.BasicBlock, minRev *types.Func) bool {
	for _, cf := range dominatingFacts(b) {
		if cf.X == nil {
			continue
		}
		x, y := cf.X, cf.Y
		if isZeroConst(x) {
			x, y = y, x
		}
		c, ok := resolve(x).(*ssa.Call)
		if ok && p.isCallToMethod(c, minRev) && isZeroConst(y) && ((cf.Op == token.EQL && cf.Want) || (cf.Op == token.NEQ && !cf.Want)) {
			return true
		}
	}
	return false
}

// checkSingleRepairConsumer (C09-R10): the repair loop looks at the head of the queue, repairs it and then removes
// "the head" without looking again - correct only while nobody else removes entries in between. The function that
// removes the head must therefore run on one goroutine: walking up from its callers, the go statements met on the way
// are a single one, and it does not sit in a loop (a round started per tick overlaps the previous one as soon as the
// engine is slow, and the late round removes an entry nobody examined: an unknown-outcome write is never repaired and
// stops holding compaction back).
func checkSingleRepairConsumer(p *Prog, res *Result, rule string) {
	sp := p.ssaPkg("pkg/backend/retry")
	var pops []*ssa.Function
	for _, f := range p.AllFuncs {
		if f.Pkg != sp || f.Blocks == nil || f.Signature.Recv() == nil || f.Signature.Params().Len() != 0 || f.Signature.Results().Len() != 0 || f.Synthetic != "" {
			continue
		}
		recv := f.Params[0]
		writes := false
		for _, b := range f.Blocks {
			for _, ins := range b.Instrs {
				if st, ok := ins.(*ssa.Store); ok {
					if fa, ok := st.Addr.(*ssa.FieldAddr); ok && resolve(fa.X) == ssa.Value(recv) {
						if _, isPtr := fieldOf(fa).Type().Underlying().(*types.Pointer); isPtr {
							writes = true
						}
					}
				}
			}
		}
		if writes {
			pops = append(pops, f)
		}
	}
	if len(pops) == 0 {
		res.und(rule, "repair queue: removal of the head", "-", "no parameterless method of the repair package rewrites a link of its receiver")
		return
	}
	p.buildCallers()
	for _, pop := range pops {
		construct := funcName(pop) + ": one consumer"
		var goSites []ssa.Instruction
		var inLoop ssa.Instruction
		seen := map[*ssa.Function]bool{}
		var up func(f *ssa.Function, d int)
		up = func(f *ssa.Function, d int) {
			if seen[f] || d > 8 {
				return
			}
			seen[f] = true
			var site func(cs ssa.CallInstruction, callee *ssa.Function, d int)
			site = func(cs ssa.CallInstruction, callee *ssa.Function, d int) {
				if cs.Parent() == nil || cs.Parent().Pkg == nil || !strings.HasPrefix(cs.Parent().Pkg.Pkg.Path(), modPath) || d > 8 {
					return
				}
				if g, ok := cs.(*ssa.Go); ok {
					goSites = append(goSites, g)
					if loopOf(g.Block()) != nil {
						inLoop = g
					}
					return
				}
				// called through a function-typed parameter of the enclosing function (withLock(f)): the callers that
				// matter are those of the enclosing function that hand it this very function
				if !cs.Common().IsInvoke() && cs.Common().StaticCallee() == nil {
					if prm, ok := resolve(cs.Common().Value).(*ssa.Parameter); ok && prm.Parent() == cs.Parent() {
						idx := paramIndex(prm)
						for _, cs2 := range p.callers[cs.Parent()] {
							if cs2.Common().IsInvoke() || idx >= len(cs2.Common().Args) {
								continue
							}
							for _, fv := range p.funcValues(cs2.Common().Args[idx], 0) {
								if fv == callee {
									site(cs2, cs.Parent(), d+1)
								}
							}
						}
						return
					}
				}
				up(cs.Parent(), d+1)
			}
			for _, cs := range p.callers[f] {
				site(cs, f, d)
			}
			// a function literal: where it is made is where it is called or started
			if f.Parent() != nil {
				for _, b := range f.Parent().Blocks {
					for _, ins := range b.Instrs {
						mc, ok := ins.(*ssa.MakeClosure)
						if !ok || mc.Fn != ssa.Value(f) || mc.Referrers() == nil {
							continue
						}
						for _, ref := range *mc.Referrers() {
							if g, ok := ref.(*ssa.Go); ok && g.Common().Value == ssa.Value(mc) {
								goSites = append(goSites, g)
								if loopOf(g.Block()) != nil {
									inLoop = g
								}
							}
						}
					}
				}
			}
		}
		up(pop, 0)
		uniq := map[ssa.Instruction]bool{}
		for _, g := range goSites {
			uniq[g] = true
		}
		switch {
		case inLoop != nil:
			res.bad(rule, construct, p.pos(inLoop.Pos()), "the function that removes the head of the repair queue is reached from a go statement inside a loop: repair rounds overlap when the engine is slow, and the round that finishes late removes an entry that nobody examined - that unknown-outcome write is never repaired, never announced, and no longer holds compaction back")
		case len(uniq) > 1:
			var at ssa.Instruction
			for g := range uniq {
				if at == nil || g.Pos() > at.Pos() {
					at = g
				}
			}
			res.bad(rule, construct, p.pos(at.Pos()), fmt.Sprintf("the function that removes the head of the repair queue is reached from %d go statements: two consumers remove each other's entries", len(uniq)))
		case len(uniq) == 0:
			res.und(rule, construct, p.pos(pop.Pos()), "no go statement starts the repair loop")
		default:
			res.ok(rule, construct, p.pos(goSites[0].Pos()), "reached from one go statement outside any loop")
		}
	}
}

// checkRepairPresenceByError (C09-R11): the repair re-reads the key through a getter that reports "no such key" by
// its error. The value it returns may be empty (the etcd path accepts empty values): a test of its length files a
// write that is in the store under "nothing there", and the write is never re-written nor announced.
func checkRepairPresenceByError(p *Prog, res *Result, rule string) {
	sp := p.ssaPkg("pkg/backend/retry")
	errT := types.Universe.Lookup("error").Type()
	n := 0
	for _, f := range p.AllFuncs {
		if f.Pkg != sp || f.Blocks == nil {
			continue
		}
		for _, c := range callsIn(f) {
			call, ok := c.(*ssa.Call)
			if !ok {
				continue
			}
			tup, ok := call.Type().(*types.Tuple)
			if !ok || tup.Len() < 2 {
				continue
			}
			sl, ok := tup.At(0).Type().Underlying().(*types.Slice)
			if !ok {
				continue
			}
			if b, ok := sl.Elem().Underlying().(*types.Basic); !ok || b.Kind() != types.Byte {
				continue
			}
			if !types.Identical(tup.At(tup.Len()-1).Type(), errT) {
				continue
			}
			n++
			construct := fmt.Sprintf("%s: value re-read for the repair #%d", funcName(f), n)
			var bad ssa.Instruction
			for _, ref := range *call.Referrers() {
				ex, ok := ref.(*ssa.Extract)
				if !ok || ex.Index != 0 || ex.Referrers() == nil {
					continue
				}
				for _, r2 := range *ex.Referrers() {
					lc, ok := r2.(*ssa.Call)
					if !ok {
						continue
					}
					if bi, ok := lc.Common().Value.(*ssa.Builtin); !ok || bi.Name() != "len" || lc.Referrers() == nil {
						continue
					}
					for _, r3 := range *lc.Referrers() {
						if bo, ok := r3.(*ssa.BinOp); ok && (isZeroConst(bo.X) || isZeroConst(bo.Y)) {
							switch bo.Op {
							case token.EQL, token.NEQ, token.GTR, token.LSS, token.LEQ, token.GEQ:
								bad = bo
							}
						}
					}
				}
			}
			if bad != nil {
				res.bad(rule, construct, p.pos(bad.Pos()), "the repair takes an empty value for 'the key is not there' (which the getter reports by its error): an unknown-outcome write of an empty value that did land is dropped from the queue without being re-written - it stays readable but is never announced to watchers")
			} else {
				res.ok(rule, construct, p.pos(call.Pos()), "presence is decided by the getter's error, not by the length of the value")
			}
		}
	}
	if n == 0 {
		res.und(rule, "repair: re-read", "-", "no call with a (value, .., error) result in the repair package")
	}
}

// checkConfigFieldsRead (C09-R13): every field of a configuration struct of the backend packages is read somewhere.
// A setting nobody reads silently does nothing; for the repair queue, whose two durations (how often to look, how old
// an entry must be) are easy to mix up, an unread field means the other one is used in both places.
func checkConfigFieldsRead(p *Prog, res *Result, rule string) {
	n := 0
	for _, rel := range []string{"pkg/backend/retry", "pkg/backend/scanner", "pkg/backend"} {
		sp := p.ssaPkg(rel)
		tn, ok := sp.Pkg.Scope().Lookup("Config").(*types.TypeName)
		if !ok {
			continue
		}
		st, ok := tn.Type().Underlying().(*types.Struct)
		if !ok {
			continue
		}
		for i := 0; i < st.NumFields(); i++ {
			fv := st.Field(i)
			reads := 0
			for _, fa := range p.fields().addrs[fv] {
				for _, ref := range *fa.Referrers() {
					switch x := ref.(type) {
					case *ssa.UnOp:
						if x.Op == token.MUL {
							reads++
						}
					case *ssa.Store:
						if x.Addr != ssa.Value(fa) {
							reads++ // the address itself handed on
						}
					case *ssa.DebugRef:
					default:
						reads++
					}
				}
			}
			// value-typed struct: x.F on a loaded struct
			for _, f := range p.AllFuncs {
				for _, b := range f.Blocks {
					for _, ins := range b.Instrs {
						if fl, ok := ins.(*ssa.Field); ok && fieldOfField(fl) == fv {
							reads++
						}
					}
				}
			}
			n++
			construct := fmt.Sprintf("%s.Config.%s is read", sp.Pkg.Name(), fv.Name())
			if reads == 0 {
				res.bad(rule, construct, p.pos(fv.Pos()), "no code reads this configuration field: the setting is ignored, and where two settings of one kind exist (how often the repair queue is looked at / how old an entry must be before it is repaired) the other one is used in its place - an unknown-outcome write is then repaired while the original may still be committing, or much later than configured")
			} else {
				res.ok(rule, construct, p.pos(fv.Pos()), fmt.Sprintf("%d read(s)", reads))
			}
		}
	}
	if n == 0 {
		res.und(rule, "configuration structs", "-", "no Config struct found in the backend packages")
	}
}
