package main

import (
	"fmt"

	"golang.org/x/tools/go/ssa"
)

// A batchModel describes one write batch: the value returned by KvStorage.BeginBatchWrite and the operations
// invoked on it in the same function.
type batchOp struct {
	Kind string // Put, CAS, PutIfNotExist, Del, DelCurrent
	Call ssa.CallInstruction
	Key  ssa.Value
	Val  ssa.Value // new value (Put/CAS/PutIfNotExist)
	Old  ssa.Value // expected value (CAS)
	TTL  ssa.Value
}

type batchModel struct {
	Fn      *ssa.Function
	Begin   *ssa.Call
	Ops     []batchOp
	Commits []ssa.CallInstruction
	Ord     int // ordinal of the batch in its function
	// BuiltFor: the batch is built by Fn and returned; this is the call of Fn (in the function that goes on to use
	// and commit the batch) the model belongs to. nil for a batch that is begun and committed in one function.
	BuiltFor ssa.CallInstruction
}

func (p *Prog) batches() []*batchModel {
	if p.batchCache != nil {
		return p.batchCache
	}
	r := p.roles()
	var out []*batchModel
	for _, f := range p.AllFuncs {
		if f.Synthetic != "" {
			continue
		}
		ord := 0
		for _, c := range callsIn(f) {
			bc, ok := c.(*ssa.Call)
			if !ok || !r.is(c, r.KVBegin) {
				continue
			}
			ord++
			bm := &batchModel{Fn: f, Begin: bc, Ord: ord}
			// uses of the batch value (directly; through phi is reported as escaping)
			for _, ref := range *bc.Referrers() {
				oc, ok := ref.(ssa.CallInstruction)
				if !ok {
					continue
				}
				cc := oc.Common()
				if !cc.IsInvoke() || cc.Value != ssa.Value(bc) {
					continue
				}
				switch cc.Method {
				case r.BWPut:
					bm.Ops = append(bm.Ops, batchOp{Kind: "Put", Call: oc, Key: cc.Args[0], Val: cc.Args[1], TTL: cc.Args[2]})
				case r.BWCAS:
					bm.Ops = append(bm.Ops, batchOp{Kind: "CAS", Call: oc, Key: cc.Args[0], Val: cc.Args[1], Old: cc.Args[2], TTL: cc.Args[3]})
				case r.BWPutIfNotExist:
					bm.Ops = append(bm.Ops, batchOp{Kind: "PutIfNotExist", Call: oc, Key: cc.Args[0], Val: cc.Args[1], TTL: cc.Args[2]})
				case r.BWDel:
					bm.Ops = append(bm.Ops, batchOp{Kind: "Del", Call: oc, Key: cc.Args[0]})
				case r.BWDelCurrent:
					bm.Ops = append(bm.Ops, batchOp{Kind: "DelCurrent", Call: oc})
				case r.BWCommit:
					bm.Commits = append(bm.Commits, oc)
				}
			}
			// a builder returns the batch it has filled: the operations continue on the result of each of its calls
			returned := false
			for _, ref := range *bc.Referrers() {
				if _, ok := ref.(*ssa.Return); ok && f.Signature.Results().Len() == 1 {
					returned = true
				}
			}
			if returned && len(bm.Commits) == 0 {
				p.buildCallersLite()
				var sites []*ssa.Call
				for _, cs := range p.staticCallers[f] {
					if cc, ok := cs.(*ssa.Call); ok {
						sites = append(sites, cc)
					}
				}
				if len(sites) > 0 && len(sites) == len(p.staticCallers[f]) && !p.addressTaken(f) {
					for _, site := range sites {
						m2 := &batchModel{Fn: f, Begin: bc, Ord: ord, BuiltFor: site}
						m2.Ops = append(m2.Ops, bm.Ops...)
						for _, ref := range *site.Referrers() {
							oc, ok := ref.(ssa.CallInstruction)
							if !ok || !oc.Common().IsInvoke() || oc.Common().Value != ssa.Value(site) {
								continue
							}
							cc := oc.Common()
							switch cc.Method {
							case r.BWPut:
								m2.Ops = append(m2.Ops, batchOp{Kind: "Put", Call: oc, Key: cc.Args[0], Val: cc.Args[1], TTL: cc.Args[2]})
							case r.BWCAS:
								m2.Ops = append(m2.Ops, batchOp{Kind: "CAS", Call: oc, Key: cc.Args[0], Val: cc.Args[1], Old: cc.Args[2], TTL: cc.Args[3]})
							case r.BWPutIfNotExist:
								m2.Ops = append(m2.Ops, batchOp{Kind: "PutIfNotExist", Call: oc, Key: cc.Args[0], Val: cc.Args[1], TTL: cc.Args[2]})
							case r.BWDel:
								m2.Ops = append(m2.Ops, batchOp{Kind: "Del", Call: oc, Key: cc.Args[0]})
							case r.BWDelCurrent:
								m2.Ops = append(m2.Ops, batchOp{Kind: "DelCurrent", Call: oc})
							case r.BWCommit:
								m2.Commits = append(m2.Commits, oc)
							}
						}
						out = append(out, m2)
					}
					continue
				}
			}
			out = append(out, bm)
		}
	}
	p.batchCache = out
	return out
}

func (b *batchModel) name() string {
	return fmt.Sprintf("%s: batch #%d", funcName(b.Fn), b.Ord)
}

// escapes reports whether the batch value is used other than as the receiver of BatchWrite methods
// (returned, stored, passed on): such a batch cannot be modelled locally.
func (b *batchModel) escapes() bool {
	if b.BuiltFor != nil {
		// the result of the builder's call must itself be used as the receiver of BatchWrite methods only
		for _, ref := range *b.BuiltFor.(*ssa.Call).Referrers() {
			switch x := ref.(type) {
			case ssa.CallInstruction:
				if x.Common().IsInvoke() && x.Common().Value == b.BuiltFor.(*ssa.Call) {
					continue
				}
				return true
			case *ssa.DebugRef:
			default:
				return true
			}
		}
	}
	for _, ref := range *b.Begin.Referrers() {
		if _, isRet := ref.(*ssa.Return); isRet && b.BuiltFor != nil {
			continue
		}
		switch x := ref.(type) {
		case ssa.CallInstruction:
			if x.Common().IsInvoke() && x.Common().Value == ssa.Value(b.Begin) {
				continue
			}
			return true
		case *ssa.DebugRef:
		default:
			return true
		}
	}
	return false
}

// ctxValue substitutes a parameter by the actual argument of call site ctx (nil ctx: no substitution).
func (p *Prog) ctxValue(v ssa.Value, ctx ssa.CallInstruction) ssa.Value {
	v = p.resolveDeep(v)
	if ctx == nil {
		return v
	}
	if prm, ok := v.(*ssa.Parameter); ok {
		idx := paramIndex(prm)
		if sc := ctx.Common().StaticCallee(); sc == prm.Parent() && idx < len(ctx.Common().Args) {
			// the actual may itself be a parameter of an extracted helper: follow it further up
			return resolveUp(p.resolveDeep(ctx.Common().Args[idx]))
		}
	}
	return v
}

// contexts returns the call sites to specialise a helper function on: its static callers when any operand of the
// batch is a parameter, otherwise a single nil context.
func (p *Prog) contextsOf(b *batchModel) []ssa.CallInstruction {
	if b.BuiltFor != nil {
		return []ssa.CallInstruction{b.BuiltFor}
	}
	usesParam := false
	for _, op := range b.Ops {
		for _, v := range []ssa.Value{op.Key, op.Val, op.Old} {
			if v == nil {
				continue
			}
			if _, ok := p.resolveDeep(v).(*ssa.Parameter); ok {
				usesParam = true
			}
		}
	}
	if !usesParam {
		return []ssa.CallInstruction{nil}
	}
	p.buildCallersLite()
	cs := p.staticCallers[b.Fn]
	if len(cs) == 0 {
		return []ssa.CallInstruction{nil}
	}
	// specialise when a key is not classifiable locally, or when a written / expected value is handed in by the
	// caller (a commit helper shared by several writers: what it writes is decided per writer)
	for _, op := range b.Ops {
		if op.Key != nil && p.keyProvenance(op.Key).Kind == keyUnknown {
			out := make([]ssa.CallInstruction, len(cs))
			copy(out, cs)
			return out
		}
	}
	for _, op := range b.Ops {
		for _, v := range []ssa.Value{op.Val, op.Old} {
			if v == nil {
				continue
			}
			if prm, ok := p.resolveDeep(v).(*ssa.Parameter); ok && prm.Parent() == b.Fn {
				out := make([]ssa.CallInstruction, len(cs))
				copy(out, cs)
				return out
			}
		}
	}
	return []ssa.CallInstruction{nil}
}

func ctxName(p *Prog, ctx ssa.CallInstruction) string {
	if ctx == nil {
		return ""
	}
	return fmt.Sprintf(" [called from %s]", funcName(ctx.Parent()))
}
