package main

import (
	"fmt"
	"go/ast"
	"go/token"
	"go/types"
	"os"
	"sort"
	"strings"
	"time"

	"golang.org/x/tools/go/packages"
	"golang.org/x/tools/go/ssa"
	"golang.org/x/tools/go/ssa/ssautil"
)

const modPath = "github.com/kubewharf/kubebrain"

// Prog is the loaded, type-checked and SSA-converted program for one build configuration.
type Prog struct {
	Repo     string
	Tags     string
	Whole    bool // dependencies loaded from source and built too
	Fset     *token.FileSet
	Pkgs     []*packages.Package          // initial (repo) packages
	ByPath   map[string]*packages.Package // repo packages by import path
	SSA      *ssa.Program
	SSAPkgs  map[string]*ssa.Package // repo packages
	AllFuncs []*ssa.Function         // all functions with bodies in repo packages (incl. anonymous)
	LoadSecs float64

	fnOfObj map[*types.Func]*ssa.Function
	callers map[*ssa.Function][]ssa.CallInstruction // static + resolved interface call sites (repo only)
	impls   map[*types.Func][]*ssa.Function         // interface method -> repo implementations

	fidx          *fieldIndex
	rolesCache    *Roles
	reach         map[*ssa.Function]bool
	reqReach      map[*ssa.Function]bool
	globStores    map[*ssa.Global][]ssa.Value
	escCache      map[*types.Named]bool
	subCache      map[string]*Result
	leaderCbs     map[string][]*ssa.Function
	batchCache    []*batchModel
	lockCache     *lockCtx
	liftCache     map[*ssa.Function]liftEntry
	addrTaken     map[*ssa.Function]bool
	staticCallers map[*ssa.Function][]ssa.CallInstruction
}

func brokenf(format string, a ...interface{}) {
	panic(brokenErr{fmt.Sprintf(format, a...)})
}

type brokenErr struct{ msg string }

func loadProg(repo, tags string, whole bool) *Prog {
	start := time.Now()
	mode := packages.NeedName | packages.NeedFiles | packages.NeedCompiledGoFiles | packages.NeedImports |
		packages.NeedDeps | packages.NeedTypes | packages.NeedSyntax | packages.NeedTypesInfo | packages.NeedTypesSizes | packages.NeedModule
	if !whole {
		mode = packages.NeedName | packages.NeedFiles | packages.NeedCompiledGoFiles | packages.NeedImports | packages.NeedDeps |
			packages.NeedTypes | packages.NeedSyntax | packages.NeedTypesInfo | packages.NeedTypesSizes | packages.NeedModule | packages.NeedExportFile
	}
	env := append(os.Environ(), "GOFLAGS=-mod=mod", "GOPROXY=off", "GOSUMDB=off", "GOWORK=off", "GOTOOLCHAIN=local")
	cfg := &packages.Config{Mode: mode, Dir: repo, Env: env, Tests: false}
	if tags != "" {
		cfg.BuildFlags = []string{"-tags=" + tags}
	}
	if !whole {
		// types of dependencies come from export data; only the repo is parsed
		cfg.Mode &^= packages.NeedDeps
		cfg.Mode |= packages.NeedDeps // keep import graph for ssa package creation
	}
	pkgs, err := packages.Load(cfg, "./...")
	if err != nil {
		brokenf("packages.Load: %v", err)
	}
	if len(pkgs) == 0 {
		brokenf("no packages loaded from %s", repo)
	}
	p := &Prog{Repo: repo, Tags: tags, Whole: whole, ByPath: map[string]*packages.Package{}, SSAPkgs: map[string]*ssa.Package{},
		fnOfObj: map[*types.Func]*ssa.Function{}}
	nerr := 0
	packages.Visit(pkgs, nil, func(pk *packages.Package) {
		for _, e := range pk.Errors {
			if strings.HasPrefix(pk.PkgPath, modPath) {
				fmt.Fprintf(os.Stderr, "load error in %s: %v\n", pk.PkgPath, e)
				nerr++
			}
		}
	})
	if nerr > 0 {
		brokenf("%d load/type errors in repository packages", nerr)
	}
	for _, pk := range pkgs {
		if !strings.HasPrefix(pk.PkgPath, modPath) {
			continue
		}
		if pk.Types == nil || pk.TypesInfo == nil || len(pk.Syntax) == 0 {
			brokenf("package %s has no syntax/types", pk.PkgPath)
		}
		p.Pkgs = append(p.Pkgs, pk)
		p.ByPath[pk.PkgPath] = pk
		p.Fset = pk.Fset
	}
	sort.Slice(p.Pkgs, func(i, j int) bool { return p.Pkgs[i].PkgPath < p.Pkgs[j].PkgPath })
	bmode := ssa.InstantiateGenerics
	var prog *ssa.Program
	if whole {
		prog, _ = ssautil.AllPackages(pkgs, bmode)
	} else {
		prog, _ = ssautil.Packages(pkgs, bmode)
	}
	prog.Build()
	p.SSA = prog
	for _, pk := range p.Pkgs {
		sp := prog.Package(pk.Types)
		if sp == nil {
			brokenf("no SSA package for %s", pk.PkgPath)
		}
		p.SSAPkgs[pk.PkgPath] = sp
	}
	// collect functions of repo packages
	seen := map[*ssa.Function]bool{}
	var add func(f *ssa.Function)
	add = func(f *ssa.Function) {
		if f == nil || seen[f] {
			return
		}
		seen[f] = true
		if f.Blocks != nil {
			p.AllFuncs = append(p.AllFuncs, f)
		}
		for _, a := range f.AnonFuncs {
			add(a)
		}
	}
	for _, pk := range p.Pkgs {
		sp := p.SSAPkgs[pk.PkgPath]
		for _, m := range sp.Members {
			switch m := m.(type) {
			case *ssa.Function:
				add(m)
				if fo, ok := m.Object().(*types.Func); ok {
					p.fnOfObj[fo] = m
				}
			case *ssa.Type:
				for _, T := range []types.Type{m.Type(), types.NewPointer(m.Type())} {
					ms := prog.MethodSets.MethodSet(T)
					for i := 0; i < ms.Len(); i++ {
						fn := prog.MethodValue(ms.At(i))
						if fn == nil {
							continue
						}
						// only methods declared in the repo (skip promoted wrappers of foreign methods w/o syntax)
						if fn.Pkg == sp || (fn.Synthetic != "" && fn.Blocks != nil && declaredInRepo(fn)) {
							add(fn)
							if fo, ok := fn.Object().(*types.Func); ok && fn.Synthetic == "" {
								p.fnOfObj[fo] = fn
							}
						}
					}
				}
			}
		}
	}
	sort.Slice(p.AllFuncs, func(i, j int) bool { return funcName(p.AllFuncs[i]) < funcName(p.AllFuncs[j]) })
	p.LoadSecs = time.Since(start).Seconds()
	gp = p
	return p
}

func declaredInRepo(fn *ssa.Function) bool {
	if fn.Object() != nil && fn.Object().Pkg() != nil {
		return strings.HasPrefix(fn.Object().Pkg().Path(), modPath)
	}
	return false
}

// funcName is a stable, package-qualified name: "pkg/backend.(*backend).update" / "pkg/backend.(*backend).Create$1".
func funcName(f *ssa.Function) string {
	if f == nil {
		return "<nil>"
	}
	s := f.String()
	s = strings.ReplaceAll(s, modPath+"/", "")
	return s
}

func (p *Prog) pos(pos token.Pos) string {
	if !pos.IsValid() {
		return "-"
	}
	ps := p.Fset.Position(pos)
	f := strings.TrimPrefix(ps.Filename, p.Repo+"/")
	return fmt.Sprintf("%s:%d", f, ps.Line)
}

// ---- lookup by type / role ----

func (p *Prog) pkg(rel string) *packages.Package {
	pk := p.ByPath[modPath+"/"+rel]
	if pk == nil {
		brokenf("anchor package %s not found", rel)
	}
	return pk
}

func (p *Prog) ssaPkg(rel string) *ssa.Package {
	p.pkg(rel)
	return p.SSAPkgs[modPath+"/"+rel]
}

// namedType looks up a named type in a repo package (or any loaded package by full path).
func (p *Prog) namedType(pkgPath, name string) *types.Named {
	var tp *types.Package
	if pk := p.ByPath[modPath+"/"+pkgPath]; pk != nil {
		tp = pk.Types
	} else {
		for _, sp := range p.SSA.AllPackages() {
			if sp.Pkg.Path() == pkgPath {
				tp = sp.Pkg
			}
		}
	}
	if tp == nil {
		brokenf("package %s not found", pkgPath)
	}
	obj := tp.Scope().Lookup(name)
	if obj == nil {
		brokenf("type %s.%s not found", pkgPath, name)
	}
	n, ok := obj.Type().(*types.Named)
	if !ok {
		brokenf("%s.%s is not a named type", pkgPath, name)
	}
	return n
}

// ifaceMethod returns the *types.Func of method name of interface type pkg.name (searching embedded interfaces).
func (p *Prog) ifaceMethod(pkgPath, tname, mname string) *types.Func {
	n := p.namedType(pkgPath, tname)
	it, ok := n.Underlying().(*types.Interface)
	if !ok {
		brokenf("%s.%s is not an interface", pkgPath, tname)
	}
	for i := 0; i < it.NumMethods(); i++ {
		if it.Method(i).Name() == mname {
			return it.Method(i)
		}
	}
	brokenf("interface %s.%s has no method %s", pkgPath, tname, mname)
	return nil
}

// fn returns the SSA function for a package-level function.
func (p *Prog) fn(pkgPath, name string) *ssa.Function {
	sp := p.ssaPkg(pkgPath)
	f := sp.Func(name)
	if f == nil {
		brokenf("function %s.%s not found", pkgPath, name)
	}
	return f
}

// method returns the SSA function of method mname declared on named type tname (pointer or value receiver).
func (p *Prog) method(pkgPath, tname, mname string) *ssa.Function {
	f := p.methodOrNil(pkgPath, tname, mname)
	if f == nil {
		brokenf("method %s.%s.%s not found", pkgPath, tname, mname)
	}
	return f
}

func (p *Prog) methodOrNil(pkgPath, tname, mname string) *ssa.Function {
	n := p.namedType(pkgPath, tname)
	for _, T := range []types.Type{types.NewPointer(n), n} {
		sel := p.SSA.MethodSets.MethodSet(T).Lookup(n.Obj().Pkg(), mname)
		if sel != nil {
			if f := p.SSA.MethodValue(sel); f != nil {
				return f
			}
		}
	}
	return nil
}

// implementations of an interface method among repo-declared concrete types (non-synthetic bodies preferred).
func (p *Prog) implsOf(m *types.Func) []*ssa.Function {
	if p.impls == nil {
		p.impls = map[*types.Func][]*ssa.Function{}
	}
	if r, ok := p.impls[m]; ok {
		return r
	}
	recvIface, _ := m.Type().(*types.Signature).Recv().Type().Underlying().(*types.Interface)
	var out []*ssa.Function
	seen := map[*ssa.Function]bool{}
	for _, pk := range p.Pkgs {
		sp := p.SSAPkgs[pk.PkgPath]
		var names []string
		for n := range sp.Members {
			names = append(names, n)
		}
		sort.Strings(names)
		for _, nme := range names {
			t, ok := sp.Members[nme].(*ssa.Type)
			if !ok {
				continue
			}
			if _, isIface := t.Type().Underlying().(*types.Interface); isIface {
				continue
			}
			for _, T := range []types.Type{types.NewPointer(t.Type()), t.Type()} {
				if recvIface != nil && !types.Implements(T, recvIface) {
					continue
				}
				sel := p.SSA.MethodSets.MethodSet(T).Lookup(m.Pkg(), m.Name())
				if sel == nil {
					continue
				}
				f := p.SSA.MethodValue(sel)
				if f != nil && !seen[f] {
					seen[f] = true
					out = append(out, f)
				}
				break
			}
		}
	}
	p.impls[m] = out
	return out
}

// calleeOf resolves a call instruction to (static callee, interface method).
func calleeOf(c ssa.CallInstruction) (*ssa.Function, *types.Func) {
	cc := c.Common()
	if cc.IsInvoke() {
		return nil, cc.Method
	}
	return cc.StaticCallee(), nil
}

// isCallTo reports whether call c invokes interface method m or statically calls a function whose object is m,
// or a concrete method implementing m declared in the repo.
func (p *Prog) isCallToMethod(c ssa.CallInstruction, m *types.Func) bool {
	sc, im := calleeOf(c)
	if im != nil {
		return im == m || (im.Name() == m.Name() && sameIfaceMethod(im, m))
	}
	if sc != nil {
		if sc.Object() == m {
			return true
		}
		for _, impl := range p.implsOf(m) {
			if impl == sc {
				return true
			}
		}
	}
	return false
}

// sameIfaceMethod: method objects of an interface embedded into another are identical objects in go/types,
// so pointer equality normally suffices; this handles re-declared identical signatures conservatively (false).
func sameIfaceMethod(a, b *types.Func) bool { return a == b }

// enclosingFuncDecl finds the AST function declaration for an SSA function (nil for synthetic).
func (p *Prog) syntaxOf(f *ssa.Function) ast.Node { return f.Syntax() }

// ---- call graph (repo-local) ----

// buildCallers indexes call sites in repo functions by resolved callee: static callees, and for interface
// invokes every repo implementation of the method (class-hierarchy resolution restricted to the repo).
func (p *Prog) buildCallers() {
	if p.callers != nil {
		return
	}
	p.callers = map[*ssa.Function][]ssa.CallInstruction{}
	for _, f := range p.AllFuncs {
		for _, b := range f.Blocks {
			for _, ins := range b.Instrs {
				c, ok := ins.(ssa.CallInstruction)
				if !ok {
					continue
				}
				for _, callee := range p.calleesOf(c) {
					p.callers[callee] = append(p.callers[callee], c)
				}
			}
		}
	}
}

// calleesOf returns the possible repo callees of a call: static callee, closure target, implementations of
// the invoked interface method, or functions bound to a func-typed value (resolved through MakeClosure / function
// constants; func-valued struct fields resolved through their stores).
func (p *Prog) calleesOf(c ssa.CallInstruction) []*ssa.Function {
	cc := c.Common()
	if cc.IsInvoke() {
		return p.implsOf(cc.Method)
	}
	if sc := cc.StaticCallee(); sc != nil {
		return []*ssa.Function{sc}
	}
	return p.funcValues(cc.Value, 0)
}

// funcValues resolves a func-typed SSA value to the set of functions it may denote (bounded).
func (p *Prog) funcValues(v ssa.Value, depth int) []*ssa.Function {
	if depth > 6 {
		return nil
	}
	switch v := v.(type) {
	case *ssa.Function:
		return []*ssa.Function{unwrapSynthetic(v)}
	case *ssa.MakeClosure:
		if f, ok := v.Fn.(*ssa.Function); ok {
			// a method value x.m is a closure over the synthetic bound-method wrapper: name the method itself
			return []*ssa.Function{unwrapSynthetic(f)}
		}
	case *ssa.ChangeType:
		return p.funcValues(v.X, depth+1)
	case *ssa.Phi:
		var out []*ssa.Function
		for _, e := range v.Edges {
			out = append(out, p.funcValues(e, depth+1)...)
		}
		return out
	case *ssa.UnOp:
		if v.Op == token.MUL {
			// load: from a field address -> all stores to that field; from a local cell -> its stores
			if fa, ok := v.X.(*ssa.FieldAddr); ok {
				var out []*ssa.Function
				for _, sv := range p.fieldStores(fieldOf(fa)) {
					out = append(out, p.funcValues(sv, depth+1)...)
				}
				return out
			}
			if al, ok := v.X.(*ssa.Alloc); ok {
				var out []*ssa.Function
				for _, r := range *al.Referrers() {
					if st, ok := r.(*ssa.Store); ok && st.Addr == al {
						out = append(out, p.funcValues(st.Val, depth+1)...)
					}
				}
				return out
			}
			if g, ok := v.X.(*ssa.Global); ok {
				// package-level function variable: every function stored into it anywhere in the repo
				var out []*ssa.Function
				for _, sv := range p.globalStores(g) {
					out = append(out, p.funcValues(sv, depth+1)...)
				}
				return out
			}
			if fv, ok := v.X.(*ssa.FreeVar); ok {
				// captured variable: find binding in MakeClosure sites
				var out []*ssa.Function
				for _, b := range p.freeVarBindings(fv) {
					if al, ok := b.(*ssa.Alloc); ok {
						for _, r := range *al.Referrers() {
							if st, ok := r.(*ssa.Store); ok && st.Addr == al {
								out = append(out, p.funcValues(st.Val, depth+1)...)
							}
						}
					}
				}
				return out
			}
		}
	case *ssa.Parameter:
		var out []*ssa.Function
		fn := v.Parent()
		idx := paramIndex(v)
		p.buildCallersLite()
		for _, cs := range p.staticCallers[fn] {
			args := cs.Common().Args
			if idx < len(args) {
				out = append(out, p.funcValues(args[idx], depth+1)...)
			}
		}
		return out
	case *ssa.FreeVar:
		var out []*ssa.Function
		for _, b := range p.freeVarBindings(v) {
			out = append(out, p.funcValues(b, depth+1)...)
		}
		return out
	}
	return nil
}

func paramIndex(v *ssa.Parameter) int {
	for i, q := range v.Parent().Params {
		if q == v {
			return i
		}
	}
	return -1
}

// freeVarBindings returns the values bound to a free variable at every MakeClosure of its function.
func (p *Prog) freeVarBindings(fv *ssa.FreeVar) []ssa.Value {
	fn := fv.Parent()
	idx := -1
	for i, q := range fn.FreeVars {
		if q == fv {
			idx = i
		}
	}
	var out []ssa.Value
	if fn.Parent() == nil || idx < 0 {
		return nil
	}
	for _, b := range fn.Parent().Blocks {
		for _, ins := range b.Instrs {
			if mc, ok := ins.(*ssa.MakeClosure); ok && mc.Fn == fn {
				out = append(out, mc.Bindings[idx])
			}
		}
	}
	return out
}

// reachableFromMain computes an RTA-style over-approximation of the repo functions reachable from cmd.main and the
// package initialisers: static calls, closures, function values, interface invokes resolved over the repo's
// concrete types, and every method of a concrete type that is converted to an interface in reachable code.
func (p *Prog) reachableFromMain() map[*ssa.Function]bool {
	if p.reach != nil {
		return p.reach
	}
	reach := map[*ssa.Function]bool{}
	var work []*ssa.Function
	add := func(f *ssa.Function) {
		if f == nil || reach[f] {
			return
		}
		reach[f] = true
		work = append(work, f)
	}
	mainPkg := p.SSAPkgs[modPath+"/cmd"]
	if mainPkg == nil || mainPkg.Func("main") == nil {
		brokenf("package cmd / func main not found")
	}
	add(mainPkg.Func("main"))
	for _, sp := range p.SSAPkgs {
		add(sp.Func("init"))
	}
	addMethods := func(T types.Type) {
		n, ok := T.(*types.Named)
		if pt, isPtr := T.(*types.Pointer); isPtr {
			n, ok = pt.Elem().(*types.Named)
		}
		if !ok || n.Obj().Pkg() == nil || !strings.HasPrefix(n.Obj().Pkg().Path(), modPath) {
			return
		}
		for _, TT := range []types.Type{T, types.NewPointer(n)} {
			ms := p.SSA.MethodSets.MethodSet(TT)
			for i := 0; i < ms.Len(); i++ {
				add(p.SSA.MethodValue(ms.At(i)))
			}
		}
	}
	for len(work) > 0 {
		f := work[0]
		work = work[1:]
		for _, b := range f.Blocks {
			for _, ins := range b.Instrs {
				for _, op := range ins.Operands(nil) {
					if op == nil || *op == nil {
						continue
					}
					if fn, ok := (*op).(*ssa.Function); ok {
						add(fn)
					}
				}
				switch x := ins.(type) {
				case *ssa.MakeClosure:
					add(x.Fn.(*ssa.Function))
				case *ssa.MakeInterface:
					addMethods(x.X.Type())
				case ssa.CallInstruction:
					if x.Common().IsInvoke() {
						for _, impl := range p.implsOf(x.Common().Method) {
							add(impl)
						}
					}
				}
			}
		}
	}
	p.reach = reach
	return reach
}

// requestEntries: the functions through which a client request enters the node: the repo's implementations of the
// gRPC service interfaces (interfaces named *Server of the etcd and kubebrain API packages) and every function or
// function literal with the net/http handler signature.
func (p *Prog) requestEntries() []*ssa.Function {
	var out []*ssa.Function
	seen := map[*ssa.Function]bool{}
	add := func(f *ssa.Function) {
		if f != nil && !seen[f] && f.Blocks != nil {
			seen[f] = true
			out = append(out, f)
		}
	}
	var ifaces []*types.Interface
	for _, pk := range p.SSA.AllPackages() {
		pp := pk.Pkg.Path()
		if !strings.HasSuffix(pp, "etcdserverpb") && !strings.Contains(pp, "kubebrain-client/api") {
			continue
		}
		sc := pk.Pkg.Scope()
		for _, n := range sc.Names() {
			tn, ok := sc.Lookup(n).(*types.TypeName)
			if !ok || !strings.HasSuffix(n, "Server") {
				continue
			}
			if it, ok := tn.Type().Underlying().(*types.Interface); ok && it.NumMethods() > 0 {
				ifaces = append(ifaces, it)
			}
		}
	}
	for _, sp := range p.SSAPkgs {
		sc := sp.Pkg.Scope()
		for _, n := range sc.Names() {
			tn, ok := sc.Lookup(n).(*types.TypeName)
			if !ok {
				continue
			}
			if _, isIface := tn.Type().Underlying().(*types.Interface); isIface {
				continue
			}
			T := types.NewPointer(tn.Type())
			for _, it := range ifaces {
				if !types.Implements(T, it) {
					continue
				}
				ms := p.SSA.MethodSets.MethodSet(T)
				for i := 0; i < it.NumMethods(); i++ {
					if sel := ms.Lookup(it.Method(i).Pkg(), it.Method(i).Name()); sel != nil {
						add(unwrapSynthetic(p.SSA.MethodValue(sel)))
					}
				}
			}
		}
	}
	for _, f := range p.AllFuncs {
		sig := f.Signature
		if sig.Params().Len() == 2 && isNamed(sig.Params().At(0).Type(), "net/http", "ResponseWriter") {
			if pt, ok := sig.Params().At(1).Type().(*types.Pointer); ok && isNamed(pt.Elem(), "net/http", "Request") {
				add(f)
			}
		}
	}
	sort.Slice(out, func(i, j int) bool { return funcName(out[i]) < funcName(out[j]) })
	return out
}

// requestReachable: over-approximation of the repo functions that can run on behalf of a request: forward closure
// of requestEntries over static calls, interface invokes (every repo implementation), function values, created
// closures, go and defer statements.
func (p *Prog) requestReachable() map[*ssa.Function]bool {
	if p.reqReach != nil {
		return p.reqReach
	}
	reach := map[*ssa.Function]bool{}
	var work []*ssa.Function
	add := func(f *ssa.Function) {
		if f == nil || reach[f] || f.Blocks == nil {
			return
		}
		top := f
		for top.Parent() != nil {
			top = top.Parent()
		}
		if top.Pkg == nil || !strings.HasPrefix(top.Pkg.Pkg.Path(), modPath) {
			return
		}
		reach[f] = true
		work = append(work, f)
	}
	for _, f := range p.requestEntries() {
		add(f)
	}
	for len(work) > 0 {
		f := work[0]
		work = work[1:]
		for _, b := range f.Blocks {
			for _, ins := range b.Instrs {
				switch x := ins.(type) {
				case ssa.CallInstruction:
					for _, g := range p.calleesOf(x) {
						add(g)
					}
					if sc := x.Common().StaticCallee(); sc != nil {
						add(sc)
					}
					for _, a := range x.Common().Args {
						if _, isFn := a.Type().Underlying().(*types.Signature); isFn {
							for _, g := range p.funcValues(a, 0) {
								add(g)
							}
						}
					}
				case *ssa.MakeClosure:
					if g, ok := x.Fn.(*ssa.Function); ok {
						add(g)
						add(unwrapSynthetic(g))
					}
				}
			}
		}
	}
	p.reqReach = reach
	return reach
}

// globalStores: the values stored into a package-level variable by any repo function (including initialisers).
func (p *Prog) globalStores(g *ssa.Global) []ssa.Value {
	if p.globStores == nil {
		p.globStores = map[*ssa.Global][]ssa.Value{}
		for _, f := range p.allFuncsWithInit() {
			for _, b := range f.Blocks {
				for _, ins := range b.Instrs {
					if st, ok := ins.(*ssa.Store); ok {
						if gg, ok := st.Addr.(*ssa.Global); ok {
							p.globStores[gg] = append(p.globStores[gg], st.Val)
						}
					}
				}
			}
		}
	}
	return p.globStores[g]
}

// subResult evaluates the rules of another property once per run (rules imported by several properties, and by
// imports of imports, would otherwise be recomputed many times).
func (p *Prog) subResult(id, tier string) *Result {
	if p.subCache == nil {
		p.subCache = map[string]*Result{}
	}
	if r, ok := p.subCache[id]; ok {
		return r
	}
	r := newResult(id)
	registry[id](p, r, tier)
	p.subCache[id] = r
	return r
}
