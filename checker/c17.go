package main

import (
	"fmt"
	"go/token"
	"go/types"
	"strings"

	"golang.org/x/tools/go/ssa"
)

func init() { register("C17", checkC17) }

func isPkgCall(v ssa.Value, pkg string, names ...string) *ssa.Call {
	c, ok := v.(*ssa.Call)
	if !ok {
		return nil
	}
	sc := c.Common().StaticCallee()
	if sc == nil || sc.Pkg == nil || sc.Pkg.Pkg.Path() != pkg {
		return nil
	}
	for _, n := range names {
		if sc.Name() == n {
			return c
		}
	}
	return nil
}

// prefixProvenance: v derives from field fld (Config.Prefix) through string/byte helpers.
func derivesFromField(p *Prog, v ssa.Value, fld *types.Var, depth int) bool {
	return derivesFromCallArgs(p, v, func(x ssa.Value) bool {
		// load of the field
		if ld, ok := x.(*ssa.UnOp); ok && ld.Op == token.MUL {
			if fa, ok := ld.X.(*ssa.FieldAddr); ok && fieldOf(fa) == fld {
				return true
			}
		}
		// call of a repo helper whose result derives from its parameter, with an argument deriving from the field
		if c, ok := x.(*ssa.Call); ok && depth < 3 {
			if sc := c.Common().StaticCallee(); sc != nil && sc.Blocks != nil && strings.HasPrefix(sc.Pkg.Pkg.Path(), modPath) {
				for i, a := range c.Common().Args {
					if i < len(sc.Params) && derivesFromField(p, a, fld, depth+1) {
						return true
					}
				}
			}
		}
		return false
	})
}

// c17NoImports: evaluate only C17's own rules (set while another property imports them, to keep imports acyclic)
var c17NoImports bool

func checkC17(p *Prog, res *Result, tier string) {
	r := p.roles()
	res.Explanation = "R1 anchored classification: both places that decide 'this key is a Kubernetes Event' — the branch that hands a TTL to the engine on create and the guard of the expiry deletes in the compaction scan — test bytes.HasPrefix(key, P) (never a substring search) where P derives from the configured key prefix through one and the same constructor, whose result provably ends with the path separator (append / concatenation of a constant that ends in '/'), so sibling directories such as '<prefix>/eventsinks' or keys merely containing '/events/' are not classified. R2 age guard: every expiry delete is dominated by 'revision <= timeoutRevision', and the timeout revision is produced only by the function that pops compaction marks that are older than the TTL (the mark-age test precedes every pop). R3 the index record is removed by compare-and-delete and version records by delete. R4 the scanner never reaches the event sink or the hub (expiry is silent). R5 the expiry code returns early on engines with native TTL, and create passes a non-zero TTL only through the classified branch."
	res.NotDecided = "wall-clock ageing; expiry on engines with native TTL (memkv's timer is unconditional on later updates); whether a whole key (index and all versions) is removed in one pass under failures (C07-R4 discipline)."
	res.Assumptions = []string{"Kubernetes Event keys are <prefix>/events/<namespace>/<name>"}
	res.rule("C17-R1", "event classification is an anchored HasPrefix on a prefix derived from the configured prefix by one shared constructor ending in '/'", 4)
	res.rule("C17-R2", "expiry deletes are guarded by revision <= timeoutRevision; marks are popped only when older than the TTL", 3)
	res.rule("C17-R3", "index by compare-and-delete, versions by delete", 2)
	res.rule("C17-R4", "no function of the scanner package reaches the event sink or the hub", 1)
	res.rule("C17-R8", "an engine with native TTL (where the expiry worker is disabled, R5) expires every record of an event: each write form hands the ttl to the engine (C11-R10)", 6)
	res.rule("C17-R7", "every adapter compares before it deletes in its compare-and-delete (C11-R1): expiry relies on it for index records", 3)
	res.rule("C17-R6", "expiry deletes follow the worker's failed-delete discipline with the record's user key, so that an event is removed wholly or its remaining records are left alone (C07-R4)", 2)
	res.rule("C17-R9", "the index record and the version record of one write carry the same TTL: an Event expires wholly", 4)
	res.rule("C17-R10", "a compaction mark (revision, time logged) is immutable: its fields are written where it is made and nowhere else - 'older than the TTL' on engines without native TTL is read off these pairs", 1)
	res.rule("C17-R12", "the key whose delete failed is remembered for the rest of the scan: the worker's marker field is never cleared inside a loop (the guard that passes over the remaining records of that key reads it)", 1)
	res.rule("C17-R11", "the age of a compaction mark is compared with the TTL as measured (time.Since of the mark's time), not rounded or truncated", 1)
	res.rule("C17-R5", "expiry disabled on engines with native TTL; TTL handed to the engine only on the classified branch", 2)

	prefixF := p.structField("pkg/backend", "Config", "Prefix")
	// the scanner-side copy of the events prefix: the []byte field of scanner.Config other than the compaction key
	// and the tombstone that is fed from a function of the configured prefix (absent when the scanner does not get
	// the prefix at all, in which case its predicate cannot be anchored and is reported below)
	var scanPrefixF *types.Var
	if st, ok := p.namedType("pkg/backend/scanner", "Config").Underlying().(*types.Struct); ok {
		for i := 0; i < st.NumFields(); i++ {
			f := st.Field(i)
			if _, isSlice := f.Type().Underlying().(*types.Slice); !isSlice {
				continue
			}
			for _, v := range p.fieldStores(f) {
				if c, ok := resolve(v).(*ssa.Call); ok && c.Common().StaticCallee() != nil && len(c.Common().Args) == 1 &&
					derivesFromField(p, c.Common().Args[0], prefixF, 0) && !strings.Contains(strings.ToLower(f.Name()), "compact") {
					scanPrefixF = f
				}
			}
		}
	}
	createTTL := p.ifaceMethod("pkg/backend/creator", "Creator", "CreateWithTTL")

	// constructor(s) feeding the scanner config
	ctors := map[*ssa.Function]bool{}
	if scanPrefixF != nil {
		for _, v := range p.fieldStores(scanPrefixF) {
			if c, ok := resolve(v).(*ssa.Call); ok {
				if sc := c.Common().StaticCallee(); sc != nil {
					ctors[sc] = true
				}
			}
		}
	}

	// ---- classification sites ----
	type site struct {
		name string
		fn   *ssa.Function
		call *ssa.Call // the predicate call
		pos  token.Pos
	}
	var sites []site
	// (1) create: branch selecting CreateWithTTL
	for _, f := range p.AllFuncs {
		if f.Pkg != p.ssaPkg("pkg/backend") {
			continue
		}
		for _, c := range callsIn(f) {
			if !p.isCallToMethod(c, createTTL) || !c.Common().IsInvoke() {
				continue
			}
			found := false
			for _, cf := range dominatingFacts(c.Block()) {
				if cf.Call != nil && cf.Want {
					sites = append(sites, site{"create path: " + funcName(f), f, cf.Call, c.Pos()})
					found = true
				}
			}
			if !found {
				res.bad("C17-R1", "create path: "+funcName(f)+": classification predicate", p.pos(c.Pos()), "a TTL is handed to the engine without an event-key test")
			}
		}
	}
	// (2) expiry deletes: call chains from the function that consults SupportTTL down to an engine delete
	var expiry *ssa.Function
	spk := p.ssaPkg("pkg/backend/scanner")
	isEngineDelete := func(ins ssa.Instruction) bool {
		c, ok := ins.(ssa.CallInstruction)
		return ok && c.Common().IsInvoke() && (c.Common().Method == r.KVDel || c.Common().Method == r.KVDelCurrent)
	}
	inScanner := func(f *ssa.Function) bool { return f.Pkg == spk }
	var expChains []callChain
	// the expiry function: the scanner function that reads the worker's timeout revision and from which an engine
	// delete is reachable (whether it consults SupportTTL is R5's question, not part of the role)
	toF := p.structField("pkg/backend/scanner", "workerConfig", "timeoutRevision")
	for _, f := range p.AllFuncs {
		if f.Pkg != spk || f.Synthetic != "" || f.Parent() != nil {
			continue
		}
		reads := false
		for _, b := range f.Blocks {
			for _, ins := range b.Instrs {
				if fa, ok := ins.(*ssa.FieldAddr); ok && fieldOf(fa) == toF {
					for _, ref := range *fa.Referrers() {
						if u, ok := ref.(*ssa.UnOp); ok && u.Op == token.MUL {
							reads = true
						}
					}
				}
			}
		}
		if !reads {
			continue
		}
		chs := enumerateChains(p, f, isEngineDelete, inScanner, 5)
		if len(chs) > 0 {
			expiry, expChains = f, chs
		}
	}
	if expiry == nil {
		res.und("C17-R1", "expiry function", "-", "no scanner function that consults SupportTTL and deletes")
		return
	}
	type delSite struct {
		call ssa.CallInstruction // the engine delete
		kind string
		ch   callChain
	}
	var dels []delSite
	for _, ch := range expChains {
		e := ch.target.(ssa.CallInstruction)
		k := "Del"
		if e.Common().Method == r.KVDelCurrent {
			k = "DelCurrent"
		}
		dels = append(dels, delSite{e, k, ch})
	}
	for i, d := range dels {
		found := false
		for _, cf := range d.ch.facts() {
			if cf.Call != nil && cf.Want {
				if sc := cf.Call.Common().StaticCallee(); sc != nil && sc.Pkg != nil && (sc.Pkg.Pkg.Path() == "bytes" || sc.Pkg.Pkg.Path() == "strings") {
					sites = append(sites, site{fmt.Sprintf("expiry delete #%d: %s", i+1, funcName(expiry)), expiry, cf.Call, d.call.Pos()})
					found = true
				}
			}
		}
		if !found {
			res.bad("C17-R1", fmt.Sprintf("expiry delete #%d: %s: classification predicate", i+1, funcName(expiry)), p.pos(d.call.Pos()), "an expiry delete is not guarded by an event-key test: "+d.ch.String())
		}
	}
	siteCtor := map[string]*ssa.Function{}
	for _, s := range sites {
		construct := s.name + ": classification predicate"
		sc := s.call.Common().StaticCallee()
		if sc == nil || !(sc.Pkg.Pkg.Path() == "bytes" || sc.Pkg.Pkg.Path() == "strings") || sc.Name() != "HasPrefix" {
			name := "<dynamic>"
			if sc != nil {
				name = sc.Pkg.Pkg.Name() + "." + sc.Name()
			}
			res.bad("C17-R1", construct, p.pos(s.call.Pos()), "events are classified by "+name+" instead of an anchored bytes.HasPrefix on '<prefix>/events/': a key that merely contains an events path segment is given a TTL / expired")
			continue
		}
		pat := s.call.Common().Args[1]
		// provenance: config prefix -> constructor -> (scanner config field -> worker field)
		var ctor *ssa.Function
		ok := false
		vals := []ssa.Value{p.resolveDeep(pat)}
		for depth := 0; depth < 4 && !ok; depth++ {
			var next []ssa.Value
			for _, v := range vals {
				if c, isC := v.(*ssa.Call); isC {
					if sc2 := c.Common().StaticCallee(); sc2 != nil && ctors[sc2] {
						if derivesFromField(p, c.Common().Args[0], prefixF, 0) {
							ctor, ok = sc2, true
						}
						continue
					}
				}
				if ld, isL := v.(*ssa.UnOp); isL && ld.Op == token.MUL {
					if fa, isF := ld.X.(*ssa.FieldAddr); isF {
						for _, sv := range p.fieldStores(fieldOf(fa)) {
							next = append(next, p.resolveDeep(sv))
						}
					}
				}
			}
			vals = next
		}
		if !ok {
			res.bad("C17-R1", construct, p.pos(s.call.Pos()), "the tested prefix does not derive from the configured key prefix through the shared events-prefix constructor")
			continue
		}
		siteCtor[s.name] = ctor
		res.ok("C17-R1", construct, p.pos(s.call.Pos()), "bytes.HasPrefix(key, "+funcName(ctor)+"(Config.Prefix))")
	}
	// agreement + constructor shape
	var one *ssa.Function
	agree := len(siteCtor) >= 2
	for _, c := range siteCtor {
		if one == nil {
			one = c
		} else if one != c {
			agree = false
		}
	}
	if agree {
		res.ok("C17-R1", "create path and expiry scan use the same prefix constructor", p.pos(one.Pos()), funcName(one))
	} else {
		res.bad("C17-R1", "create path and expiry scan use the same prefix constructor", "-", "the write side and the compaction side classify event keys differently")
	}
	for c := range ctors {
		construct := funcName(c) + ": result ends with the path separator"
		good := len(c.Blocks) > 0
		for _, b := range c.Blocks {
			ret, ok := b.Instrs[len(b.Instrs)-1].(*ssa.Return)
			if !ok {
				continue
			}
			if !endsWithSlash(p, ret.Results[0], 0) {
				good = false
			}
		}
		if good {
			res.ok("C17-R1", construct, p.pos(c.Pos()), "append / concatenation whose last component is a constant ending in '/'")
		} else {
			res.bad("C17-R1", construct, p.pos(c.Pos()), "the events prefix is not provably terminated by '/' (e.g. path.Join cleans a trailing slash): '<prefix>/events' also matches sibling directories such as '<prefix>/eventsinks/...' or '<prefix>/events.example.io/...'")
		}
	}

	// ---- R2 ----
	timeoutF := p.structField("pkg/backend/scanner", "workerConfig", "timeoutRevision")
	for i, d := range dels {
		construct := fmt.Sprintf("%s: age guard of expiry delete #%d", funcName(expiry), i+1)
		good, pinned := false, false
		for _, cf := range d.ch.facts() {
			if cf.X == nil {
				continue
			}
			isTO := func(v ssa.Value) bool {
				ld, ok := resolve(v).(*ssa.UnOp)
				if !ok {
					return false
				}
				fa, ok := ld.X.(*ssa.FieldAddr)
				return ok && fieldOf(fa) == timeoutF
			}
			// the compared revision is a free quantity on that path: a branch condition that fixes it to a constant
			// (if revision == 0 { .. if revision <= timeout ..) makes the guard a constant
			pinnedBy := func(v ssa.Value, level int) bool {
				for _, c2 := range d.ch.facts() {
					if c2.X == nil || c2.level != level || resolve(c2.X) != resolve(v) {
						continue
					}
					if _, isConst := resolve(c2.Y).(*ssa.Const); isConst && ((c2.Op == token.EQL && c2.Want) || (c2.Op == token.NEQ && !c2.Want)) {
						return true
					}
				}
				return false
			}
			if isTO(cf.Y) && !isZeroConst(cf.X) && ((cf.Op == token.LEQ && cf.Want) || (cf.Op == token.GTR && !cf.Want) || (cf.Op == token.LSS && cf.Want)) {
				if pinnedBy(cf.X, cf.level) {
					pinned = true
				} else {
					good = true
				}
			}
			if isTO(cf.X) && ((cf.Op == token.GEQ && cf.Want) || (cf.Op == token.LSS && !cf.Want) || (cf.Op == token.GTR && cf.Want)) {
				if pinnedBy(cf.Y, cf.level) {
					pinned = true
				} else {
					good = true
				}
			}
		}
		if pinned && !good {
			res.bad("C17-R2", construct, p.pos(d.call.Pos()), "the age guard compares a value that the enclosing branch has fixed to a constant (the decoded revision of an index record is 0) with the timeout revision, so it holds for every record: events younger than the TTL lose their index record")
		} else if good {
			res.ok("C17-R2", construct, p.pos(d.call.Pos()), "guarded by revision <= timeoutRevision")
		} else {
			res.bad("C17-R2", construct, p.pos(d.call.Pos()), "an event record is removed without the guard revision <= timeoutRevision: events younger than the TTL can be expired")
		}
	}
	// producer of the timeout revision: pops only after the age test
	producers := map[*ssa.Function]bool{}
	for _, st := range p.fields().stores[timeoutF] {
		for _, v := range allCellValues(p, st.Val) {
			if c, _, ok := extractOf(v); ok {
				if g := c.Common().StaticCallee(); g != nil && g.Blocks != nil {
					producers[g] = true
				}
			} else if !isZeroConst(v) {
				if _, isParam := v.(*ssa.Parameter); !isParam {
					res.bad("C17-R2", "timeout revision: produced by the mark-popping function only", p.pos(st.Pos()), "the timeout revision of a scan worker is assigned a value that is neither 0 nor the result of the compaction-mark function")
				}
			}
		}
	}
	for g := range producers {
		construct := funcName(g) + ": marks are popped only when older than the TTL"
		ttlF := p.structField("pkg/backend/scanner", "Config", "TTL")
		n, bad := 0, false
		// the loop over the marks may live in a helper of the producer: the producer's region is the function plus the
		// same-package functions it calls (two levels)
		region := []*ssa.Function{g}
		inRegion := map[*ssa.Function]bool{g: true}
		for lvl, frontier := 0, []*ssa.Function{g}; lvl < 2; lvl++ {
			var next []*ssa.Function
			for _, f := range frontier {
				for _, c := range callsIn(f) {
					if sc := c.Common().StaticCallee(); sc != nil && sc.Pkg == g.Pkg && sc.Blocks != nil && !inRegion[sc] && sc.Signature.Recv() != nil && types.Identical(sc.Signature.Recv().Type(), g.Signature.Recv().Type()) {
						inRegion[sc] = true
						region = append(region, sc)
						next = append(next, sc)
					}
				}
			}
			frontier = next
		}
		var regionCalls []ssa.CallInstruction
		for _, f := range region {
			regionCalls = append(regionCalls, callsIn(f)...)
		}
		for _, pc := range regionCalls {
			sc := pc.Common().StaticCallee()
			if sc == nil || sc.Name() != "pop" && !isListPop(sc) {
				continue
			}
			n++
			good := false
			for _, cf := range dominatingFacts(pc.Block()) {
				if cf.X == nil {
					continue
				}
				isTTL := func(v ssa.Value) bool {
					ld, ok := resolve(v).(*ssa.UnOp)
					if !ok {
						return false
					}
					fa, ok := ld.X.(*ssa.FieldAddr)
					return ok && fieldOf(fa) == ttlF
				}
				// interval < TTL is false (interval >= TTL)
				if isTTL(cf.Y) && ((cf.Op == token.LSS && !cf.Want) || (cf.Op == token.GEQ && cf.Want) || (cf.Op == token.GTR && cf.Want)) {
					good = true
				}
				if isTTL(cf.X) && ((cf.Op == token.GTR && !cf.Want) || (cf.Op == token.LEQ && cf.Want) || (cf.Op == token.LSS && cf.Want)) {
					good = true
				}
			}
			if !good {
				bad = true
				res.bad("C17-R2", construct, p.pos(pc.Pos()), "a compaction mark is consumed without having been found older than the TTL: the timeout revision can cover events younger than the TTL")
			}
		}
		if !bad && n > 0 {
			res.ok("C17-R2", construct, p.pos(g.Pos()), fmt.Sprintf("%d pop site(s), each dominated by age >= TTL", n))
		} else if n == 0 {
			res.und("C17-R2", construct, p.pos(g.Pos()), "no pop of the compaction-mark queue found")
		}
		// the revision handed back is that of a mark whose own age was tested: every record that can flow into the
		// result is the very value whose time was handed to time.Since (or the fresh empty record) - not the next
		// head, and not whatever pop() removed
		{
			c2 := funcName(g) + ": the timeout revision is that of a mark whose age was tested"
			aged := map[ssa.Value]bool{}
			for _, c := range regionCalls {
				sc := c.Common().StaticCallee()
				if sc == nil || sc.Pkg == nil || sc.Pkg.Pkg.Path() != "time" || sc.Name() != "Since" {
					continue
				}
				if ld, ok := resolve(c.Common().Args[0]).(*ssa.UnOp); ok && ld.Op == token.MUL {
					if fa, ok := ld.X.(*ssa.FieldAddr); ok {
						aged[resolve(fa.X)] = true
					}
				}
			}
			badRec := ""
			nRec := 0
			for _, b := range g.Blocks {
				ret, ok := b.Instrs[len(b.Instrs)-1].(*ssa.Return)
				if !ok || len(ret.Results) != 1 {
					continue
				}
				ld, ok := resolve(ret.Results[0]).(*ssa.UnOp)
				if !ok || ld.Op != token.MUL {
					continue
				}
				fa, ok := ld.X.(*ssa.FieldAddr)
				if !ok {
					continue
				}
				var walk func(v ssa.Value, d int, seen map[ssa.Value]bool)
				walk = func(v ssa.Value, d int, seen map[ssa.Value]bool) {
					v = resolve(v)
					if seen[v] || d > 6 {
						return
					}
					seen[v] = true
					if ph, ok := v.(*ssa.Phi); ok && !aged[v] {
						for _, e := range ph.Edges {
							walk(e, d+1, seen)
						}
						return
					}
					// the record handed back by a helper of the region: whatever that helper returns
					if hc, ok := v.(*ssa.Call); ok && !aged[v] {
						if h := hc.Common().StaticCallee(); h != nil && inRegion[h] && h.Signature.Results().Len() == 1 {
							for _, hb := range h.Blocks {
								if hr, ok := hb.Instrs[len(hb.Instrs)-1].(*ssa.Return); ok {
									walk(hr.Results[0], d+1, seen)
								}
							}
							return
						}
					}
					nRec++
					if _, fresh := v.(*ssa.Alloc); fresh || aged[v] {
						return
					}
					badRec = p.pos(ret.Pos())
				}
				walk(fa.X, 0, map[ssa.Value]bool{})
			}
			switch {
			case nRec == 0:
				// the revision is not read from a record (constant, other shape): nothing to judge here
			case badRec != "":
				res.bad("C17-R2", c2, badRec, "the record whose revision is returned is not the one whose age was compared with the TTL (the next head of the queue, or whatever was popped): with compactions arriving in between, or simply one iteration too far, the timeout revision is that of a mark younger than the TTL and events younger than the TTL are removed")
			default:
				res.ok("C17-R2", c2, p.pos(g.Pos()), "the returned revision belongs to the record handed to time.Since (or to the empty record)")
			}
		}
	}

	// ---- R3 ----
	var revParam *ssa.Parameter
	for _, prm := range expiry.Params {
		if b, ok := prm.Type().Underlying().(*types.Basic); ok && b.Kind() == types.Uint64 {
			revParam = prm
		}
	}
	for i, d := range dels {
		construct := fmt.Sprintf("%s: delete primitive of expiry delete #%d", funcName(expiry), i+1)
		isIndex, known := false, false
		for _, cf := range d.ch.facts() {
			if cf.X != nil && revParam != nil && d.ch.same(cf.X, cf.level, revParam, 0) && isZeroConst(cf.Y) {
				known = true
				isIndex = (cf.Op == token.EQL && cf.Want) || (cf.Op == token.NEQ && !cf.Want)
			}
		}
		switch {
		case !known && d.kind == "Del":
			res.bad("C17-R3", construct, p.pos(d.call.Pos()), "an unconditional delete is issued for a record that may be the index record (no revision == 0 discrimination): an Event updated since the scan's snapshot loses its index while its new version stays")
		case !known:
			res.ok("C17-R3", construct, p.pos(d.call.Pos()), "compare-and-delete (safe for either record kind)")
		case isIndex && d.kind != "DelCurrent":
			res.bad("C17-R3", construct, p.pos(d.call.Pos()), "the index record of an expired event is removed unconditionally instead of by compare-and-delete")
		case isIndex:
			res.ok("C17-R3", construct, p.pos(d.call.Pos()), "index record: compare-and-delete")
		default:
			res.ok("C17-R3", construct, p.pos(d.call.Pos()), "version record: "+d.kind)
		}
	}

	// ---- R4 ----
	w := p.watchRoles()
	hit := ""
	for _, f := range p.AllFuncs {
		if f.Pkg != p.ssaPkg("pkg/backend/scanner") {
			continue
		}
		// transitively: through helpers, interface implementations, function values (struct fields, package variables)
		seen := map[*ssa.Function]bool{}
		var walk func(g *ssa.Function, path string, d int)
		walk = func(g *ssa.Function, path string, d int) {
			if seen[g] || d > 5 || hit != "" || g.Blocks == nil {
				return
			}
			seen[g] = true
			for _, c := range callsIn(g) {
				for _, callee := range p.calleesOf(c) {
					cu := unwrapSynthetic(callee)
					if r.inSinkChain(cu) || cu == w.fanout || cu == w.hubLoop || cu == w.register || cu == w.cacheAdd {
						hit = path + " -> " + funcName(cu)
						return
					}
					if cu.Pkg != nil && strings.HasPrefix(cu.Pkg.Pkg.Path(), modPath) && !strings.Contains(cu.Pkg.Pkg.Path(), "/pkg/storage") && !strings.Contains(cu.Pkg.Pkg.Path(), "/pkg/metrics") {
						walk(cu, path+" -> "+funcName(cu), d+1)
					}
				}
			}
		}
		walk(f, funcName(f), 0)
	}
	if hit == "" {
		res.ok("C17-R4", "scanner package: no call into the event pipeline", "-", "no function of pkg/backend/scanner calls the event sink, the hub or the event cache")
	} else {
		res.bad("C17-R4", "scanner package: no call into the event pipeline", "-", "expiry / compaction produces watch events: "+hit)
	}

	// ---- R5 ----
	{
		construct := funcName(expiry) + ": disabled on engines with native TTL"
		// every delete must be dominated by SupportTTL() == false
		good := true
		for _, d := range dels {
			g := false
			for _, cf := range d.ch.facts() {
				if cf.Call != nil && cf.Call.Common().IsInvoke() && cf.Call.Common().Method == r.KVSupportTTL && !cf.Want {
					g = true
				}
			}
			if !g {
				good = false
			}
		}
		if good && len(dels) > 0 {
			res.ok("C17-R5", construct, p.pos(expiry.Pos()), "all expiry deletes are dominated by SupportTTL() == false")
		} else {
			res.bad("C17-R5", construct, p.pos(expiry.Pos()), "scan-based expiry also runs on engines that expire keys themselves")
		}
		// create: non-TTL branch passes through Creator.Create or TTL const 0
		n := 0
		for _, f := range p.AllFuncs {
			for _, c := range callsIn(f) {
				if p.isCallToMethod(c, createTTL) && c.Common().IsInvoke() && f.Pkg == p.ssaPkg("pkg/backend") {
					n++
				}
			}
		}
		if n == 1 {
			res.ok("C17-R5", "backend: a TTL is handed to the creator at exactly one (classified) site", "-", "one CreateWithTTL call site in pkg/backend")
		} else {
			res.bad("C17-R5", "backend: a TTL is handed to the creator at exactly one (classified) site", "-", fmt.Sprintf("%d CreateWithTTL call sites", n))
		}
	}
	// every TTL operand handed to an engine batch is the constant 0 or comes (through parameters) from the TTL argument
	// of a CreateWithTTL call in pkg/backend, i.e. from the classified site
	{
		p.buildCallers()
		var roots func(v ssa.Value, d int, seen map[ssa.Value]bool) []ssa.Value
		roots = func(v ssa.Value, d int, seen map[ssa.Value]bool) []ssa.Value {
			v = p.resolveDeep(v)
			if seen[v] || d > 8 {
				return nil
			}
			seen[v] = true
			switch x := v.(type) {
			case *ssa.Parameter:
				var out []ssa.Value
				fn := x.Parent()
				idx := sigParamIndex(x)
				n := 0
				for _, cs := range p.callers[fn] {
					if idx < 0 {
						continue
					}
					a := argForSigParam(cs, idx)
					if a == nil {
						continue
					}
					n++
					out = append(out, roots(a, d+1, seen)...)
				}
				if n == 0 {
					return []ssa.Value{v}
				}
				return out
			case *ssa.Phi:
				var out []ssa.Value
				for _, e := range x.Edges {
					out = append(out, roots(e, d+1, seen)...)
				}
				return out
			case *ssa.Convert:
				return roots(x.X, d+1, seen)
			case *ssa.UnOp, *ssa.Field:
				// a field of a request struct of the repository: whatever is stored into that field anywhere
				var fv *types.Var
				if u, ok := x.(*ssa.UnOp); ok && u.Op == token.MUL {
					if fa, ok := u.X.(*ssa.FieldAddr); ok {
						fv = fieldOf(fa)
					}
				}
				if fx, ok := x.(*ssa.Field); ok {
					fv = fieldOfField(fx)
				}
				if fv != nil && fv.Pkg() != nil && strings.HasPrefix(fv.Pkg().Path(), modPath) && len(p.fields().stores[fv]) > 0 {
					var out []ssa.Value
					for _, st := range p.fields().stores[fv] {
						out = append(out, roots(st.Val, d+1, seen)...)
					}
					return out
				}
			}
			return []ssa.Value{v}
		}
		classified := map[ssa.Value]bool{}
		for _, f := range p.AllFuncs {
			if f.Pkg != p.ssaPkg("pkg/backend") {
				continue
			}
			for _, c := range callsIn(f) {
				if p.isCallToMethod(c, createTTL) && c.Common().IsInvoke() {
					for _, rv := range roots(argForSigParam(c, 4), 0, map[ssa.Value]bool{}) {
						classified[rv] = true
					}
				}
			}
		}
		nOps := 0
		for _, b := range p.batches() {
			if strings.Contains(funcName(b.Fn), "pkg/storage/") {
				continue
			}
			for _, op := range b.Ops {
				if op.TTL == nil {
					continue
				}
				nOps++
				construct := fmt.Sprintf("%s: TTL operand of %s #%d", b.name(), op.Kind, nOps)
				bad := ""
				for _, rv := range roots(op.TTL, 0, map[ssa.Value]bool{}) {
					if isZeroConst(rv) || classified[rv] {
						continue
					}
					bad = rv.String()
				}
				if bad == "" {
					res.ok("C17-R5", construct, p.pos(op.Call.Pos()), "constant 0 or the TTL of the classified create")
				} else {
					res.bad("C17-R5", construct, p.pos(op.Call.Pos()), "a TTL that does not come from the classified Event create reaches the engine ("+bad+"): keys that are not Events expire on engines with native TTL")
				}
			}
		}
	}
	// ---- R9: index record and version expire together ----
	for _, vb := range p.versionedBatches() {
		if vb.cond == nil || vb.cond.TTL == nil || vb.put.TTL == nil {
			continue
		}
		construct := vb.b.name() + ctxName(p, vb.ctx) + ": index record and version record are written with the same TTL"
		a, b := p.ctxValue(vb.cond.TTL, vb.ctx), p.ctxValue(vb.put.TTL, vb.ctx)
		ka, oka := constInt(resolve(a))
		kb, okb := constInt(resolve(b))
		if sameVal(a, b) || (oka && okb && ka == kb) {
			res.ok("C17-R9", construct, p.pos(vb.put.Call.Pos()), "one TTL value for both operations of the batch")
		} else {
			res.bad("C17-R9", construct, p.pos(vb.put.Call.Pos()), "the index record and the version record of one write get different TTLs: on an engine with native TTL one of them outlives the other - an expired Event still reads as present (version without index: a create then succeeds over a key that reads as present) or a present one can no longer be updated")
		}
	}

	checkCompactMarksImmutable(p, res, "C17-R10")
	checkAgeNotRounded(p, res, "C17-R11")
	checkFailedDeleteMarkerKept(p, res, "C17-R12")
	// ---- R6: the failed-delete discipline on the expiry chains (C07-R4) ----
	if !c17NoImports {
		sub7 := p.subResult("C07", tier)
		for _, o := range sub7.Obls {
			if o.Rule == "C07-R4" {
				res.add("C17-R6", o.Rule+" "+o.Construct, o.Status, o.Pos, o.Detail)
			}
		}
	}

	// ---- R7: adapters' compare-and-delete (C11-R1) ----
	if !c17NoImports {
		sub11 := p.subResult("C11", tier)
		for _, o := range sub11.Obls {
			if o.Rule == "C11-R1" && strings.Contains(o.Construct, "DelCurrent") {
				res.add("C17-R7", o.Rule+" "+o.Construct, o.Status, o.Pos, o.Detail)
			}
			// .. and the metrics wrapper hands the compare-and-delete on as one (C11-R5)
			if o.Rule == "C11-R5" && strings.HasSuffix(o.Construct, ".DelCurrent") {
				res.add("C17-R7", o.Rule+" "+o.Construct, o.Status, o.Pos, o.Detail)
			}
			if o.Rule == "C11-R10" || o.Rule == "C11-R15" {
				res.add("C17-R8", o.Rule+" "+o.Construct, o.Status, o.Pos, o.Detail)
			}
		}
	}
	// .. and each record of a batch is expired by a timer that sees that record: the timer's function does not refer
	// to a variable the commit loop overwrites (C19-R10)
	{
		sub := newResult("C19")
		checkLoopVarCapture(p, sub, "C19-R10")
		for _, o := range sub.Obls {
			res.add("C17-R8", o.Rule+" "+o.Construct, o.Status, o.Pos, o.Detail)
		}
	}

}

func isListPop(f *ssa.Function) bool { return false }

// allCellValues: every value that may be stored in the cell(s) v is loaded from (local cells, captured cells), or v.
func allCellValues(p *Prog, v ssa.Value) []ssa.Value { return allCellValuesOpt(p, v, true) }

// allCellValuesOpt: with followFields=false a load of a struct field is returned as it is (the caller resolves the
// object it is read from).
func allCellValuesOpt(p *Prog, v ssa.Value, followFields bool) []ssa.Value {
	var out []ssa.Value
	seen := map[ssa.Value]bool{}
	var rec func(v ssa.Value, d int)
	rec = func(v ssa.Value, d int) {
		v = strip(v)
		if seen[v] || d > 12 {
			return
		}
		seen[v] = true
		if u, ok := v.(*ssa.UnOp); ok && u.Op == token.MUL {
			var cell *ssa.Alloc
			switch x := u.X.(type) {
			case *ssa.Alloc:
				cell = x
			case *ssa.FreeVar:
				if bs := p.freeVarBindings(x); len(bs) == 1 {
					cell, _ = bs[0].(*ssa.Alloc)
				}
			}
			if cell != nil {
				for _, st := range storesIntoCell(cell, 0) {
					rec(st.Val, d+1)
				}
				// a struct variable that is (also) filled field by field: the load itself stands for that value
				for _, ref := range *cell.Referrers() {
					if fa, ok := ref.(*ssa.FieldAddr); ok {
						for _, r2 := range *fa.Referrers() {
							if st, ok := r2.(*ssa.Store); ok && st.Addr == ssa.Value(fa) {
								out = append(out, v)
								return
							}
						}
					}
				}
				return
			}
		}
		if ph, ok := v.(*ssa.Phi); ok {
			for _, e := range ph.Edges {
				rec(e, d+1)
			}
			return
		}
		// copied out of a field of another struct (a parameter object, a task descriptor): field-based flow, every
		// value stored into that field anywhere. Fields left at their zero value by a literal are not reported; the
		// rules using this treat zero as the harmless value.
		var fromField *types.Var
		if u, ok := v.(*ssa.UnOp); ok && u.Op == token.MUL {
			if fa, ok := u.X.(*ssa.FieldAddr); ok {
				fromField = fieldOf(fa)
			}
		}
		if fx, ok := v.(*ssa.Field); ok {
			fromField = fieldOfField(fx)
		}
		if followFields && fromField != nil && fromField.Pkg() != nil && strings.HasPrefix(fromField.Pkg().Path(), modPath) {
			if sts := p.fields().stores[fromField]; len(sts) > 0 {
				for _, st := range sts {
					rec(st.Val, d+1)
				}
				return
			}
		}
		out = append(out, v)
	}
	rec(v, 0)
	return out
}

// reachesStorageDelete: f (within depth) invokes KvStorage.Del / DelCurrent; returns which.
func reachesStorageDelete(p *Prog, r *Roles, f *ssa.Function, depth int) string {
	if f == nil || f.Blocks == nil {
		return ""
	}
	for _, c := range callsIn(f) {
		if c.Common().IsInvoke() {
			switch c.Common().Method {
			case r.KVDel:
				return "Del"
			case r.KVDelCurrent:
				return "DelCurrent"
			}
		}
	}
	if depth == 0 {
		return ""
	}
	for _, c := range callsIn(f) {
		if sc := c.Common().StaticCallee(); sc != nil && sc.Pkg == f.Pkg {
			if k := reachesStorageDelete(p, r, sc, depth-1); k != "" {
				return k
			}
		}
	}
	return ""
}

// endsWithSlash: the byte/string value provably ends with '/'.
func endsWithSlash(p *Prog, v ssa.Value, depth int) bool {
	if depth > 6 {
		return false
	}
	v = resolve(v)
	switch x := v.(type) {
	case *ssa.Const:
		s, ok := constString(x)
		return ok && strings.HasSuffix(s, "/")
	case *ssa.Convert:
		return endsWithSlash(p, x.X, depth+1)
	case *ssa.BinOp:
		if x.Op == token.ADD {
			return endsWithSlash(p, x.Y, depth+1)
		}
	case *ssa.Call:
		if bi, ok := x.Common().Value.(*ssa.Builtin); ok && bi.Name() == "append" {
			return endsWithSlash(p, x.Common().Args[1], depth+1)
		}
	case *ssa.Slice:
		return endsWithSlash(p, x.X, depth+1)
	case *ssa.UnOp:
		if g := globalLoad(x); g != nil {
			// package variable: every store (initialiser) must end with '/', and nobody else writes it
			n, good := 0, true
			for _, f := range p.allFuncsWithInit() {
				for _, b := range f.Blocks {
					for _, ins := range b.Instrs {
						if st, ok := ins.(*ssa.Store); ok && st.Addr == ssa.Value(g) {
							n++
							if !endsWithSlash(p, st.Val, depth+1) {
								good = false
							}
						}
					}
				}
			}
			return n > 0 && good
		}
	}
	return false
}

// storesIntoCell: the stores into a local cell, those made by closures that capture it included.
func storesIntoCell(cell ssa.Value, depth int) []*ssa.Store {
	var out []*ssa.Store
	if depth > 4 || cell.Referrers() == nil {
		return nil
	}
	for _, ref := range *cell.Referrers() {
		switch x := ref.(type) {
		case *ssa.Store:
			if x.Addr == cell {
				out = append(out, x)
			}
		case *ssa.MakeClosure:
			fn := x.Fn.(*ssa.Function)
			for i, b := range x.Bindings {
				if b == cell {
					out = append(out, storesIntoCell(fn.FreeVars[i], depth+1)...)
				}
			}
		}
	}
	return out
}

// checkCompactMarksImmutable (C17-R10): on engines without native TTL "older than the TTL" is decided from the marks
// the scanner logs at every compaction - pairs (revision, time it was logged). The pair is the evidence: a mark's
// revision and time are written where the mark is made and nowhere else (a mark whose revision is moved forward keeps
// its old time, and everything up to the new revision counts as expired although it may be seconds old).
func checkCompactMarksImmutable(p *Prog, res *Result, rule string) {
	sp := p.ssaPkg("pkg/backend/scanner")
	// the mark type: a struct of the scanner package with a time.Time field and an unsigned integer field
	var marks []*types.Named
	for _, name := range sp.Pkg.Scope().Names() {
		tn, ok := sp.Pkg.Scope().Lookup(name).(*types.TypeName)
		if !ok {
			continue
		}
		n, ok := tn.Type().(*types.Named)
		if !ok {
			continue
		}
		st, ok := n.Underlying().(*types.Struct)
		if !ok || st.NumFields() != 2 {
			continue
		}
		hasTime, hasRev := false, false
		for i := 0; i < st.NumFields(); i++ {
			if isNamed(st.Field(i).Type(), "time", "Time") {
				hasTime = true
			}
			if bt, ok := st.Field(i).Type().Underlying().(*types.Basic); ok && bt.Kind() == types.Uint64 {
				hasRev = true
			}
		}
		if hasTime && hasRev {
			marks = append(marks, n)
		}
	}
	if len(marks) == 0 {
		res.und(rule, "compaction marks", "-", "no (revision, time) pair type in the scanner package")
		return
	}
	// .. and a mark, once logged, is not exchanged for another: nothing in the package stores into the Value of an
	// element of a container/list (a mark that is replaced by a later one for the same revision takes over its place
	// with the later time - on an idle store the single mark never ages past the TTL and nothing ever expires)
	{
		var bad ssa.Instruction
		for _, f := range p.AllFuncs {
			if f.Pkg != sp || f.Blocks == nil {
				continue
			}
			for _, b := range f.Blocks {
				for _, ins := range b.Instrs {
					st, ok := ins.(*ssa.Store)
					if !ok {
						continue
					}
					fa, ok := st.Addr.(*ssa.FieldAddr)
					if !ok || fieldOf(fa).Name() != "Value" {
						continue
					}
					if pt, ok := fa.X.Type().Underlying().(*types.Pointer); ok && isNamed(pt.Elem(), "container/list", "Element") {
						bad = st
					}
				}
			}
		}
		construct := "scanner: logged compaction marks are never exchanged"
		if bad != nil {
			res.bad(rule, construct, p.pos(bad.Pos()), "the Value of a list element is overwritten: a logged compaction mark is replaced by a later one, which takes its place in the queue with the later time - the mark no longer says when that revision was first compacted, and what was written before it is expired late or never")
		} else {
			res.ok(rule, construct, "-", "marks are only appended and removed")
		}
	}
	for _, n := range marks {
		st := n.Underlying().(*types.Struct)
		k := 0
		var bad ssa.Instruction
		for i := 0; i < st.NumFields(); i++ {
			for _, s := range p.fields().stores[st.Field(i)] {
				k++
				fa, ok := s.Addr.(*ssa.FieldAddr)
				if !ok || !isFreshObject(fa.X) {
					bad = s
				}
			}
		}
		construct := fmt.Sprintf("%s.%s: revision and time are written at construction only", sp.Pkg.Name(), n.Obj().Name())
		if bad != nil {
			res.bad(rule, construct, p.pos(bad.Pos()), "a field of an existing compaction mark is rewritten: the mark then pairs a revision with the time of another compaction, and the expiry scan takes everything up to that revision for older than the TTL - Events that are seconds old are removed")
		} else {
			res.ok(rule, construct, p.pos(n.Obj().Pos()), fmt.Sprintf("%d store(s), all into a freshly made mark", k))
		}
	}
}

// checkAgeNotRounded (C17-R11): "older than the TTL" compares the TTL with the time that has really passed since the
// mark was logged: the operand compared with the configured TTL is time.Since / Time.Sub of the mark's time itself,
// not that duration rounded or truncated (rounding to the second makes a mark count as expired up to half a second
// early, and with it every Event written just before it).
func checkAgeNotRounded(p *Prog, res *Result, rule string) {
	sp := p.ssaPkg("pkg/backend/scanner")
	n := 0
	for _, f := range p.AllFuncs {
		if f.Pkg != sp || f.Blocks == nil {
			continue
		}
		for _, b := range f.Blocks {
			for _, ins := range b.Instrs {
				bo, ok := ins.(*ssa.BinOp)
				if !ok || (bo.Op != token.LSS && bo.Op != token.LEQ && bo.Op != token.GTR && bo.Op != token.GEQ) {
					continue
				}
				if !isNamed(bo.X.Type(), "time", "Duration") || !isNamed(bo.Y.Type(), "time", "Duration") {
					continue
				}
				n++
				construct := fmt.Sprintf("%s: duration comparison #%d", funcName(f), n)
				var rounded *ssa.Call
				for _, v := range []ssa.Value{bo.X, bo.Y} {
					if c, ok := resolve(v).(*ssa.Call); ok {
						if sc := c.Common().StaticCallee(); sc != nil && sc.Pkg != nil && sc.Pkg.Pkg.Path() == "time" && (sc.Name() == "Round" || sc.Name() == "Truncate") {
							rounded = c
						}
					}
				}
				if rounded != nil {
					res.bad(rule, construct, p.pos(rounded.Pos()), "the age that is compared with the TTL is rounded (or truncated): a compaction mark counts as older than the TTL before it is, and every Event up to its revision is removed early")
				} else {
					res.ok(rule, construct, p.pos(bo.Pos()), "durations compared as measured")
				}
			}
		}
	}
	if n == 0 {
		res.und(rule, "scanner: age test", "-", "no comparison of two durations in the scanner package")
	}
}
