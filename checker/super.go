package main

import (
	"fmt"
	"go/token"

	"golang.org/x/tools/go/ssa"
)

// A frame is one activation in the inlined view of a role function: fn entered through call (an instruction of
// parent.fn). The supergraph search below walks instruction paths across static calls into fnRegion functions and
// back through their returns, so that rules over a role function keep working when its body is split into helpers.
type frame struct {
	fn     *ssa.Function
	call   ssa.CallInstruction
	parent *frame
}

func (f *frame) depth() int {
	n := 0
	for x := f; x != nil; x = x.parent {
		n++
	}
	return n
}

func (f *frame) key() string {
	s := ""
	for x := f; x != nil; x = x.parent {
		s += fmt.Sprintf("%p/", x.call)
	}
	return s
}

func (f *frame) has(fn *ssa.Function) bool {
	for x := f; x != nil; x = x.parent {
		if x.fn == fn {
			return true
		}
	}
	return false
}

func (f *frame) String() string {
	if f == nil {
		return ""
	}
	if f.parent == nil {
		return funcName(f.fn)
	}
	return f.parent.String() + " -> " + funcName(f.fn)
}

// frameOfChain builds the frame stack of a call chain (root first).
func frameOfChain(ch callChain) *frame {
	var fr *frame
	for i, fn := range ch.fns {
		var call ssa.CallInstruction
		if i > 0 {
			call = ch.calls[i-1]
		}
		fr = &frame{fn: fn, call: call, parent: fr}
	}
	return fr
}

type fnRegion struct {
	root    *ssa.Function
	descend func(*ssa.Function) bool
}

// callee returns the fnRegion function a call instruction enters (static calls and calls of closures bound in the
// frame; never go/defer), or nil.
func (rg *fnRegion) callee(ins ssa.Instruction, fr *frame) *ssa.Function {
	c, ok := ins.(*ssa.Call)
	if !ok {
		return nil
	}
	var g *ssa.Function
	if sc := c.Common().StaticCallee(); sc != nil {
		g = sc
	} else if !c.Common().IsInvoke() {
		if mc, ok := rg.origin(c.Common().Value, fr).(*ssa.MakeClosure); ok {
			g, _ = mc.Fn.(*ssa.Function)
		}
	}
	if g == nil || g.Blocks == nil || !rg.descend(g) || fr.has(g) || fr.depth() > 5 {
		return nil
	}
	return g
}

// origin traces a value of frame fr to a canonical defining value: parameters are replaced by the actual of the
// frame's call, the result of a call into the fnRegion by the value that call returns (when all its non-nil returns
// agree), cells by their unique store.
func (rg *fnRegion) origin(v ssa.Value, fr *frame) ssa.Value {
	for i := 0; i < 24 && v != nil; i++ {
		v = resolve(v)
		switch x := v.(type) {
		case *ssa.Parameter:
			if fr == nil || fr.call == nil || x.Parent() != fr.fn {
				return v
			}
			idx := paramIndex(x)
			if idx < 0 || idx >= len(fr.call.Common().Args) {
				return v
			}
			v, fr = fr.call.Common().Args[idx], fr.parent
		case *ssa.Call:
			g := rg.callee(x, fr)
			if g == nil || g.Signature.Results().Len() != 1 {
				return v
			}
			rv, ok := uniqueNonNilReturn(g, 0)
			if !ok {
				return v
			}
			v, fr = rv, &frame{fn: g, call: x, parent: fr}
		case *ssa.Extract:
			c, ok := x.Tuple.(*ssa.Call)
			if !ok {
				return v
			}
			g := rg.callee(c, fr)
			if g == nil {
				return v
			}
			rv, ok := uniqueNonNilReturn(g, x.Index)
			if !ok {
				return v
			}
			v, fr = rv, &frame{fn: g, call: c, parent: fr}
		case *ssa.UnOp:
			if x.Op != token.MUL {
				return v
			}
			if fv, ok := x.X.(*ssa.FreeVar); ok && gp != nil {
				bs := gp.freeVarBindings(fv)
				if len(bs) == 1 {
					if nv, ok := uniqueCellValue(gp, bs[0]); ok {
						// the binding lives in the frame of the function that created the closure
						for f := fr; f != nil; f = f.parent {
							if f.fn == fv.Parent().Parent() {
								fr = f
							}
						}
						v = nv
						continue
					}
				}
			}
			return v
		default:
			return v
		}
	}
	return v
}

// uniqueNonNilReturn: the single value (other than constant nil / zero) that function g returns in result idx.
func uniqueNonNilReturn(g *ssa.Function, idx int) (ssa.Value, bool) {
	var out ssa.Value
	for _, b := range g.Blocks {
		ret, ok := b.Instrs[len(b.Instrs)-1].(*ssa.Return)
		if !ok || b.Comment == "recover" || idx >= len(ret.Results) {
			continue
		}
		for _, v := range resolveAllCells(ret.Results[idx]) {
			if k, isConst := v.(*ssa.Const); isConst && (k.IsNil() || k.Value == nil) {
				continue
			}
			if out != nil && out != v {
				return nil, false
			}
			out = v
		}
	}
	return out, out != nil
}

type superOpts struct {
	stop     func(ssa.Instruction, *frame) bool
	bad      func(ssa.Instruction, *frame) bool
	skipEdge func(from *ssa.BasicBlock, succ int, fr *frame) bool
}

// search explores all instruction paths of the inlined view starting after (fr, b, idx-1). A Return of a nested
// frame continues after the call in the parent frame; a Return of the outermost frame is presented to the
// predicates like any other instruction. It returns the first bad instruction reached, with its frame and path.
func (rg *fnRegion) search(fr *frame, b *ssa.BasicBlock, idx int, o superOpts) (ssa.Instruction, *frame, string) {
	type item struct {
		fr   *frame
		b    *ssa.BasicBlock
		i    int
		path string
	}
	seen := map[string]bool{}
	work := []item{{fr, b, idx, ""}}
	first := true
	for len(work) > 0 {
		it := work[0]
		work = work[1:]
		if !first || it.i == 0 {
			k := fmt.Sprintf("%s|%p|%d", it.fr.key(), it.b, it.i)
			if seen[k] {
				continue
			}
			seen[k] = true
		}
		first = false
		cut := false
		for i := it.i; i < len(it.b.Instrs) && !cut; i++ {
			ins := it.b.Instrs[i]
			if o.stop != nil && o.stop(ins, it.fr) {
				cut = true
				break
			}
			if o.bad != nil && o.bad(ins, it.fr) {
				return ins, it.fr, it.path
			}
			if g := rg.callee(ins, it.fr); g != nil {
				nf := &frame{fn: g, call: ins.(ssa.CallInstruction), parent: it.fr}
				work = append(work, item{nf, g.Blocks[0], 0, it.path + " -> " + funcName(g)})
				cut = true
				break
			}
			if _, isRet := ins.(*ssa.Return); isRet && it.fr.parent != nil {
				// continue after the call in the parent frame
				cp := posOf(it.fr.call.(ssa.Instruction))
				work = append(work, item{it.fr.parent, cp.b, cp.i + 1, it.path + " <- " + funcName(it.fr.fn)})
				cut = true
				break
			}
		}
		if cut {
			continue
		}
		for si, s := range it.b.Succs {
			if o.skipEdge != nil && o.skipEdge(it.b, si, it.fr) {
				continue
			}
			work = append(work, item{it.fr, s, 0, it.path})
		}
	}
	return nil, nil, ""
}

// chainsIn enumerates the call chains of the fnRegion from its root to the instructions accepted by isTarget.
func (rg *fnRegion) chainsIn(p *Prog, isTarget func(ssa.Instruction) bool) []callChain {
	return enumerateChains(p, rg.root, isTarget, rg.descend, 5)
}
