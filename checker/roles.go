package main

import (
	"go/token"
	"go/types"

	"golang.org/x/tools/go/ssa"
)

// Roles are the rule slots filled from the repository itself: interface methods by type, and functions
// identified by what they do (not by their names).
type Roles struct {
	p *Prog

	// tso.TSO
	TSODeal, TSOCommit, TSOInit, TSOGetRevision *types.Func
	// storage.BatchWrite
	BWPut, BWCAS, BWPutIfNotExist, BWDel, BWDelCurrent, BWCommit *types.Func
	// storage.KvStorage
	KVBegin, KVGet, KVIter, KVDel, KVDelCurrent, KVGetTSO, KVGetPartitions, KVSupportTTL *types.Func
	// storage.Iter
	ItNext, ItKey, ItVal, ItClose *types.Func
	// coder.Coder
	EncObj, EncRev, Decode *types.Func
	// metrics.Metrics
	EmitCounter, EmitGauge, EmitHistogram *types.Func
	// backend.Backend
	BCreate, BUpdate, BDelete, BCompact, BGet, BList, BCount, BGetPartitions, BListByStream, BWatch, BGetCur, BSetCur *types.Func

	WatchEventT *types.Named // common.WatchEvent

	SeqRegion    *fnRegion       // the sequencer goroutine's function and the same-package helpers it calls
	Sink         *ssa.Function   // stores a non-nil *WatchEvent into the slot array (or hands it to the helper that does)
	SinkChain    []*ssa.Function // the sink and the helpers (constructor, slot store) it is split into
	SinkRevParam int             // signature index of the revision parameter of Sink
	SinkValidPar int
	SinkErrParam int
	Sequencer    *ssa.Function // loads slots, clears them, commits
}

func (p *Prog) roles() *Roles {
	if p.rolesCache != nil {
		return p.rolesCache
	}
	r := &Roles{p: p}
	tsoP, stP, cdP, mP, bP := "pkg/backend/tso", "pkg/storage", "pkg/backend/coder", "pkg/metrics", "pkg/backend"
	r.TSODeal = p.ifaceMethod(tsoP, "TSO", "Deal")
	r.TSOCommit = p.ifaceMethod(tsoP, "TSO", "Commit")
	r.TSOInit = p.ifaceMethod(tsoP, "TSO", "Init")
	r.TSOGetRevision = p.ifaceMethod(tsoP, "TSO", "GetRevision")
	r.BWPut = p.ifaceMethod(stP, "BatchWrite", "Put")
	r.BWCAS = p.ifaceMethod(stP, "BatchWrite", "CAS")
	r.BWPutIfNotExist = p.ifaceMethod(stP, "BatchWrite", "PutIfNotExist")
	r.BWDel = p.ifaceMethod(stP, "BatchWrite", "Del")
	r.BWDelCurrent = p.ifaceMethod(stP, "BatchWrite", "DelCurrent")
	r.BWCommit = p.ifaceMethod(stP, "BatchWrite", "Commit")
	r.KVBegin = p.ifaceMethod(stP, "KvStorage", "BeginBatchWrite")
	r.KVGet = p.ifaceMethod(stP, "KvStorage", "Get")
	r.KVIter = p.ifaceMethod(stP, "KvStorage", "Iter")
	r.KVDel = p.ifaceMethod(stP, "KvStorage", "Del")
	r.KVDelCurrent = p.ifaceMethod(stP, "KvStorage", "DelCurrent")
	r.KVGetTSO = p.ifaceMethod(stP, "KvStorage", "GetTimestampOracle")
	r.KVGetPartitions = p.ifaceMethod(stP, "KvStorage", "GetPartitions")
	r.KVSupportTTL = p.ifaceMethod(stP, "KvStorage", "SupportTTL")
	r.ItNext = p.ifaceMethod(stP, "Iter", "Next")
	r.ItKey = p.ifaceMethod(stP, "Iter", "Key")
	r.ItVal = p.ifaceMethod(stP, "Iter", "Val")
	r.ItClose = p.ifaceMethod(stP, "Iter", "Close")
	r.EncObj = p.ifaceMethod(cdP, "Coder", "EncodeObjectKey")
	r.EncRev = p.ifaceMethod(cdP, "Coder", "EncodeRevisionKey")
	r.Decode = p.ifaceMethod(cdP, "Coder", "Decode")
	r.EmitCounter = p.ifaceMethod(mP, "Metrics", "EmitCounter")
	r.EmitGauge = p.ifaceMethod(mP, "Metrics", "EmitGauge")
	r.EmitHistogram = p.ifaceMethod(mP, "Metrics", "EmitHistogram")
	r.BCreate = p.ifaceMethod(bP, "Backend", "Create")
	r.BUpdate = p.ifaceMethod(bP, "Backend", "Update")
	r.BDelete = p.ifaceMethod(bP, "Backend", "Delete")
	r.BCompact = p.ifaceMethod(bP, "Backend", "Compact")
	r.BGet = p.ifaceMethod(bP, "Backend", "Get")
	r.BList = p.ifaceMethod(bP, "Backend", "List")
	r.BCount = p.ifaceMethod(bP, "Backend", "Count")
	r.BGetPartitions = p.ifaceMethod(bP, "Backend", "GetPartitions")
	r.BListByStream = p.ifaceMethod(bP, "Backend", "ListByStream")
	r.BWatch = p.ifaceMethod(bP, "Backend", "Watch")
	r.BGetCur = p.ifaceMethod(bP, "Backend", "GetCurrentRevision")
	r.BSetCur = p.ifaceMethod(bP, "Backend", "SetCurrentRevision")
	r.WatchEventT = p.namedType("pkg/backend/common", "WatchEvent")

	// event sink / sequencer: functions calling (*sync/atomic.Value).Store with a *WatchEvent
	wePtr := types.NewPointer(r.WatchEventT)
	var sinks, seqs []*ssa.Function
	for _, f := range p.AllFuncs {
		nonNil, nilStore, load := false, false, false
		for _, c := range callsIn(f) {
			sc := c.Common().StaticCallee()
			if sc == nil || sc.Pkg == nil || sc.Pkg.Pkg.Path() != "sync/atomic" || sc.Signature.Recv() == nil {
				continue
			}
			if !isNamed(sc.Signature.Recv().Type(), "sync/atomic", "Value") {
				continue
			}
			switch sc.Name() {
			case "Store":
				arg := c.Common().Args[1]
				mi, ok := arg.(*ssa.MakeInterface)
				if !ok || !types.Identical(mi.X.Type(), wePtr) {
					continue
				}
				if isNilConst(mi.X) {
					nilStore = true
				} else {
					nonNil = true
				}
			case "Load":
				load = true
			}
		}
		if nonNil {
			sinks = append(sinks, f)
		}
		if nilStore && load {
			seqs = append(seqs, f)
		}
	}
	if len(sinks) != 1 {
		brokenf("event sink role: expected exactly one function storing a *WatchEvent into an atomic.Value, found %d", len(sinks))
	}
	// The sequencer is a goroutine: the function started by a go statement whose body - or the same-package helpers it
	// calls - loads and clears the event slots. (When the loop is one function this is that function.)
	if len(seqs) != 1 {
		brokenf("sequencer role: expected exactly one function loading and clearing *WatchEvent slots, found %d", len(seqs))
	}
	{
		slotFn := seqs[0]
		inPkg := func(g *ssa.Function) bool { return g.Pkg == slotFn.Pkg }
		var roots []*ssa.Function
		seenRoot := map[*ssa.Function]bool{}
		for _, f := range p.AllFuncs {
			for _, c := range callsIn(f) {
				g, ok := c.(*ssa.Go)
				if !ok {
					continue
				}
				sc := g.Common().StaticCallee()
				if sc == nil {
					continue
				}
				root := unwrapSynthetic(sc)
				if root.Pkg != slotFn.Pkg || seenRoot[root] {
					continue
				}
				if root == slotFn {
					seenRoot[root] = true
					roots = append(roots, root)
					continue
				}
				if len(enumerateChains(p, root, func(ins ssa.Instruction) bool {
					ci, ok := ins.(ssa.CallInstruction)
					return ok && ci.Common().StaticCallee() == slotFn
				}, inPkg, 4)) > 0 {
					seenRoot[root] = true
					roots = append(roots, root)
				}
			}
		}
		if len(roots) != 1 {
			brokenf("sequencer role: expected exactly one goroutine around the slot loop (%s), found %d", funcName(slotFn), len(roots))
		}
		seqs[0] = roots[0]
		// helpers of the sequencer: plain functions, function literals and methods of the sequencer's own receiver
		// type in its package; methods of other components (the event cache, the hub) are not part of the role
		rootRecv := roots[0].Signature.Recv()
		r.SeqRegion = &fnRegion{root: roots[0], descend: func(g *ssa.Function) bool {
			if g.Pkg != slotFn.Pkg || r.inSinkChain(g) || g.Synthetic != "" {
				return false
			}
			top := g
			for top.Parent() != nil {
				top = top.Parent()
			}
			if rv := top.Signature.Recv(); rv != nil {
				return rootRecv != nil && types.Identical(rv.Type(), rootRecv.Type())
			}
			return true
		}}
	}
	r.Sink, r.Sequencer = sinks[0], seqs[0]
	r.SinkChain = []*ssa.Function{sinks[0]}
	r.SinkRevParam, r.SinkValidPar, r.SinkErrParam = -1, -1, -1
	weFields := map[string]*types.Var{}
	for _, fname := range []string{"Revision", "Valid", "Err"} {
		weFields[fname] = p.structField("pkg/backend/common", "WatchEvent", fname)
	}
	set := func(fname string, idx int) {
		switch fname {
		case "Revision":
			r.SinkRevParam = idx
		case "Valid":
			r.SinkValidPar = idx
		case "Err":
			r.SinkErrParam = idx
		}
	}
	for fname, fv := range weFields {
		for _, st := range p.fields().stores[fv] {
			if st.Parent() != r.Sink {
				continue
			}
			if prm, ok := st.Val.(*ssa.Parameter); ok {
				set(fname, sigParamIndex(prm))
			}
		}
	}
	if r.SinkRevParam < 0 || r.SinkValidPar < 0 || r.SinkErrParam < 0 {
		// the storing function is handed the finished event: the sink is then its (only) caller, where the three
		// values are still parameters - the event being a literal there or the result of a constructor
		p.buildCallersLite()
		store := sinks[0]
		var evParam *ssa.Parameter
		for _, prm := range store.Params {
			if types.Identical(prm.Type(), wePtr) {
				evParam = prm
			}
		}
		var sites []ssa.CallInstruction
		for _, cs := range p.staticCallers[store] {
			if _, isCall := cs.(*ssa.Call); isCall {
				sites = append(sites, cs)
			}
		}
		if evParam != nil && len(sites) == 1 && !p.addressTaken(store) {
			site := sites[0]
			caller := site.Parent()
			arg := resolve(site.Common().Args[paramIndex(evParam)])
			// fieldSource: the value stored into field fv of the event, in the caller's frame
			fieldSource := func(fv *types.Var) ssa.Value {
				fromAlloc := func(al *ssa.Alloc) ssa.Value {
					for _, ref := range *al.Referrers() {
						if fa, ok := ref.(*ssa.FieldAddr); ok && fieldOf(fa) == fv {
							for _, r2 := range *fa.Referrers() {
								if st, ok := r2.(*ssa.Store); ok && st.Addr == ssa.Value(fa) {
									return st.Val
								}
							}
						}
					}
					return nil
				}
				switch x := arg.(type) {
				case *ssa.Alloc:
					return fromAlloc(x)
				case *ssa.Call:
					k := x.Common().StaticCallee()
					if k == nil || k.Blocks == nil || k.Pkg != store.Pkg {
						return nil
					}
					rv, ok := uniqueNonNilReturn(k, 0)
					if !ok {
						return nil
					}
					al, ok := resolve(rv).(*ssa.Alloc)
					if !ok {
						return nil
					}
					kp, ok := resolve(fromAlloc(al)).(*ssa.Parameter)
					if !ok || kp.Parent() != k {
						return nil
					}
					r.SinkChain = append(r.SinkChain, k)
					return x.Common().Args[paramIndex(kp)]
				}
				return nil
			}
			okAll := true
			for fname, fv := range weFields {
				src := fieldSource(fv)
				prm, ok := resolve(src).(*ssa.Parameter)
				if src == nil || !ok || prm.Parent() != caller {
					okAll = false
					continue
				}
				set(fname, sigParamIndex(prm))
			}
			if okAll {
				r.Sink = caller
				r.SinkChain = append([]*ssa.Function{caller}, r.SinkChain...)
			}
		}
	}
	if r.SinkRevParam < 0 || r.SinkValidPar < 0 || r.SinkErrParam < 0 {
		brokenf("event sink %s: cannot identify the parameters stored into WatchEvent.Revision/Valid/Err", funcName(r.Sink))
	}
	p.rolesCache = r
	return r
}

func isNamed(t types.Type, pkg, name string) bool {
	if pt, ok := t.(*types.Pointer); ok {
		t = pt.Elem()
	}
	n, ok := t.(*types.Named)
	if !ok || n.Obj().Pkg() == nil {
		return false
	}
	return n.Obj().Pkg().Path() == pkg && n.Obj().Name() == name
}

// sinkCallRev returns the revision/valid/err arguments if c is a call of the event sink (directly, through a bound
// method value, or through a func-typed field/parameter that resolves to the sink).
func (r *Roles) sinkCallArgs(c ssa.CallInstruction) (rev, valid, errv ssa.Value, ok bool) {
	cc := c.Common()
	if cc.IsInvoke() {
		return nil, nil, nil, false
	}
	isSink := false
	if sc := cc.StaticCallee(); sc != nil {
		isSink = unwrapSynthetic(sc) == r.Sink
	} else {
		fs := r.p.funcValues(cc.Value, 0)
		if len(fs) > 0 {
			isSink = true
			for _, f := range fs {
				if unwrapSynthetic(f) != r.Sink {
					isSink = false
				}
			}
		}
	}
	if !isSink {
		return nil, nil, nil, false
	}
	return argForSigParam(c, r.SinkRevParam), argForSigParam(c, r.SinkValidPar), argForSigParam(c, r.SinkErrParam), true
}

// isIfaceCall reports whether c invokes interface method m (or statically calls a repo implementation of it).
func (r *Roles) is(c ssa.CallInstruction, m *types.Func) bool { return r.p.isCallToMethod(c, m) }

// errIs reports whether call c is errors.Is(x, target) (std or pkg/errors) and returns x and target.
func errorsIsCall(v ssa.Value) (x, target ssa.Value, ok bool) {
	c, isCall := v.(*ssa.Call)
	if !isCall {
		return nil, nil, false
	}
	sc := c.Common().StaticCallee()
	if sc == nil || sc.Pkg == nil || sc.Name() != "Is" || len(c.Common().Args) != 2 {
		return nil, nil, false
	}
	pp := sc.Pkg.Pkg.Path()
	if pp != "errors" && pp != "github.com/pkg/errors" {
		return nil, nil, false
	}
	return c.Common().Args[0], c.Common().Args[1], true
}

// globalLoad: if v is a load of a package-level variable, return it.
func globalLoad(v ssa.Value) *ssa.Global {
	v = strip(v)
	if u, ok := v.(*ssa.UnOp); ok && u.Op == token.MUL {
		if g, ok := u.X.(*ssa.Global); ok {
			return g
		}
	}
	return nil
}

func (p *Prog) global(pkgPath, name string) *ssa.Global {
	sp := p.ssaPkg(pkgPath)
	g, ok := sp.Members[name].(*ssa.Global)
	if !ok {
		brokenf("package variable %s.%s not found", pkgPath, name)
	}
	return g
}

func (r *Roles) inSinkChain(f *ssa.Function) bool {
	for _, g := range r.SinkChain {
		if g == f {
			return true
		}
	}
	return false
}
