package main

import (
	"flag"
	"fmt"
	"os"
	"sort"
	"strconv"
	"strings"
	"time"
)

type propCheck struct {
	id  string
	run func(p *Prog, r *Result, tier string)
}

var registry = map[string]func(p *Prog, r *Result, tier string){}

func register(id string, f func(p *Prog, r *Result, tier string)) { registry[id] = f }

func main() {
	prop := flag.String("prop", "", "property id (C01..C20) or 'all'")
	tier := flag.String("tier", "quick", "quick|thorough")
	repo := flag.String("repo", "/repo", "repository root")
	verif := flag.String("verif", "/verif", "verification directory (evidence, known findings)")
	noMutants := flag.Bool("no-mutants", false, "thorough tier: skip the mutant replay")
	dump := flag.String("dump", "", "debug: dump SSA of function whose name contains this string")
	flag.Parse()
	if t := os.Getenv("VERIF_TIER"); t != "" && *tier == "" {
		*tier = t
	}
	seed := 0
	if s := os.Getenv("VERIF_SEED"); s != "" {
		seed, _ = strconv.Atoi(s)
	}
	var ids []string
	if *prop == "all" {
		for id := range registry {
			ids = append(ids, id)
		}
		sort.Strings(ids)
	} else {
		for _, id := range strings.Split(*prop, ",") {
			if _, ok := registry[id]; !ok {
				fmt.Printf("BROKEN unknown property %q\n", id)
				os.Exit(2)
			}
			ids = append(ids, id)
		}
	}
	exit := 0
	start := time.Now()
	var p *Prog
	func() {
		defer func() {
			if e := recover(); e != nil {
				if be, ok := e.(brokenErr); ok {
					for _, id := range ids {
						fmt.Printf("BROKEN property=%s %s\n", id, be.msg)
					}
					os.Exit(2)
				}
				panic(e)
			}
		}()
		p = loadProg(*repo, "", *tier == "thorough")
	}()
	if *dump == "@entries" {
		for _, f := range p.requestEntries() {
			fmt.Println("entry", funcName(f))
		}
		var names []string
		for f := range p.requestReachable() {
			names = append(names, funcName(f))
		}
		sort.Strings(names)
		for _, n := range names {
			fmt.Println("reach", n)
		}
		return
	}
	if *dump != "" {
		for _, f := range p.AllFuncs {
			if strings.Contains(funcName(f), *dump) {
				f.WriteTo(os.Stdout)
			}
		}
		return
	}
	for _, id := range ids {
		st := time.Now()
		if len(ids) == 1 {
			st = start
		}
		r := newResult(id)
		code := func() (code int) {
			defer func() {
				if e := recover(); e != nil {
					if be, ok := e.(brokenErr); ok {
						fmt.Printf("BROKEN property=%s %s\n", id, be.msg)
						code = 2
						return
					}
					fmt.Printf("BROKEN property=%s checker panic: %v\n", id, e)
					code = 2
					// still print the stack for debugging
					panic(e)
				}
			}()
			registry[id](p, r, *tier)
			extra := map[string]interface{}{}
			if *tier == "thorough" && !*noMutants {
				mutantReplay(id, *repo, *verif, r, extra)
			}
			return finish(r, *tier, seed, p, *verif, st, extra)
		}()
		if code > exit {
			if code == 1 || exit == 0 {
				exit = code
			}
		}
	}
	os.Exit(exit)
}
