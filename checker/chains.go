package main

import (
	"fmt"
	"go/token"
	"go/types"

	"golang.org/x/tools/go/ssa"
)

// A callChain is one way control gets from a root function down to a target instruction: the sequence of call
// instructions (static calls, and dynamic calls of closures that were passed down the chain) followed by the target.
// Rules that need site-specific guards evaluate them per chain, so that extracting helpers (or funnelling several
// sites through one helper) neither hides a guard nor mixes the guards of different sites.
type callChain struct {
	calls  []ssa.CallInstruction // calls[i] is in function fns[i] and enters fns[i+1]
	fns    []*ssa.Function       // fns[0] = root, fns[len-1] = function containing the target
	target ssa.Instruction
}

func (c callChain) String() string {
	s := ""
	for i, f := range c.fns {
		if i > 0 {
			s += " -> "
		}
		s += funcName(f)
	}
	return s
}

// facts: the union of the local branch facts that hold at every call of the chain and at the target.
func (c callChain) facts() []chainFact {
	var out []chainFact
	for i, call := range c.calls {
		for _, f := range localFacts(call.Block()) {
			out = append(out, chainFact{f, i})
		}
	}
	for _, f := range localFacts(c.target.Block()) {
		out = append(out, chainFact{f, len(c.fns) - 1})
	}
	return out
}

type chainFact struct {
	condFact
	level int // index into fns: the frame the operands live in
}

// up resolves a value that lives in frame `level` of the chain to the outermost frame it can be traced to:
// parameters are replaced by the arguments of the chain's own call, free variables by their bindings.
func (c callChain) up(v ssa.Value, level int) ssa.Value {
	v, _ = c.upLevel(v, level)
	return v
}

// upLevel is up that also reports the frame the resulting value lives in.
func (c callChain) upLevel(v ssa.Value, level int) (ssa.Value, int) {
	for i := 0; i < 16; i++ {
		v = resolve(v)
		switch x := v.(type) {
		case *ssa.Parameter:
			if level == 0 || x.Parent() != c.fns[level] {
				return v, level
			}
			call := c.calls[level-1]
			idx := paramIndex(x)
			args := call.Common().Args
			if call.Common().StaticCallee() == nil && !call.Common().IsInvoke() {
				// dynamic call of a closure: arguments map to the closure's parameters directly
			}
			if idx >= len(args) {
				return v, level
			}
			v, level = args[idx], level-1
		case *ssa.UnOp:
			if x.Op != token.MUL {
				return v, level
			}
			fv, ok := x.X.(*ssa.FreeVar)
			if !ok || gp == nil {
				return v, level
			}
			bs := gp.freeVarBindings(fv)
			if len(bs) != 1 {
				return v, level
			}
			nv, ok := uniqueCellValue(gp, bs[0])
			if !ok {
				return v, level
			}
			// the binding lives in the closure's parent, which is the frame where the closure was created
			lv := c.levelOf(fv.Parent().Parent(), level)
			if lv < 0 {
				return nv, level
			}
			v, level = nv, lv
		case *ssa.FreeVar:
			if gp == nil {
				return v, level
			}
			bs := gp.freeVarBindings(x)
			if len(bs) != 1 {
				return v, level
			}
			lv := c.levelOf(x.Parent().Parent(), level)
			if lv < 0 {
				return bs[0], level
			}
			v, level = bs[0], lv
		default:
			return v, level
		}
	}
	return v, level
}

func (c callChain) levelOf(f *ssa.Function, below int) int {
	for i := below; i >= 0; i-- {
		if c.fns[i] == f {
			return i
		}
	}
	return -1
}

// same: two values of (possibly different) frames of the chain denote the same run-time value.
func (c callChain) same(a ssa.Value, la int, b ssa.Value, lb int) bool {
	return c.up(a, la) == c.up(b, lb)
}

// enumerateChains lists the call chains from root to every instruction accepted by isTarget, descending only into
// functions accepted by descend (typically: functions of one package), through static calls and through dynamic
// calls of function values that the chain itself passed down as closures.
func enumerateChains(p *Prog, root *ssa.Function, isTarget func(ssa.Instruction) bool, descend func(*ssa.Function) bool, maxDepth int) []callChain {
	var out []callChain
	var walk func(ch callChain, f *ssa.Function)
	walk = func(ch callChain, f *ssa.Function) {
		if len(ch.fns) > maxDepth {
			return
		}
		for _, g := range ch.fns[:len(ch.fns)-1] {
			if g == f {
				return // recursion
			}
		}
		for _, b := range f.Blocks {
			for _, ins := range b.Instrs {
				if isTarget(ins) {
					out = append(out, callChain{calls: append([]ssa.CallInstruction{}, ch.calls...), fns: append([]*ssa.Function{}, ch.fns...), target: ins})
					continue
				}
				c, ok := ins.(ssa.CallInstruction)
				if !ok {
					continue
				}
				if _, isGo := ins.(*ssa.Go); isGo {
					continue
				}
				var callees []*ssa.Function
				if sc := c.Common().StaticCallee(); sc != nil {
					callees = append(callees, sc)
				} else if !c.Common().IsInvoke() {
					// dynamic call: a parameter holding a closure passed down this chain, or a local closure
					v := ch.up(c.Common().Value, len(ch.fns)-1)
					if mc, ok := v.(*ssa.MakeClosure); ok {
						callees = append(callees, mc.Fn.(*ssa.Function))
					} else if fn, ok := v.(*ssa.Function); ok {
						callees = append(callees, fn)
					}
				}
				for _, callee := range callees {
					if callee.Blocks == nil || !descend(callee) {
						continue
					}
					nc := callChain{calls: append(append([]ssa.CallInstruction{}, ch.calls...), c), fns: append(append([]*ssa.Function{}, ch.fns...), callee)}
					walk(nc, callee)
				}
			}
		}
	}
	walk(callChain{fns: []*ssa.Function{root}}, root)
	return out
}

func (c callChain) describe(p *Prog) string {
	return fmt.Sprintf("%s @ %s", c.String(), p.pos(c.target.Pos()))
}

// structCellField: v is a load of field fld of a local struct variable. It returns the variable's cell and the field.
// A struct parameter that was spilled into a local (`*t0 = e`) is followed to the caller's argument when that
// argument is itself a load of a local struct variable of the calling frame (struct passed by value down the chain).
func (c callChain) structCellField(v ssa.Value, level int) (*ssa.Alloc, *types.Var, bool) {
	for i := 0; i < 8; i++ {
		ld, ok := strip(v).(*ssa.UnOp)
		if !ok || ld.Op != token.MUL {
			return nil, nil, false
		}
		fa, ok := ld.X.(*ssa.FieldAddr)
		if !ok {
			return nil, nil, false
		}
		cell, ok := fa.X.(*ssa.Alloc)
		if !ok {
			return nil, nil, false
		}
		if _, isStruct := cell.Type().(*types.Pointer).Elem().Underlying().(*types.Struct); !isStruct {
			return nil, nil, false
		}
		// whole-struct stores into the cell
		var whole []*ssa.Store
		for _, ref := range *cell.Referrers() {
			if st, ok := ref.(*ssa.Store); ok && st.Addr == ssa.Value(cell) {
				whole = append(whole, st)
			}
		}
		fld := fieldOf(fa)
		if len(whole) == 0 {
			return cell, fld, true
		}
		if len(whole) != 1 {
			return nil, nil, false
		}
		prm, ok := whole[0].Val.(*ssa.Parameter)
		if !ok || level == 0 || prm.Parent() != c.fns[level] {
			return nil, nil, false
		}
		args := c.calls[level-1].Common().Args
		idx := paramIndex(prm)
		if idx >= len(args) {
			return nil, nil, false
		}
		// the argument: a load of the caller's struct variable
		al, ok := strip(args[idx]).(*ssa.UnOp)
		if !ok || al.Op != token.MUL {
			return nil, nil, false
		}
		pc, ok := al.X.(*ssa.Alloc)
		if !ok {
			return nil, nil, false
		}
		nwhole := 0
		for _, ref := range *pc.Referrers() {
			if st, ok := ref.(*ssa.Store); ok && st.Addr == ssa.Value(pc) {
				nwhole++
			}
		}
		if nwhole == 0 {
			return pc, fld, true
		}
		// the caller's variable is itself a spilled parameter: continue one frame up through any load of that field
		var found ssa.Value
		for _, ref := range *pc.Referrers() {
			if pfa, ok := ref.(*ssa.FieldAddr); ok && fieldOf(pfa) == fld {
				for _, r2 := range *pfa.Referrers() {
					if u, ok := r2.(*ssa.UnOp); ok && u.Op == token.MUL {
						found = u
					}
				}
			}
		}
		if found == nil {
			return nil, nil, false
		}
		v, level = found, level-1
	}
	return nil, nil, false
}

// cellFieldStores: the values stored into field fld of a local struct variable (field stores only).
func cellFieldStores(cell *ssa.Alloc, fld *types.Var) []ssa.Value {
	var out []ssa.Value
	for _, ref := range *cell.Referrers() {
		if fa, ok := ref.(*ssa.FieldAddr); ok && fieldOf(fa) == fld {
			for _, r2 := range *fa.Referrers() {
				if st, ok := r2.(*ssa.Store); ok && st.Addr == ssa.Value(fa) {
					out = append(out, st.Val)
				}
			}
		}
	}
	return out
}
